"""pytest plugin (loaded with `-p harness.pytest_observer`, never installed into /repo): while the REPOSITORY'S OWN tests run,
every call of a maze generator and of LatticeMaze.find_shortest_path is recorded (raw arguments, raw result) so that the
executions the test-suite already produces are judged by the TLA+ oracles (GenOracle, Trace_SP) instead of by the tests' own
weak assertions.  Recording is add-only wrapping of module / class attributes at pytest_configure time; files are per process."""
import functools
import json
import os

_DIR = os.environ.get("VERIF_OBS_DIR")
_CAP = int(os.environ.get("VERIF_OBS_CAP", "6000"))
_count = {"gen": 0, "sp": 0}


def _emit(kind, rec):
    if not _DIR or _count[kind] >= _CAP:
        return
    _count[kind] += 1
    with open(os.path.join(_DIR, f"{kind}_{os.getpid()}.ndjson"), "a") as f:
        f.write(json.dumps(rec) + "\n")


def pytest_configure(config):
    if not _DIR:
        return
    os.makedirs(_DIR, exist_ok=True)
    import numpy as np

    from harness import gens, mz
    from maze_dataset.generation import generators as G
    from maze_dataset.maze.lattice_maze import LatticeMaze

    def wrap_gen(name, fn):
        @functools.wraps(fn)
        def w(*a, **k):
            out = fn(*a, **k)
            try:
                shape = a[0] if a else k.get("grid_shape")
                r, c = int(shape[0]), int(shape[1])
                kw = {kk: vv for kk, vv in k.items() if kk not in ("grid_shape", "lattice_dim")}
                if len(a) <= 1 and r * c <= 196 and all(isinstance(v, (int, float, bool, type(None), tuple, list, np.ndarray)) for v in kw.values()):
                    if "start_coord" in kw and kw["start_coord"] is not None:
                        kw["start_coord"] = tuple(int(x) for x in kw["start_coord"])
                    rec = gens.record(name, r, c, kw, out, n_ends=0)
                    rec.pop("kw", None)
                    rec["kwj"] = json.dumps({kk: (list(vv) if isinstance(vv, tuple) else vv) for kk, vv in kw.items()}, default=str)
                    rec["src"] = "repo_tests"
                    _emit("gen", rec)
            except Exception:  # noqa: BLE001 - observation must never disturb the test
                pass
            return out

        return w

    for name in list(G.GENERATORS_MAP):
        orig = G.GENERATORS_MAP[name]
        w = wrap_gen(name, orig)
        G.GENERATORS_MAP[name] = w
        setattr(G.LatticeMazeGenerators, name, staticmethod(w))

    orig_sp = LatticeMaze.find_shortest_path

    @functools.wraps(orig_sp)
    def sp(self, c_start, c_end):
        res, p = "ok", None
        try:
            p = orig_sp(self, c_start, c_end)
            return p
        except BaseException as e:  # noqa: BLE001
            res = "raise:" + type(e).__name__
            raise
        finally:
            try:
                cl = np.asarray(self.connection_list)
                if cl.ndim == 3 and cl.shape[1] * cl.shape[2] <= 196:
                    _emit("sp", dict(R=int(cl.shape[1]), C=int(cl.shape[2]), conn=cl.astype(int).tolist(), s=[int(c_start[0]), int(c_start[1])], e=[int(c_end[0]), int(c_end[1])], res=res,
                                     path=[[int(a), int(b)] for a, b in p] if p is not None else [], src="repo_tests"))
            except Exception:  # noqa: BLE001
                pass

    LatticeMaze.find_shortest_path = sp
