"""pytest plugin (loaded with `-p harness.pytest_observer`, never installed into /repo): while the REPOSITORY'S OWN tests run,
every call of a maze generator and of LatticeMaze.find_shortest_path is recorded (arguments at call time, result at return) so
that the executions the test-suite already produces are judged by the TLA+ oracles (GenOracle, Trace_SP) instead of by the
tests' own weak assertions.

Observation is by sys.settrace on the code objects of the observed functions: NO object of the package is replaced (a first
version wrapped GENERATORS_MAP entries; MazeDatasetConfig equality compares maze_ctor by identity, so wrapping made the
repository's collection tests fail - instrumentation must not be visible to the code).  Only `call` events are delivered for
other functions (f_trace_lines is switched off for the observed frames), files are per process (pool workers inherit the hook)."""
import inspect
import json
import os
import sys
import threading

_DIR = os.environ.get("VERIF_OBS_DIR")
_CAP = int(os.environ.get("VERIF_OBS_CAP", "6000"))
_count = {"gen": 0, "sp": 0, "ds": 0}
_TARGETS = {}


def _emit(kind, rec):
    if not _DIR or _count[kind] >= _CAP:
        return
    _count[kind] += 1
    with open(os.path.join(_DIR, f"{kind}_{os.getpid()}.ndjson"), "a") as f:
        f.write(json.dumps(rec) + "\n")


def pytest_configure(config):
    if not _DIR:
        return
    os.makedirs(_DIR, exist_ok=True)
    import numpy as np

    from harness import gens
    from maze_dataset.generation import generators as G
    from maze_dataset.maze.lattice_maze import LatticeMaze

    for name in list(G.GENERATORS_MAP):
        fn = G.GENERATORS_MAP[name]
        fn = getattr(fn, "__func__", fn)
        try:
            sig = inspect.signature(fn)
            _TARGETS[fn.__code__] = ("gen", name, {k: p.default for k, p in sig.parameters.items()})
        except (TypeError, ValueError, AttributeError):
            pass
    from maze_dataset.dataset.maze_dataset import MazeDataset

    gen_ds = MazeDataset.__dict__["generate"]
    _TARGETS[getattr(gen_ds, "__func__", gen_ds).__code__] = ("ds", "generate", {})
    sp_fn = LatticeMaze.find_shortest_path
    _TARGETS[getattr(sp_fn, "__func__", sp_fn).__code__] = ("sp", "find_shortest_path", {})

    def same(a, b):
        try:
            return a is b or bool(np.all(a == b))
        except Exception:  # noqa: BLE001
            return False

    def gen_call(name, defaults, L):
        shape = L.get("grid_shape")
        if shape is None or len(shape) != 2 or L.get("lattice_dim", 2) != 2:
            return None
        r, c = int(shape[0]), int(shape[1])
        if not (1 <= r and 1 <= c and r * c <= 196):
            return None
        kw = {}
        for k, dflt in defaults.items():
            if k in ("grid_shape", "lattice_dim") or k not in L:
                continue
            v = L[k]
            if dflt is not inspect.Parameter.empty and same(v, dflt):
                continue
            if not isinstance(v, (int, float, bool, type(None), tuple, list, np.ndarray, np.integer, np.floating)):
                return None
            if k == "start_coord" and v is not None:
                v = tuple(int(x) for x in v)
            elif isinstance(v, (np.integer, np.floating)):
                v = v.item()
            kw[k] = v
        return r, c, kw

    def sp_call(L):
        self, s, e = L.get("self"), L.get("c_start"), L.get("c_end")
        cl = np.asarray(self.connection_list)
        if cl.ndim != 3 or cl.shape[0] != 2 or cl.dtype != bool:
            return None
        R_, C_ = cl.shape[1], cl.shape[2]
        # the property speaks about lattice graphs and cells of the grid: other calls (tests of error paths) are not cases
        if not all(0 <= int(x[0]) < R_ and 0 <= int(x[1]) < C_ for x in (s, e)) or cl[0, -1, :].any() or cl[1, :, -1].any() or R_ * C_ > 196:
            return None
        return dict(R=int(R_), C=int(C_), conn=cl.astype(int).tolist(), s=[int(s[0]), int(s[1])], e=[int(e[0]), int(e[1])])

    def ds_call(L):
        """MazeDataset.generate(cfg, ...): the configuration as it is when the call starts (JSON-able projection)"""
        cfg = L.get("cfg")
        g, n = int(cfg.grid_n), int(cfg.n_mazes)
        if g > 10 or n > 60:
            return None
        ek = {}
        for k, v in dict(cfg.endpoint_kwargs).items():
            ek[k] = [[int(x[0]), int(x[1])] for x in v] if isinstance(v, (list, tuple)) else v
        ck = {k: (v if isinstance(v, (int, float, bool, type(None), str)) else None) for k, v in dict(cfg.maze_ctor_kwargs).items()}
        return dict(grid_n=g, n_mazes=n, ctor=str(getattr(cfg.maze_ctor, "__name__", cfg.maze_ctor)), ctor_kwargs=ck, endpoint_kwargs=ek, name=str(cfg.name), parallel=bool(L.get("gen_parallel", False)))

    def item_raw(m):
        cl = np.asarray(m.connection_list)
        sol = getattr(m, "solution", None)
        sp_, ep_ = getattr(m, "start_pos", None), getattr(m, "end_pos", None)
        return dict(shape=[int(x) for x in cl.shape], conn=cl.astype(int).tolist() if cl.ndim == 3 else [], sol=[[int(a), int(b)] for a, b in sol] if sol is not None else [],
                    start=[int(sp_[0]), int(sp_[1])] if sp_ is not None else [], end=[int(ep_[0]), int(ep_[1])] if ep_ is not None else [])

    def tracer(frame, ev, arg):
        t = _TARGETS.get(frame.f_code)
        if t is None:
            return None
        kind, name, defaults = t
        try:
            call = gen_call(name, defaults, frame.f_locals) if kind == "gen" else ds_call(frame.f_locals) if kind == "ds" else sp_call(frame.f_locals)
        except Exception:  # noqa: BLE001 - observation must never disturb the test
            call = None
        if call is None:
            return None
        st = {"exc": None}

        def local(fr, ev2, arg2):
            try:
                if ev2 == "exception":
                    st["exc"] = type(arg2[1]).__name__ if arg2 and arg2[1] is not None else getattr(arg2[0], "__name__", "Exception")
                elif ev2 == "return":
                    if kind == "gen":
                        if arg2 is not None:
                            r, c, kw = call
                            rec = gens.record(name, r, c, kw, arg2, n_ends=0)
                            rec.pop("kw", None)
                            rec["kwj"] = json.dumps({kk: (list(vv) if isinstance(vv, tuple) else vv) for kk, vv in kw.items()}, default=str)
                            rec["src"] = "repo_tests"
                            _emit("gen", rec)
                    elif kind == "ds":
                        if arg2 is not None:
                            _emit("ds", dict(cfg=call, n_got=int(len(arg2.mazes)), items=[item_raw(m) for m in arg2.mazes], src="repo_tests"))
                    else:
                        rec = dict(call)
                        if arg2 is not None:
                            rec.update(res="ok", path=[[int(a), int(b)] for a, b in arg2])
                        else:
                            rec.update(res="raise:" + (st["exc"] or "Exception"), path=[])
                        rec["src"] = "repo_tests"
                        _emit("sp", rec)
            except Exception:  # noqa: BLE001
                pass
            return local

        frame.f_trace_lines = False
        return local

    sys.settrace(tracer)
    threading.settrace(tracer)
