"""Child process of the C04 driver: executes spec-generated HISTORIES (RngHistory actions) against the real
library in a genuine main process and records, after every action, which fresh seed (if any) each global RNG
stream is at, and for generate / from_config actions the per-maze digests of the returned dataset and the
serialized argument config before/after.  Also computes REFERENCE digests (mode "ref").
usage: python -m harness.rng_child <jobs.json> <out.ndjson>"""
import hashlib
import json
import random
import sys
import warnings

warnings.filterwarnings("ignore")
import numpy as np
import torch

from maze_dataset.dataset.maze_dataset import MazeDataset, MazeDatasetConfig
from maze_dataset.generation.generators import GENERATORS_MAP

NONE = 99


def make_cfg(c, with_filters=True):
    ek = {k: ([tuple(x) for x in v] if isinstance(v, list) else v) for k, v in c.get("endpoint_kwargs", {}).items()}
    kw = dict(name=c["name"], grid_n=c["grid_n"], n_mazes=c["n_mazes"], maze_ctor=GENERATORS_MAP[c["ctor"]], maze_ctor_kwargs=dict(c.get("ctor_kwargs", {})), seed=c["seed"], endpoint_kwargs=ek)
    if with_filters and c.get("filters"):
        kw["applied_filters"] = [dict(name=f["name"], args=tuple(f.get("args", [])), kwargs=dict(f.get("kwargs", {}))) for f in c["filters"]]
    return MazeDatasetConfig(**kw)


def digests(ds):
    out = []
    for m in ds.mazes:
        h = hashlib.sha1()
        h.update(np.asarray(m.connection_list).astype(np.uint8).tobytes())
        h.update(np.asarray(m.solution).astype(np.int64).tobytes())
        h.update(np.asarray(m.start_pos).astype(np.int64).tobytes())
        h.update(np.asarray(m.end_pos).astype(np.int64).tobytes())
        out.append(h.hexdigest()[:16])
    return out


def _state(r):
    if r == "py":
        return hashlib.sha1(repr(random.getstate()).encode()).hexdigest()
    if r == "np":
        st = np.random.get_state()
        return hashlib.sha1(st[1].tobytes() + repr(st[2:]).encode()).hexdigest()
    return hashlib.sha1(torch.get_rng_state().numpy().tobytes()).hexdigest()


def fresh_table(seeds):
    tab = {"py": {}, "np": {}, "torch": {}}
    for s in seeds:
        random.seed(s)
        np.random.seed(s)
        torch.manual_seed(s)
        for r in tab:
            tab[r][_state(r)] = s
    return tab


def obs(tab):
    return {r: tab[r].get(_state(r), NONE) for r in ("py", "np", "torch")}


def reference(c):
    """digests of generate(cfg without filters) and of generate + filters applied by hand in order"""
    try:
        ds = MazeDataset.generate(make_cfg(c, with_filters=False), verbose=False)
    except Exception as e:  # noqa: BLE001 - a configuration for which generation raises is outside C04's quantifier
        return dict(gen=["raise", type(e).__name__], filtered=["raise", type(e).__name__])
    gen = digests(ds)
    out = ds
    for f in c.get("filters", []):
        out = getattr(out.filter_by, f["name"])(*f.get("args", []), **f.get("kwargs", {}))
    return dict(gen=gen, filtered=digests(out))


def run_history(job, tab):
    cfgs = job["cfgs"]
    evs = []
    # the configuration objects exist BEFORE the history happens (constructing one reseeds the global RNGs, so
    # building them right before the call would erase the history the property quantifies over)
    objs = {(c, wf): make_cfg(cfgs[c], with_filters=wf) for c in cfgs for wf in (False, True)}
    for act in job["actions"]:
        a, r, s, c = act["a"], act["r"], act["s"], act["c"]
        e = dict(a=a, r=r, s=s, c=c, res="ok", dig=[], before="", after="")
        try:
            if a == "Draw":
                if r == "py":
                    random.random()
                elif r == "np":
                    np.random.rand()
                else:
                    torch.rand(1)
            elif a == "UserSeed":
                if r == "py":
                    random.seed(s)
                elif r == "np":
                    np.random.seed(s)
                else:
                    torch.manual_seed(s)
            elif a == "NewConfig":
                MazeDatasetConfig(name="other", grid_n=3, n_mazes=2, seed=s)
            elif a in ("Generate", "FromConfig"):
                cfg = objs[(c, a == "FromConfig")]
                e["before"] = json.dumps(cfg.serialize(), sort_keys=True, default=str)
                if a == "Generate":
                    ds = MazeDataset.generate(cfg, verbose=False)
                else:
                    ds = MazeDataset.from_config(cfg, load_local=False, save_local=False, do_download=False)
                e["after"] = json.dumps(cfg.serialize(), sort_keys=True, default=str)
                e["dig"] = digests(ds)
                e["out_filters"] = [f["name"] for f in ds.cfg.applied_filters]
        except BaseException as ex:  # noqa: BLE001
            if isinstance(ex, (KeyboardInterrupt, SystemExit)):
                raise
            e["res"] = "raise:" + type(ex).__name__
            e["msg"] = str(ex)[:200]
        e.update(obs(tab))
        # the serialized configs are compared as digests (TLC compares short strings)
        e["before"] = hashlib.sha1(e["before"].encode()).hexdigest()[:16] if e["before"] else ""
        e["after"] = hashlib.sha1(e["after"].encode()).hexdigest()[:16] if e["after"] else ""
        evs.append(e)
    return dict(hid=job["hid"], events=evs)


def main(jobs_path, out_path):
    jobs = json.load(open(jobs_path))
    tab = None
    with open(out_path, "w") as f:
        for job in jobs:
            if job["mode"] == "ref":
                f.write(json.dumps(dict(hid=job["hid"], ref=reference(job["cfg"]))) + "\n")
            else:
                if tab is None:
                    tab = fresh_table(job.get("seeds", [1, 2]))
                f.write(json.dumps(run_history(job, tab)) + "\n")
            f.flush()


if __name__ == "__main__":
    main(sys.argv[1], sys.argv[2])
