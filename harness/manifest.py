"""writes /verif/MANIFEST.json from the table below (single source of truth for the interface)"""
import json
from pathlib import Path

VERIF = Path(__file__).resolve().parent.parent

CHECKS = json.loads((VERIF / "harness" / "manifest_entries.json").read_text())

NOT_YET = {}


def build():
    props = [json.loads(l) for l in open(VERIF / "properties.jsonl")]
    checks = []
    na = []
    for p in props:
        pid = p["id"]
        if pid in CHECKS:
            c = CHECKS[pid]
            checks.append(
                dict(
                    property_id=pid,
                    quick_cmd=f"bin/check {pid} quick",
                    thorough_cmd=f"bin/check {pid} thorough",
                    evidence_file=f"evidence/{pid}.json",
                    replay_cmd_template=f"bin/check {pid} --replay {{path}}",
                    engine="tlc-trace",
                    level_claimed=dict(category=c["category"], text=c["text"], design_ref=c["design_ref"]),
                    level_note=c["note"],
                    technique=c["technique"],
                )
            )
        else:
            na.append(dict(property_id=pid, reason=NOT_YET.get(pid, "check not built yet (build in progress); the TLA+ technique applies, see DESIGN.md §3")))
    m = dict(
        version=1,
        setup_cmd="bin/setup",
        hooks=dict(
            guard="MAZE_DATASET_VERIF",
            enable="no source hooks: observation is by public API, interposition on call-time-resolved names and sys.settrace loop-head snapshots from the harness (DESIGN.md §2.3); the guard name is reserved",
            baseline_off_cmd="cd /repo && /venv/bin/python -m pytest -ra -q -p no:cacheprovider --timeout=900 --continue-on-collection-errors",
            source_commits=[],
            add_only=True,
        ),
        engines=[
            dict(
                name="tlc-trace",
                path="bin/check",
                serves_properties=sorted(CHECKS),
                kind_free_text="explicit TLA+ specifications in spec/*.tla; TLC model-checks the design specs exhaustively for small constants, and validates ndjson observations/traces recorded from the real code (/repo working tree) against Trace_*.tla specs that reuse the design actions; spec-generated behaviours are replayed into the code",
            )
        ],
        checks=checks,
        notes="See DESIGN.md. Exit 0 = held, 1 = VIOLATION (Layer P only), 2 = machinery failure. MODEL-DIVERGENCE lines are informational (Layer M).",
        not_applicable=na,
    )
    (VERIF / "MANIFEST.json").write_text(json.dumps(m, indent=1) + "\n")


if __name__ == "__main__":
    build()
