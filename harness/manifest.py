"""writes /verif/MANIFEST.json from the table below (single source of truth for the interface)"""
import json
from pathlib import Path

VERIF = Path(__file__).resolve().parent.parent

CHECKS = {
    "C02": dict(
        category="model_checking",
        text="AStar.tla (one action per solver loop iteration, every tie-break) is model-checked exhaustively over all graphs x all ordered pairs on every shape <= 3x3 (thorough: + 1x4..4x2); the real solver is run on the same exhaustive small scope and on seeded random graphs up to 15x15, every call judged by the TLA+ BFS oracle (Trace_SP), and loop-head snapshots of real executions are matched step by step to AStar!Iterate (Trace_AStar).",
        design_ref="DESIGN.md §3 C02",
        note="Trusted: TLC, CommunityModules JSON reader, CPython/numpy. Exhaustive only for the stated shapes; larger graphs sampled. Layer M (step conformance) needs sys.settrace snapshots; if unavailable only Layer P decides.",
        technique="TLA+ model checking (TLC) of the solver + trace validation of real executions against the spec",
    ),
    "C01": dict(
        category="model_checking",
        text="GenDFS.tla (one action per loop iteration of gen_dfs/gen_prim, percolation OR-step for gen_dfs_percolation), GenWilson.tla (PickStart/Step with loop erasure and commit) and GenPerc.tla are model-checked by TLC over every random choice on small grids (InGrid, spanning tree with default args, p=0/p=1 rules). The real generators are bound to them three ways: every random execution of the real code on small grids is enumerated through a scripted RNG (the code's own decision tree; Wilson: closure of its learned chain) and judged by the TLA+ clauses (GenOracle!Clauses01); seeded natural runs of all five generators on shapes 1..8 x 1..8 with random accepted kwargs are judged the same way; loop-head snapshots of real runs are matched step by step to GenDFS!Iter / GenWilson!Step (Layer M).",
        design_ref="DESIGN.md §3 C01",
        note="Trusted: TLC, CommunityModules JSON reader, CPython/numpy. Exhaustive only for the enumerated shapes (<= 4x4 default args quick, 4x5 thorough; argument matrix <= 3x2/3x3; coin arrays <= 2x2/2x3); larger grids sampled. Assumes randomness reaches the generators only through random.choice/randint and numpy.random.randint/choice/rand (checked at run time by running scripts twice).",
        technique="TLA+ model checking (TLC) of the generator state machines + exhaustive scripted-RNG execution of the real code and trace validation against the spec",
    ),
    "C12": dict(
        category="model_checking",
        text="The generator models of C01 carry the generation_meta variables; TLC checks MetaTruth, DoneCount, Corridor and TreeOnVisited in every state over the full argument matrix (accessible_cells x max_tree_depth x do_forks x randomized_stack x start, percolation coin arrays) on small grids. The same exhaustive scripted-RNG executions and seeded natural runs of the real generators as C01 are judged by GenOracle!Clauses12 on the raw returned array and raw generation_meta, and generate_random_path() draws on every observed maze must give mutually reachable endpoints.",
        design_ref="DESIGN.md §3 C12",
        note="Trusted: TLC, CommunityModules JSON reader, CPython/numpy. Exhaustive only for the enumerated small grids; float arguments are dyadic so the documented int(f*n) normalisation is exact. The clause on the requested number of accessible cells uses the harness's own normalisation of the argument, not the code's metadata.",
        technique="TLA+ model checking (TLC) of the generators' metadata invariants + exhaustive scripted-RNG execution of the real code judged by the spec's clauses",
    ),
    "C19": dict(
        category="model_checking",
        text="GenWilson.tla's complete TLC state graph (2x2, 2x3, 3x2, 3x3) is turned into an absorbing Markov chain and its absorption distribution is judged by the TLA+ definition of uniformity (Uniform!DistClauses: terminal set = all spanning trees of the lattice, each with probability exactly 1/N). The same decision is then made on the REAL code's own chain, learned without the model by scripting numpy's RNG and snapshotting gen_wilson's loop heads (every answer of every request at every discovered state: 19 226 transitions on 3x3), solved exactly with fractions (<= 2x3) or by power iteration (3x3); the learned chain is also compared with the model's chain state by state (Layer M). A real-RNG frequency experiment per grid is judged by a chi-square bound in TLA+ as an independent fallback.",
        design_ref="DESIGN.md §3 C19",
        note="Trusted: TLC, the dot/TLA+-value parser, CPython/numpy, numpy's choice(n)/randint being uniform, the loop-head snapshot being a sufficient statistic of gen_wilson's state. Exact only on the listed grids. The frequency test has a stated false-alarm probability of 1e-9 per experiment.",
        technique="TLA+ model (TLC state graph as Markov chain) + exact absorption analysis of the code's own learned chain judged by a TLA+ uniformity predicate",
    ),
}

NOT_YET = {}


def build():
    props = [json.loads(l) for l in open(VERIF / "properties.jsonl")]
    checks = []
    na = []
    for p in props:
        pid = p["id"]
        if pid in CHECKS:
            c = CHECKS[pid]
            checks.append(
                dict(
                    property_id=pid,
                    quick_cmd=f"bin/check {pid} quick",
                    thorough_cmd=f"bin/check {pid} thorough",
                    evidence_file=f"evidence/{pid}.json",
                    replay_cmd_template=f"bin/check {pid} --replay {{path}}",
                    engine="tlc-trace",
                    level_claimed=dict(category=c["category"], text=c["text"], design_ref=c["design_ref"]),
                    level_note=c["note"],
                    technique=c["technique"],
                )
            )
        else:
            na.append(dict(property_id=pid, reason=NOT_YET.get(pid, "check not built yet (build in progress); the TLA+ technique applies, see DESIGN.md §3")))
    m = dict(
        version=1,
        setup_cmd="bin/setup",
        hooks=dict(
            guard="MAZE_DATASET_VERIF",
            enable="no source hooks: observation is by public API, interposition on call-time-resolved names and sys.settrace loop-head snapshots from the harness (DESIGN.md §2.3); the guard name is reserved",
            baseline_off_cmd="cd /repo && /venv/bin/python -m pytest -ra -q -p no:cacheprovider --timeout=900 --continue-on-collection-errors",
            source_commits=[],
            add_only=True,
        ),
        engines=[
            dict(
                name="tlc-trace",
                path="bin/check",
                serves_properties=sorted(CHECKS),
                kind_free_text="explicit TLA+ specifications in spec/*.tla; TLC model-checks the design specs exhaustively for small constants, and validates ndjson observations/traces recorded from the real code (/repo working tree) against Trace_*.tla specs that reuse the design actions; spec-generated behaviours are replayed into the code",
            )
        ],
        checks=checks,
        notes="See DESIGN.md. Exit 0 = held, 1 = VIOLATION (Layer P only), 2 = machinery failure. MODEL-DIVERGENCE lines are informational (Layer M).",
        not_applicable=na,
    )
    (VERIF / "MANIFEST.json").write_text(json.dumps(m, indent=1) + "\n")


if __name__ == "__main__":
    build()
