"""dispatcher: bin/check <Cxx> [quick|thorough] [--replay path] [--selftest]"""
import importlib
import os
import sys
import traceback
import warnings

warnings.filterwarnings("ignore")


def main(argv):
    if not argv:
        print(__doc__)
        return 2
    prop = argv[0].upper()
    tier = os.environ.get("VERIF_TIER", "quick")
    replay = None
    selftest = False
    i = 1
    while i < len(argv):
        a = argv[i]
        if a in ("quick", "thorough"):
            tier = a
        elif a == "--replay":
            i += 1
            replay = argv[i]
        elif a == "--selftest":
            selftest = True
        else:
            print(f"unknown argument {a}")
            return 2
        i += 1
    if tier not in ("quick", "thorough"):
        tier = "quick"
    try:
        seed = int(os.environ.get("VERIF_SEED", "20260928"))
    except ValueError:
        seed = 20260928
    from harness import lib

    try:
        mod = importlib.import_module(f"harness.checks.{prop.lower()}")
        if replay:
            return mod.replay(replay)
        if selftest:
            if hasattr(mod, "selftest"):
                return mod.selftest(lib.Check(prop, tier, seed))
            print(f"{prop}: binding / non-vacuity self-tests run inside every check (synthetic canaries that the TLA+ oracle must reject, "
                  "controls it must accept, deliberately broken design variants TLC must reject); use bin/mutscratch for source mutants")
            return 0
        chk = lib.Check(prop, tier, seed)
        return mod.main(chk)
    except lib.MachineryError as e:
        print(f"MACHINERY-ERROR property={prop}: {e}")
        return 2
    except Exception:
        traceback.print_exc()
        print(f"MACHINERY-ERROR property={prop}: unexpected exception in the harness")
        return 2


if __name__ == "__main__":
    sys.exit(main(sys.argv[1:]))
