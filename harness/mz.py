"""maze construction / projection helpers for the observation drivers (real library objects)"""
import collections
import itertools
import warnings

warnings.filterwarnings("ignore")
import numpy as np

from maze_dataset import LatticeMaze, SolvedMaze, TargetedLatticeMaze  # noqa: E402


def interior_slots(r, c):
    return [(0, i, j) for i in range(r - 1) for j in range(c)] + [(1, i, j) for i in range(r) for j in range(c - 1)]


def conn_from_bits(r, c, bits):
    conn = np.zeros((2, r, c), dtype=bool)
    for b, s in zip(bits, interior_slots(r, c)):
        conn[s] = bool(b)
    return conn


def conn_from_int(r, c, n):
    sl = interior_slots(r, c)
    return conn_from_bits(r, c, [(n >> k) & 1 for k in range(len(sl))])


def all_conns(r, c):
    for bits in itertools.product([0, 1], repeat=len(interior_slots(r, c))):
        yield conn_from_bits(r, c, bits)


def n_graphs(r, c):
    return 2 ** len(interior_slots(r, c))


def raw(conn):
    return np.asarray(conn).astype(int).tolist()


def cells(r, c):
    return [(i, j) for i in range(r) for j in range(c)]


def nbrs(conn, a):
    r, c = conn.shape[1:]
    out = []
    for b in [(a[0] + 1, a[1]), (a[0] - 1, a[1]), (a[0], a[1] + 1), (a[0], a[1] - 1)]:
        if 0 <= b[0] < r and 0 <= b[1] < c:
            lo = min(a, b)
            d = 0 if a[0] != b[0] else 1
            if conn[d, lo[0], lo[1]]:
                out.append(b)
    return out


def bfs(conn, s):
    d = {s: 0}
    q = collections.deque([s])
    while q:
        x = q.popleft()
        for y in nbrs(conn, x):
            if y not in d:
                d[y] = d[x] + 1
                q.append(y)
    return d


def all_shortest(conn, s, t):
    """harness-side helper used only to *generate inputs* (never to judge)"""
    d = bfs(conn, s)
    if t not in d:
        return []
    res = []

    def rec(p):
        if p[-1] == t:
            res.append(list(p))
            return
        for y in nbrs(conn, p[-1]):
            if d.get(y) == d[p[-1]] + 1 and d[y] <= d[t]:
                rec(p + [y])

    rec([s])
    return res


def proj(m):
    """raw projection of a maze object (the abstraction to a graph is done in TLA+)"""
    d = dict(
        kind=type(m).__name__,
        R=int(m.connection_list.shape[1]),
        C=int(m.connection_list.shape[2]),
        conn=raw(m.connection_list),
    )
    sp = getattr(m, "start_pos", None)
    ep = getattr(m, "end_pos", None)
    sol = getattr(m, "solution", None)
    d["start"] = [int(x) for x in sp] if sp is not None else []
    d["end"] = [int(x) for x in ep] if ep is not None else []
    d["sol"] = [[int(a), int(b)] for a, b in sol] if sol is not None else []
    return d


def outcome(fn):
    """run fn(), return ('ok', value) or ('raise:<Type>', None)"""
    try:
        return "ok", fn()
    except BaseException as e:  # noqa: BLE001 - the code under test may raise anything
        if isinstance(e, (KeyboardInterrupt, SystemExit)):
            raise
        return "raise:" + type(e).__name__, None


def rand_conn(rng, r, c, p):
    conn = rng.random((2, r, c)) < p
    conn[0, -1, :] = False
    conn[1, :, -1] = False
    return conn
