"""Observation of the real maze generators (shared by C01, C12, C19).

* ScriptedRNG: replaces the RNG entry points the generators call (module attributes resolved at call
  time => no change to the repository) by a scripted source; `enumerate_executions` walks the code's
  own decision tree (every answer at every RNG call) = every random execution of the real code.
* natural / traced runs: real RNG, loop-head snapshots via harness.tracer.LoopTracer.
* records: raw returned array + raw generation_meta (abstraction is done in TLA+: GenOracle.tla).
"""
from __future__ import annotations

import random
import warnings

warnings.filterwarnings("ignore")
import numpy as np

from harness import mz
from harness.tracer import LoopTracer

from maze_dataset.generation import LatticeMazeGenerators as G  # noqa: E402
from maze_dataset.generation.generators import GENERATORS_MAP  # noqa: E402

GEN_NAMES = ["gen_dfs", "gen_prim", "gen_wilson", "gen_percolation", "gen_dfs_percolation"]


import time as _time


class StepCap(Exception):
    pass


class ScriptedRNG:
    """context manager; `answer(fn, n)` must return an int in range(n).
    Every RNG request is turned into ONE question with a finite number n of answers:
      random.choice(seq) -> n = len(seq);  random.randint(a, b) -> n = b-a+1
      np.random.randint(lo, hi[, size]) -> n = prod(hi-lo) (mixed radix);  np.random.choice(n) -> n
      np.random.choice(n, size=2, replace=False) -> n*(n-1) ordered pairs
      np.random.rand(*shape) -> 2**size coin patterns (bit=1 -> 0.0 i.e. `< p` true for p > 0; bit=0 -> 1-2^-20)
    """

    def __init__(self, answer, cap=100000, wall=120.0):
        self.answer = answer
        self.calls = []  # (fn, n, a)
        self.cap = cap
        self.desync = False
        self.deadline = _time.time() + wall  # a scripted run that never ends (e.g. rejection sampling fed a constant) is cut

    def ask(self, fn, n):
        if len(self.calls) >= self.cap or _time.time() > self.deadline:
            raise StepCap()
        a = int(self.answer(fn, int(n)))
        if not 0 <= a < n:
            # the replayed prefix no longer fits the requests: randomness reaches the code through an entry point the
            # script does not control (the execution is not reproducible) - never let the instrumentation raise into the code
            self.desync = True
            a = a % max(int(n), 1)
        self.calls.append((fn, int(n), a))
        return a

    def __enter__(self):
        self._saved = (random.choice, random.randint, np.random.randint, np.random.choice, np.random.rand)
        s = self

        def choice(seq):
            return seq[s.ask("random.choice", len(seq))]

        def randint(a, b):
            return a + s.ask("random.randint", b - a + 1)

        def np_randint(low, high=None, size=None, dtype=int):
            if high is None:
                low, high = 0, low
            lo, hi = np.asarray(low), np.asarray(high)
            shape = np.broadcast(lo, hi).shape
            if size is not None and shape == ():
                shape = (int(size),) if np.ndim(size) == 0 else tuple(int(x) for x in size)
            lo_b = np.broadcast_to(lo, shape).astype(int).ravel()
            spans = (np.broadcast_to(hi, shape).astype(int).ravel() - lo_b).tolist()
            if any(sp <= 0 for sp in spans):
                raise ValueError("low >= high")
            n = 1
            for sp in spans:
                n *= sp
            k = s.ask("np.random.randint", n)
            digits = []
            for sp in reversed(spans):
                digits.append(k % sp)
                k //= sp
            out = (lo_b + np.array(list(reversed(digits)), dtype=int)).reshape(shape)
            return int(out) if shape == () else out

        def np_choice(a, size=None, replace=True, p=None):
            n = int(a) if np.ndim(a) == 0 else len(a)
            pick = (lambda i: i) if np.ndim(a) == 0 else (lambda i: a[i])
            if size is None:
                return pick(s.ask("np.random.choice", n))
            size_n = int(np.prod(size))
            if size_n == 2 and not replace:
                if n < 2:
                    raise ValueError("Cannot take a larger sample than population when 'replace=False'")
                k = s.ask("np.random.choice2", n * (n - 1))
                i, j = k // (n - 1), k % (n - 1)
                if j >= i:
                    j += 1
                return np.array([pick(i), pick(j)])
            if replace:
                k = s.ask("np.random.choiceN", n**size_n)
                idx = []
                for _ in range(size_n):
                    idx.append(k % n)
                    k //= n
                return np.array([pick(i) for i in idx]).reshape(size)
            raise NotImplementedError("scripted choice without replacement, size != 2")

        def np_rand(*shape):
            size = int(np.prod(shape)) if shape else 1
            k = s.ask("np.random.rand", 2**size)
            bits = np.array([(k >> b) & 1 for b in range(size)], dtype=float)
            vals = np.where(bits == 1, 0.0, 1.0 - 2.0**-20)
            return vals.reshape(shape) if shape else float(vals[0])

        def guarded(stub, orig):
            def call(*a, **k):
                try:
                    return stub(*a, **k)
                except StepCap:
                    raise
                except Exception:  # noqa: BLE001 - a request form the script does not model: use the real RNG, mark the run
                    s.desync = True
                    return orig(*a, **k)

            return call

        o_choice, o_randint, o_np_randint, o_np_choice, o_np_rand = self._saved
        random.choice, random.randint = guarded(choice, o_choice), guarded(randint, o_randint)
        np.random.randint, np.random.choice, np.random.rand = guarded(np_randint, o_np_randint), guarded(np_choice, o_np_choice), guarded(np_rand, o_np_rand)
        return self

    def __exit__(self, *a):
        random.choice, random.randint, np.random.randint, np.random.choice, np.random.rand = self._saved


def run_scripted(fn, prefix):
    """run fn() answering the recorded prefix then 0; returns (outcome, value, calls)"""

    box = []

    def answer(name, n):
        i = len(box[0].calls)
        return prefix[i] if i < len(prefix) else 0

    with ScriptedRNG(answer) as s:
        box.append(s)
        res, val = mz.outcome(fn)
    return res, val, s.calls


def enumerate_executions(fn, limit=None):
    """every random execution of fn() (depth-first over answer prefixes).
    yields (answers, outcome, value, calls); stops after `limit` executions (returns complete flag via StopIteration value)"""
    stack = [[]]
    n = 0
    while stack:
        prefix = stack.pop()
        res, val, calls = run_scripted(fn, prefix)
        n += 1
        yield [c[2] for c in calls], res, val, calls
        for i in range(len(prefix), len(calls)):
            _f, k, _a = calls[i]
            base = [c[2] for c in calls[:i]]
            for alt in range(1, k):
                stack.append(base + [alt])
        if limit is not None and n >= limit:
            return


# --------------------------------------------------------------------------------- argument handling
def norm_args(gen, r, c, kw):
    """the property's view of the arguments: normalised acc / maxd (ints, -1 = default), forks, pk"""
    acc = kw.get("accessible_cells")
    if acc is None:
        acc_n = -1
    elif isinstance(acc, float):
        acc_n = int(acc * r * c)
    else:
        acc_n = int(acc)
    md = kw.get("max_tree_depth")
    if md is None:
        md_n = -1
    elif isinstance(md, float):
        md_n = int(md * (r + c))
    else:
        md_n = int(md)
    p = kw.get("p")
    if gen in ("gen_percolation", "gen_dfs_percolation"):
        pv = 0.4 if p is None else p
        pk = "zero" if pv == 0 else "one" if pv == 1 else "mid"
    else:
        pk = "none"
    dflt = gen in ("gen_dfs", "gen_prim", "gen_wilson") and all(k == "start_coord" for k in kw)
    return dict(acc=acc_n, maxd=md_n, forks=bool(kw.get("do_forks", True)), rnd=bool(kw.get("randomized_stack", False)) or gen == "gen_prim", pk=pk, dflt=dflt)


def call_gen(gen, r, c, kw):
    return GENERATORS_MAP[gen](np.array([r, c]), **kw)


def _cells(x):
    return sorted([int(a), int(b)] for a, b in x)


def record(gen, r, c, kw, m, n_ends=0, extra=None):
    """raw projection of one generator call (m = returned LatticeMaze)"""
    cl = np.asarray(m.connection_list)
    meta = m.generation_meta or {}
    rec = dict(gen=gen, R=int(r), C=int(c), shape=[int(x) for x in cl.shape], dtype=str(cl.dtype))
    rec["conn"] = cl.astype(int).tolist() if cl.ndim == 3 else []
    rec.update(norm_args(gen, r, c, kw))
    vis = meta.get("visited_cells")
    rec["m_has_vis"] = vis is not None
    rec["m_vis"] = _cells(vis) if vis is not None else []
    rec["m_has_fully"] = "fully_connected" in meta
    rec["m_fully"] = bool(meta.get("fully_connected", False))
    st = meta.get("start_coord")
    rec["m_has_start"] = st is not None
    rec["m_start"] = [int(st[0]), int(st[1])] if st is not None else []
    ast_ = kw.get("start_coord")
    rec["a_has_start"] = ast_ is not None
    rec["a_start"] = [int(ast_[0]), int(ast_[1])] if ast_ is not None else []
    ends = []
    if n_ends and r > 1 and c > 1:
        for _ in range(n_ends):
            res, p = mz.outcome(lambda: m.generate_random_path())
            if res == "ok" and len(p) >= 1:
                ends.append([[int(p[0][0]), int(p[0][1])], [int(p[-1][0]), int(p[-1][1])]])
    rec["ends"] = ends
    rec["kw"] = {k: (list(map(int, v)) if k == "start_coord" else v) for k, v in kw.items()}
    if extra:
        rec.update(extra)
    return rec


# --------------------------------------------------------------------------------- random arguments
def random_kwargs(rng, gen, r, c):
    kw = {}
    n = r * c
    if gen in ("gen_dfs", "gen_prim", "gen_dfs_percolation"):
        if rng.random() < 0.45:
            kw["accessible_cells"] = int(rng.integers(0, n + 3)) if (gen == "gen_dfs_percolation" or rng.random() < 0.7) else float(rng.choice([0.0, 0.25, 0.5, 0.75, 1.0]))
        if rng.random() < 0.3:
            kw["max_tree_depth"] = int(rng.integers(0, 2 * n + 2)) if (gen == "gen_dfs_percolation" or rng.random() < 0.7) else float(rng.choice([0.25, 0.5, 1.0]))
        if gen != "gen_dfs_percolation" and rng.random() < 0.3:
            kw["do_forks"] = False
        if gen == "gen_dfs" and rng.random() < 0.25:
            kw["randomized_stack"] = True
    if gen in ("gen_percolation", "gen_dfs_percolation"):
        u = rng.random()
        if u < 0.2:
            kw["p"] = 0.0
        elif u < 0.4:
            kw["p"] = 1.0
        elif u < 0.9:
            kw["p"] = float(rng.choice([0.1, 0.3, 0.5, 0.7, 0.9]))
    if gen != "gen_wilson" and rng.random() < 0.4:
        kw["start_coord"] = (int(rng.integers(0, r)), int(rng.integers(0, c)))
    return kw


# --------------------------------------------------------------------------------- snapshots
def slots_of(cl):
    return [[int(d), int(i), int(j)] for d, i, j in zip(*np.where(np.asarray(cl)))]


def snap_dfs(L):
    return dict(
        stack=[[int(x[0]), int(x[1])] for x in L["stack"]],
        vis=_cells(L["visited_cells"]),
        depth=int(L["current_tree_depth"]),
        slots=slots_of(L["connection_list"]),
    )


def traced_dfs(gen, r, c, kw):
    """run gen_dfs / gen_prim with loop-head snapshots; returns (maze, snaps | None)"""
    with LoopTracer(G.gen_dfs, snap_dfs) as t:
        m = call_gen(gen, r, c, kw)
    if not t.available:
        return m, None
    snaps = [e[2] for e in t.events if e[0] == "head" and e[1] == 0]
    return m, snaps


def snap_wilson(L):
    vis = np.asarray(L["visited"])
    d = dict(vis=[[int(i), int(j)] for i, j in zip(*np.where(vis))], slots=slots_of(L["connection_list"]), all=bool(vis.all()))
    d["path"] = [[int(a), int(b)] for a, b in L["path"]] if "path" in L else []
    return d


def wilson_states(events):
    """keep exactly the observable states of GenWilson: outer heads (pick/done) and inner heads whose
    walk has not yet hit the tree (the exit test of the inner loop is not a state of the model)"""
    out = []
    for kind, depth, sn in events:
        vis = {tuple(x) for x in sn["vis"]}
        if kind == "return" or depth == 0:
            st = dict(phase="done" if sn["all"] else "pick", vis=sn["vis"], slots=sn["slots"], path=[])
        else:
            if sn["path"] and tuple(sn["path"][-1]) in vis:
                continue
            st = dict(phase="walk", vis=sn["vis"], slots=sn["slots"], path=sn["path"])
        if not out or out[-1] != st:
            out.append(st)
    return out


def traced_wilson(r, c):
    with LoopTracer(G.gen_wilson, snap_wilson, max_events=20000) as t:
        m = G.gen_wilson(np.array([r, c]))
    if not t.available or len(t.events) >= 20000:
        return m, None
    return m, wilson_states(t.events)


# --------------------------------------------------------------------------------- Wilson: the code's own Markov chain
def learn_wilson_chain(R, C, time_limit=600.0, step_cap=5000, seed=1):
    """Learn the abstract Markov chain of the REAL gen_wilson on an R x C grid without any model:
    states = loop-head snapshots (visited, connections, path, phase); at every discovered state every
    answer of the RNG request issued there is tried (directed tour: BFS over learned edges to the
    nearest state with an untried answer, then online coverage).  Returns a dict:
      OBS[state][k] -> successor, ARITY[state] -> number of answers, INITK[k] -> first state,
      NINIT, TERMINAL (set of done-states), runs, complete (bool), available (bool)
    state = (frozenset visited, frozenset slots, path tuple, phase)"""
    import collections
    import random as pyrandom
    import sys
    import time

    from harness.tracer import loop_header_lines

    fn = G.gen_wilson
    fn = getattr(fn, "__func__", fn)
    code = fn.__code__
    try:
        heads = loop_header_lines(fn)
    except Exception:  # noqa: BLE001
        heads = {}
    if not heads:
        return dict(available=False, complete=False)
    OBS = collections.defaultdict(dict)
    ARITY, INITK, TERMINAL = {}, {}, set()
    NINIT = [None]
    rng = pyrandom.Random(seed)
    broken = [False]
    deadline = [time.time() + time_limit + 30.0]

    def absstate(L):
        vis = frozenset((int(i), int(j)) for i, j in zip(*np.where(np.asarray(L["visited"]))))
        sl = frozenset((int(d), int(i), int(j)) for d, i, j in zip(*np.where(np.asarray(L["connection_list"]))))
        return vis, sl

    class Run:
        def __init__(self, policy):
            self.policy, self.cur, self.pending, self.first, self.initanswer, self.steps, self.ninit = policy, None, None, None, None, 0, None

        def go(self):
            o_choice, o_randint = np.random.choice, np.random.randint

            def choice(n, *a, **k):
                self.steps += 1
                if self.steps > step_cap or time.time() > deadline[0]:
                    raise StepCap()
                n = int(n)
                ARITY.setdefault(self.cur, n)
                kk = self.policy(self.cur, n)
                self.pending = (self.cur, kk)
                return kk

            def randint(low, high=None, size=None, **k):
                self.steps += 1
                if self.steps > step_cap or time.time() > deadline[0]:
                    raise StepCap()
                if high is None:
                    low, high = 0, low
                if np.ndim(high) == 0 and size is None:
                    # a scalar request (e.g. an index drawn with randint instead of choice): same bookkeeping as choice(n)
                    return int(low) + choice(int(high) - int(low))
                hs = [int(h) for h in np.asarray(high).ravel()]
                n = 1
                for h in hs:
                    n *= h
                self.ninit = n
                kk = self.policy("INIT", n)
                self.initanswer = kk
                out = []
                for h in reversed(hs):
                    out.append(kk % h)
                    kk //= h
                return np.array(list(reversed(out)))

            np.random.choice, np.random.randint = choice, randint
            old = sys.gettrace()
            sys.settrace(self._g)
            try:
                return fn(np.array([R, C]))
            except StepCap:
                return None
            except Exception:  # noqa: BLE001 - the stubs do not fit the code's RNG requests: the chain cannot be learned
                broken[0] = True
                return None
            finally:
                sys.settrace(old)
                np.random.choice, np.random.randint = o_choice, o_randint

        def _g(self, frame, ev, arg):
            return self._l if frame.f_code is code else None

        def _l(self, frame, ev, arg):
            if ev == "line" and time.time() > deadline[0]:
                raise StepCap()  # the learner's own run is abandoned (the exception is caught in go(), nothing is judged)
            try:
                if (ev == "line" and frame.f_lineno in heads) or ev == "return":
                    L = frame.f_locals
                    if "visited" in L and "connection_list" in L:
                        vis, sl = absstate(L)
                        d = heads.get(frame.f_lineno, -1)
                        done = bool(np.asarray(L["visited"]).all())
                        if ev == "return" or d == 0:
                            key = (vis, sl, (), "done" if done else "pick")
                        else:
                            path = tuple((int(a), int(b)) for a, b in L.get("path", []))
                            if path and path[-1] in vis:
                                return self._l
                            key = (vis, sl, path, "walk")
                        if key[3] == "done":
                            TERMINAL.add(key)
                        if self.pending is not None:
                            s0, k = self.pending
                            OBS[s0][k] = key
                            self.pending = None
                        if self.first is None:
                            self.first = key
                        self.cur = key
            except Exception:  # noqa: BLE001 - observation point moved
                broken[0] = True
            return self._l

    def plan():
        q = collections.deque()
        seen = {}
        for k, s0 in INITK.items():
            if s0 not in seen:
                seen[s0] = ("INIT", k)
                q.append(s0)
        while q:
            s0 = q.popleft()
            n = ARITY.get(s0)
            if s0[3] != "done" and (n is None or any(k not in OBS[s0] for k in range(n))):
                pl = {}
                cur = s0
                while True:
                    p = seen[cur]
                    if p[0] == "INIT":
                        pl["INIT"] = p[1]
                        break
                    pl[p[0]] = p[1]
                    cur = p[0]
                return s0, pl
            for k, nx in OBS[s0].items():
                if nx not in seen:
                    seen[nx] = (s0, k)
                    q.append(nx)
        return None, None

    t0 = time.time()
    deadline[0] = t0 + time_limit + 30.0
    runs = 0
    complete = False
    while True:
        target, pl = None, None
        if NINIT[0] is not None and len(INITK) == NINIT[0]:
            target, pl = plan()
            if target is None:
                complete = True
                break
        st = {"reached": pl is None}

        def policy(s0, n, pl=pl, st=st, target=target):
            if s0 == "INIT":
                if pl and "INIT" in pl:
                    return pl["INIT"]
                un = [k for k in range(n) if k not in INITK]
                return un[0] if un else rng.randrange(n)
            if s0 == target:
                st["reached"] = True
            if pl and not st["reached"] and s0 in pl:
                return pl[s0]
            un = [k for k in range(n) if k not in OBS[s0]]
            return un[0] if un else rng.randrange(n)

        r = Run(policy)
        r.go()
        runs += 1
        if r.ninit is None or r.first is None or broken[0]:
            # the code did not ask for a start through np.random.randint / no snapshot: cannot learn
            return dict(available=False, complete=False, runs=runs)
        NINIT[0] = r.ninit
        INITK[r.initanswer] = r.first
        if time.time() - t0 > time_limit:
            break
    return dict(OBS=dict(OBS), ARITY=ARITY, INITK=INITK, NINIT=NINIT[0], TERMINAL=TERMINAL, runs=runs, complete=complete, available=True, wall=time.time() - t0)


def absorption(chain, tol=1e-15, max_iter=100000):
    """absorption probabilities of the learned chain (each answer of a request equiprobable; initial
    answers equiprobable).  Exact Fractions when small, else power iteration.  Returns {terminal: prob}"""
    from fractions import Fraction

    OBS, ARITY, INITK, NINIT = chain["OBS"], chain["ARITY"], chain["INITK"], chain["NINIT"]
    states = set(OBS) | {v for d in OBS.values() for v in d.values()} | set(INITK.values())
    order = sorted(states, key=lambda s: (len(s[0]), len(s[2]), sorted(s[0]), s[2], s[3], sorted(s[1])))
    idx = {s: i for i, s in enumerate(order)}
    exact = len(states) <= 800
    one = Fraction(1) if exact else 1.0
    p = [0 * one] * len(order)
    for k, s in INITK.items():
        p[idx[s]] += one / NINIT
    absorbed = {}
    # the chain's "visited" only grows; within a level it can cycle (walks) -> iterate to convergence
    trans = {}
    for s, d in OBS.items():
        if not d:
            continue
        n = ARITY[s]
        trans[idx[s]] = [(idx[v], one / n) for v in d.values()]
    if exact:
        # solve by Gaussian elimination level by level is overkill: use iteration with Fractions until mass in
        # transient states is exactly representable -> instead solve linear system A x = b for hitting probabilities
        term = [idx[s] for s in order if s[3] == "done"]
        tset = set(term)
        transient = [i for i in range(len(order)) if i not in tset]
        tpos = {i: k for k, i in enumerate(transient)}
        n = len(transient)
        # expected visits N = (I - Q)^-1 applied to initial distribution: solve (I - Q)^T y = p0
        A = [[Fraction(0)] * n for _ in range(n)]
        for i in transient:
            A[tpos[i]][tpos[i]] += 1
        for i in transient:
            for j, pr in trans.get(i, []):
                if j in tpos:
                    A[tpos[j]][tpos[i]] -= pr
        b = [p[i] for i in transient]
        # gaussian elimination
        for col in range(n):
            piv = next(r for r in range(col, n) if A[r][col] != 0)
            A[col], A[piv] = A[piv], A[col]
            b[col], b[piv] = b[piv], b[col]
            inv = 1 / A[col][col]
            A[col] = [x * inv for x in A[col]]
            b[col] *= inv
            for r in range(n):
                if r != col and A[r][col] != 0:
                    f = A[r][col]
                    A[r] = [x - f * y for x, y in zip(A[r], A[col])]
                    b[r] -= f * b[col]
        out = {order[i]: p[i] for i in term}
        for i in transient:
            y = b[tpos[i]]
            for j, pr in trans.get(i, []):
                if j in tset:
                    out[order[j]] += y * pr
        return out, True
    import numpy as _np

    vec = _np.array([float(x) for x in p])
    n = len(order)
    rows, cols, vals = [], [], []
    for i, lst in trans.items():
        for j, pr in lst:
            rows.append(j)
            cols.append(i)
            vals.append(float(pr))
    rows, cols, vals = _np.array(rows, dtype=int), _np.array(cols, dtype=int), _np.array(vals)
    term_mask = _np.array([s[3] == "done" for s in order])
    acc = _np.zeros(n)
    for _ in range(max_iter):
        acc += vec * term_mask
        vec = vec * (~term_mask)
        if vec.sum() < tol:
            break
        nv = _np.zeros(n)
        _np.add.at(nv, rows, vec[cols] * vals)
        vec = nv
    return {order[i]: float(acc[i]) for i in range(n) if term_mask[i]}, False
