"""Trace validation of the REPOSITORY'S OWN TESTS (code -> spec): run (a part of) /repo's test-suite from a scratch
working directory with the observation plugin harness.pytest_observer loaded, and return the generator calls and
find_shortest_path calls those tests made, as records in the formats Trace_Gen01 / Trace_Gen12 / Trace_SP judge.

Why: the tests already drive the code through many executions but assert little about them (a generator test asserts that a
maze comes back, not that it is a spanning tree).  Judging the same executions with the TLA+ clauses costs a minute and needs
no hook in /repo.  The tests' own pass/fail outcome is only noted - it never decides a property."""
import json
import os
import subprocess
import sys
import time

from harness import lib

REPO = os.environ.get("VERIF_REPO", "/repo")


def repo_root():
    # the code under test is whatever `import maze_dataset` resolves to (scratch copies via PYTHONPATH), its tests live next to it
    import maze_dataset

    return os.path.dirname(os.path.dirname(os.path.abspath(maze_dataset.__file__)))


def observe(test_paths, timeout=600, cap=6000, extra_args=()):
    """returns dict(gen=[...], sp=[...], rc=int, summary=str, wall=float, available=bool)"""
    root = repo_root()
    paths = [os.path.join(root, p) for p in test_paths if os.path.exists(os.path.join(root, p))]
    if not paths:
        return dict(gen=[], sp=[], ds=[], rc=None, summary="tests not found next to the code under test", wall=0.0, available=False)
    wd = lib.workdir("repotests_")
    obs = os.path.join(wd, "obs")
    os.makedirs(obs, exist_ok=True)
    env = dict(os.environ)
    env["VERIF_OBS_DIR"] = obs
    env["VERIF_OBS_CAP"] = str(cap)
    env["PYTHONPATH"] = os.pathsep.join([root, os.path.dirname(os.path.dirname(os.path.abspath(__file__)))] + [p for p in env.get("PYTHONPATH", "").split(os.pathsep) if p])
    env.pop("MAZE_DATASET_VERIF", None)
    cmd = [sys.executable, "-W", "ignore", "-m", "pytest", "-q", "--no-header", "-p", "no:cacheprovider", "-p", "harness.pytest_observer", "--timeout=300",
           "--rootdir", root, "-c", os.path.join(root, "pyproject.toml"), *extra_args, *paths]
    t0 = time.time()
    try:
        p = subprocess.run(cmd, cwd=wd, env=env, capture_output=True, text=True, timeout=timeout)
        rc, tail = p.returncode, (p.stdout.strip().splitlines() or [""])[-1][:200]
    except subprocess.TimeoutExpired:
        rc, tail = None, "timeout"
    out = dict(gen=[], sp=[], ds=[], rc=rc, summary=tail, wall=round(time.time() - t0, 1), available=True)
    for fn in sorted(os.listdir(obs)):
        kind = fn.split("_")[0]
        if kind not in ("gen", "sp", "ds"):
            continue
        for line in open(os.path.join(obs, fn)):
            try:
                out[kind].append(json.loads(line))
            except ValueError:  # a partial last line of a killed process
                pass
    return out


QUICK_DIRS = ["tests/unit/maze_dataset/generation", "tests/unit/maze_dataset/dataset", "tests/unit/maze_dataset/processing"]
THOROUGH_DIRS = QUICK_DIRS + ["tests/unit/maze_dataset/tokenization", "tests/unit/maze_dataset/plotting"]


def observe_dirs(thorough, timeout=900):
    """one pytest process per test directory, in parallel; returns (gen records, sp records, summary dict)"""
    from concurrent.futures import ThreadPoolExecutor

    dirs = THOROUGH_DIRS if thorough else QUICK_DIRS
    with ThreadPoolExecutor(len(dirs)) as ex:
        outs = list(ex.map(lambda d: observe([d], timeout=timeout), dirs))
    gen = [r for o in outs for r in o["gen"]]
    sp = [r for o in outs for r in o["sp"]]
    summ = {d: dict(rc=o["rc"], summary=o["summary"], wall=o["wall"], gen=len(o["gen"]), sp=len(o["sp"]), ds=len(o.get("ds", []))) for d, o in zip(dirs, outs)}
    LAST_DS[:] = [r for o in outs for r in o.get("ds", [])]
    return gen, sp, summ


LAST_DS = []  # MazeDataset.generate results observed by the last observe_dirs() call (used by C03)
