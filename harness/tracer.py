"""Zero-hook observation of algorithm-internal state: a sys.settrace local tracer bound to one
function's code object snapshots a projection of the frame locals each time execution reaches a
`while` header (located from the AST of the function's *current* source) and at return."""
import ast
import inspect
import sys
import textwrap


def loop_header_lines(fn):
    """{absolute line number of each While header: nesting depth} for fn's current source"""
    src = textwrap.dedent(inspect.getsource(fn))
    tree = ast.parse(src)
    base = fn.__code__.co_firstlineno
    out = {}

    def walk(node, depth):
        for ch in ast.iter_child_nodes(node):
            if isinstance(ch, ast.While):
                out[base + ch.lineno - 1] = depth
                walk(ch, depth + 1)
            elif isinstance(ch, (ast.FunctionDef, ast.Lambda, ast.ClassDef)) and node is not tree:
                continue
            else:
                walk(ch, depth)

    walk(tree, 0)
    return out


class LoopTracer:
    """usage:  with LoopTracer(fn, snap) as t: fn(...);  t.events -> [(kind, depth, snapshot)]"""

    def __init__(self, fn, snap, max_events=200000):
        fn = getattr(fn, "__func__", fn)
        self.code = fn.__code__
        self.snap = snap
        self.events = []
        self.max_events = max_events
        self.available = True
        try:
            self.heads = loop_header_lines(fn)
        except Exception:  # noqa: BLE001 - source restructured / unavailable: Layer M unavailable
            self.heads = {}
            self.available = False
        if not self.heads:
            self.available = False

    def __enter__(self):
        self._old = sys.gettrace()
        sys.settrace(self._global)
        return self

    def __exit__(self, *a):
        sys.settrace(self._old)

    def _global(self, frame, event, arg):
        if frame.f_code is self.code:
            return self._local
        return None

    def _local(self, frame, event, arg):
        try:
            if event == "line" and frame.f_lineno in self.heads:
                if len(self.events) < self.max_events:
                    self.events.append(("head", self.heads[frame.f_lineno], self.snap(frame.f_locals)))
            elif event == "return":
                self.events.append(("return", -1, self.snap(frame.f_locals)))
        except Exception:  # noqa: BLE001 - a local was renamed etc.: observation point moved
            self.available = False
        return self._local
