"""Core machinery shared by all property checks.

- run TLC on a design-level spec (use A) and parse its statistics / coverage
- run a TLA+ *oracle / trace* spec over ndjson observations of the real code (use C), sharded
- evidence + replay + known-findings plumbing, exit-code policy

Exit codes: 0 property held on everything explored; 1 = Layer-P violation (a `VIOLATION` line was
printed); 2 = machinery failure (TLC crashed, vacuous coverage, records not consumed...).
"""

from __future__ import annotations

import concurrent.futures as cf
import hashlib
import json
import os
import re
import shutil
import subprocess
import sys
import time
from dataclasses import dataclass, field
from pathlib import Path

VERIF = Path(__file__).resolve().parent.parent
SPEC = VERIF / "spec"
WORK = VERIF / ".work"
EVID = Path(os.environ["VERIF_EVIDENCE_DIR"]) if os.environ.get("VERIF_EVIDENCE_DIR") else VERIF / "evidence"  # (trial runs on patched copies write elsewhere)
REPLAYS = VERIF / "replays"
KNOWN = VERIF / "known_findings.json"
TLA_JAR = "/opt/veriftools/tla/tla2tools.jar"
TLA_CP = f"{TLA_JAR}:/opt/veriftools/tla/CommunityModules-deps.jar"
NCPU = int(os.environ.get("VERIF_NCPU", "0")) or os.cpu_count() or 4  # VERIF_NCPU caps the parallelism (JVM shards, worker processes) on a shared machine


class MachineryError(Exception):
    """the verification machinery itself failed (never reported as a violation)"""


# --------------------------------------------------------------------------------------------
# TLC
# --------------------------------------------------------------------------------------------
@dataclass
class TLCResult:
    ok: bool
    generated: int
    distinct: int
    depth: int
    out: str
    wall: float
    violated: str | None = None
    coverage: dict = field(default_factory=dict)  # action name -> (distinct, total)
    printed: list = field(default_factory=list)

    @property
    def transitions(self) -> int:
        return self.generated


_RE_STATES = re.compile(r"(\d+) states generated, (\d+) distinct states found")
_RE_DEPTH = re.compile(r"The depth of the complete state graph search is (\d+)")
_RE_VIOL = re.compile(r"Error: Invariant (\w+) is violated|Error: Action property (\w+) is violated|Error: Temporal property (\w+) was violated|Error: (Temporal) properties were violated")
_RE_COV = re.compile(r"^<(\w+) line \d+, col \d+ to line \d+, col \d+ of module (\w+)(?: \([\d ]+\))?>: (\d+):(\d+)", re.M)


def tlc(
    module: str,
    cfg: str,
    *,
    workers: int | str = "auto",
    env: dict | None = None,
    timeout: float = 3600,
    coverage: bool = False,
    dump_dot: str | None = None,
    simulate: str | None = None,
    depth: int | None = None,
    seed: int | None = None,
    tag: str = "",
    xmx: str = "5g",
    extra: list[str] | None = None,
    deque: bool = False,
) -> TLCResult:
    """run TLC with cwd = /verif/spec (so EXTENDS finds sibling modules)"""
    WORK.mkdir(exist_ok=True)
    meta = WORK / f"meta_{module}_{tag}_{os.getpid()}_{time.time_ns()}"
    cmd = ["java", "-XX:+UseParallelGC", f"-Xmx{xmx}", "-Xss64m"]
    if deque:
        cmd.append("-Dtlc2.tool.queue.IStateQueue=StateDeque")
    cmd += ["-cp", TLA_CP, "tlc2.TLC", "-config", cfg, "-workers", str(workers), "-metadir", str(meta), "-noGenerateSpecTE"]
    if coverage:
        cmd += ["-coverage", "1"]
    if dump_dot:
        cmd += ["-dump", "dot,actionlabels", dump_dot]
    if simulate:
        cmd += ["-simulate", simulate]
    if depth is not None:
        cmd += ["-depth", str(depth)]
    if seed is not None:
        cmd += ["-seed", str(seed)]
    cmd += list(extra or [])
    cmd.append(module + ".tla")
    e = dict(os.environ)
    e.update({k: str(v) for k, v in (env or {}).items()})
    t0 = time.time()
    try:
        p = subprocess.run(cmd, cwd=SPEC, env=e, capture_output=True, text=True, timeout=timeout)
        out = p.stdout + p.stderr
        rc = p.returncode
    except subprocess.TimeoutExpired as ex:
        out = (ex.stdout or b"").decode(errors="replace") if isinstance(ex.stdout, bytes) else (ex.stdout or "")
        out += "\nTIMEOUT"
        rc = -9
    finally:
        shutil.rmtree(meta, ignore_errors=True)
    wall = time.time() - t0
    ms = _RE_STATES.findall(out)
    gen, dist = (int(ms[-1][0]), int(ms[-1][1])) if ms else (0, 0)
    md = _RE_DEPTH.search(out)
    mv = _RE_VIOL.search(out)
    cov = {}
    for m in _RE_COV.finditer(out):
        cov[m.group(1)] = (int(m.group(3)), int(m.group(4)))
    ok = rc == 0 and ("No error has been found" in out or (simulate is not None and "Error" not in out))
    return TLCResult(
        ok=ok,
        generated=gen,
        distinct=dist,
        depth=int(md.group(1)) if md else 0,
        out=out,
        wall=wall,
        violated=(mv.group(1) or mv.group(2) or mv.group(3) or mv.group(4)) if mv else None,
        coverage=cov,
    )


def tlc_design(module: str, cfg: str, *, expect_actions: list[str] | None = None, **kw) -> TLCResult:
    """use (A): exhaustive model checking of a design-level spec; any failure here is a machinery/spec
    failure (the design spec does not depend on the code)"""
    kw.setdefault("coverage", expect_actions is not None)
    r = tlc(module, cfg, **kw)
    if not r.ok:
        raise MachineryError(f"design model {module}/{cfg} failed: violated={r.violated}\n{r.out[-3000:]}")
    if expect_actions:
        for a in expect_actions:
            if a not in r.coverage or r.coverage[a][1] == 0:
                raise MachineryError(f"vacuous: action {a} of {module} never taken ({r.coverage})")
    return r


def tlc_expect_violation(module: str, cfg: str, invariant: str, **kw) -> TLCResult:
    """non-vacuity guard: a deliberately broken design variant must be rejected by TLC"""
    r = tlc(module, cfg, **kw)
    if r.ok or r.violated != invariant:
        raise MachineryError(f"variant {module}/{cfg} expected to violate {invariant}, got ok={r.ok} violated={r.violated}\n{r.out[-1500:]}")
    return r


# --------------------------------------------------------------------------------------------
# Oracle / trace validation over ndjson observations (use C)
# --------------------------------------------------------------------------------------------
@dataclass
class OracleResult:
    verdicts: dict  # id -> sorted list of clause names (only ids with a non-empty set)
    states: int
    transitions: int
    records: int
    wall: float


def _oracle_shard(args):
    module, cfg, recs, idx, tag, extra_env, timeout, deque = args
    d = WORK / f"orc_{module}_{tag}_{os.getpid()}_{idx}"
    d.mkdir(parents=True, exist_ok=True)
    log = d / "log.ndjson"
    outp = d / "out.ndjson"
    with open(log, "w") as f:
        for r in recs:
            f.write(json.dumps(r, separators=(",", ":")) + "\n")
    env = {"VERIF_LOG": str(log), "VERIF_OUT": str(outp)}
    env.update(extra_env or {})
    r = tlc(module, cfg, workers=1, env=env, timeout=timeout, tag=f"{tag}{idx}", xmx="3g", deque=deque)
    res = {"ok": r.ok, "gen": r.generated, "dist": r.distinct, "out": r.out[-4000:], "verdicts": {}, "count": None}
    if outp.exists():
        for line in open(outp):
            line = line.strip()
            if not line:
                continue
            v = json.loads(line)
            if v["id"] == -1:
                res["count"] = int(v["c"][0]) if isinstance(v["c"], list) else int(v["c"])
            else:
                res["verdicts"].setdefault(v["id"], set()).update(v["c"] if isinstance(v["c"], list) else [v["c"]])
    shutil.rmtree(d, ignore_errors=True)
    res["verdicts"] = {k: sorted(v) for k, v in res["verdicts"].items()}
    return res


def oracle(
    module: str,
    records: list[dict],
    *,
    cfg: str | None = None,
    shards: int | None = None,
    tag: str = "",
    extra_env: dict | None = None,
    timeout: float = 3600,
    deque: bool = False,
    min_per_shard: int = 50,
) -> OracleResult:
    """Judge `records` (each has an int `id`) with the TLA+ oracle/trace module.

    Convention for the module: reads `IOEnv.VERIF_LOG` (ndjson), on completion writes ndjson to
    `IOEnv.VERIF_OUT`: one line `{"id": -1, "c": ["<number of records consumed>"]}` and one line
    `{"id": <record id>, "c": [<violated clause names>]}` per rejected record.
    """
    t0 = time.time()
    if not records:
        return OracleResult({}, 0, 0, 0, 0.0)
    cfg = cfg or module + ".cfg"
    if shards is None:
        shards = max(1, min(NCPU, len(records) // min_per_shard))
    shards = max(1, min(shards, len(records)))
    # contiguous chunks keep multi-line traces together if the caller already grouped them
    n = len(records)
    bounds = [(n * i) // shards for i in range(shards + 1)]
    jobs = [(module, cfg, records[bounds[i] : bounds[i + 1]], i, tag, extra_env, timeout, deque) for i in range(shards)]
    verdicts: dict = {}
    st = tr = 0
    with cf.ThreadPoolExecutor(max_workers=min(NCPU, shards)) as ex:
        for job, res in zip(jobs, ex.map(_oracle_shard, jobs)):
            if not res["ok"] or res["count"] != len(job[2]):
                raise MachineryError(
                    f"oracle {module} shard {job[3]}: ok={res['ok']} consumed={res['count']} of {len(job[2])}\n{res['out']}"
                )
            verdicts.update(res["verdicts"])
            st += res["dist"]
            tr += res["gen"]
    return OracleResult(verdicts, st, tr, n, time.time() - t0)


# --------------------------------------------------------------------------------------------
# known findings
# --------------------------------------------------------------------------------------------
def load_known() -> list[dict]:
    if KNOWN.exists():
        return json.loads(KNOWN.read_text()).get("findings", [])
    return []


def match_known(prop: str, clause: str, case: dict) -> dict | None:
    """an *open* finding matches by property, clause and equality on the listed case fields"""
    for k in load_known():
        if k.get("status") != "open" or k["property"] != prop:
            continue
        if k.get("clause") not in (None, clause):
            continue
        if all(case.get(f) == v for f, v in k.get("where", {}).items()):
            return k
    return None


# --------------------------------------------------------------------------------------------
# per-check context: evidence, violations, exit code
# --------------------------------------------------------------------------------------------
def jhash(x) -> str:
    return hashlib.sha1(json.dumps(x, sort_keys=True, default=str).encode()).hexdigest()[:16]


class Check:
    def __init__(self, prop: str, tier: str, seed: int, level: str = "model_checking"):
        self.prop, self.tier, self.seed, self.level = prop, tier, seed, level
        self.t0 = time.time()
        self.states = 0
        self.transitions = 0
        self.traces = 0
        self.evaluations = 0
        self.nontrivial: set = set()
        self.samples: list = []
        self.violations: list = []
        self.known_hits: list = []
        self.divergences: list = []
        self.notes: dict = {}
        self.assumptions: list = []
        self.exhaustive: bool | None = None
        self.rule = ""
        self.models: list = []
        WORK.mkdir(exist_ok=True)

    # -- accounting
    def add_model(self, name: str, r: TLCResult, what: str = ""):
        self.states += r.distinct
        self.transitions += r.generated
        self.models.append(dict(model=name, distinct_states=r.distinct, states_generated=r.generated, depth=r.depth, wall_s=round(r.wall, 1), what=what))

    def add_oracle(self, name: str, r: OracleResult, what: str = ""):
        self.states += r.states
        self.transitions += r.transitions
        self.traces += r.records
        self.models.append(dict(oracle=name, records=r.records, states=r.states, wall_s=round(r.wall, 1), what=what))

    def count(self, case, nontrivial: bool = True):
        self.evaluations += 1
        if nontrivial:
            self.nontrivial.add(jhash(case))

    def sample(self, x, limit: int = 6):
        if len(self.samples) < limit:
            s = json.dumps(x, default=str)
            self.samples.append(json.loads(s) if len(s) < 3000 else s[:3000] + "...")

    # -- verdicts
    def judge(self, cases_by_id: dict, res: OracleResult, *, label: str = ""):
        """turn oracle verdicts into violations / known findings / divergences.
        clause names starting with 'M:' are model-conformance (never a violation)."""
        for rid, clauses in sorted(res.verdicts.items()):
            case = cases_by_id.get(rid, {"id": rid})
            for c in clauses:
                if c.startswith("M:"):
                    self.divergence(c, case, label)
                else:
                    self.violation(c, case, label)

    def divergence(self, clause: str, case: dict, label: str = ""):
        self.divergences.append((clause, label))
        if len(self.divergences) <= 3:
            print(f"MODEL-DIVERGENCE property={self.prop} clause={clause} {label} case={json.dumps(case, default=str)[:300]}")

    def violation(self, clause: str, case: dict, label: str = ""):
        k = match_known(self.prop, clause, case)
        if k is not None:
            key = k.get("id", k.get("description", ""))
            if key not in [h[0] for h in self.known_hits]:
                print(f"KNOWN-FINDING: property={self.prop} {k.get('description', '')}")
            self.known_hits.append((key, clause))
            return
        d = REPLAYS / self.prop
        d.mkdir(parents=True, exist_ok=True)
        path = d / f"{label or 'case'}_{clause}_{jhash(case)}.json"
        path.write_text(json.dumps(dict(property=self.prop, clause=clause, label=label, case=case), default=str, indent=1))
        self.violations.append((clause, str(path)))
        if len(self.violations) <= 25:
            print(f"VIOLATION property={self.prop} replay={path}")
            print(f"  clause={clause} {label} case={json.dumps(case, default=str)[:400]}")

    # -- finish
    def finish(self, explanation: str = "") -> int:
        cov = dict(
            states=self.states,
            transitions=self.transitions,
            traces_validated_against_impl=self.traces,
            samples=self.samples or ["(none)"],
            evaluations=max(self.evaluations, 0),
            distinct_nontrivial=len(self.nontrivial),
            rule=self.rule,
            models=self.models,
            explanation=explanation,
            model_divergences=len(self.divergences),
            model_conformant=len(self.divergences) == 0,
            known_findings_hit=sorted({h[0] for h in self.known_hits}),
            violation_clauses=sorted({v[0] for v in self.violations}),
        )
        if self.exhaustive is not None:
            cov["exhaustive"] = self.exhaustive
        cov.update(self.notes)
        ev = dict(
            property_id=self.prop,
            tier=self.tier,
            seed=self.seed,
            level=self.level,
            coverage=cov,
            assumptions=self.assumptions,
            wall_s=round(time.time() - self.t0, 2),
            violations=len(self.violations),
        )
        EVID.mkdir(exist_ok=True)
        (EVID / f"{self.prop}.json").write_text(json.dumps(ev, indent=1, default=str) + "\n")
        print(
            f"[{self.prop}] tier={self.tier} seed={self.seed} states={self.states} transitions={self.transitions} "
            f"traces={self.traces} evaluations={self.evaluations} nontrivial={len(self.nontrivial)} "
            f"divergences={len(self.divergences)} violations={len(self.violations)} wall={ev['wall_s']}s"
        )
        return 1 if self.violations else 0


CANARY_BASE = 2_000_000_000  # ids >= this are deliberately corrupted records (binding / non-vacuity guard)


def judge_with_canaries(chk: "Check", module: str, recs: list[dict], canaries: list[tuple[dict, str]], *, label: str = "", what: str = "", case_of=None, **kw) -> OracleResult:
    """Judge `recs` with the TLA+ oracle `module`; `canaries` = [(corrupted record, clause that MUST be
    reported for it)].  Ids are assigned here.  A canary the oracle accepts is a machinery failure
    (the oracle does not constrain that field => the check would be vacuous), never a violation."""
    for i, x in enumerate(recs):
        x["id"] = i
    allrecs = list(recs)
    for k, (c, _cl) in enumerate(canaries):
        c = dict(c)
        c["id"] = CANARY_BASE + k
        canaries[k] = (c, _cl)
        # spread canaries over the batch so every shard layout sees them judged like ordinary records
        allrecs.insert((len(allrecs) * (k + 1)) // (len(canaries) + 1), c)
    res = oracle(module, allrecs, tag=label or module, **kw)
    for c, cl in canaries:
        got = res.verdicts.pop(c["id"], [])
        if cl not in got:
            raise MachineryError(f"canary not rejected by {module}: expected clause {cl!r}, got {got} (oracle does not bind this field)")
    chk.notes.setdefault("canaries_rejected", 0)
    chk.notes["canaries_rejected"] += len(canaries)
    res.records -= len(canaries)
    chk.add_oracle(module, res, what)
    case_of = case_of or (lambda x: x)
    chk.judge({x["id"]: case_of(x) for x in recs}, res, label=label)
    return res


def apalache_inductive(wrapper: str, copies: list[str], init: str = "Init", ind_init: str = "IndInit", inv: str = "IndInv", timeout: float = 900, broken_sub: tuple | None = None) -> dict:
    """Discharge `inv` as an inductive invariant with Apalache (symbolic, unbounded in the number of steps):
    base case  Init => inv  (--length=0) and step  IndInit /\\ Next => inv'  (--init=IndInit --length=1).
    `wrapper` = spec/apalache/<wrapper>.tla (typed wrapper with constants as definitions); `copies` = design modules to copy next
    to it (the TLC module is removed from their EXTENDS).  `broken_sub` = (old, new) text substitution in the wrapper that selects
    the deliberately broken design: its inductive step MUST fail (non-vacuity).  Returns a dict for the evidence; raises
    MachineryError if a proof obligation fails (the design spec does not depend on the code) - or returns {'available': False}
    if apalache-mc is not installed / times out."""
    import re as _re

    exe = shutil.which("apalache-mc")
    if exe is None:
        return dict(available=False, reason="apalache-mc not on PATH")
    d = Path(workdir("apa_"))
    try:
        for c in copies:
            txt = (SPEC / c).read_text()
            txt = _re.sub(r"^(EXTENDS .*?)(, TLC)(\s*)$", r"\1\3", txt, flags=_re.M)
            (d / c).write_text(txt)
        wtxt = (SPEC / "apalache" / f"{wrapper}.tla").read_text()
        (d / f"{wrapper}.tla").write_text(wtxt)

        def run(args, name):
            t0 = time.time()
            try:
                p = subprocess.run([exe, "check", *args, f"--out-dir={d / 'out'}", f"{name}.tla"], cwd=d, capture_output=True, text=True, timeout=timeout)
            except subprocess.TimeoutExpired:
                return None, time.time() - t0, "TIMEOUT"
            return p.returncode, time.time() - t0, (p.stdout + p.stderr)[-1500:]

        out = dict(available=True, wrapper=wrapper, obligations=[])
        for label, args in (("base", [f"--init={init}", f"--inv={inv}", "--length=0"]), ("step", [f"--init={ind_init}", f"--inv={inv}", "--length=1"])):
            rc, wall, tail = run(args, wrapper)
            if rc is None:
                return dict(available=False, reason=f"apalache timed out on the {label} obligation")
            if rc != 0:
                raise MachineryError(f"Apalache: inductive invariant {inv} of {wrapper} failed its {label} obligation\n{tail}")
            out["obligations"].append(dict(obligation=label, discharged=True, wall_s=round(wall, 1)))
        if broken_sub:
            (d / f"{wrapper}_broken.tla").write_text(wtxt.replace(broken_sub[0], broken_sub[1]).replace(f"MODULE {wrapper} ", f"MODULE {wrapper}_broken "))
            rc, wall, tail = run([f"--init={ind_init}", f"--inv={inv}", "--length=1"], f"{wrapper}_broken")
            if rc == 0:
                raise MachineryError(f"Apalache: the deliberately broken design of {wrapper} passes the inductive step (vacuous invariant)")
            out["broken_design_rejected"] = rc is not None
        return out
    finally:
        shutil.rmtree(d, ignore_errors=True)


def workdir(prefix: str) -> str:
    """a fresh scratch directory under /verif/.work (created on demand; callers remove it)"""
    import tempfile

    WORK.mkdir(parents=True, exist_ok=True)
    return tempfile.mkdtemp(prefix=prefix, dir=WORK)


def pmap(fn, items, procs: int | None = None, chunksize: int = 1):
    """fork-based parallel map for observation drivers (module-level fn)"""
    import multiprocessing as mp

    items = list(items)
    if not items:
        return []
    procs = min(procs or NCPU, len(items))
    if procs <= 1:
        return [fn(x) for x in items]
    ctx = mp.get_context("fork")
    with ctx.Pool(procs, initializer=_die_with_parent) as pool:
        return pool.map(fn, items, chunksize=chunksize)


def _die_with_parent():
    """worker initializer: ask the kernel to kill this worker when the check's main process dies (a check killed by an outer `timeout`
    otherwise leaves its pool workers running - one such set span for hours on a patched library that never returned)"""
    try:
        import ctypes
        import signal

        ctypes.CDLL("libc.so.6", use_errno=True).prctl(1, signal.SIGKILL)  # PR_SET_PDEATHSIG
    except Exception:  # noqa: BLE001 - not Linux / no libc: nothing to do
        pass
