"""parser for TLA+ values as TLC prints them (dot dumps, PrintT) and for `-dump dot,actionlabels` graphs.
sets -> frozenset, tuples/sequences -> tuple, records -> dict(frozen as tuple of items when hashed),
functions (a :> b @@ ...) -> dict, strings -> str, ints -> int, TRUE/FALSE -> bool"""
import re


class _P:
    def __init__(self, s):
        self.s, self.i = s, 0

    def ws(self):
        while self.i < len(self.s) and self.s[self.i] in " \n\t\r":
            self.i += 1

    def peek(self, k=1):
        self.ws()
        return self.s[self.i : self.i + k]

    def eat(self, tok):
        self.ws()
        if not self.s.startswith(tok, self.i):
            raise ValueError(f"expected {tok!r} at {self.i}: {self.s[self.i:self.i+30]!r}")
        self.i += len(tok)

    def value(self):
        self.ws()
        s = self.s
        if s.startswith("<<", self.i):
            self.i += 2
            items = self.items(">>")
            return tuple(items)
        if s.startswith("{", self.i):
            self.i += 1
            return frozenset(self.items("}"))
        if s.startswith("[", self.i):
            self.i += 1
            d = {}
            while True:
                self.ws()
                m = re.compile(r"\w+").match(s, self.i)
                k = m.group(0)
                self.i = m.end()
                self.eat("|->")
                d[k] = self.value()
                self.ws()
                if s.startswith(",", self.i):
                    self.i += 1
                    continue
                self.eat("]")
                return Rec(d)
        if s.startswith("(", self.i):
            self.i += 1
            d = {}
            while True:
                k = self.value()
                self.eat(":>")
                d[k] = self.value()
                self.ws()
                if s.startswith("@@", self.i):
                    self.i += 2
                    continue
                self.eat(")")
                return Rec(d)
        if s.startswith('"', self.i):
            j = self.i + 1
            out = []
            while s[j] != '"':
                if s[j] == "\\":
                    j += 1
                out.append(s[j])
                j += 1
            self.i = j + 1
            return "".join(out)
        m = re.compile(r"-?\d+").match(s, self.i)
        if m:
            self.i = m.end()
            return int(m.group(0))
        m = re.compile(r"\w+").match(s, self.i)
        if m:
            self.i = m.end()
            w = m.group(0)
            return True if w == "TRUE" else False if w == "FALSE" else w
        raise ValueError(f"cannot parse at {self.i}: {s[self.i:self.i+30]!r}")

    def items(self, close):
        out = []
        self.ws()
        if self.s.startswith(close, self.i):
            self.i += len(close)
            return out
        while True:
            out.append(self.value())
            self.ws()
            if self.s.startswith(",", self.i):
                self.i += 1
                continue
            self.eat(close)
            return out


class Rec(dict):
    def __hash__(self):
        return hash(tuple(sorted(self.items(), key=repr)))


def parse(s):
    p = _P(s)
    v = p.value()
    return v


def parse_state(label):
    """'/\\ a = 1\n/\\ b = {..}' -> dict"""
    out = {}
    for part in re.split(r"(?:^|\n)/\\ ", label):
        part = part.strip()
        if not part:
            continue
        k, v = part.split(" = ", 1)
        out[k.strip()] = parse(v)
    return out


_NODE = re.compile(r'^(-?\d+) \[label="((?:[^"\\]|\\.)*)"(.*)\];?$')
_EDGE = re.compile(r'^(-?\d+) -> (-?\d+) \[label="((?:[^"\\]|\\.)*)"')


def _unesc(s):
    return s.replace("\\n", "\n").replace('\\"', '"').replace("\\\\", "\\")


def parse_dot(path):
    """returns (nodes: id -> state dict, edges: list of (src, dst, label), inits: set of ids)"""
    nodes, edges, inits = {}, [], set()
    with open(path) as f:
        for line in f:
            line = line.rstrip("\n")
            m = _EDGE.match(line)
            if m:
                edges.append((int(m.group(1)), int(m.group(2)), m.group(3)))
                continue
            m = _NODE.match(line)
            if m:
                nid = int(m.group(1))
                if nid not in nodes:
                    nodes[nid] = parse_state(_unesc(m.group(2)))
                if "style = filled" in m.group(3):
                    inits.add(nid)
    return nodes, edges, inits
