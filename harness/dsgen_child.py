"""Child process of the C03/C04 drivers: runs HISTORIES of real MazeDataset.generate calls in a genuine main
process (pool generation needs non-daemonic, identity-free parents) and records
  * the raw items of every returned dataset,
  * the events of the interposed _maze_gen_init_worker / _generate_maze_helper (module globals of
    maze_dataset.dataset.maze_dataset resolved at call time => no change to the repository); every process
    appends to its own file with a per-process sequence number (no wall-clock merging).
usage: python -m harness.dsgen_child <jobs.json> <out.ndjson>"""
import glob
import json
import os
import signal
import sys
import time
import warnings

warnings.filterwarnings("ignore")
import numpy as np

import maze_dataset.dataset.maze_dataset as md
from maze_dataset.dataset.maze_dataset import MazeDataset, MazeDatasetConfig
from maze_dataset.generation.generators import GENERATORS_MAP

_EVDIR = [None]
_SEQ = [0]
_SLEEP = [0]
_ORIG_INIT = md._maze_gen_init_worker
_ORIG_HELPER = md._generate_maze_helper
_MAIN_PID = os.getpid()
CALL_TIMEOUT_S = int(os.environ.get("VERIF_CALL_TIMEOUT", "75"))


class _CallTimeout(BaseException):
    pass


def _on_alarm(signum, frame):
    raise _CallTimeout()


def _fp(cfg):
    if cfg is None:
        return "unset"
    try:
        return str(cfg.name)
    except Exception:  # noqa: BLE001
        return "?"


def _log(**kw):
    if _EVDIR[0] is None:
        return
    _SEQ[0] += 1
    kw.update(pid=os.getpid(), seq=_SEQ[0])
    with open(os.path.join(_EVDIR[0], f"{os.getpid()}.ndjson"), "a") as f:
        f.write(json.dumps(kw) + "\n")


def init_wrapper(config, *args, **kwargs):
    if os.getpid() != _MAIN_PID and _SEQ[0] and not os.path.exists(os.path.join(_EVDIR[0] or "", f"{os.getpid()}.ndjson")):
        _SEQ[0] = 0  # a freshly forked worker inherits the parent's counter
    try:
        return _ORIG_INIT(config, *args, **kwargs)
    finally:
        _log(ev="init", g=_fp(getattr(md, "_GLOBAL_WORKER_CONFIG", None)))


def helper_wrapper(index, *args, **kwargs):
    g = _fp(getattr(md, "_GLOBAL_WORKER_CONFIG", None))
    if _SLEEP[0]:
        time.sleep(((int(index) * 2654435761 + _SLEEP[0]) % 4) / 1000.0)
    m = None
    try:
        m = _ORIG_HELPER(index, *args, **kwargs)
        return m
    finally:
        _log(ev="task", idx=int(index) + 1, g=g, ok=m is not None)


def install():
    md._maze_gen_init_worker = init_wrapper
    md._generate_maze_helper = helper_wrapper


def make_cfg(c):
    kw = dict(name=c["name"], grid_n=c["grid_n"], n_mazes=c["n_mazes"], maze_ctor=GENERATORS_MAP[c["ctor"]], maze_ctor_kwargs=dict(c.get("ctor_kwargs", {})), seed=c["seed"])
    ek = {}
    for k, v in c.get("endpoint_kwargs", {}).items():
        ek[k] = [tuple(x) for x in v] if isinstance(v, list) else v
    kw["endpoint_kwargs"] = ek
    return MazeDatasetConfig(**kw)


def item_raw(m):
    cl = np.asarray(m.connection_list)
    sol = getattr(m, "solution", None)
    sp, ep = getattr(m, "start_pos", None), getattr(m, "end_pos", None)
    return dict(
        shape=[int(x) for x in cl.shape],
        conn=cl.astype(int).tolist() if cl.ndim == 3 else [],
        sol=[[int(a), int(b)] for a, b in sol] if sol is not None else [],
        start=[int(sp[0]), int(sp[1])] if sp is not None else [],
        end=[int(ep[0]), int(ep[1])] if ep is not None else [],
    )


def run_history(h, evroot):
    # a fresh parent process: the process-global config does not exist yet
    if hasattr(md, "_GLOBAL_WORKER_CONFIG"):
        del md._GLOBAL_WORKER_CONFIG
    out = dict(hid=h["hid"], calls=[])
    for ci, call in enumerate(h["calls"]):
        evdir = os.path.join(evroot, f"h{h['hid']}_c{ci}")
        os.makedirs(evdir, exist_ok=True)
        _EVDIR[0] = evdir
        _SEQ[0] = 0
        _SLEEP[0] = call.get("sleep", 0)
        rec = dict(cfg=call["cfg"], mode=call["mode"], W=call.get("W", 0))
        try:
            cfg = make_cfg(call["cfg"])
            kw = {}
            if call["mode"] == "pool":
                kw = dict(gen_parallel=True, pool_kwargs=dict(processes=call["W"]))
            # watchdog: a generate call that does not come back (observed once in ~1800 pool histories on a heavily loaded
            # machine) is recorded as "timeout" and reported as a machinery-level divergence, never as a verdict
            signal.signal(signal.SIGALRM, _on_alarm)
            signal.alarm(CALL_TIMEOUT_S)
            try:
                ds = MazeDataset.generate(cfg, verbose=False, **kw)
            finally:
                signal.alarm(0)
            rec["res"] = "ok"
            rec["n_got"] = len(ds)
            rec["items"] = [item_raw(m) for m in ds.mazes]
            rec["out_cfg_name"] = str(ds.cfg.name)
        except _CallTimeout:
            rec["res"] = "timeout"
            rec["msg"] = f"generate did not return within {CALL_TIMEOUT_S}s"
            rec["n_got"] = 0
            rec["items"] = []
        except BaseException as e:  # noqa: BLE001 - the code under test may raise anything
            if isinstance(e, (KeyboardInterrupt, SystemExit)):
                raise
            rec["res"] = "raise:" + type(e).__name__
            rec["msg"] = str(e)[:200]
            rec["n_got"] = 0
            rec["items"] = []
        _EVDIR[0] = None
        # collect events: per process in its own order; workers numbered by first appearance
        procs = {}
        for fn in sorted(glob.glob(os.path.join(evdir, "*.ndjson"))):
            evs = []
            for line in open(fn):
                try:
                    evs.append(json.loads(line))
                except ValueError:  # a worker was terminated in the middle of a write
                    pass
            os.remove(fn)
            if not evs:
                continue
            evs.sort(key=lambda e: e["seq"])
            procs[evs[0]["pid"]] = evs
        try:
            os.rmdir(evdir)
        except OSError:
            pass
        rec["events_by_proc"] = [dict(parent=(pid == _MAIN_PID), events=[{k: v for k, v in e.items() if k not in ("pid", "seq")} for e in evs]) for pid, evs in sorted(procs.items())]
        out["calls"].append(rec)
    return out


def main(jobs_path, out_path):
    install()
    jobs = json.load(open(jobs_path))
    evroot = out_path + ".ev"
    os.makedirs(evroot, exist_ok=True)
    with open(out_path, "w") as f:
        for h in jobs:
            f.write(json.dumps(run_history(h, evroot)) + "\n")
            f.flush()
    try:
        os.rmdir(evroot)
    except OSError:
        pass


if __name__ == "__main__":
    main(sys.argv[1], sys.argv[2])
