"""C14 -- token vocabularies and token-id codecs are fixed, duplicate-free, invertible.

(A) Vocab.tla model-checked (Vocab_small.cfg, n = 1..50): CornerFirst(n) is a strictly sorted
    permutation, shells are consecutive blocks, CornerFirst(k) is a prefix of CornerFirst(n) for all
    k < n <= 50, legacy vocabularies duplicate-free / prefix-compatible, CFLess a strict total order;
    ASSUMEs: SpecVocab has 4096 distinct entries at the published offsets.  Vocab_broken.cfg (order
    without the shell component) must be rejected by TLC (PrefixInv).
(C) Trace_Vocab.tla judges dumps of the real code: every position of VOCAB_LIST / VOCAB_TOKEN_TO_INDEX,
    corner_first_ndindex(n) for all n <= 50 (order, permutation, prefix for every pair), every legacy
    tokenizer (3 modes x max_grid_size 1..50: list, map, encode/decode on its own list), the legacy
    corner-first prefix property for every pair of sizes, MazeTokenizerModular.encode/decode on all 4096
    singletons, the whole list, seeded random sequences, and unknown tokens / ids (must raise TokenError).

Interpretation decisions
  * ids are the positions 0..4095; any other integer -- negative ones included -- is an unknown id.
  * the exact layout of a LEGACY vocabulary (where the specials sit, which CTT symbols exist) is not
    fixed by the statement -> Layer M ("M:legacy_layout_differs"); duplicate-freeness, map = inverse
    of list, row-major order of the coordinates, and the corner-first prefix property are Layer P.
  * the error behaviour of the LEGACY codecs is not part of the statement: outcomes are recorded in
    the evidence (notes.legacy_bad_input_outcomes) but not judged.
  * non-integer "ids" (floats, None) are type errors, outside the statement.
"""
import copy
import json

import numpy as np

from harness import lib

MODES = ["AOTP_UT_rasterized", "AOTP_UT_uniform", "AOTP_CTT_indexed"]
NMAX = 50
V = 4096

UNKNOWN_TOKENS = [
    "foo", "", " ", "(50,50)", "(0,50)", "(50,0)", "(-1,0)", "(0, 0)", "( 0,0)", "(0,0", "(00,0)", "(0,0) ", "+256", "+00", "128", "-257", "-0", "00",
    "<RESERVE_707>", "<RESERVE_1596>", "<RESERVE_0>", "<unk>", "<UNK> ", "TARGET_a", "TARGET_AA", "north", "<PAD>", "<A_S>", "<ADJLIST_START", "step", "&&", "|", "THEN ", "<-->;", "=="
]
BAD_IDS_NEG = [-1, -100, -4096, -4097, -(10**6)]
BAD_IDS_BIG = [4096, 4097, 5000, 65535, 10**6, 2**31 - 1]
BADINT = -999999  # stands for "not an integer" in a logged id field


def _lib():
    """the library under test (imported lazily: an import failure is an observation, see main)"""
    from maze_dataset import VOCAB_LIST, VOCAB_TOKEN_TO_INDEX
    from maze_dataset.tokenization.maze_tokenizer import MazeTokenizer, MazeTokenizerModular, TokenizationMode
    from maze_dataset.utils import corner_first_ndindex

    return VOCAB_LIST, VOCAB_TOKEN_TO_INDEX, MazeTokenizer, MazeTokenizerModular, TokenizationMode, corner_first_ndindex


def _run(fn):
    """run fn() -> ('ok', value) | ('raise:<Type>', None); nothing the library raises escapes into the harness"""
    try:
        return "ok", fn()
    except BaseException as e:  # noqa: BLE001 - the code under test may raise anything
        if isinstance(e, (KeyboardInterrupt, SystemExit)):
            raise
        return "raise:" + type(e).__name__, None


def _int(v):
    try:
        if isinstance(v, (bool, float, str, bytes)) or v is None:
            return BADINT
        return int(v)
    except Exception:  # noqa: BLE001
        return BADINT


def _ints(x):
    try:
        return [_int(v) for v in x]
    except Exception:  # noqa: BLE001
        return [BADINT]


def _strs(x):
    try:
        return [v if isinstance(v, str) else "<not-a-string:" + type(v).__name__ + ">" for v in x]
    except Exception:  # noqa: BLE001
        return ["<not-a-sequence>"]


def _items(d):
    """items of a token -> id dict as [[tok, id], ...]"""
    try:
        return [[k if isinstance(k, str) else "<not-a-string>", _int(v)] for k, v in d.items()]
    except Exception:  # noqa: BLE001
        return []


# ------------------------------------------------------------------ observation (real code)
def obs_static():
    VL, T2I, *_ = _lib()
    toks = _strs(VL)
    recs = [dict(kind="pos", pos=i, tok=t, idx=_int(_run(lambda: T2I.get(VL[i], -1))[1])) for i, t in enumerate(toks)]
    recs.append(dict(kind="vocab", list=toks, t2i=_items(T2I)))
    return recs


def obs_cf(m):
    cf = _lib()[5]
    res, lists = _run(lambda: [[_ints(c) for c in cf(k)] for k in range(1, m + 1)])
    return dict(kind="cf", m=m, res=res, lists=lists if res == "ok" else [])


def _legacy(mode, n):
    _, _, MT, _, TM, _ = _lib()
    return MT(tokenization_mode=TM[mode], max_grid_size=n)


def obs_legacy(args):
    mode, n, seed, nseq, singles = args
    res, got = _run(lambda: (lambda tk: (tk, _strs(tk.token_arr), _items(tk.tokenizer_map)))(_legacy(mode, n)))
    if res != "ok":
        return dict(kind="legacy", mode=mode, n=n, seed=seed, res=res, arr=[], map=[], encs=[], decs=[], info={})
    tk, arr, tmap = got
    rng = np.random.default_rng([seed, 14, MODES.index(mode), n])
    seqs = [list(range(len(arr))), list(range(len(arr) - 1, -1, -1))]
    if singles:
        seqs += [[i] for i in range(len(arr))]
    for _ in range(nseq if arr else 0):
        seqs.append(_ints(rng.integers(0, len(arr), size=int(rng.integers(1, 41)))))
    seqs.append([])
    encs, decs = [], []
    for ids in seqs:
        toks = [arr[i] for i in ids]
        r, out = _run(lambda: tk.encode(toks))
        e = dict(toks=toks, res=r, ids=_ints(out) if r == "ok" else [], back_res="skip", back=[])
        if r == "ok":
            br, b = _run(lambda: tk.decode(out))
            e["back_res"], e["back"] = br, (_strs(b) if br == "ok" else [])
        encs.append(e)
        r, out = _run(lambda: tk.decode(ids))
        d = dict(ids=ids, res=r, toks=_strs(out) if r == "ok" else [], back_res="skip", back=[])
        if r == "ok":
            br, b = _run(lambda: tk.encode(out))
            d["back_res"], d["back"] = br, (_ints(b) if br == "ok" else [])
        decs.append(d)
    # recorded, not judged (the statement does not cover legacy error behaviour)
    info = dict(
        unknown_token=_run(lambda: tk.encode(["foo"]))[0],
        id_eq_size=_run(lambda: tk.decode([len(arr)]))[0],
        id_minus_one=_run(lambda: tk.decode([-1]))[0],
    )
    return dict(kind="legacy", mode=mode, n=n, seed=seed, res="ok", arr=arr, map=tmap, encs=encs, decs=decs, info=info)


def obs_legacy_prefix(m):
    res, arrs = _run(lambda: [_strs(_legacy("AOTP_UT_uniform", k).token_arr) for k in range(1, m + 1)])
    return dict(kind="legacy_prefix", mode="AOTP_UT_uniform", m=m, res=res, arrs=arrs if res == "ok" else [])


def obs_enc(toks, form="list"):
    MTM = _lib()[3]
    toks = list(toks)
    res, out = _run(lambda: MTM.encode(list(toks)))
    r = dict(kind="enc", toks=toks, form=form, res=res, ids=_ints(out) if res == "ok" else [], sres="skip", sids=[], back_res="skip", back=[])
    if all(t and t.split() == [t] for t in toks):
        sres, sout = _run(lambda: MTM.encode(" ".join(toks)))
        r["sres"], r["sids"] = sres, (_ints(sout) if sres == "ok" else [])
    if res == "ok":
        br, b = _run(lambda: MTM.decode(out))
        r["back_res"], r["back"] = br, (_strs(b) if br == "ok" else [])
    return r


def _cls(ids):
    neg = any(i < 0 for i in ids)
    big = any(i >= V for i in ids)
    return "valid" if not (neg or big) else "negative_id" if not big else "too_large_id" if not neg else "negative_and_too_large"


def obs_dec(ids, form="list"):
    MTM = _lib()[3]
    ids = [int(i) for i in ids]
    arg = (lambda: np.array(ids, dtype=np.int64)) if form == "ndarray" else (lambda: tuple(ids)) if form == "tuple" else (lambda: list(ids))
    res, out = _run(lambda: MTM.decode(arg()))
    r = dict(kind="dec", ids=ids, form=form, cls=_cls(ids), res=res, toks=_strs(out) if res == "ok" else [], jres="skip", joined="", back_res="skip", back=[])
    if res == "ok":
        jres, j = _run(lambda: MTM.decode(arg(), joined_tokens=True))
        r["jres"], r["joined"] = jres, (j if jres == "ok" and isinstance(j, str) else "")
        if jres == "ok" and not isinstance(j, str):
            r["jres"] = "ok_but_not_a_string"
        br, b = _run(lambda: MTM.encode(out))
        r["back_res"], r["back"] = br, (_ints(b) if br == "ok" else [])
    return r


def _tok(VL, i):
    """token of the real list at a spec-valid id (a list that is too short is reported by the 'vocab' record)"""
    return VL[i] if i < len(VL) and isinstance(VL[i], str) else "<missing:%d>" % i


def obs_codec_batch(args):
    """seeded random sequences over the vocabulary (the driver draws ids; tokens are looked up in the
    real list, so a sequence is 'over the vocabulary' by construction)"""
    seed, k0, k1, maxlen = args
    VL = _lib()[0]
    out = []
    for k in range(k0, k1):
        rng = np.random.default_rng([seed, 1400, k])
        ln = int(rng.integers(2, maxlen + 1)) if k % 10 else int(rng.integers(maxlen, 4 * maxlen))
        # mix: uniform ids / ids near block boundaries / coordinate ids
        mode = k % 3
        if mode == 0:
            ids = rng.integers(0, V, size=ln)
        elif mode == 1:
            edges = np.array([0, 10, 11, 19, 20, 45, 46, 54, 55, 63, 64, 319, 320, 447, 448, 703, 704, 707, 708, 1595, 1596, 1599, 1600, 4095])
            ids = np.clip(rng.choice(edges, size=ln) + rng.integers(-2, 3, size=ln), 0, V - 1)
        else:
            ids = rng.integers(1596, V, size=ln)
        ids = [int(i) for i in ids]
        form = ["list", "ndarray", "tuple"][k % 3]
        out.append(obs_dec(ids, form))
        out.append(obs_enc([_tok(VL, i) for i in ids]))
    return out


def obs_bad(seed):
    VL = _lib()[0]
    out = []
    rng = np.random.default_rng([seed, 1499])
    for t in UNKNOWN_TOKENS:
        out.append(obs_enc([t]))
        for where in ("first", "mid", "last"):
            base = [_tok(VL, int(i)) for i in rng.integers(0, V, size=int(rng.integers(1, 12)))]
            p = 0 if where == "first" else len(base) if where == "last" else len(base) // 2
            out.append(obs_enc(base[:p] + [t] + base[p:]))
    for b in BAD_IDS_NEG + BAD_IDS_BIG:
        for form in ("list", "ndarray"):
            out.append(obs_dec([b], form))
        for where in ("first", "mid", "last"):
            base = [int(i) for i in rng.integers(0, V, size=int(rng.integers(1, 12)))]
            p = 0 if where == "first" else len(base) if where == "last" else len(base) // 2
            out.append(obs_dec(base[:p] + [b] + base[p:]))
    out.append(obs_dec([-1, 4096]))
    return out


def reobserve(case):
    """re-run the real code for a stored case (same inputs), for replay"""
    k = case["kind"]
    if k == "pos":
        VL, T2I, *_ = _lib()
        p = case["pos"]
        tok = _strs(VL)[p] if 0 <= p < len(VL) else ""
        return dict(kind="pos", pos=p, tok=tok, idx=_int(_run(lambda: T2I.get(VL[p], -1))[1]))
    if k == "vocab":
        return obs_static()[-1]
    if k == "cf":
        return obs_cf(case["m"])
    if k == "legacy":
        nseq = max(0, len(case.get("encs", [])) - 3)
        return obs_legacy((case["mode"], case["n"], case.get("seed", 0), nseq, False))
    if k == "legacy_prefix":
        return obs_legacy_prefix(case["m"])
    if k == "enc":
        return obs_enc(case["toks"], case.get("form", "list"))
    if k == "dec":
        return obs_dec(case["ids"], case.get("form", "list"))
    raise lib.MachineryError(f"unknown case kind {k}")


def _case_of(x):
    """stored case: inputs + outcome, without the bulky dumps"""
    k = x["kind"]
    if k == "vocab":
        return dict(kind=k, size=len(x["list"]), map_size=len(x["t2i"]))
    if k == "cf":
        return dict(kind=k, m=x["m"], res=x["res"], last=(x["lists"][-1][:60] if x["lists"] else []))
    if k == "legacy":
        return dict(kind=k, mode=x["mode"], n=x["n"], seed=x.get("seed", 0), res=x["res"], arr=x["arr"][:40], encs=[0] * len(x["encs"]))
    if k == "legacy_prefix":
        return dict(kind=k, mode=x["mode"], m=x["m"], res=x["res"])
    return {kk: vv for kk, vv in x.items() if kk != "id"}


# ------------------------------------------------------------------ canaries
# Hand-made records (never derived from what the code under test returned): each is a well-formed
# observation with exactly one corruption, and the clause that must reject it.  A mutated library can
# therefore never turn a canary into a machinery error.
_SPECIALS = ["<ADJLIST_START>", "<ADJLIST_END>", "<TARGET_START>", "<TARGET_END>", "<ORIGIN_START>", "<ORIGIN_END>", "<PATH_START>", "<PATH_END>", "<-->", ";", "<PADDING>"]
_CF = [
    [[0, 0]],
    [[0, 0], [0, 1], [1, 0], [1, 1]],
    [[0, 0], [0, 1], [1, 0], [1, 1], [0, 2], [2, 0], [1, 2], [2, 1], [2, 2]],
]


def _ut(cells):
    return ["(%d,%d)" % (a, b) for a, b in cells]


def _legacy_rec(mode, n, arr, **kw):
    ids = list(range(len(arr)))
    r = dict(
        kind="legacy", mode=mode, n=n, seed=0, res="ok", arr=list(arr), map=[[t, i] for i, t in enumerate(arr)],
        encs=[dict(toks=list(arr), res="ok", ids=list(ids), back_res="ok", back=list(arr))],
        decs=[dict(ids=list(ids), res="ok", toks=list(arr), back_res="ok", back=list(ids))], info={},
    )
    r.update(kw)
    return r


def _canaries():
    can = []

    def add(rec, clause, f=None):
        c = copy.deepcopy(rec)
        if f is not None:
            f(c)
        can.append((c, clause))

    def swap(lst, i, j):
        lst[i], lst[j] = lst[j], lst[i]

    # positions: two tokens of one shell swapped; range off by one; reserve block one too early; stale index
    add(dict(kind="pos", pos=1602, tok="(2,1)", idx=1602), "position_differs_from_published_layout")
    add(dict(kind="pos", pos=448, tok="-255", idx=448), "position_differs_from_published_layout")
    add(dict(kind="pos", pos=707, tok="<RESERVE_707>", idx=707), "position_differs_from_published_layout")
    add(dict(kind="pos", pos=57, tok="WEST", idx=57), "position_differs_from_published_layout")
    add(dict(kind="pos", pos=4096, tok="(50,0)", idx=4096), "position_differs_from_published_layout")
    add(dict(kind="pos", pos=4095, tok="(49,49)", idx=4094), "token_to_index_not_inverse")
    # whole list: synthetic distinct tokens (layout wrong on purpose; the named clause is what is tested)
    syn = ["t%d" % i for i in range(V)]
    voc = dict(kind="vocab", list=syn, t2i=[[t, i] for i, t in enumerate(syn)])
    add(voc, "vocab_differs_from_published_layout")
    add(voc, "vocab_duplicates", lambda c: c["list"].__setitem__(2000, c["list"][2001]))
    add(voc, "vocab_size_not_4096", lambda c: (c["list"].append("t4096"), c["t2i"].append(["t4096", 4096])))
    add(voc, "token_to_index_not_inverse", lambda c: c["t2i"].__setitem__(5, ["t5", 6]))
    add(voc, "token_to_index_not_inverse", lambda c: c["t2i"].pop())
    # corner-first lists
    cf3 = dict(kind="cf", m=3, res="ok", lists=_CF)
    add(cf3, "cf_differs_from_corner_first_order", lambda c: swap(c["lists"][2], 6, 7))
    add(cf3, "cf_prefix_broken", lambda c: swap(c["lists"][1], 1, 2))
    add(cf3, "cf_not_permutation_of_grid", lambda c: c["lists"][2].__setitem__(8, [0, 0]))
    add(cf3, "cf_raises", lambda c: c.update(res="raise:ValueError", lists=[]))
    # legacy vocabularies
    ras = _legacy_rec("AOTP_UT_rasterized", 2, _SPECIALS + _ut([[0, 0], [0, 1], [1, 0], [1, 1]]))
    add(_legacy_rec("AOTP_UT_rasterized", 2, _SPECIALS + _ut([[0, 0], [1, 0], [0, 1], [1, 1]])), "legacy_not_row_major")
    add(_legacy_rec("AOTP_UT_rasterized", 2, _SPECIALS + _ut([[0, 0], [0, 1], [1, 0]])), "legacy_not_row_major")
    add(ras, "legacy_duplicates", lambda c: c["arr"].__setitem__(13, c["arr"][12]))
    add(ras, "legacy_map_not_inverse", lambda c: c["map"].__setitem__(12, [c["map"][12][0], 13]))
    add(ras, "legacy_map_not_inverse", lambda c: c["map"].pop())
    add(ras, "legacy_encode_wrong_id", lambda c: c["encs"][0]["ids"].__setitem__(3, 4))
    add(ras, "legacy_decode_of_encode_not_identity", lambda c: c["encs"][0]["back"].__setitem__(3, ";"))
    add(ras, "legacy_decode_wrong_token", lambda c: c["decs"][0]["toks"].__setitem__(3, ";"))
    add(ras, "legacy_encode_of_decode_not_identity", lambda c: c["decs"][0]["back"].__setitem__(3, 4))
    add(ras, "legacy_encode_rejects_own_token", lambda c: c["encs"][0].update(res="raise:TokenError", ids=[], back_res="skip", back=[]))
    add(ras, "legacy_decode_rejects_own_id", lambda c: c["decs"][0].update(res="raise:TokenError", toks=[], back_res="skip", back=[]))
    add(ras, "legacy_vocabulary_raises", lambda c: c.update(res="raise:ValueError", arr=[], map=[], encs=[], decs=[]))
    add(_legacy_rec("AOTP_CTT_indexed", 2, _SPECIALS + ["(", ",", ")", "0", "1", "2"]), "M:legacy_layout_differs")
    add(_legacy_rec("AOTP_UT_uniform", 3, _SPECIALS + _ut([[0, 0], [0, 1], [1, 0], [1, 1], [0, 2], [2, 0], [2, 1], [1, 2], [2, 2]])), "M:legacy_layout_differs")
    lp = dict(kind="legacy_prefix", mode="AOTP_UT_uniform", m=3, res="ok", arrs=[list(_SPECIALS) + _ut(c) for c in _CF])
    add(lp, "legacy_prefix_broken", lambda c: swap(c["arrs"][1], 12, 13))
    add(lp, "legacy_prefix_broken", lambda c: c["arrs"].__setitem__(2, _SPECIALS + _ut([[i, j] for i in range(3) for j in range(3)])))
    add(lp, "legacy_vocabulary_raises", lambda c: c.update(res="raise:KeyError", arrs=[]))
    # modular codec
    toks, ids = ["(0,0)", "THEN", "<PADDING>", "-1", "STEP"], [1596, 17, 10, 703, 704]
    enc = dict(kind="enc", toks=list(toks), form="list", res="ok", ids=list(ids), sres="ok", sids=list(ids), back_res="ok", back=list(toks))
    add(enc, "encode_wrong_id", lambda c: c["ids"].__setitem__(1, 18))
    add(enc, "encode_wrong_id", lambda c: c["ids"].pop())
    add(enc, "decode_of_encode_not_identity", lambda c: c["back"].__setitem__(1, ":"))
    add(enc, "encode_of_joined_string_differs", lambda c: c["sids"].__setitem__(4, 705))
    add(enc, "encode_rejects_vocabulary_token", lambda c: c.update(res="raise:TokenError", ids=[], back_res="skip", back=[]))
    unk = dict(kind="enc", toks=["(0,0)", "foo"], form="list", res="raise:TokenError", ids=[], sres="raise:TokenError", sids=[], back_res="skip", back=[])
    add(unk, "unknown_token_no_token_error", lambda c: c.update(res="ok", ids=[1596, 19]))
    add(unk, "unknown_token_no_token_error", lambda c: c.update(res="raise:KeyError"))
    add(unk, "unknown_token_no_token_error", lambda c: c.update(toks=["(50,0)"], res="raise:ValueError"))
    dec = dict(kind="dec", ids=list(ids), form="list", cls="valid", res="ok", toks=list(toks), jres="ok", joined=" ".join(toks), back_res="ok", back=list(ids))
    add(dec, "decode_wrong_token", lambda c: c["toks"].__setitem__(3, "-2"))
    add(dec, "encode_of_decode_not_identity", lambda c: c["back"].__setitem__(0, 1597))
    add(dec, "decode_joined_differs", lambda c: c.update(joined=c["joined"] + " "))
    add(dec, "decode_rejects_vocabulary_id", lambda c: c.update(res="raise:TokenError", toks=[], jres="skip", joined="", back_res="skip", back=[]))
    bad = dict(kind="dec", ids=[5, 4096], form="list", cls="too_large_id", res="raise:TokenError", toks=[], jres="skip", joined="", back_res="skip", back=[])
    add(bad, "too_large_id_no_token_error", lambda c: c.update(res="ok", toks=[";", "(49,49)"]))
    add(bad, "too_large_id_no_token_error", lambda c: c.update(res="raise:IndexError"))
    add(bad, "negative_id_no_token_error", lambda c: c.update(ids=[5, -4097], res="raise:IndexError"))
    add(bad, "negative_id_no_token_error", lambda c: c.update(ids=[-1], res="ok", toks=["(49,49)"]))
    return can


# ------------------------------------------------------------------ main
CAP_PER_CLAUSE = 15  # a changed layout makes thousands of derived codec records fail: report a few per clause, count the rest


def _judge(chk, recs, canaries):
    """lib.judge_with_canaries with a cap on reported violations per clause (same canary policy)"""
    for i, x in enumerate(recs):
        x["id"] = i
    allrecs = list(recs)
    cans = []
    for k, (c, cl) in enumerate(canaries):
        c = dict(c)
        c["id"] = lib.CANARY_BASE + k
        cans.append((c, cl))
        allrecs.insert((len(allrecs) * (k + 1)) // (len(canaries) + 1), c)
    res = lib.oracle("Trace_Vocab", allrecs, tag="c14")
    for c, cl in cans:
        got = res.verdicts.pop(c["id"], [])
        if cl not in got:
            raise lib.MachineryError(f"canary not rejected by Trace_Vocab: expected clause {cl!r}, got {got} (oracle does not bind this field)")
    chk.notes["canaries_rejected"] = chk.notes.get("canaries_rejected", 0) + len(cans)
    res.records -= len(cans)
    chk.add_oracle("Trace_Vocab", res, "every vocabulary position, corner-first lists, legacy vocabularies and codec calls judged against Vocab.tla")
    per_clause, per_key, kept = {}, {}, {}
    by_id = {x["id"]: x for x in recs}
    for rid, clauses in sorted(res.verdicts.items()):
        keep = []
        x = by_id.get(rid, {})
        for c in clauses:
            # the cap is per (clause, class of input) so that one (possibly known) cause cannot hide another
            key = (c, x.get("cls", x.get("kind", "")))
            per_clause[c] = per_clause.get(c, 0) + 1
            per_key[key] = per_key.get(key, 0) + 1
            if per_key[key] <= CAP_PER_CLAUSE:
                keep.append(c)
        if keep:
            kept[rid] = keep
    chk.notes["rejected_records_by_clause"] = per_clause
    res.verdicts = kept
    chk.judge({x["id"]: _case_of(x) for x in recs}, res, label="c14")
    return res


def _shuffle(recs, seed):
    order = np.random.default_rng([seed, 1414]).permutation(len(recs))
    return [recs[i] for i in order]


def main(chk: lib.Check) -> int:
    thorough = chk.tier == "thorough"
    chk.rule = (
        "cases = one per vocabulary position (4096), the whole list/map, corner_first_ndindex for every n<=50 (with all smaller n for the prefix "
        "clause), every legacy (mode, max_grid_size<=50) vocabulary with encode/decode over its own list, every legacy corner-first prefix pair, "
        "MazeTokenizerModular encode/decode on all 4096 singletons, the whole list, seeded random sequences (uniform ids, ids around block "
        "boundaries, coordinate ids; list/ndarray/tuple inputs), unknown tokens and out-of-range ids alone and embedded; "
        "non-trivial = every case except codec sequences of length < 2 that are valid"
    )
    # ---- (A) design level
    r = lib.tlc_design("Vocab", "Vocab_small.cfg", expect_actions=["VNext"], tag="s")
    chk.add_model("Vocab/n<=50", r, "n = 1..50: permutation, strictly sorted, shells, prefix for all k<n, legacy vocabularies, total order (n<=12 pairs, n<=5 triples); ASSUME 4096 distinct entries at published offsets")
    r = lib.tlc_expect_violation("Vocab", "Vocab_broken.cfg", "PrefixInv", tag="b")
    chk.add_model("Vocab/broken-order", r, "order without the shell component: TLC rejects PrefixInv (non-vacuity)")

    # ---- (C) observations
    res, _ = _run(_lib)
    if res != "ok":
        # the vocabulary module does not even import (e.g. a duplicated field name): nothing can be dumped
        chk.violation("library_import_raises", dict(kind="import", res=res), "c14")
        chk.assumptions = ["import of maze_dataset failed; no observation possible"]
        return chk.finish("the library under test could not be imported")
    recs = obs_static()
    recs += lib.pmap(obs_cf, list(range(1, NMAX + 1)), chunksize=2)
    nseq = 40 if thorough else 12
    leg = lib.pmap(obs_legacy, [(m, n, chk.seed, nseq, thorough or n <= 12) for n in range(1, NMAX + 1) for m in MODES], chunksize=3)
    for x in leg:
        x["seed"] = chk.seed
    recs += leg
    # the same vocabularies built in DECREASING size order inside each worker process (and once more in a scrambled order):
    # a vocabulary must not depend on which other vocabularies were built earlier in the process
    desc = [(m, n, chk.seed + 1, 2, False) for n in range(NMAX, 0, -1) for m in MODES]
    leg2 = lib.pmap(obs_legacy, desc, chunksize=len(desc) // 8 + 1)
    scr = [(m, n, chk.seed + 2, 2, False) for n in [40, 3, 17, 2, 50, 7, 1, 23, 4, 12, 5, 33, 6, 9] for m in MODES]
    leg2 += lib.pmap(obs_legacy, [scr], chunksize=1) if False else [obs_legacy(a) for a in scr]
    for x in leg2:
        x["seed"] = chk.seed + 1
    recs += leg2
    recs += lib.pmap(obs_legacy_prefix, list(range(1, NMAX + 1)), chunksize=2)
    VL = _lib()[0]
    n_vl = len(VL)
    codec = []
    for i in range(max(n_vl, V)):
        codec.append(obs_dec([i]))
        if i < n_vl:
            codec.append(obs_enc([_tok(VL, i)]))
    whole = [_tok(VL, i) for i in range(n_vl)]
    codec += [obs_dec(list(range(V))), obs_dec(list(range(V - 1, -1, -1)), "ndarray"), obs_enc(whole), obs_enc(whole[::-1]), obs_dec([]), obs_enc([])]
    nrand = 80000 if thorough else 3000
    step = 250
    for sub in lib.pmap(obs_codec_batch, [(chk.seed, k, min(k + step, nrand), 64) for k in range(0, nrand, step)]):
        codec += sub
    bad = obs_bad(chk.seed)
    recs += codec + bad

    # evidence accounting
    legacy_info = {}
    for x in recs:
        k = x["kind"]
        if k == "legacy":
            for kk, vv in x.get("info", {}).items():
                legacy_info.setdefault(kk, {}).setdefault(vv, 0)
                legacy_info[kk][vv] += 1
            chk.count([k, x["mode"], x["n"]], True)
            chk.evaluations += len(x["encs"]) + len(x["decs"])
        elif k == "enc":
            chk.count([k, x["toks"]], len(x["toks"]) >= 2 or x["res"] != "ok")
        elif k == "dec":
            chk.count([k, x["ids"], x["form"]], len(x["ids"]) >= 2 or x["res"] != "ok" or x["cls"] != "valid")
        elif k == "pos":
            chk.count([k, x["pos"]], True)
        else:
            chk.count([k, x.get("m", 0)], True)
    chk.notes["legacy_bad_input_outcomes"] = legacy_info
    chk.notes["records_by_kind"] = {k: sum(1 for x in recs if x["kind"] == k) for k in ("pos", "vocab", "cf", "legacy", "legacy_prefix", "enc", "dec")}
    chk.notes["bad_input_records"] = len(bad)
    import maze_dataset

    chk.notes["library_under_test"] = str(maze_dataset.__file__)
    chk.notes["canary_policy"] = "canaries are hand-made synthetic records, independent of what the code under test returned"
    def first(pred, pool):
        return next((x for x in pool if pred(x)), None)

    for smp in (
        first(lambda x: x["kind"] == "pos" and x["pos"] == 1602, recs),
        first(lambda x: x["kind"] == "cf" and x["m"] == 3, recs),
        (lambda lg: lg and dict(kind="legacy", mode=lg["mode"], n=3, arr=lg["arr"], enc=lg["encs"][-2:]))(first(lambda x: x["kind"] == "legacy" and x["mode"] == "AOTP_UT_uniform" and x["n"] == 3, recs)),
        first(lambda x: x["kind"] == "dec" and 3 <= len(x["ids"]) <= 8, codec),
        first(lambda x: x["kind"] == "enc" and len(x["toks"]) > 1, bad),
        first(lambda x: x["kind"] == "dec" and x["ids"] == [4096], bad),
    ):
        if smp:
            chk.sample(smp)

    canaries = _canaries()
    recs = _shuffle(recs, chk.seed)
    _judge(chk, recs, canaries)
    chk.exhaustive = True
    chk.notes["exhaustive_scope"] = (
        "all 4096 positions and singletons (encode and decode); corner_first_ndindex(n) for all n<=50 and the prefix clause for all 1225 pairs; "
        "all 3 legacy modes x max_grid_size 1..50; legacy corner-first prefix for all 1225 pairs; token sequences of length >= 2 are sampled "
        f"({nrand} seeded sequences each for encode and decode, lengths 2..256) plus the whole list forwards/backwards"
    )
    chk.assumptions = [
        "TLC, CommunityModules JSON reader / SetToSortSeq, CPython",
        "the published layout was transcribed by hand from the documentation of constants.py into Vocab.tla (cross-checked against the ids printed in notebooks/demo_mazetokenizermodular.ipynb)",
        "token sequences longer than 1 are sampled, not exhaustive (the codecs are elementwise maps; every single element is covered)",
        "legacy error behaviour and non-integer ids are outside the statement",
    ]
    return chk.finish(
        "Vocab.tla model-checked for n<=50 (broken order rejected); every position of the real vocabulary, every corner-first list, every legacy "
        "vocabulary and every recorded encode/decode call judged by the TLA+ oracle Trace_Vocab"
    )


def replay(path: str) -> int:
    d = json.load(open(path))
    case = d["case"]
    rec = reobserve(case)
    rec["id"] = 0
    out = lib.oracle("Trace_Vocab", [rec], tag="rp")
    v = out.verdicts.get(0, [])
    show = {k: rec[k] for k in rec if k in ("kind", "pos", "tok", "idx", "m", "mode", "n", "toks", "ids", "res", "back", "joined")}
    print("replay:", json.dumps(show)[:500], "verdict:", v)
    if any(not c.startswith("M:") for c in v):
        print(f"VIOLATION property=C14 replay={path}")
        return 1
    return 0
