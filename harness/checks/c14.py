"""C14 -- token vocabularies and token-id codecs are fixed, duplicate-free, invertible.

(A) Vocab.tla model-checked (Vocab_small.cfg, n = 1..50): CornerFirst(n) is a strictly sorted
    permutation, shells are consecutive blocks, CornerFirst(k) is a prefix of CornerFirst(n) for all
    k < n <= 50, legacy vocabularies duplicate-free / prefix-compatible, CFLess a strict total order;
    ASSUMEs: SpecVocab has 4096 distinct entries at the published offsets.  Vocab_broken.cfg (order
    without the shell component) must be rejected by TLC (PrefixInv).
(C) Trace_Vocab.tla judges dumps of the real code: every position of VOCAB_LIST / VOCAB_TOKEN_TO_INDEX,
    corner_first_ndindex(n) for all n <= 50 (order, permutation, prefix for every pair), every legacy
    tokenizer (3 modes x max_grid_size 1..50: list, map, encode/decode on its own list), the legacy
    corner-first prefix property for every pair of sizes, MazeTokenizerModular.encode/decode on all 4096
    singletons, the whole list, seeded random sequences, and unknown tokens / ids (must raise TokenError).

Interpretation decisions
  * ids are the positions 0..4095; any other integer -- negative ones included -- is an unknown id.
  * the exact layout of a LEGACY vocabulary (where the specials sit, which CTT symbols exist) is not
    fixed by the statement -> Layer M ("M:legacy_layout_differs"); duplicate-freeness, map = inverse
    of list, row-major order of the coordinates, and the corner-first prefix property are Layer P.
  * the error behaviour of the LEGACY codecs is not part of the statement: outcomes are recorded in
    the evidence (notes.legacy_bad_input_outcomes) but not judged.
  * non-integer "ids" (floats, None) are type errors, outside the statement.

Second audit (input / history classes C-H of AUDIT2_PROMPT)
  C  falsy values: id 0 / position 0 / the empty sequence in EVERY argument form (a 1-element ndarray holding id 0 is
     falsy, a longer one has no truth value), "" and [] for the string form of encode (also the legacy one),
     joined_tokens given as False explicitly, max_grid_size = 0 and corner_first_ndindex(0) (outside 1..50: Layer M).
  D  does not apply (vocabularies are about square n x n coordinate sets; oblong (i, j) with i != j are the
     coordinate tokens themselves, every one of which is checked position by position).
  E  every encode / decode call gets the CALLER'S OWN object (list, int64 / int8 / ... ndarray, strided view), the
     object is compared with a snapshot after the call (M:argument_modified) and overwritten in place BEFORE the
     result is read; lists returned by corner_first_ndindex / token_arr / tokenizer_map of a legacy tokenizer are
     cleared after use, and the next tokenizer / call in the same process must not notice.
  F  legacy tokenizers built through other routes (TokenizationMode.to_legacy_tokenizer, load(serialize()),
     dataclasses.replace of a tokenizer of another size whose cached vocabulary was already built, numpy-int
     max_grid_size) and with the properties read in another order (tokenizer_map / encode before token_arr);
     vocab_size / n_tokens / padding_token_index (Layer M: derived values the statement does not name); the static
     vocabulary dumped again at the END of the run and through MazeTokenizerModular instances (default, from_legacy)
     and VOCAB.values(); sequences with duplicated elements.
  G  decode: list / tuple / range / int64, int32, int16, uint16, int8, uint8 ndarray / list of numpy ints /
     non-contiguous view; encode: list / tuple / string (P), numpy string array and one-shot iterator (Layer M: not
     a "str | list[str]").  One-shot iterators are NOT given to MazeTokenizerModular.decode: it is declared for a
     Sequence and reads its argument twice (outside the quantifier "token sequences").
  H  lengths 0, 1, 2 (also [0, 0]) x every form x joined / not joined x class / instance call.
"""
import copy
import dataclasses
import json

import numpy as np

from harness import lib

MODES = ["AOTP_UT_rasterized", "AOTP_UT_uniform", "AOTP_CTT_indexed"]
NMAX = 50
V = 4096

UNKNOWN_TOKENS = [
    "foo", "", " ", "(50,50)", "(0,50)", "(50,0)", "(-1,0)", "(0, 0)", "( 0,0)", "(0,0", "(00,0)", "(0,0) ", "+256", "+00", "128", "-257", "-0", "00",
    "<RESERVE_707>", "<RESERVE_1596>", "<RESERVE_0>", "<unk>", "<UNK> ", "TARGET_a", "TARGET_AA", "north", "<PAD>", "<A_S>", "<ADJLIST_START", "step", "&&", "|", "THEN ", "<-->;", "=="
]
BAD_IDS_NEG = [-1, -100, -4096, -4097, -(10**6)]
BAD_IDS_BIG = [4096, 4097, 5000, 65535, 10**6, 2**31 - 1]
BADINT = -999999  # stands for "not an integer" in a logged id field


def _lib():
    """the library under test (imported lazily: an import failure is an observation, see main)"""
    from maze_dataset import VOCAB_LIST, VOCAB_TOKEN_TO_INDEX
    from maze_dataset.tokenization.maze_tokenizer import MazeTokenizer, MazeTokenizerModular, TokenizationMode
    from maze_dataset.utils import corner_first_ndindex

    return VOCAB_LIST, VOCAB_TOKEN_TO_INDEX, MazeTokenizer, MazeTokenizerModular, TokenizationMode, corner_first_ndindex


def _run(fn):
    """run fn() -> ('ok', value) | ('raise:<Type>', None); nothing the library raises escapes into the harness"""
    try:
        return "ok", fn()
    except BaseException as e:  # noqa: BLE001 - the code under test may raise anything
        if isinstance(e, (KeyboardInterrupt, SystemExit)):
            raise
        return "raise:" + type(e).__name__, None


def _int(v):
    try:
        if isinstance(v, (bool, float, str, bytes)) or v is None:
            return BADINT
        return int(v)
    except Exception:  # noqa: BLE001
        return BADINT


def _ints(x):
    try:
        return [_int(v) for v in x]
    except Exception:  # noqa: BLE001
        return [BADINT]


def _strs(x):
    try:
        return [v if isinstance(v, str) else "<not-a-string:" + type(v).__name__ + ">" for v in x]
    except Exception:  # noqa: BLE001
        return ["<not-a-sequence>"]


def _items(d):
    """items of a token -> id dict as [[tok, id], ...]"""
    try:
        return [[k if isinstance(k, str) else "<not-a-string>", _int(v)] for k, v in d.items()]
    except Exception:  # noqa: BLE001
        return []


# ------------------------------------------------------------------ observation (real code)
def obs_static():
    VL, T2I, *_ = _lib()
    toks = _strs(VL)
    recs = [dict(kind="pos", pos=i, tok=t, idx=_int(_run(lambda: T2I.get(VL[i], -1))[1])) for i, t in enumerate(toks)]
    recs.append(obs_vocab("VOCAB_LIST"))
    return recs


VOCAB_SRCS = ("VOCAB_LIST", "VOCAB_LIST@end", "constants", "VOCAB.values", "instance", "from_legacy")


def obs_vocab(src):
    """the whole static vocabulary as seen through one of its access paths (class F: the same list must come out of
    every path, at the start and at the END of the run, after all the codec calls made in this process)"""
    VL, T2I, _, MTM, TM, _ = _lib()
    vsize = pad = -1
    if src in ("VOCAB_LIST", "VOCAB_LIST@end"):
        import maze_dataset

        res, got = _run(lambda: (_strs(maze_dataset.VOCAB_LIST), _items(maze_dataset.VOCAB_TOKEN_TO_INDEX)))
    elif src == "constants":
        from maze_dataset import constants

        res, got = _run(lambda: (_strs(constants.VOCAB_LIST), _items(constants.VOCAB_TOKEN_TO_INDEX)))
    elif src == "VOCAB.values":
        from maze_dataset import VOCAB

        res, got = _run(lambda: (_strs(list(VOCAB.values())), _items(T2I)))
        vsize = _int(_run(lambda: len(VOCAB))[1])
    else:
        m = _mtm(src)
        res, got = _run(lambda: (_strs(m.token_arr), _items(m.tokenizer_map)))
        vsize, pad = _int(_run(lambda: m.vocab_size)[1]), _int(_run(lambda: m.padding_token_index)[1])
    lst, t2i = got if res == "ok" else (["<" + res + ">"], [])
    return dict(kind="vocab", src=src, list=lst, t2i=t2i, vsize=-1 if vsize == BADINT else vsize, pad=-1 if pad == BADINT else pad)


def _cf_call(cf, k, style):
    """corner_first_ndindex(k) in one of four spellings (default ndim / explicit ndim / keywords / numpy int);
    the returned list is converted and then CLEARED: it belongs to the caller, later calls must not notice"""
    out = cf(k) if style == 0 else cf(k, 2) if style == 1 else cf(n=k, ndim=2) if style == 2 else cf(np.int64(k))
    got = [_ints(c) for c in out]
    _clobber(out, (0, 0))
    if isinstance(out, list):
        del out[:]
    return got


def obs_cf(m):
    cf = _lib()[5]
    def go():
        lists = [_cf_call(cf, k, (m + k) % 4) for k in range(1, m + 1)]
        # the list for n = m is asked for a second time, in the same spelling, after the first answer was wrecked
        lists[-1] = _cf_call(cf, m, (m + m) % 4)
        return lists

    res, lists = _run(go)
    return dict(kind="cf", m=m, res=res, lists=lists if res == "ok" else [])


def obs_cf0():
    cf = _lib()[5]
    res, out = _run(lambda: [_ints(c) for c in cf(0)])
    return dict(kind="cf0", res=res, list=out if res == "ok" else [])


ROUTES = ("ctor", "factory", "load", "npint", "replace")
LEG_ENC_FORMS = ("list", "tuple")
LEG_DEC_FORMS = ("list", "ndarray", "tuple", "int16", "npints")
JOIN_MAX = 64  # string form of encode / joined form of decode for sequences up to this length


def _legacy(mode, n, route="ctor"):
    """a legacy tokenizer for (mode, max_grid_size = n), built through one of several routes (class F)"""
    _, _, MT, _, TM, _ = _lib()
    if route == "factory":
        return TM[mode].to_legacy_tokenizer(n)
    if route == "load":
        return MT.load(MT(tokenization_mode=TM[mode], max_grid_size=n).serialize())
    if route == "npint":
        return MT(tokenization_mode=TM(mode), max_grid_size=np.int64(n))
    if route == "replace":
        # a tokenizer of ANOTHER size whose cached vocabulary already exists; the copy must have its own
        other = MT(tokenization_mode=TM[mode], max_grid_size=n + 1)
        _ = other.token_arr, other.tokenizer_map, other.vocab_size
        return dataclasses.replace(other, max_grid_size=n)
    return MT(tokenization_mode=TM[mode], max_grid_size=n)


def _legacy_build(mode, n, route):
    tk = _legacy(mode, n, route)
    # the order in which the (cached) properties are first read must not matter
    if route == "npint":
        tk.encode([])
        tk.decode([0])
    if route == "replace":
        _ = tk.vocab_size
    if route in ("factory", "npint"):
        tmap = tk.tokenizer_map
        arr = tk.token_arr
    else:
        arr = tk.token_arr
        tmap = tk.tokenizer_map
    return tk, _strs(arr), _items(tmap)


def _wreck(tk):
    arr, tmap = tk.token_arr, tk.tokenizer_map
    _clobber(arr, "<clobbered>")
    _clobber(tmap, None)


def _m1(v):
    v = _int(v)
    return -1 if v == BADINT else v


def obs_legacy(args):
    mode, n, seed, nseq, singles = args[:5]
    route = args[5] if len(args) > 5 else "ctor"
    layer = "P" if 1 <= n <= NMAX else "M"  # max_grid_size = 0 is outside the statement's 1..50
    if route != "ctor":
        # history (classes A / E): another tokenizer of the same mode and size was built in this process before, and
        # the caller wrecked the list / dict it got from it
        _run(lambda: _wreck(_legacy(mode, n, "ctor")))
    res, got = _run(lambda: _legacy_build(mode, n, route))
    if res != "ok":
        return dict(kind="legacy", mode=mode, n=n, seed=seed, route=route, layer=layer, res=res, arr=[], map=[], encs=[], decs=[], info={}, vsize=-1, ntok=-1, pad=-1)
    tk, arr, tmap = got
    rng = np.random.default_rng([seed, 14, MODES.index(mode), n])
    seqs = [list(range(len(arr))), list(range(len(arr) - 1, -1, -1))]
    # shortest sequences with the falsy id 0 / a duplicated element / the last id (classes C, F, H)
    seqs += [[0], [0, 0], [len(arr) - 1, 0]] if arr else [[], [], []]
    if singles:
        seqs += [[i] for i in range(len(arr))]
    for _ in range(nseq if arr else 0):
        seqs.append(_ints(rng.integers(0, len(arr), size=int(rng.integers(1, 41)))))
    seqs.append([])
    encs, decs = [], []
    for q, ids in enumerate(seqs):
        ef = LEG_ENC_FORMS[(q + n) % len(LEG_ENC_FORMS)]
        df = LEG_DEC_FORMS[(q + n + MODES.index(mode)) % len(LEG_DEC_FORMS)]
        toks = [arr[i] for i in ids]
        a = _toks_arg(toks, ef)
        r, out = _run(lambda: tk.encode(a))
        argmod = _changed(a, toks)
        _clobber(a, "<PADDING>")
        e = dict(toks=toks, form=ef, argmod=argmod, res=r, ids=_ints(out) if r == "ok" else [], sres="skip", sids=[], back_res="skip", back=[])
        if r == "ok":
            br, b = _run(lambda: tk.decode(out))
            e["back_res"], e["back"] = br, (_strs(b) if br == "ok" else [])
            if len(toks) <= JOIN_MAX and all(t and t.split() == [t] for t in toks):
                sres, sout = _run(lambda: tk.encode(" ".join(toks)))
                e["sres"], e["sids"] = sres, (_ints(sout) if sres == "ok" else [])
        encs.append(e)
        a = _ids_arg(ids, df)
        r, out = _run(lambda: tk.decode(a))
        argmod = _changed(a, ids)
        _clobber(a, 3)
        d = dict(ids=ids, form=df, argmod=argmod, res=r, toks=_strs(out) if r == "ok" else [], jres="skip", joined="", back_res="skip", back=[])
        if r == "ok":
            br, b = _run(lambda: tk.encode(out))
            d["back_res"], d["back"] = br, (_ints(b) if br == "ok" else [])
            if len(ids) <= JOIN_MAX:
                a2 = _ids_arg(ids, df)
                jres, j = _run(lambda: tk.decode(a2, joined_tokens=True))
                d["jres"], d["joined"] = (jres, j) if jres == "ok" and isinstance(j, str) else ("ok_but_not_a_string" if jres == "ok" else jres, "")
                d["argmod"] = argmod or _changed(a2, ids)
        decs.append(d)
    # recorded, not judged (the statement does not cover legacy error behaviour)
    info = dict(
        unknown_token=_run(lambda: tk.encode(["foo"]))[0],
        id_eq_size=_run(lambda: tk.decode([len(arr)]))[0],
        id_minus_one=_run(lambda: tk.decode([-1]))[0],
    )
    vsize, ntok, pad = _m1(_run(lambda: tk.vocab_size)[1]), _m1(_run(lambda: tk.n_tokens)[1]), _m1(_run(lambda: tk.padding_token_index)[1])
    # the returned list / dict belong to the caller: wreck them; tokenizers built later in this process must not notice
    _run(lambda: _wreck(tk))
    return dict(kind="legacy", mode=mode, n=n, seed=seed, route=route, layer=layer, res="ok", arr=arr, map=tmap, encs=encs, decs=decs, info=info, vsize=vsize, ntok=ntok, pad=pad)


def _prefix_arr(k):
    tk = _legacy("AOTP_UT_uniform", k, ROUTES[k % len(ROUTES)])
    got = _strs(tk.token_arr)
    _run(lambda: _wreck(tk))
    return got


def obs_legacy_prefix(m):
    # sizes built in increasing order for even m, in decreasing order for odd m
    order = list(range(1, m + 1)) if m % 2 == 0 else list(range(m, 0, -1))
    res, arrs = _run(lambda: dict((k, _prefix_arr(k)) for k in order))
    return dict(kind="legacy_prefix", mode="AOTP_UT_uniform", m=m, res=res, arrs=[arrs[k] for k in range(1, m + 1)] if res == "ok" else [])


# ---- argument forms (classes E / G): every call gets an object that belongs to the caller
ENC_FORMS_P = ("list", "tuple")
ENC_FORMS_M = ("strarray", "gen")  # not a "str | list[str]": judged as Layer M
_DT = dict(ndarray=np.int64, int32=np.int32, int16=np.int16, uint16=np.uint16, int8=np.int8, uint8=np.uint8)
DEC_FORMS = ("list", "ndarray", "tuple", "int16", "npints", "int32", "strided", "uint16", "int8", "uint8", "range")


def _as_range(ids):
    if not ids:
        return range(0)
    step = ids[1] - ids[0] if len(ids) > 1 else 1
    if step == 0:
        return None
    r = range(ids[0], ids[0] + step * len(ids), step)
    return r if list(r) == list(ids) else None


def _fits(ids, form):
    if form in _DT:
        ii = np.iinfo(_DT[form])
        return all(ii.min <= i <= ii.max for i in ids)
    if form == "range":
        return _as_range(ids) is not None
    return True


def _ids_arg(ids, form):
    """the ids as the caller's own object of the given form"""
    if form == "list":
        return list(ids)
    if form == "tuple":
        return tuple(ids)
    if form == "npints":
        return [np.int64(i) for i in ids]
    if form == "range":
        return _as_range(ids)
    if form == "strided":  # non-contiguous view; the gaps hold another (valid) id
        base = np.ones(2 * len(ids) + 1, dtype=np.int64)
        base[1::2] = ids
        return base[1::2]
    return np.array(ids, dtype=_DT[form])


def _toks_arg(toks, form):
    if form == "list":
        return list(toks)
    if form == "tuple":
        return tuple(toks)
    if form == "gen":
        return iter(list(toks))
    if form == "strarray":
        return np.array(list(toks), dtype=str)
    raise lib.MachineryError(f"unknown encode form {form}")


def _changed(arg, orig):
    """did the call modify the caller's object?  (immutable forms cannot change)"""
    try:
        if isinstance(arg, np.ndarray):
            return arg.tolist() != list(orig)
        if isinstance(arg, list):
            if len(arg) != len(orig):
                return True
            for a, b in zip(arg, orig):
                if isinstance(b, str):
                    if not isinstance(a, str) or a != b:
                        return True
                elif _int(a) != b:
                    return True
            return False
    except Exception:  # noqa: BLE001
        return True
    return False


def _clobber(arg, val):
    """overwrite the caller's object in place (before the result is read)"""
    try:
        if isinstance(arg, np.ndarray):
            arg[...] = val
            if arg.base is not None:
                arg.base[...] = val
        elif isinstance(arg, list):
            arg[:] = [val] * (len(arg) + 1)
        elif isinstance(arg, dict):
            arg.clear()
    except Exception:  # noqa: BLE001
        pass


_INST = {}


def _mtm(via):
    """MazeTokenizerModular itself (static call) or an instance (default / built from a legacy mode)"""
    _, _, _, MTM, TM, _ = _lib()
    if via == "class":
        return MTM
    if via not in _INST:
        _INST[via] = MTM() if via == "instance" else MTM.from_legacy(TM.AOTP_UT_uniform)
    return _INST[via]


def obs_enc(toks, form="list", via="class"):
    MTM = _mtm(via)
    toks = list(toks)
    arg = _toks_arg(toks, form)
    res, out = _run(lambda: MTM.encode(arg))
    argmod = _changed(arg, toks)
    _clobber(arg, "<PADDING>")  # a result that is (or shares memory with) the argument is now garbage
    r = dict(kind="enc", toks=toks, form=form, via=via, layer="M" if form in ENC_FORMS_M else "P", argmod=argmod, res=res, ids=_ints(out) if res == "ok" else [], sres="skip", sids=[], back_res="skip", back=[])
    if all(t and t.split() == [t] for t in toks):
        sres, sout = _run(lambda: MTM.encode(" ".join(toks)))
        r["sres"], r["sids"] = sres, (_ints(sout) if sres == "ok" else [])
    if res == "ok":
        br, b = _run(lambda: MTM.decode(out))
        r["back_res"], r["back"] = br, (_strs(b) if br == "ok" else [])
    return r


def _cls(ids):
    neg = any(i < 0 for i in ids)
    big = any(i >= V for i in ids)
    return "valid" if not (neg or big) else "negative_id" if not big else "too_large_id" if not neg else "negative_and_too_large"


def obs_dec(ids, form="list", via="class"):
    MTM = _mtm(via)
    ids = [int(i) for i in ids]
    if not _fits(ids, form):
        form = "list"
    arg = lambda: _ids_arg(ids, form)  # noqa: E731
    a = arg()
    # joined_tokens=False given explicitly on the instance route (falsy option value, class C)
    res, out = _run((lambda: MTM.decode(a, joined_tokens=False)) if via != "class" else (lambda: MTM.decode(a)))
    argmod = _changed(a, ids)
    _clobber(a, 3)
    r = dict(kind="dec", ids=ids, form=form, via=via, layer="P", argmod=argmod, cls=_cls(ids), res=res, toks=_strs(out) if res == "ok" else [], jres="skip", joined="", back_res="skip", back=[])
    if res == "ok":
        a2 = arg()
        jres, j = _run(lambda: MTM.decode(a2, joined_tokens=True))
        r["argmod"] = argmod or _changed(a2, ids)
        _clobber(a2, 3)
        r["jres"], r["joined"] = jres, (j if jres == "ok" and isinstance(j, str) else "")
        if jres == "ok" and not isinstance(j, str):
            r["jres"] = "ok_but_not_a_string"
        br, b = _run(lambda: MTM.encode(out))
        r["back_res"], r["back"] = br, (_ints(b) if br == "ok" else [])
    return r


def _tok(VL, i):
    """token of the real list at a spec-valid id (a list that is too short is reported by the 'vocab' record)"""
    return VL[i] if i < len(VL) and isinstance(VL[i], str) else "<missing:%d>" % i


def obs_codec_batch(args):
    """seeded random sequences over the vocabulary (the driver draws ids; tokens are looked up in the
    real list, so a sequence is 'over the vocabulary' by construction)"""
    seed, k0, k1, maxlen = args
    VL = _lib()[0]
    out = []
    for k in range(k0, k1):
        rng = np.random.default_rng([seed, 1400, k])
        ln = int(rng.integers(2, maxlen + 1)) if k % 10 else int(rng.integers(maxlen, 4 * maxlen))
        # mix: uniform ids / ids near block boundaries / coordinate ids
        mode = k % 3
        if mode == 0:
            ids = rng.integers(0, V, size=ln)
        elif mode == 1:
            edges = np.array([0, 10, 11, 19, 20, 45, 46, 54, 55, 63, 64, 319, 320, 447, 448, 703, 704, 707, 708, 1595, 1596, 1599, 1600, 4095])
            ids = np.clip(rng.choice(edges, size=ln) + rng.integers(-2, 3, size=ln), 0, V - 1)
        else:
            ids = rng.integers(1596, V, size=ln)
        ids = [int(i) for i in ids]
        # the argument form rotates independently of the id mix (k // 3); "range" / 8-bit forms fall back to a list
        # when the ids do not fit (they are covered by obs_small)
        form = DEC_FORMS[(k // 3) % 8]
        out.append(obs_dec(ids, form))
        eform = ("list", "tuple", "list", "tuple", "list", "strarray", "list", "gen")[(k // 3) % 8]
        out.append(obs_enc([_tok(VL, i) for i in ids], eform))
    return out


SMALL_IDS = [[], [0], [1], [10], [19], [127], [128], [255], [256], [4095], [0, 0], [0, 1], [0, 4095], [4095, 0], [1, 0], [7, 7, 7, 7, 7], [0, 2, 4, 6], [130, 120, 110, 100]]


def obs_small(thorough=False):
    """shortest sequences (lengths 0, 1, 2; id 0; duplicated elements) x EVERY argument form x joined / not joined x
    static call / instance call (classes C, G, H)"""
    VL = _lib()[0]
    out = []
    for ids in SMALL_IDS:
        for form in DEC_FORMS:
            if _fits(ids, form):
                out.append(obs_dec(ids, form))
        toks = [_tok(VL, i) for i in ids]
        for form in ENC_FORMS_P + ENC_FORMS_M:
            out.append(obs_enc(toks, form))
        for via in ("instance", "from_legacy"):
            out.append(obs_dec(ids, "ndarray" if via == "instance" else "list", via))
            out.append(obs_enc(toks, "list" if via == "instance" else "tuple", via))
    # the whole vocabulary as a range / strided view / 16-bit array; as a tuple / string array
    out += [obs_dec(list(range(V)), f) for f in (("range", "strided", "int16") + (("uint16", "npints", "int32", "tuple") if thorough else ()))]
    out += [obs_dec(list(range(0, 256)), "uint8"), obs_dec(list(range(0, 128)), "int8"), obs_dec(list(range(127, -1, -1)), "int8")]
    out += [obs_enc([_tok(VL, i) for i in range(V)], f) for f in (("tuple", "strarray") + (("gen",) if thorough else ()))]
    return out


def obs_bad(seed):
    VL = _lib()[0]
    out = []
    rng = np.random.default_rng([seed, 1499])
    for t in UNKNOWN_TOKENS:
        out.append(obs_enc([t]))
        for where in ("first", "mid", "last"):
            base = [_tok(VL, int(i)) for i in rng.integers(0, V, size=int(rng.integers(1, 12)))]
            p = 0 if where == "first" else len(base) if where == "last" else len(base) // 2
            out.append(obs_enc(base[:p] + [t] + base[p:]))
    for t in ("foo", "", "(50,0)", "<unk>"):
        for form in ("tuple", "strarray", "gen"):
            out.append(obs_enc(["(0,0)", t], form))
            out.append(obs_enc([t], form))
        out.append(obs_enc([t, "<PADDING>"], "list", "instance"))
    for b in BAD_IDS_NEG + BAD_IDS_BIG:
        for form in ("list", "ndarray", "tuple", "npints", "int32", "int16", "uint16", "int8"):
            if form in ("list", "ndarray") or _fits([b], form):
                out.append(obs_dec([b], form))
                if form not in ("list", "ndarray"):
                    out.append(obs_dec([0, b], form))
        out.append(obs_dec([b], "list", "instance"))
        for where in ("first", "mid", "last"):
            base = [int(i) for i in rng.integers(0, V, size=int(rng.integers(1, 12)))]
            p = 0 if where == "first" else len(base) if where == "last" else len(base) // 2
            out.append(obs_dec(base[:p] + [b] + base[p:]))
    out.append(obs_dec([-1, 4096]))
    return out


def reobserve(case):
    """re-run the real code for a stored case (same inputs), for replay"""
    k = case["kind"]
    if k == "pos":
        VL, T2I, *_ = _lib()
        p = case["pos"]
        tok = _strs(VL)[p] if 0 <= p < len(VL) else ""
        return dict(kind="pos", pos=p, tok=tok, idx=_int(_run(lambda: T2I.get(VL[p], -1))[1]))
    if k == "vocab":
        return obs_vocab(case.get("src", "VOCAB_LIST"))
    if k == "cf":
        return obs_cf(case["m"])
    if k == "cf0":
        return obs_cf0()
    if k == "legacy":
        nseq = max(0, len(case.get("encs", [])) - 6)
        return obs_legacy((case["mode"], case["n"], case.get("seed", 0), nseq, False, case.get("route", "ctor")))
    if k == "legacy_prefix":
        return obs_legacy_prefix(case["m"])
    if k == "enc":
        return obs_enc(case["toks"], case.get("form", "list"), case.get("via", "class"))
    if k == "dec":
        return obs_dec(case["ids"], case.get("form", "list"), case.get("via", "class"))
    raise lib.MachineryError(f"unknown case kind {k}")


def _case_of(x):
    """stored case: inputs + outcome, without the bulky dumps"""
    k = x["kind"]
    if k == "vocab":
        return dict(kind=k, src=x.get("src", "VOCAB_LIST"), size=len(x["list"]), map_size=len(x["t2i"]), vsize=x.get("vsize", -1), pad=x.get("pad", -1))
    if k == "cf":
        return dict(kind=k, m=x["m"], res=x["res"], last=(x["lists"][-1][:60] if x["lists"] else []))
    if k == "legacy":
        return dict(kind=k, mode=x["mode"], n=x["n"], seed=x.get("seed", 0), route=x.get("route", "ctor"), res=x["res"], arr=x["arr"][:40], encs=[0] * len(x["encs"]), vsize=x.get("vsize", -1), ntok=x.get("ntok", -1), pad=x.get("pad", -1))
    if k == "legacy_prefix":
        return dict(kind=k, mode=x["mode"], m=x["m"], res=x["res"])
    return {kk: vv for kk, vv in x.items() if kk != "id"}


# ------------------------------------------------------------------ canaries
# Hand-made records (never derived from what the code under test returned): each is a well-formed
# observation with exactly one corruption, and the clause that must reject it.  A mutated library can
# therefore never turn a canary into a machinery error.
_SPECIALS = ["<ADJLIST_START>", "<ADJLIST_END>", "<TARGET_START>", "<TARGET_END>", "<ORIGIN_START>", "<ORIGIN_END>", "<PATH_START>", "<PATH_END>", "<-->", ";", "<PADDING>"]
_CF = [
    [[0, 0]],
    [[0, 0], [0, 1], [1, 0], [1, 1]],
    [[0, 0], [0, 1], [1, 0], [1, 1], [0, 2], [2, 0], [1, 2], [2, 1], [2, 2]],
]


def _ut(cells):
    return ["(%d,%d)" % (a, b) for a, b in cells]


def _legacy_rec(mode, n, arr, **kw):
    ids = list(range(len(arr)))
    r = dict(
        kind="legacy", mode=mode, n=n, seed=0, route="ctor", layer="P", res="ok", arr=list(arr), map=[[t, i] for i, t in enumerate(arr)],
        encs=[dict(toks=list(arr), form="list", argmod=False, res="ok", ids=list(ids), sres="ok", sids=list(ids), back_res="ok", back=list(arr))],
        decs=[dict(ids=list(ids), form="list", argmod=False, res="ok", toks=list(arr), jres="ok", joined=" ".join(arr), back_res="ok", back=list(ids))], info={},
        vsize=len(arr), ntok=len(arr), pad=10,
    )
    r.update(kw)
    return r


def _canaries():
    can = []

    def add(rec, clause, f=None):
        c = copy.deepcopy(rec)
        if f is not None:
            f(c)
        can.append((c, clause))

    def swap(lst, i, j):
        lst[i], lst[j] = lst[j], lst[i]

    # positions: two tokens of one shell swapped; range off by one; reserve block one too early; stale index
    add(dict(kind="pos", pos=1602, tok="(2,1)", idx=1602), "position_differs_from_published_layout")
    add(dict(kind="pos", pos=448, tok="-255", idx=448), "position_differs_from_published_layout")
    add(dict(kind="pos", pos=707, tok="<RESERVE_707>", idx=707), "position_differs_from_published_layout")
    add(dict(kind="pos", pos=57, tok="WEST", idx=57), "position_differs_from_published_layout")
    add(dict(kind="pos", pos=4096, tok="(50,0)", idx=4096), "position_differs_from_published_layout")
    add(dict(kind="pos", pos=4095, tok="(49,49)", idx=4094), "token_to_index_not_inverse")
    # whole list: synthetic distinct tokens (layout wrong on purpose; the named clause is what is tested)
    syn = ["t%d" % i for i in range(V)]
    syn[10] = "<PADDING>"
    voc = dict(kind="vocab", src="VOCAB_LIST", list=syn, t2i=[[t, i] for i, t in enumerate(syn)], vsize=V, pad=10)
    add(voc, "vocab_differs_from_published_layout")
    add(voc, "vocab_duplicates", lambda c: c["list"].__setitem__(2000, c["list"][2001]))
    add(voc, "vocab_size_not_4096", lambda c: (c["list"].append("t4096"), c["t2i"].append(["t4096", 4096])))
    add(voc, "token_to_index_not_inverse", lambda c: c["t2i"].__setitem__(5, ["t5", 6]))
    add(voc, "token_to_index_not_inverse", lambda c: c["t2i"].pop())
    add(voc, "M:vocab_size_differs", lambda c: c.update(vsize=V - 1))
    add(voc, "M:padding_index_differs", lambda c: c.update(pad=0))
    add(voc, "M:padding_index_differs", lambda c: c.update(pad=V))
    add(dict(kind="cf0", res="ok", list=[[0, 0]]), "M:cf_zero_not_empty")
    add(dict(kind="cf0", res="raise:ValueError", list=[]), "M:cf_zero_not_empty")
    # corner-first lists
    cf3 = dict(kind="cf", m=3, res="ok", lists=_CF)
    add(cf3, "cf_differs_from_corner_first_order", lambda c: swap(c["lists"][2], 6, 7))
    add(cf3, "cf_prefix_broken", lambda c: swap(c["lists"][1], 1, 2))
    add(cf3, "cf_not_permutation_of_grid", lambda c: c["lists"][2].__setitem__(8, [0, 0]))
    add(cf3, "cf_raises", lambda c: c.update(res="raise:ValueError", lists=[]))
    add(cf3, "cf_not_permutation_of_grid", lambda c: c["lists"].__setitem__(1, []))  # an earlier answer wrecked by the caller came back
    # legacy vocabularies
    ras = _legacy_rec("AOTP_UT_rasterized", 2, _SPECIALS + _ut([[0, 0], [0, 1], [1, 0], [1, 1]]))
    add(_legacy_rec("AOTP_UT_rasterized", 2, _SPECIALS + _ut([[0, 0], [1, 0], [0, 1], [1, 1]])), "legacy_not_row_major")
    add(_legacy_rec("AOTP_UT_rasterized", 2, _SPECIALS + _ut([[0, 0], [0, 1], [1, 0]])), "legacy_not_row_major")
    add(ras, "legacy_duplicates", lambda c: c["arr"].__setitem__(13, c["arr"][12]))
    add(ras, "legacy_map_not_inverse", lambda c: c["map"].__setitem__(12, [c["map"][12][0], 13]))
    add(ras, "legacy_map_not_inverse", lambda c: c["map"].pop())
    add(ras, "legacy_encode_wrong_id", lambda c: c["encs"][0]["ids"].__setitem__(3, 4))
    add(ras, "legacy_decode_of_encode_not_identity", lambda c: c["encs"][0]["back"].__setitem__(3, ";"))
    add(ras, "legacy_decode_wrong_token", lambda c: c["decs"][0]["toks"].__setitem__(3, ";"))
    add(ras, "legacy_encode_of_decode_not_identity", lambda c: c["decs"][0]["back"].__setitem__(3, 4))
    add(ras, "legacy_encode_rejects_own_token", lambda c: c["encs"][0].update(res="raise:TokenError", ids=[], back_res="skip", back=[]))
    add(ras, "legacy_decode_rejects_own_id", lambda c: c["decs"][0].update(res="raise:TokenError", toks=[], back_res="skip", back=[]))
    add(ras, "legacy_vocabulary_raises", lambda c: c.update(res="raise:ValueError", arr=[], map=[], encs=[], decs=[]))
    add(ras, "legacy_encode_of_joined_string_differs", lambda c: c["encs"][0]["sids"].__setitem__(0, 1))
    add(ras, "legacy_encode_of_joined_string_differs", lambda c: c["encs"][0].update(sres="raise:TokenError", sids=[]))
    add(ras, "legacy_decode_joined_differs", lambda c: c["decs"][0].update(joined=c["decs"][0]["joined"].replace(" ", "", 1)))
    add(ras, "legacy_decode_joined_differs", lambda c: c["decs"][0].update(jres="ok_but_not_a_string", joined=""))
    add(ras, "M:argument_modified", lambda c: c["encs"][0].update(argmod=True))
    add(ras, "M:argument_modified", lambda c: c["decs"][0].update(argmod=True))
    add(ras, "M:legacy_vocab_size_differs", lambda c: c.update(vsize=16))
    add(ras, "M:legacy_vocab_size_differs", lambda c: c.update(ntok=14))
    add(ras, "M:legacy_padding_index_differs", lambda c: c.update(pad=9))
    # max_grid_size = 0 lies outside the statement: the same corruption is reported, but as Layer M
    ras0 = _legacy_rec("AOTP_UT_rasterized", 0, _SPECIALS, layer="M")
    add(ras0, "M:legacy_duplicates", lambda c: c["arr"].__setitem__(3, c["arr"][2]))
    add(ras0, "M:legacy_not_row_major", lambda c: (c["arr"].append("(0,0)"), c["map"].append(["(0,0)", 11])))
    add(_legacy_rec("AOTP_CTT_indexed", 2, _SPECIALS + ["(", ",", ")", "0", "1", "2"]), "M:legacy_layout_differs")
    add(_legacy_rec("AOTP_UT_uniform", 3, _SPECIALS + _ut([[0, 0], [0, 1], [1, 0], [1, 1], [0, 2], [2, 0], [2, 1], [1, 2], [2, 2]])), "M:legacy_layout_differs")
    lp = dict(kind="legacy_prefix", mode="AOTP_UT_uniform", m=3, res="ok", arrs=[list(_SPECIALS) + _ut(c) for c in _CF])
    add(lp, "legacy_prefix_broken", lambda c: swap(c["arrs"][1], 12, 13))
    add(lp, "legacy_prefix_broken", lambda c: c["arrs"].__setitem__(2, _SPECIALS + _ut([[i, j] for i in range(3) for j in range(3)])))
    add(lp, "legacy_vocabulary_raises", lambda c: c.update(res="raise:KeyError", arrs=[]))
    add(lp, "legacy_prefix_broken", lambda c: c["arrs"].__setitem__(0, []))
    # modular codec
    toks, ids = ["(0,0)", "THEN", "<PADDING>", "-1", "STEP"], [1596, 17, 10, 703, 704]
    enc = dict(kind="enc", toks=list(toks), form="list", via="class", layer="P", argmod=False, res="ok", ids=list(ids), sres="ok", sids=list(ids), back_res="ok", back=list(toks))
    add(enc, "encode_wrong_id", lambda c: c["ids"].__setitem__(1, 18))
    add(enc, "encode_wrong_id", lambda c: c["ids"].pop())
    add(enc, "decode_of_encode_not_identity", lambda c: c["back"].__setitem__(1, ":"))
    add(enc, "encode_of_joined_string_differs", lambda c: c["sids"].__setitem__(4, 705))
    add(enc, "encode_rejects_vocabulary_token", lambda c: c.update(res="raise:TokenError", ids=[], back_res="skip", back=[]))
    unk = dict(kind="enc", toks=["(0,0)", "foo"], form="list", via="class", layer="P", argmod=False, res="raise:TokenError", ids=[], sres="raise:TokenError", sids=[], back_res="skip", back=[])
    add(unk, "unknown_token_no_token_error", lambda c: c.update(res="ok", ids=[1596, 19]))
    add(unk, "unknown_token_no_token_error", lambda c: c.update(res="raise:KeyError"))
    add(unk, "unknown_token_no_token_error", lambda c: c.update(toks=["(50,0)"], res="raise:ValueError"))
    dec = dict(kind="dec", ids=list(ids), form="list", via="class", layer="P", argmod=False, cls="valid", res="ok", toks=list(toks), jres="ok", joined=" ".join(toks), back_res="ok", back=list(ids))
    add(dec, "decode_wrong_token", lambda c: c["toks"].__setitem__(3, "-2"))
    add(dec, "encode_of_decode_not_identity", lambda c: c["back"].__setitem__(0, 1597))
    add(dec, "decode_joined_differs", lambda c: c.update(joined=c["joined"] + " "))
    add(dec, "decode_rejects_vocabulary_id", lambda c: c.update(res="raise:TokenError", toks=[], jres="skip", joined="", back_res="skip", back=[]))
    bad = dict(kind="dec", ids=[5, 4096], form="list", via="class", layer="P", argmod=False, cls="too_large_id", res="raise:TokenError", toks=[], jres="skip", joined="", back_res="skip", back=[])
    add(bad, "too_large_id_no_token_error", lambda c: c.update(res="ok", toks=[";", "(49,49)"]))
    add(bad, "too_large_id_no_token_error", lambda c: c.update(res="raise:IndexError"))
    add(bad, "negative_id_no_token_error", lambda c: c.update(ids=[5, -4097], res="raise:IndexError"))
    add(bad, "negative_id_no_token_error", lambda c: c.update(ids=[-1], res="ok", toks=["(49,49)"]))
    # second audit: aliasing / falsy / representation
    add(enc, "M:argument_modified", lambda c: c.update(argmod=True))
    add(dec, "M:argument_modified", lambda c: c.update(argmod=True))
    add(enc, "encode_wrong_id", lambda c: c.update(ids=[BADINT] * 6))  # what a result that aliases the (overwritten) argument looks like
    add(dec, "decode_wrong_token", lambda c: c.update(ids=[0], form="ndarray", toks=[], joined="<ADJLIST_START>", back=[]))  # 1-element array holding id 0 treated as "no ids"
    add(dec, "decode_joined_differs", lambda c: c.update(ids=[], toks=[], joined=" ", back=[]))
    add(enc, "encode_of_joined_string_differs", lambda c: c.update(toks=[], ids=[], sres="raise:TokenError", sids=[], back=[]))  # "" as the string form of []
    add(enc, "M:encode_wrong_id", lambda c: (c.update(form="gen", layer="M"), c["ids"].__setitem__(1, 18)))
    add(unk, "M:unknown_token_no_token_error", lambda c: c.update(form="strarray", layer="M", res="raise:KeyError"))
    return can


# ------------------------------------------------------------------ main
CAP_PER_CLAUSE = 15  # a changed layout makes thousands of derived codec records fail: report a few per clause, count the rest


def _judge(chk, recs, canaries):
    """lib.judge_with_canaries with a cap on reported violations per clause (same canary policy)"""
    for i, x in enumerate(recs):
        x["id"] = i
    allrecs = list(recs)
    cans = []
    for k, (c, cl) in enumerate(canaries):
        c = dict(c)
        c["id"] = lib.CANARY_BASE + k
        cans.append((c, cl))
        allrecs.insert((len(allrecs) * (k + 1)) // (len(canaries) + 1), c)
    res = lib.oracle("Trace_Vocab", allrecs, tag="c14")
    for c, cl in cans:
        got = res.verdicts.pop(c["id"], [])
        if cl not in got:
            raise lib.MachineryError(f"canary not rejected by Trace_Vocab: expected clause {cl!r}, got {got} (oracle does not bind this field)")
    chk.notes["canaries_rejected"] = chk.notes.get("canaries_rejected", 0) + len(cans)
    res.records -= len(cans)
    chk.add_oracle("Trace_Vocab", res, "every vocabulary position, corner-first lists, legacy vocabularies and codec calls judged against Vocab.tla")
    per_clause, per_key, kept = {}, {}, {}
    by_id = {x["id"]: x for x in recs}
    for rid, clauses in sorted(res.verdicts.items()):
        keep = []
        x = by_id.get(rid, {})
        for c in clauses:
            # the cap is per (clause, class of input) so that one (possibly known) cause cannot hide another
            key = (c, x.get("cls", x.get("kind", "")))
            per_clause[c] = per_clause.get(c, 0) + 1
            per_key[key] = per_key.get(key, 0) + 1
            if per_key[key] <= CAP_PER_CLAUSE:
                keep.append(c)
        if keep:
            kept[rid] = keep
    chk.notes["rejected_records_by_clause"] = per_clause
    res.verdicts = kept
    chk.judge({x["id"]: _case_of(x) for x in recs}, res, label="c14")
    return res


def _shuffle(recs, seed):
    order = np.random.default_rng([seed, 1414]).permutation(len(recs))
    return [recs[i] for i in order]


def main(chk: lib.Check) -> int:
    thorough = chk.tier == "thorough"
    chk.rule = (
        "cases = one per vocabulary position (4096), the whole list/map, corner_first_ndindex for every n<=50 (with all smaller n for the prefix "
        "clause), every legacy (mode, max_grid_size<=50) vocabulary with encode/decode over its own list, every legacy corner-first prefix pair, "
        "MazeTokenizerModular encode/decode on all 4096 singletons, the whole list, seeded random sequences (uniform ids, ids around block "
        "boundaries, coordinate ids; list / tuple / range / int64, int32, int16, uint16, int8, uint8 ndarray / numpy-int list / strided view "
        "inputs, each the caller's own object that is overwritten before the result is read), the shortest sequences (length 0, 1, 2, id 0, "
        "duplicates) in every argument form, joined and not, by static and by instance call, unknown tokens and out-of-range ids alone and "
        "embedded in several forms; legacy vocabularies rebuilt through 5 construction routes; the static vocabulary re-dumped at the end and "
        "through instances; "
        "non-trivial = every case except codec sequences of length < 2 that are valid"
    )
    # ---- (A) design level
    r = lib.tlc_design("Vocab", "Vocab_small.cfg", expect_actions=["VNext"], tag="s")
    chk.add_model("Vocab/n<=50", r, "n = 1..50: permutation, strictly sorted, shells, prefix for all k<n, legacy vocabularies, total order (n<=12 pairs, n<=5 triples); ASSUME 4096 distinct entries at published offsets")
    r = lib.tlc_expect_violation("Vocab", "Vocab_broken.cfg", "PrefixInv", tag="b")
    chk.add_model("Vocab/broken-order", r, "order without the shell component: TLC rejects PrefixInv (non-vacuity)")

    # ---- (C) observations
    res, _ = _run(_lib)
    if res != "ok":
        # the vocabulary module does not even import (e.g. a duplicated field name): nothing can be dumped
        chk.violation("library_import_raises", dict(kind="import", res=res), "c14")
        chk.assumptions = ["import of maze_dataset failed; no observation possible"]
        return chk.finish("the library under test could not be imported")
    recs = obs_static()
    recs += lib.pmap(obs_cf, list(range(1, NMAX + 1)), chunksize=2)
    recs.append(obs_cf0())
    nseq = 40 if thorough else 12
    leg = lib.pmap(obs_legacy, [(m, n, chk.seed, nseq, thorough or n <= 12) for n in range(1, NMAX + 1) for m in MODES], chunksize=3)
    for x in leg:
        x["seed"] = chk.seed
    recs += leg
    # the same vocabularies built in DECREASING size order inside each worker process (and once more in a scrambled order):
    # a vocabulary must not depend on which other vocabularies were built earlier in the process
    # second audit: these repeat builds go through the OTHER construction routes (factory, load(serialize()), numpy-int
    # size, dataclasses.replace of a tokenizer of another size) and read the cached properties in another order; every
    # observation ends by wrecking the returned token_arr / tokenizer_map, which later builds must not notice
    # (quick: one alternative route per (mode, size); thorough: all four)
    desc = [(m, n, chk.seed + 1, 2, False, r) for n in range(NMAX, 0, -1) for i, m in enumerate(MODES) for r in (ROUTES[1:] if thorough else (ROUTES[1 + (n + i) % 4],))]
    leg2 = lib.pmap(obs_legacy, desc, chunksize=len(desc) // 8 + 1)
    scr = [(m, n, chk.seed + 2, 2, False, ROUTES[(n + 2 * i) % 5]) for n in [40, 3, 17, 2, 50, 7, 1, 23, 4, 12, 5, 33, 6, 9] for i, m in enumerate(MODES)]
    leg2 += [obs_legacy(a) for a in scr]
    # max_grid_size = 0 (falsy, outside 1..50: judged as Layer M)
    leg2 += [obs_legacy((m, 0, chk.seed + 1, 2, True, r)) for m in MODES for r in ("ctor", "factory")]
    for x in leg2:
        x["seed"] = chk.seed + 1
    recs += leg2
    recs += lib.pmap(obs_legacy_prefix, list(range(1, NMAX + 1)), chunksize=2)
    VL = _lib()[0]
    n_vl = len(VL)
    codec = []
    for i in range(max(n_vl, V)):
        codec.append(obs_dec([i]))
        if i < n_vl:
            codec.append(obs_enc([_tok(VL, i)]))
    whole = [_tok(VL, i) for i in range(n_vl)]
    codec += [obs_dec(list(range(V))), obs_dec(list(range(V - 1, -1, -1)), "ndarray"), obs_enc(whole), obs_enc(whole[::-1]), obs_dec([]), obs_enc([])]
    nrand = 80000 if thorough else 3000
    step = 250
    for sub in lib.pmap(obs_codec_batch, [(chk.seed, k, min(k + step, nrand), 64) for k in range(0, nrand, step)]):
        codec += sub
    codec += obs_small(thorough)
    bad = obs_bad(chk.seed)
    recs += codec + bad
    # the static vocabulary once more, at the END of all calls made in this process and through its other access paths
    recs += [obs_vocab(src) for src in VOCAB_SRCS[1:]]

    # evidence accounting
    legacy_info = {}
    for x in recs:
        k = x["kind"]
        if k == "legacy":
            for kk, vv in x.get("info", {}).items():
                legacy_info.setdefault(kk, {}).setdefault(vv, 0)
                legacy_info[kk][vv] += 1
            chk.count([k, x["mode"], x["n"], x.get("route", "ctor"), x.get("seed", 0)], True)
            chk.evaluations += len(x["encs"]) + len(x["decs"])
        elif k == "enc":
            chk.count([k, x["toks"], x["form"], x["via"]], len(x["toks"]) >= 2 or x["res"] != "ok" or x["form"] != "list")
        elif k == "dec":
            chk.count([k, x["ids"], x["form"], x["via"]], len(x["ids"]) >= 2 or x["res"] != "ok" or x["cls"] != "valid" or x["form"] != "list")
        elif k == "pos":
            chk.count([k, x["pos"]], True)
        else:
            chk.count([k, x.get("m", 0), x.get("src", "")], True)
    chk.notes["legacy_bad_input_outcomes"] = legacy_info
    chk.notes["records_by_kind"] = {k: sum(1 for x in recs if x["kind"] == k) for k in ("pos", "vocab", "cf", "cf0", "legacy", "legacy_prefix", "enc", "dec")}
    byform = {}
    for x in recs:
        if x["kind"] in ("enc", "dec"):
            key = x["kind"] + ":" + x["form"] + ("" if x["via"] == "class" else "@" + x["via"])
            byform[key] = byform.get(key, 0) + 1
    chk.notes["codec_records_by_argument_form"] = byform
    chk.notes["legacy_records_by_route"] = {r: sum(1 for x in recs if x["kind"] == "legacy" and x.get("route") == r) for r in ROUTES}
    chk.notes["argument_aliasing"] = (
        "every encode / decode call receives the caller's own object; it is compared with a snapshot after the call (M:argument_modified) and "
        "overwritten in place before the result is read; returned corner-first lists and legacy token_arr / tokenizer_map are wrecked after use"
    )
    chk.notes["outside_the_quantifier"] = "one-shot iterators are not given to MazeTokenizerModular.decode (declared for a Sequence, reads its argument twice); iterator / numpy-string-array arguments of encode, max_grid_size = 0 and corner_first_ndindex(0) are judged as Layer M"
    chk.notes["bad_input_records"] = len(bad)
    import maze_dataset

    chk.notes["library_under_test"] = str(maze_dataset.__file__)
    chk.notes["canary_policy"] = "canaries are hand-made synthetic records, independent of what the code under test returned"
    def first(pred, pool):
        return next((x for x in pool if pred(x)), None)

    for smp in (
        first(lambda x: x["kind"] == "pos" and x["pos"] == 1602, recs),
        first(lambda x: x["kind"] == "cf" and x["m"] == 3, recs),
        (lambda lg: lg and dict(kind="legacy", mode=lg["mode"], n=3, arr=lg["arr"], enc=lg["encs"][-2:]))(first(lambda x: x["kind"] == "legacy" and x["mode"] == "AOTP_UT_uniform" and x["n"] == 3, recs)),
        first(lambda x: x["kind"] == "dec" and 3 <= len(x["ids"]) <= 8, codec),
        first(lambda x: x["kind"] == "enc" and len(x["toks"]) > 1, bad),
        first(lambda x: x["kind"] == "dec" and x["ids"] == [4096], bad),
    ):
        if smp:
            chk.sample(smp)

    canaries = _canaries()
    recs = _shuffle(recs, chk.seed)
    _judge(chk, recs, canaries)
    chk.exhaustive = True
    chk.notes["exhaustive_scope"] = (
        "all 4096 positions and singletons (encode and decode); corner_first_ndindex(n) for all n<=50 and the prefix clause for all 1225 pairs; "
        "all 3 legacy modes x max_grid_size 1..50; legacy corner-first prefix for all 1225 pairs; token sequences of length >= 2 are sampled "
        f"({nrand} seeded sequences each for encode and decode, lengths 2..256) plus the whole list forwards/backwards"
    )
    chk.assumptions = [
        "TLC, CommunityModules JSON reader / SetToSortSeq, CPython",
        "the published layout was transcribed by hand from the documentation of constants.py into Vocab.tla (cross-checked against the ids printed in notebooks/demo_mazetokenizermodular.ipynb)",
        "token sequences longer than 1 are sampled, not exhaustive (the codecs are elementwise maps; every single element is covered)",
        "legacy error behaviour and non-integer ids are outside the statement",
    ]
    return chk.finish(
        "Vocab.tla model-checked for n<=50 (broken order rejected); every position of the real vocabulary, every corner-first list, every legacy "
        "vocabulary and every recorded encode/decode call judged by the TLA+ oracle Trace_Vocab"
    )


def replay(path: str) -> int:
    d = json.load(open(path))
    case = d["case"]
    rec = reobserve(case)
    rec["id"] = 0
    out = lib.oracle("Trace_Vocab", [rec], tag="rp")
    v = out.verdicts.get(0, [])
    show = {k: rec[k] for k in rec if k in ("kind", "pos", "tok", "idx", "m", "mode", "n", "toks", "ids", "res", "back", "joined")}
    print("replay:", json.dumps(show)[:500], "verdict:", v)
    if any(not c.startswith("M:") for c in v):
        print(f"VIOLATION property=C14 replay={path}")
        return 1
    return 0
