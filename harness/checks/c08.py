"""C08 — dataset filters select exactly what they document and never disturb their input.

(A) Filters.tla: a heap of dataset / config objects with identity; every filter sequence of length <= 2 on every
    dataset of <= 3 abstract mazes (duplicates and near-duplicates at any position): InputUntouched, CountUpdated,
    NoSharedCfg, OnlySelects; the "result shares the input's config object" design is rejected.  The selection
    rules live in FilterRules.tla, shared with the oracle.
(C) real filters applied in seeded sequences (length <= 4) to real datasets with injected exact / near duplicates
    at first / middle / last positions, all-equal lengths, empty results; before / after every call the input and the
    result are snapshotted raw (arrays, config digests, provenance, object identities) and judged by Trace_Filters.
"""
import copy
import hashlib
import json

import numpy as np

from harness import lib


def _raw(m):
    return dict(conn=np.asarray(m.connection_list).astype(int).ravel().tolist(), sol=np.asarray(m.solution).astype(int).ravel().tolist())


def _cfgdig(cfg):
    return hashlib.sha1(json.dumps(cfg.serialize(), sort_keys=True, default=str).encode()).hexdigest()[:16]


def _fl(filters):
    return [[str(f["name"]), json.dumps(list(f.get("args", ())), default=str), json.dumps(dict(f.get("kwargs", {})), sort_keys=True, default=str)] for f in filters]


def _occ(ds):
    """occurrences <<key, value>> in the per-maze generation metadata, by the documented collection rule:
    scalars count once per maze; sets / lists / arrays of coordinates count every coordinate; a single coordinate counts once"""
    out = []
    for m in ds.mazes:
        gm = m.generation_meta
        if gm is None:
            continue
        for k, v in gm.items():
            if isinstance(v, (bool, int, float, str)):
                out.append([str(k), repr(v)])
            elif isinstance(v, set):
                out += [[str(k), repr(tuple(int(x) for x in c))] for c in v]
            else:
                a = np.asarray(v)
                if a.ndim == 1:
                    out.append([str(k), repr(tuple(int(x) for x in a))])
                else:
                    out += [[str(k), repr(tuple(int(x) for x in c))] for c in a]
    return out


def _cmap(ds):
    out = []
    gmc = ds.generation_metadata_collected or {}
    for k, d in gmc.items():
        for v, n in d.items():
            vv = v
            if isinstance(v, (tuple, list, np.ndarray)):
                vv = tuple(int(x) for x in v)
            elif isinstance(v, np.generic):
                vv = v.item()
            out.append([str(k), repr(vv), int(n)])
    return out


def pred_len_parity(m, parity=0):
    return len(m.solution) % 2 == parity


def pred_starts_in_row(m, row=0):
    return int(m.start_pos[0]) == row


PREDS = {"pred_len_parity": pred_len_parity, "pred_starts_in_row": pred_starts_in_row}


def build_dataset(rng, kind):
    """a real MazeDataset with duplicates / near-duplicates injected at chosen positions"""
    from maze_dataset.dataset.maze_dataset import MazeDataset, MazeDatasetConfig
    from maze_dataset.generation.generators import GENERATORS_MAP
    from maze_dataset.maze import SolvedMaze

    n = int(rng.integers(3, 5))
    k = int(rng.integers(4, 10))
    ctor = ["gen_dfs", "gen_wilson", "gen_dfs_percolation"][int(rng.integers(0, 3))]
    cfg = MazeDatasetConfig(name="f", grid_n=n, n_mazes=k, maze_ctor=GENERATORS_MAP[ctor], maze_ctor_kwargs=(dict(p=0.3) if ctor == "gen_dfs_percolation" else {}), seed=int(rng.integers(0, 10**6)))
    ds = MazeDataset.generate(cfg, verbose=False)
    mazes = list(ds.mazes)

    def clone(m, flip_conn=0, bump_sol=0, sol_dtype=None):
        cl = np.array(m.connection_list, copy=True)
        sol = np.array(m.solution, copy=True)
        if sol_dtype is not None:
            sol = sol.astype(sol_dtype)  # the same value in another representation (e.g. int8 after a minimal-format reload)
        idx = [(d, i, j) for d in range(2) for i in range(n) for j in range(n)]
        for t in range(flip_conn):
            d, i, j = idx[(7 * t + 3) % len(idx)]
            cl[d, i, j] = not cl[d, i, j]
        for t in range(bump_sol):
            # change one interior coordinate entry (keeps start and end, shape unchanged)
            if len(sol) >= 3:
                sol[1 + t % (len(sol) - 2), t % 2] = (sol[1 + t % (len(sol) - 2), t % 2] + 1) % n
        return SolvedMaze(connection_list=cl, solution=sol, generation_meta=copy.deepcopy(m.generation_meta))

    if kind == "dups":
        pos = [0, len(mazes) // 2, len(mazes) - 1]
        src = mazes[int(rng.integers(0, len(mazes)))]
        for p_ in pos[: int(rng.integers(1, 4))]:
            mazes.insert(p_, clone(src))
        mazes.append(clone(mazes[0]))
        mazes.insert(1, clone(mazes[-2], sol_dtype=np.int8))
        mazes.append(clone(mazes[2], sol_dtype=np.int16))
    elif kind == "near":
        src = mazes[int(rng.integers(0, len(mazes)))]
        mazes.insert(0, clone(src, flip_conn=1))
        mazes.insert(len(mazes) // 2, clone(src, bump_sol=1))
        mazes.append(clone(src, flip_conn=2))
        mazes.append(clone(src, flip_conn=1, bump_sol=2))
    elif kind == "equal_len":
        L = len(mazes[0].solution)
        mazes = [m for m in mazes if len(m.solution) == L] * 2
        mazes = [clone(m) for m in mazes]
    elif kind == "single":
        mazes = mazes[:1]
    elif kind == "big":
        # more than 127 / 255 items (3x3 dfs mazes: many natural exact and near duplicates)
        big_cfg = MazeDatasetConfig(name="f", grid_n=3, n_mazes=int(rng.choice([130, 260])), maze_ctor=GENERATORS_MAP["gen_dfs"], seed=cfg.seed)
        mazes = list(MazeDataset.generate(big_cfg, verbose=False).mazes)
        n, ctor = 3, "gen_dfs"
    # the configuration's n_mazes (compare=False in the library) may lag behind the real number of mazes: a filter works on the mazes
    stale = int(rng.choice([0, 0, 0, 3, -1]))
    cfg2 = MazeDatasetConfig(name="f", grid_n=n, n_mazes=max(0, len(mazes) + stale), maze_ctor=GENERATORS_MAP[ctor], maze_ctor_kwargs=(dict(p=0.3) if ctor == "gen_dfs_percolation" else {}), seed=cfg.seed)
    return MazeDataset(cfg=cfg2, mazes=mazes)


def pick_filter(rng, ds):
    lens = sorted({len(m.solution) for m in ds.mazes}) or [1]
    dists = sorted({int(abs(int(m.start_pos[0]) - int(m.end_pos[0])) + abs(int(m.start_pos[1]) - int(m.end_pos[1]))) for m in ds.mazes}) or [0]
    u = int(rng.integers(0, 10))
    if u == 0:
        k = int(rng.choice(lens + [lens[0] - 1, lens[-1] + 1, 0, lens[len(lens) // 2] + 1]))
        return "path_length", dict(min_length=k), k, -1
    if u == 1:
        k = int(rng.choice(dists + [dists[-1] + 1, 0, dists[len(dists) // 2] + 1]))
        return "start_end_distance", dict(min_distance=k), k, -1
    if u == 2:
        p = int(rng.choice([0, 1, 10, 25, 33, 50, 66, 75, 90, 99, 100]))
        return "cut_percentile_shortest", dict(percentile=float(p)), p, -1
    if u == 3:
        k = int(rng.choice([0, 1, 2, len(ds) - 1, len(ds), len(ds) + 3]))
        return "truncate_count", dict(max_count=max(k, 0)), max(k, 0), -1
    if u == 4:
        return "remove_duplicates_fast", {}, -1, -1
    if u in (5, 6):
        a = rng.choice([None, 0, 1, 2, 3])
        b = rng.choice([None, 0, 1, 2, 4])
        a = None if a is None else int(a)
        b = None if b is None else int(b)
        return "remove_duplicates", dict(minimum_difference_connection_list=a, minimum_difference_solution=b), -1 if a is None else a, -1 if b is None else b
    if u == 7:
        name = ["pred_len_parity", "pred_starts_in_row"][int(rng.integers(0, 2))]
        kw = dict(parity=int(rng.integers(0, 2))) if name == "pred_len_parity" else dict(row=int(rng.integers(0, 3)))
        return "custom:" + name, kw, -1, -1
    if u == 8:
        return "collect_generation_meta", {}, -1, -1
    return "strip_generation_meta", {}, -1, -1


def apply_one(ds, fname, kw, a, b):
    """apply one real filter; returns (record, result dataset or None)"""
    inb = [_raw(m) for m in ds.mazes]
    cfgb, nb = _cfgdig(ds.cfg), len(ds)
    fin = _fl(ds.cfg.applied_filters)
    occ = _occ(ds) if fname == "collect_generation_meta" else []
    already = ds.generation_metadata_collected is not None
    keep = []
    ids = (id(ds), id(ds.cfg), id(ds.cfg.applied_filters))
    res, out = "ok", None
    try:
        if fname.startswith("custom:"):
            pred = PREDS[fname[7:]]
            keep = [bool(pred(m, **kw)) for m in ds.mazes]
            out = ds.custom_maze_filter(pred, **kw)
            entry = ["__custom__:" + pred.__name__, json.dumps([]), json.dumps(kw, sort_keys=True)]
        else:
            out = getattr(ds.filter_by, fname)(**kw)
            entry = [fname, json.dumps([]), json.dumps(kw, sort_keys=True, default=str)]
    except BaseException as e:  # noqa: BLE001
        if isinstance(e, (KeyboardInterrupt, SystemExit)):
            raise
        res = "raise:" + type(e).__name__
        entry = [fname, "[]", "{}"]
    rec = dict(filter="custom" if fname.startswith("custom:") else fname, fname=fname, kwj=json.dumps(kw, sort_keys=True, default=str), a=a, b=b, res=res, inb=inb, ina=[_raw(m) for m in ds.mazes], keep=keep,
               cfgb=cfgb, cfga=_cfgdig(ds.cfg), nb=nb, na=len(ds), fin=fin, entry=entry, occ=occ, cmap=[], out=[], fout=[], out_n=0, same_ds=False, same_cfg=False, same_flist=False)
    if out is not None:
        rec.update(out=[_raw(m) for m in out.mazes], fout=_fl(out.cfg.applied_filters), out_n=int(out.cfg.n_mazes), same_ds=id(out) == ids[0], same_cfg=id(out.cfg) == ids[1], same_flist=id(out.cfg.applied_filters) == ids[2])
        if fname == "collect_generation_meta":
            rec["cmap"] = _cmap(out)
            if already:
                # documented: a dataset whose metadata is already collected is returned as is -> nothing to count
                rec["occ"] = [[k, v] for k, v, n in rec["cmap"] for _ in range(n)]
    if fname.startswith("custom:") and out is not None:
        # custom_maze_filter records its provenance without an args entry: read what the code documents
        pass
    return rec, out


def _job(job):
    seed, k = job
    rng = np.random.default_rng([seed, 8, k])
    kind = ["plain", "dups", "near", "equal_len", "dups", "near", "single"][k % 7]
    if k % 125 == 60:
        kind = "big"
    recs = []
    try:
        ds = build_dataset(rng, kind)
    except BaseException as e:  # noqa: BLE001
        return [dict(filter="setup", res="raise:" + type(e).__name__, kind=kind, seed=[seed, k])]
    cur = ds
    roots = [ds]
    for step in range(int(rng.integers(1, 5))):
        target = cur if rng.random() < 0.7 else roots[int(rng.integers(0, len(roots)))]
        if len(target) == 0 and rng.random() < 0.5:
            target = ds
        fname, kw, a, b = pick_filter(rng, target)
        # outside the quantifier: a percentile of an empty input is undefined; metadata can only be collected where it exists
        if fname == "cut_percentile_shortest" and len(target) == 0:
            continue
        if fname == "collect_generation_meta" and target.generation_metadata_collected is None and (len(target) == 0 or any(m.generation_meta is None for m in target.mazes)):
            continue
        rec, out = apply_one(target, fname, kw, a, b)
        rec.update(kind=kind, seed=[seed, k], step=step)
        recs.append(rec)
        if out is not None:
            cur = out
            roots.append(out)
    return recs


def _job_fromcfg(job):
    """from_config with filters listed in the configuration == generate + the same filters by hand"""
    from maze_dataset.dataset.maze_dataset import MazeDataset, MazeDatasetConfig
    from maze_dataset.generation.generators import GENERATORS_MAP

    seed, k = job
    rng = np.random.default_rng([seed, 9, k])
    n = int(rng.integers(3, 5))
    flt = []
    for _ in range(int(rng.integers(1, 4))):
        u = int(rng.integers(0, 5))
        flt.append([("path_length", dict(min_length=int(rng.integers(1, 5)))), ("start_end_distance", dict(min_distance=int(rng.integers(0, 4)))), ("cut_percentile_shortest", dict(percentile=float(rng.choice([10, 25, 50])))),
                    ("truncate_count", dict(max_count=int(rng.integers(0, 8)))), ("remove_duplicates_fast", {})][u])
    base = dict(name="fc", grid_n=n, n_mazes=int(rng.integers(4, 10)), maze_ctor=GENERATORS_MAP["gen_dfs"], seed=int(rng.integers(0, 10**6)))
    rec = dict(filter="fromcfg", fname="fromcfg", kwj=json.dumps(flt, default=str), a=-1, b=-1, res="ok", inb=[], ina=[], out=[], keep=[], cfgb="", cfga="", nb=0, na=0, fin=[], fout=[], entry=["", "", ""], occ=[], cmap=[], out_n=0,
               same_ds=False, same_cfg=False, same_flist=False, kind="fromcfg", seed=[seed, k], step=0)
    try:
        hand = MazeDataset.generate(MazeDatasetConfig(**base), verbose=False)
        for name, kw in flt:
            hand = getattr(hand.filter_by, name)(**kw)
    except Exception:  # noqa: BLE001 - e.g. a percentile of a dataset emptied by an earlier filter: no by-hand result to compare with
        return []
    try:
        cfg = MazeDatasetConfig(**base, applied_filters=[dict(name=nm, args=(), kwargs=kw) for nm, kw in flt])
        got = MazeDataset.from_config(cfg, load_local=False, save_local=False, do_download=False)
        rec.update(inb=[_raw(m) for m in hand.mazes], out=[_raw(m) for m in got.mazes], fin=_fl(hand.cfg.applied_filters), fout=_fl(got.cfg.applied_filters), nb=len(hand), na=len(got), out_n=int(got.cfg.n_mazes))
    except BaseException as e:  # noqa: BLE001
        if isinstance(e, (KeyboardInterrupt, SystemExit)):
            raise
        rec["res"] = "raise:" + type(e).__name__
    return [rec]


ORACLE_KEYS = ("filter", "a", "b", "res", "inb", "ina", "out", "keep", "cfgb", "cfga", "nb", "na", "fin", "fout", "entry", "out_n", "same_ds", "same_cfg", "same_flist", "occ", "cmap")


def _m(sol, conn=(0, 1, 0, 0, 1, 0, 0, 0)):
    return dict(conn=list(conn), sol=list(sol))


def synth(**over):
    """hand-made correct record: path_length(min_length=3) on three 2x2 mazes"""
    A, B, C_ = _m([0, 0, 0, 1], conn=(0, 0, 1, 1, 0, 0, 0, 0)), _m([0, 0, 0, 1, 1, 1]), _m([1, 0, 0, 0, 0, 1, 1, 1])
    r = dict(filter="path_length", a=3, b=-1, res="ok", inb=[A, B, C_], ina=[A, B, C_], out=[B, C_], keep=[], cfgb="x", cfga="x", nb=3, na=3, fin=[["truncate_count", "[]", "{\"max_count\": 9}"]],
             fout=[["truncate_count", "[]", "{\"max_count\": 9}"], ["path_length", "[]", "{\"min_length\": 3}"]], entry=["path_length", "[]", "{\"min_length\": 3}"], out_n=2, same_ds=False, same_cfg=False, same_flist=False, occ=[], cmap=[])
    r.update(over)
    return r


def canaries():
    A, B, C_ = _m([0, 0, 0, 1], conn=(0, 0, 1, 1, 0, 0, 0, 0)), _m([0, 0, 0, 1, 1, 1]), _m([1, 0, 0, 0, 0, 1, 1, 1])
    B2 = _m([0, 0, 0, 1, 1, 1], conn=(1, 1, 0, 0, 1, 0, 0, 0))
    c = [
        (synth(out=[A, B, C_], out_n=3), "result_is_not_the_documented_selection"),
        (synth(out=[C_, B]), "result_is_not_the_documented_selection"),
        (synth(ina=[A, B]), "input_mazes_changed"),
        (synth(na=2), "input_mazes_changed"),
        (synth(cfga="y"), "input_configuration_changed"),
        (synth(fout=[["path_length", "[]", "{\"min_length\": 3}"]]), "provenance_not_input_filters_plus_this_filter"),
        (synth(out_n=3), "maze_count_in_result_config_not_updated"),
        (synth(same_cfg=True), "result_shares_objects_with_input"),
        (synth(same_flist=True), "result_shares_objects_with_input"),
        (synth(res="raise:ValueError", out=[], fout=[], out_n=0), "filter_raised"),
        # keeping the LAST exact duplicate instead of the first
        (synth(filter="remove_duplicates_fast", a=-1, inb=[B, A, B2, B], ina=[B, A, B2, B], out=[A, B2, B], out_n=3, entry=["remove_duplicates_fast", "[]", "{}"], fout=[["truncate_count", "[]", "{\"max_count\": 9}"], ["remove_duplicates_fast", "[]", "{}"]]), "result_is_not_the_documented_selection"),
        # near duplicates: comparing with EARLIER instead of later mazes (B and B2 differ in one connection bit)
        (synth(filter="remove_duplicates", a=1, b=-1, inb=[B, A, B2], ina=[B, A, B2], out=[B, A], out_n=2, entry=["remove_duplicates", "[]", "{}"], fout=[["truncate_count", "[]", "{\"max_count\": 9}"], ["remove_duplicates", "[]", "{}"]]), "result_is_not_the_documented_selection"),
        # percentile: >= instead of > (lengths 2,3,4; p = 50 -> cutoff 3 -> only the longest stays)
        (synth(filter="cut_percentile_shortest", a=50, out=[B, C_], out_n=2, entry=["cut_percentile_shortest", "[]", "{}"], fout=[["truncate_count", "[]", "{\"max_count\": 9}"], ["cut_percentile_shortest", "[]", "{}"]]), "result_is_not_the_documented_selection"),
        (synth(filter="truncate_count", a=1, out=[A, B], out_n=2, entry=["truncate_count", "[]", "{}"], fout=[["truncate_count", "[]", "{\"max_count\": 9}"], ["truncate_count", "[]", "{}"]]), "result_is_not_the_documented_selection"),
        (synth(filter="start_end_distance", a=2, out=[A, B, C_], out_n=3, entry=["start_end_distance", "[]", "{}"], fout=[["truncate_count", "[]", "{\"max_count\": 9}"], ["start_end_distance", "[]", "{}"]]), "result_is_not_the_documented_selection"),
        (synth(filter="custom", a=-1, keep=[True, False, True], out=[A, B], out_n=2, entry=["__custom__:p", "[]", "{}"], fout=[["truncate_count", "[]", "{\"max_count\": 9}"], ["__custom__:p", "[]", "{}"]]), "result_is_not_the_documented_selection"),
        (synth(filter="collect_generation_meta", a=-1, out=[A, B, C_], out_n=3, same_ds=True, same_cfg=True, same_flist=True, cfga="y", entry=["collect_generation_meta", "[]", "{}"],
               fout=[["truncate_count", "[]", "{\"max_count\": 9}"], ["collect_generation_meta", "[]", "{}"]], occ=[["func_name", "'gen_dfs'"], ["func_name", "'gen_dfs'"], ["visited_cells", "(0, 0)"]],
               cmap=[["func_name", "'gen_dfs'", 3], ["visited_cells", "(0, 0)", 1]]), "collected_metadata_counts_wrong"),
        (synth(filter="fromcfg", inb=[A, B], out=[A], fin=[["path_length", "[]", "{}"]], fout=[["path_length", "[]", "{}"]]), "from_config_differs_from_filters_by_hand"),
    ]
    return c


def controls():
    A, B, C_ = _m([0, 0, 0, 1], conn=(0, 0, 1, 1, 0, 0, 0, 0)), _m([0, 0, 0, 1, 1, 1]), _m([1, 0, 0, 0, 0, 1, 1, 1])
    B2 = _m([0, 0, 0, 1, 1, 1], conn=(1, 1, 0, 0, 1, 0, 0, 0))
    pre = [["truncate_count", "[]", "{\"max_count\": 9}"]]
    return [
        synth(),
        synth(filter="remove_duplicates_fast", a=-1, inb=[B, A, B2, B], ina=[B, A, B2, B], out=[B, A, B2], out_n=3, entry=["remove_duplicates_fast", "[]", "{}"], fout=pre + [["remove_duplicates_fast", "[]", "{}"]]),
        synth(filter="remove_duplicates", a=1, b=-1, inb=[B, A, B2], ina=[B, A, B2], out=[A, B2], out_n=2, entry=["remove_duplicates", "[]", "{}"], fout=pre + [["remove_duplicates", "[]", "{}"]]),
        synth(filter="cut_percentile_shortest", a=50, out=[C_], out_n=1, entry=["cut_percentile_shortest", "[]", "{}"], fout=pre + [["cut_percentile_shortest", "[]", "{}"]]),
        synth(filter="collect_generation_meta", a=-1, out=[A, B, C_], out_n=3, same_ds=True, same_cfg=True, same_flist=True, cfga="y", entry=["collect_generation_meta", "[]", "{}"], fout=pre + [["collect_generation_meta", "[]", "{}"]],
              occ=[["func_name", "'gen_dfs'"], ["func_name", "'gen_dfs'"], ["visited_cells", "(0, 0)"]], cmap=[["func_name", "'gen_dfs'", 2], ["visited_cells", "(0, 0)", 1]]),
    ]


def main(chk: lib.Check) -> int:
    thorough = chk.tier == "thorough"
    chk.rule = (
        "cases = applications of real filters: seeded sequences of 1..4 filters (path_length, start_end_distance, cut_percentile_shortest, truncate_count, remove_duplicates_fast, remove_duplicates with every "
        "combination of thresholds incl. None, custom predicates, collect / strip metadata) with parameters at and around every boundary, on real datasets with injected exact / near duplicates at first, middle and last "
        "positions, all-equal lengths, single-maze and empty datasets; later filters are also applied to earlier inputs (aliasing). non-trivial = the filter removed something or the dataset contains duplicates; distinct = distinct (dataset seed, step)"
    )
    r = lib.tlc_design("Filters", "Filters_small.cfg", expect_actions=["Next"], tag="fl", timeout=3000)
    chk.add_model("Filters/small", r, "heap of datasets/configs; every dataset of <= 3 abstract mazes over 6 values (duplicates, near-duplicates), every sequence of <= 2 filters incl. re-filtering earlier inputs")
    lib.tlc_expect_violation("Filters", "Filters_shared.cfg", "InputUntouched", tag="fl1")
    chk.notes["broken_design_rejected"] = "result shares the input's config object (no deep copy)"
    n = 6000 if thorough else 500
    outs = lib.pmap(_job, [(chk.seed, k) for k in range(n)], chunksize=4)
    outs += lib.pmap(_job_fromcfg, [(chk.seed, k) for k in range(n // 5)], chunksize=4)
    recs = [r_ for sub in outs for r_ in sub]
    setup_fail = [r_ for r_ in recs if r_["filter"] == "setup"]
    for r_ in setup_fail:
        chk.violation("dataset_construction_raised", r_, "setup")
    recs = [r_ for r_ in recs if r_["filter"] != "setup"]
    orecs = [{k: r_[k] for k in ORACLE_KEYS} for r_ in recs] + controls()
    lib.judge_with_canaries(chk, "Trace_Filters", orecs, canaries(), label="filter", what="applications of real filters judged on raw before/after snapshots by Trace_Filters (selection rules from FilterRules.tla)",
                            case_of=lambda x: ({k: v for k, v in recs[x["id"]].items() if k not in ("inb", "ina", "out", "occ", "cmap")} | dict(n_in=len(recs[x["id"]]["inb"]), n_out=len(recs[x["id"]]["out"]))) if x["id"] < len(recs) else "synthetic control")
    by = {}
    for r_ in recs:
        by[r_["fname"].split(":")[0]] = by.get(r_["fname"].split(":")[0], 0) + 1
        chk.count([r_["seed"], r_["step"], r_["fname"], r_["kwj"]], len(r_["out"]) < len(r_["inb"]) or r_["kind"] in ("dups", "near"))
    chk.notes["applications_by_filter"] = by
    chk.notes["empty_results"] = sum(1 for r_ in recs if r_["res"] == "ok" and not r_["out"])
    for f in ("remove_duplicates", "cut_percentile_shortest", "custom"):
        s_ = next((r_ for r_ in recs if r_["filter"] == f and len(r_["out"]) < len(r_["inb"])), None)
        if s_:
            chk.sample(dict(filter=s_["fname"], kwargs=s_["kwj"], kind=s_["kind"], in_lengths=[len(m["sol"]) // 2 for m in s_["inb"]], out_lengths=[len(m["sol"]) // 2 for m in s_["out"]], provenance=s_["fout"]))
    chk.assumptions = ["TLC, CommunityModules JSON/SortSeq, CPython/numpy", "numpy's percentile uses linear interpolation in floating point: where the exact value is an integer reached by interpolation both truncations are accepted",
                       "near-duplicate difference = number of differing array entries between equal-shaped arrays (the documented rule)", "custom filters are judged against the predicate's own verdict per maze"]
    return chk.finish("Filters.tla (heap / aliasing) model-checked; every real filter application judged on raw before/after snapshots by the TLA+ selection rules")


def replay(path: str) -> int:
    d = json.load(open(path))
    case = d["case"]
    if not isinstance(case, dict) or "seed" not in case:
        print("replay: no executable case stored")
        return 0
    recs = _job_fromcfg(tuple(case["seed"])) if case.get("kind") == "fromcfg" else _job(tuple(case["seed"]))
    recs = [r_ for r_ in recs if r_.get("filter") != "setup"]
    orecs = [{k: r_[k] for k in ORACLE_KEYS} for r_ in recs]
    for i, r_ in enumerate(orecs):
        r_["id"] = i
    out = lib.oracle("Trace_Filters", orecs, tag="rp", shards=1)
    print("replay verdicts:", out.verdicts)
    if any(not c.startswith("M:") for v in out.verdicts.values() for c in v):
        print(f"VIOLATION property=C08 replay={path}")
        return 1
    return 0
