"""System-level histories (MazeSystem.tla): TLC-emitted operation sequences (request / filter / save / read) executed
against the real library with a real cache directory; observations replayed through MazeSystem's actions."""
import hashlib
import json
import os
import re
import shutil
import tempfile
from pathlib import Path

import numpy as np

from harness import lib

BASES = dict(a=dict(name="a", grid_n=4, n_mazes=8, ctor="gen_dfs", seed=1), b=dict(name="b", grid_n=3, n_mazes=7, ctor="gen_wilson", seed=2))
FILTERS = dict(p=("path_length", dict(min_length=3)), t=("truncate_count", dict(max_count=4)))
LETTER = {"path_length": "p", "truncate_count": "t"}
_HIST = re.compile(r'^"HIST (.*)"$')


def emit(cfg, simulate=None, seed=None, depth=None):
    r = lib.tlc("SysEmit", cfg, workers=1, simulate=simulate, seed=seed, depth=depth, tag="sysemit", timeout=1800)
    hs = []
    for line in r.out.splitlines():
        m = _HIST.match(line.strip())
        if m:
            hs.append(json.loads(m.group(1).replace('\\"', '"')))
    if not hs:
        raise lib.MachineryError(f"SysEmit/{cfg} produced no histories\n{r.out[-1500:]}")
    return hs, r


def _digests(ds):
    out = []
    for m in ds.mazes:
        h = hashlib.sha1()
        for x, t in ((m.connection_list, np.uint8), (m.solution, np.int64), (m.start_pos, np.int64), (m.end_pos, np.int64)):
            h.update(np.asarray(x).astype(t).tobytes())
        out.append(h.hexdigest()[:16])
    return out


def _job(job):
    """a slice of histories, executed in this process; references (denotations) are computed here too"""
    hists = job
    from maze_dataset.dataset.dataset import GPTDataset
    from maze_dataset.dataset.maze_dataset import MazeDataset, MazeDatasetConfig
    from maze_dataset.generation.generators import GENERATORS_MAP

    def mk(c, fl):
        b = BASES[c]
        kw = dict(name=b["name"], grid_n=b["grid_n"], n_mazes=b["n_mazes"], maze_ctor=GENERATORS_MAP[b["ctor"]], seed=b["seed"])
        if fl:
            kw["applied_filters"] = [dict(name=FILTERS[f][0], args=(), kwargs=dict(FILTERS[f][1])) for f in fl]
        return MazeDatasetConfig(**kw)

    denote, denote_ds, tk = {}, {}, []

    def ref_ds(c, fl):
        k = (c, tuple(fl))
        if k not in denote_ds:
            ds = MazeDataset.generate(mk(c, []), verbose=False)
            for f in fl:
                ds = getattr(ds.filter_by, FILTERS[f][0])(**FILTERS[f][1])
            denote_ds[k] = ds
        return denote_ds[k]

    def ref(c, fl):
        k = (c, tuple(fl))
        if k not in denote:
            denote[k] = _digests(ref_ds(c, fl))
        return denote[k]

    def view(ds, v):
        """per-maze digests of a derived view; the tokenizer is one without random choices (sorted coordinates, no shuffling)"""
        if v == "tok":
            if not tk:
                from maze_dataset.tokenization import AdjListTokenizers, EdgePermuters, MazeTokenizerModular, PromptSequencers

                tk.append(MazeTokenizerModular(prompt_sequencer=PromptSequencers.AOTP(adj_list_tokenizer=AdjListTokenizers.AdjListCoord(shuffle_d0=False, edge_permuter=EdgePermuters.SortedCoords()))))
            items = [" ".join(t).encode() for t in ds.as_tokens(tk[0])]
        elif v == "pix":
            items = [np.ascontiguousarray(m.as_pixels()).tobytes() + repr(np.asarray(m.as_pixels()).shape).encode() for m in ds.mazes]
        else:
            items = [m.as_ascii().encode() for m in ds.mazes]
        return [hashlib.sha1(x).hexdigest()[:16] for x in items]

    def key(ds):
        return [str(ds.cfg.name), [LETTER.get(f["name"], "?") for f in ds.cfg.applied_filters if f["name"] != "collect_generation_meta"]]

    obs = {}
    o_read, o_gen = GPTDataset.__dict__["read"], MazeDataset.__dict__["generate"]

    def read_w(cls, *a, **k):
        r = o_read.__func__(cls, *a, **k)
        obs["read_ok"] = True
        return r

    def gen_w(cls, *a, **k):
        obs["generated"] = True
        return o_gen.__func__(cls, *a, **k)

    out = []
    for hid, h in hists:
        d = lib.workdir("sys_")
        hs, model_keys, evs, cs, cmodel = [], [], [], [], []
        saved_at = {}  # user path -> model key of what was saved there (kept apart from `obs`, which every request clears)
        try:
            for e in h:
                ev = dict(op=e["op"], c=e.get("c", "-"), fl=list(e.get("fl", [])), i=int(e.get("i", 0)), f=e.get("f", "-"), p=e.get("p", "-"), how="-", res="ok", key=["-", []], dig=[], ref=[],
                          j=int(e.get("j", 0)), d=e.get("d", "-"), k=int(e.get("k", 0)), mkeys=[], v=e.get("v", "-"))
                try:
                    if e["op"] == "request":
                        obs.clear()
                        GPTDataset.read, MazeDataset.generate = classmethod(read_w), classmethod(gen_w)
                        try:
                            ds = MazeDataset.from_config(mk(e["c"], e["fl"]), local_base_path=Path(d) / "cache", do_download=False)
                        finally:
                            GPTDataset.read, MazeDataset.generate = o_read, o_gen
                        ev["how"] = "cold" if obs.get("generated") else "warm" if obs.get("read_ok") else "?"
                        hs.append(ds)
                        model_keys.append((e["c"], list(e["fl"])))
                    elif e["op"] == "filter":
                        src = hs[e["i"] - 1]
                        ds = getattr(src.filter_by, FILTERS[e["f"]][0])(**FILTERS[e["f"]][1])
                        hs.append(ds)
                        mk_ = model_keys[e["i"] - 1]
                        model_keys.append((mk_[0], mk_[1] + [e["f"]]))
                    elif e["op"] == "save":
                        hs[e["i"] - 1].save(os.path.join(d, f"user_{e['p']}.zanj"))
                        ds = None
                        saved = model_keys[e["i"] - 1]
                        saved_at[e["p"]] = saved
                    elif e["op"] == "read":
                        ds = MazeDataset.read(os.path.join(d, f"user_{e['p']}.zanj"))
                        hs.append(ds)
                        model_keys.append(saved_at[e["p"]])
                    elif e["op"] == "view":
                        ev["v"] = e["v"]
                        mk_ = model_keys[e["i"] - 1]
                        ev["dig"] = view(hs[e["i"] - 1], e["v"])
                        ev["ref"] = view(ref_ds(mk_[0], mk_[1]), e["v"])
                    elif e["op"] in ("collect", "collgen", "collrt"):
                        from maze_dataset.dataset.collected_dataset import MazeDatasetCollection, MazeDatasetCollectionConfig

                        if e["op"] == "collect":
                            mem = [hs[e["i"] - 1], hs[e["j"] - 1]]
                            coll = MazeDatasetCollection(MazeDatasetCollectionConfig(name="coll", maze_dataset_configs=[m_.cfg for m_ in mem]), mem)
                            ckeys = [model_keys[e["i"] - 1], model_keys[e["j"] - 1]]
                        elif e["op"] == "collgen":
                            coll = MazeDatasetCollection.generate(MazeDatasetCollectionConfig(name="cg", maze_dataset_configs=[mk(e["c"], []), mk(e["d"], [])]), verbose=False)
                            ckeys = [(e["c"], []), (e["d"], [])]
                        else:
                            coll = MazeDatasetCollection.load(cs[e["k"] - 1].serialize())
                            ckeys = cmodel[e["k"] - 1]
                        cs.append(coll)
                        cmodel.append(ckeys)
                        ev["mkeys"] = [key(m_) for m_ in coll.maze_datasets]
                        # the flattened view, item by item through __getitem__
                        ev["dig"] = _digests(type("L", (), {"mazes": [coll[q] for q in range(len(coll))]})())
                        ev["ref"] = [x for (c_, fl_) in ckeys for x in ref(c_, fl_)]
                    if e["op"] not in ("save", "collect", "collgen", "collrt", "view"):
                        ev["key"] = key(ds)
                        ev["dig"] = _digests(ds)
                        ev["ref"] = ref(model_keys[-1][0], model_keys[-1][1])
                except BaseException as ex:  # noqa: BLE001
                    if isinstance(ex, (KeyboardInterrupt, SystemExit)):
                        raise
                    ev["res"] = "raise:" + type(ex).__name__
                    evs.append(ev)
                    break
                evs.append(ev)
        finally:
            shutil.rmtree(d, ignore_errors=True)
        out.append(dict(hid=hid, events=evs, history=h))
    return out


def synth():
    ev = lambda **k: dict(dict(op="request", c="a", fl=[], i=0, f="-", p="-", how="cold", res="ok", key=["a", []], dig=["d1", "d2"], ref=["d1", "d2"], j=0, d="-", k=0, mkeys=[], v="-"), **k)  # noqa: E731
    return dict(events=[ev(), ev(how="warm"), ev(op="filter", c="-", i=1, f="p", how="-", key=["a", ["p"]], dig=["d2"], ref=["d2"]),
                        ev(op="save", c="-", i=3, p="x", how="-", key=["-", []], dig=[], ref=[]), ev(op="read", c="-", p="x", how="-", key=["a", ["p"]], dig=["d2"], ref=["d2"]),
                        ev(fl=["p"], key=["a", ["p"]], dig=["d2"], ref=["d2"]),
                        ev(op="collect", c="-", i=1, j=3, how="-", key=["-", []], mkeys=[["a", []], ["a", ["p"]]], dig=["d1", "d2", "d2"], ref=["d1", "d2", "d2"]),
                        ev(op="collrt", c="-", k=1, how="-", key=["-", []], mkeys=[["a", []], ["a", ["p"]]], dig=["d1", "d2", "d2"], ref=["d1", "d2", "d2"]),
                        ev(op="view", c="-", i=4, v="tok", how="-", key=["-", []], dig=["t2"], ref=["t2"])])


def canaries():
    import copy

    c = []
    t = synth()
    t["events"][1]["dig"] = ["d1", "zz"]
    c.append((t, "request_handed_out_other_data_than_the_requested_configuration"))
    t = synth()
    t["events"][5]["key"] = ["a", []]
    c.append((t, "request_handed_out_a_dataset_of_another_configuration"))
    t = synth()
    t["events"][1]["res"] = "raise:ValueError"
    c.append((t, "request_raised"))
    t = synth()
    t["events"][1]["how"] = "cold"
    c.append((t, "M:cache_hit_or_miss_differs_from_model"))
    t = synth()
    t["events"][2]["key"] = ["a", []]
    c.append((t, "M:result_is_not_the_models_dataset"))
    t = copy.deepcopy(synth())
    t["events"] = [t["events"][4]]
    c.append((t, "M:operation_not_enabled_in_model"))
    t = synth()
    t["events"][6]["mkeys"] = [["a", ["p"]], ["a", []]]
    c.append((t, "M:collection_is_not_the_models_collection"))
    t = synth()
    t["events"][7]["dig"] = ["d1", "d2"]
    c.append((t, "M:collection_is_not_the_models_collection"))
    t = synth()
    t["events"][8]["dig"] = ["t9"]
    c.append((t, "M:view_differs_from_the_view_of_the_models_dataset"))
    return c


def run(chk, thorough):
    r = lib.tlc_design("MazeSystem", "MazeSystem_views.cfg", expect_actions=["View"], tag="msv", timeout=3000)
    chk.add_model("MazeSystem/views", r, "derived views (tokens / pixels / ascii) of every handle after every history of <= 4 operations show what the handle's configuration denotes")
    r = lib.tlc_design("MazeSystem", "MazeSystem_small.cfg", expect_actions=["Request", "Filter", "Save", "Read", "Collect", "CollGenerate", "CollRoundTrip"], tag="ms", timeout=3000)
    chk.add_model("MazeSystem/small", r, "composition config -> cache -> generate -> filters -> save/read -> collections: 2 base configs, 2 filters, <= 5 operations, every interleaving")
    lib.tlc_expect_violation("MazeSystem", "MazeSystem_badkey.cfg", "NoMismatch", tag="ms1")
    h3, r3 = emit("SysEmit_3.cfg")
    chk.add_model("SysEmit/3", r3, "all three-operation histories emitted")
    h6, r6 = emit("SysEmit_6.cfg", simulate=f"num={1500 if thorough else 50}", seed=chk.seed % 100000, depth=6)
    chk.add_model("SysEmit/6 (simulate)", r6, "simulated six-operation histories emitted")
    rng = np.random.default_rng([chk.seed, 21])
    if not thorough:
        idx = sorted(rng.choice(len(h3), size=min(150, len(h3)), replace=False).tolist())
        h3 = [h3[i] for i in idx]
    hists = list(enumerate(h3 + h6))
    nshard = lib.NCPU * 2
    outs = lib.pmap(_job, [hists[i::nshard] for i in range(nshard)], chunksize=1)
    recs = sorted([x for sub in outs for x in sub], key=lambda x: x["hid"])
    orecs = [dict(events=x["events"]) for x in recs] + [synth()]
    lib.judge_with_canaries(chk, "Trace_System", orecs, canaries(), label="system", what="TLC-emitted system histories (request / filter / save / read) executed on the real library and replayed through MazeSystem's actions",
                            case_of=lambda x: dict(history=recs[x["id"]]["history"], events=[{k: v for k, v in e.items() if k not in ("dig", "ref")} | dict(same=e["dig"] == e["ref"]) for e in x["events"]]) if x["id"] < len(recs) else "synthetic control", min_per_shard=20)
    chk.notes["system_histories"] = dict(three_op=len(h3), six_op_simulated=len(h6), operations=sum(len(x["events"]) for x in recs), exhaustive_three_op=thorough)
    chk.sample(dict(system_history=recs[len(recs) // 2]["history"]))
    for x in recs:
        chk.count(["sys", x["history"]], len(x["history"]) >= 3)
