"""C01 — generators emit well-formed lattice graphs; DFS and Wilson emit spanning trees.

(A) GenDFS.tla / GenWilson.tla / GenPerc.tla model-checked: every random execution on small grids.
(B) every random execution of the REAL gen_dfs / gen_prim / gen_percolation / gen_dfs_percolation
    (scripted RNG, the code's own decision tree) and every output of the real gen_wilson (closure
    of its learned Markov chain) on small grids, judged by GenOracle!Clauses01.
(C) natural runs (real RNG) of all five generators, shapes 1..8 x 1..8, random accepted kwargs,
    judged by the same clauses; loop-head snapshots matched step by step to the models (Layer M).
"""
import copy
import json

from harness import lib
from harness.checks import gen_common as gc


def canaries():
    """hand-made records (independent of the code under test), each violating exactly one clause"""
    out = []
    a = gc.synth()
    a["conn"][0][2][0] = 1  # a "down" connection from the last row
    out.append((a, "connection_leaves_grid"))
    b = gc.synth()
    b["conn"][1][0][0] = 0
    out.append((b, "default_args_not_spanning_tree"))
    w = gc.synth(gen="gen_wilson")
    w["conn"][1][2][1] = 0
    out.append((w, "default_args_not_spanning_tree"))
    c = gc.synth()
    c["shape"] = [2, 4, 3]
    out.append((c, "not_bool_array_of_requested_shape"))
    d_ = gc.synth()
    d_["dtype"] = "int64"
    out.append((d_, "not_bool_array_of_requested_shape"))
    p0 = gc.synth(gen="gen_percolation", edges=[((0, 0), (0, 1))], pk="zero", fully=False)
    out.append((p0, "p0_has_connection"))
    p1 = gc.synth(gen="gen_percolation", pk="one")  # a spanning tree lacks lattice edges
    out.append((p1, "p1_missing_lattice_edge"))
    return out


def _nontrivial(r):
    return r["R"] * r["C"] >= 4


def main(chk: lib.Check) -> int:
    thorough = chk.tier == "thorough"
    chk.rule = (
        "cases = generator calls (generator, shape, kwargs, random execution). Enumerated: EVERY random execution of the real gen_dfs "
        "(default args: all shapes <= 4x4 (thorough <= 4x5/5x4); every explicit start on <= 3x3; argument matrix acc x max_tree_depth x do_forks on <= 3x2 (thorough 3x3)), "
        "gen_prim (<= 2x3 complete, 3x3 capped), gen_percolation / gen_dfs_percolation (every coin array, p in {0, .5, 1}, <= 2x2; thorough 2x3), and every output of gen_wilson "
        "reachable in the closure of its learned chain (<= 2x3; thorough 3x3); plus seeded natural runs of all five generators on shapes 1..8 x 1..8 with random accepted kwargs. "
        "non-trivial = grid with >= 4 cells; distinct = distinct (generator, shape, kwargs, output)"
    )
    gc.design_models(chk, thorough)
    recs, raised, tr_dfs, tr_wil, stats = gc.collect(chk, thorough)
    chk.notes.update(observation=stats)
    orecs = [gc.for_oracle(r) for r in recs]
    res = lib.judge_with_canaries(chk, "Trace_Gen01", orecs, canaries(), label="gen", what="final outputs of real generator calls judged by GenOracle!Clauses01",
                                  case_of=lambda x: recs[x["id"]])
    for r in recs:
        chk.count([r["gen"], r["R"], r["C"], r["kwj"], r["conn"]], _nontrivial(r))
    for r in raised:
        chk.violation("generator_raised_on_accepted_arguments", r, "gen")
    for i in (0, len(recs) // 2, len(recs) - 1):
        chk.sample({k: recs[i][k] for k in ("gen", "R", "C", "kwj", "conn", "src")})
    gc.step_traces(chk, tr_dfs, tr_wil)
    if stats["tracer_unavailable"]:
        print(f"MODEL-DIVERGENCE property=C01 loop-head snapshots unavailable for {stats['tracer_unavailable']} runs (Layer M reduced)")
        chk.divergences.append(("M:tracer_unavailable", "trace"))
    chk.exhaustive = not stats["unscripted"]
    chk.notes["exhaustive_scope"] = "every random execution of the enumerated jobs (see rule) except capped jobs listed in observation.enum_incomplete"
    chk.assumptions = ["TLC, CommunityModules JSON reader, CPython/numpy", "RNG reaches the generators only through random.choice/randint and numpy.random.randint/choice/rand (checked: same script twice gives the same maze)", "grids beyond the enumerated shapes are sampled"]
    return chk.finish("generator models checked exhaustively on small grids; every random execution of the real generators on small grids and seeded natural runs judged by the TLA+ clauses; real loop iterations matched to the model actions")


def replay(path: str) -> int:
    d = json.load(open(path))
    case = d["case"]
    if "raised" in case and "conn" not in case:
        rec = gc.replay_record(case)
        bad = rec is not None and "raised" in rec
        print("replay:", rec if bad else "no longer raises")
        if bad:
            print(f"VIOLATION property=C01 replay={path}")
        return 1 if bad else 0
    rec = gc.replay_record(case)
    if rec is None:
        # a stored oracle-view record without script/seed: re-judge the stored observation itself
        rec = case
    if "raised" in rec:
        print(f"VIOLATION property=C01 replay={path}")
        return 1
    o = gc.for_oracle(rec)
    o["id"] = 0
    out = lib.oracle("Trace_Gen01", [o], tag="rp")
    print("replay verdict:", out.verdicts.get(0, []))
    if out.verdicts.get(0):
        print(f"VIOLATION property=C01 replay={path}")
        return 1
    return 0
