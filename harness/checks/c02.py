"""C02 — shortest-path solver is sound, optimal and complete.

(A) AStar.tla model-checked: all graphs x all ordered pairs x every tie-break on all shapes <= 3x3
    (thorough: + 1x4,4x1,2x4,4x2 exhaustively).
(C) Trace_SP.tla judges recorded real calls (exhaustive small shapes + random larger graphs);
    Trace_AStar.tla validates loop-head snapshots of real executions step by step against
    AStar!Iterate (Layer M) and the result against the property (Layer P).
"""
import json

import numpy as np

from harness import lib, mz
from harness.tracer import LoopTracer


# ------------------------------------------------------------------ observation (real code)
def observe_graph(args):
    """all ordered pairs on one graph -> one record per pair"""
    r, c, n = args
    conn = mz.conn_from_int(r, c, n)
    m = mz.LatticeMaze(connection_list=conn)
    rawc = mz.raw(conn)
    out = []
    for s in mz.cells(r, c):
        for e in mz.cells(r, c):
            res, p = mz.outcome(lambda: m.find_shortest_path(s, e))
            out.append(dict(R=r, C=c, conn=rawc, s=list(s), e=list(e), res=res, path=[[int(a), int(b)] for a, b in p] if res == "ok" else [], g=n))
    return out


def _gen_maze(rng, kind, r, c):
    from maze_dataset.generation import LatticeMazeGenerators as G

    if kind == "perc":
        return mz.rand_conn(rng, r, c, float(rng.choice([0.3, 0.5, 0.7])))
    np.random.seed(int(rng.integers(0, 2**31)))
    import random

    random.seed(int(rng.integers(0, 2**31)))
    if kind == "dfs":
        return G.gen_dfs(np.array([r, c])).connection_list
    if kind == "dfs_perc":
        return G.gen_dfs_percolation(np.array([r, c]), p=float(rng.choice([0.1, 0.3]))).connection_list
    if kind == "dfs_partial":
        return G.gen_dfs(np.array([r, c]), accessible_cells=int(max(1, r * c // 2))).connection_list
    raise ValueError(kind)


BIG = [(16, 16), (20, 20), (2, 70), (70, 2), (12, 12), (1, 140), (13, 20)]


def observe_random(args):
    seed, k, maxn, via = args
    rng = np.random.default_rng([seed, k])
    r, c = (int(rng.integers(2, maxn + 1)), int(rng.integers(2, maxn + 1))) if maxn > 0 else (2, 2)
    if maxn < 0:  # large / extreme shapes: more than 127 / 255 cells, coordinates beyond 127 are impossible for int8 here but paths > 127 steps are not
        r, c = BIG[k % len(BIG)]
    kind = ["perc", "dfs", "dfs_perc", "dfs_partial"][k % 4]
    conn = _gen_maze(rng, kind, r, c)
    m = mz.LatticeMaze(connection_list=conn)
    s = (int(rng.integers(0, r)), int(rng.integers(0, c)))
    e = (int(rng.integers(0, r)), int(rng.integers(0, c)))
    if via == "solved":
        res, p = mz.outcome(
            lambda: mz.SolvedMaze.from_targeted_lattice_maze(
                mz.TargetedLatticeMaze(connection_list=conn, start_pos=np.array(s), end_pos=np.array(e))
            ).solution
        )
    else:
        # history and argument forms that must not matter: an earlier query on the same maze object; the cells given as tuples or as
        # the caller's own ndarrays (int64 / int8), which the caller overwrites after the call and before it reads the path
        if k % 2:
            mz.outcome(lambda: m.find_shortest_path((int(rng.integers(0, r)), int(rng.integers(0, c))), (int(rng.integers(0, r)), int(rng.integers(0, c)))))
        form = (k // 2) % 3
        if form == 0:
            res, p = mz.outcome(lambda: m.find_shortest_path(s, e))
        else:
            dt = np.int64 if form == 1 or max(r, c) > 127 else np.int8
            sa, ea = np.array(s, dtype=dt), np.array(e, dtype=dt)
            res, p = mz.outcome(lambda: m.find_shortest_path(sa, ea))
            sa[:] = [(s[0] + 1) % r, (s[1] + 1) % c]
            ea[:] = [(e[0] + 1) % r, (e[1] + 1) % c]
    return dict(R=r, C=c, conn=mz.raw(conn), s=list(s), e=list(e), res=res, path=[[int(a), int(b)] for a, b in p] if res == "ok" else [], kind=kind, via=via, seed=[seed, k])


def _snap(L):
    return dict(
        open=sorted([int(a), int(b)] for a, b in L.get("open_vtx", ())),
        closed=sorted([int(a), int(b)] for a, b in L.get("closed_vtx", ())),
        g=sorted([int(k[0]), int(k[1]), int(v)] for k, v in L.get("g_score", {}).items()),
    )


def observe_traced(args):
    seed, k, maxn = args
    rng = np.random.default_rng([seed, 7, k])
    r, c = int(rng.integers(1, maxn + 1)), int(rng.integers(1, maxn + 1))
    kind = ["perc", "dfs", "dfs_perc", "perc"][k % 4] if min(r, c) > 1 else "perc"
    conn = _gen_maze(rng, kind, r, c)
    m = mz.LatticeMaze(connection_list=conn)
    s = (int(rng.integers(0, r)), int(rng.integers(0, c)))
    e = (int(rng.integers(0, r)), int(rng.integers(0, c)))
    with LoopTracer(mz.LatticeMaze.find_shortest_path, _snap) as t:
        res, p = mz.outcome(lambda: m.find_shortest_path(s, e))
    heads = [ev[2] for ev in t.events if ev[0] == "head" and ev[1] == 0]
    return dict(R=r, C=c, conn=mz.raw(conn), s=list(s), e=list(e), res=res, path=[[int(a), int(b)] for a, b in p] if res == "ok" else [], snaps=heads, tracer=t.available, kind=kind, seed=[seed, k])


def _nontrivial(rec):
    """disconnected pair, or a graph with a cycle (|E| >= |V|), start != end"""
    ne = int(np.sum(np.array(rec["conn"])))
    return rec["s"] != rec["e"] and (rec["res"] != "ok" or ne >= rec["R"] * rec["C"])


SMALL = [(1, 1), (1, 2), (2, 1), (1, 3), (3, 1), (2, 2), (2, 3), (3, 2), (1, 4), (4, 1)]


def main(chk: lib.Check) -> int:
    thorough = chk.tier == "thorough"
    chk.rule = (
        "cases = (graph, start, end) triples; exhaustive over all graphs x all ordered pairs of the listed small shapes, "
        "seeded random graphs (percolation p in {.3,.5,.7}, dfs trees, dfs+percolation, partial dfs) up to 15x15; "
        "non-trivial = start != end and (pair disconnected or graph has a cycle)"
    )
    # ---- (A) design-level model checking
    r = lib.tlc_design("AStar", "AStar_small.cfg", expect_actions=["IterateAny", "Fail"], tag="s")
    chk.add_model("AStar/small", r, "all graphs x pairs x tie-breaks, shapes <= 2x3,3x2,1x3,3x1")
    r = lib.tlc_design("AStar", "AStar_3x3.cfg", tag="3")
    chk.add_model("AStar/3x3", r, "all 4096 graphs x 81 pairs x every tie-break")
    r = lib.tlc_design("AStar", "AStar_live.cfg", tag="lv")
    chk.add_model("AStar/live", r, "termination: the measure 1 + (cells not yet closed) strictly decreases on every iteration; under weak fairness of the loop every query is answered (found | raise)")
    lib.tlc_expect_violation("AStar", "AStar_unfair.cfg", "Answered", tag="uf")
    if thorough:
        r = lib.tlc_design("AStar", "AStar_wide.cfg", tag="w")
        chk.add_model("AStar/wide", r, "1x4,4x1,2x4,4x2 exhaustive")

    # ---- (C) exhaustive small scope on the real code
    jobs = []
    for (rr, cc) in SMALL + ([(2, 4), (4, 2)] if thorough else []):
        jobs += [(rr, cc, n) for n in range(mz.n_graphs(rr, cc))]
    rng = np.random.default_rng(chk.seed)
    n33 = mz.n_graphs(3, 3)
    g33 = list(range(n33)) if thorough else sorted(rng.choice(n33, size=n33 // 10, replace=False).tolist())
    jobs += [(3, 3, int(n)) for n in g33]
    recs = [x for sub in lib.pmap(observe_graph, jobs, chunksize=16) for x in sub]
    # ---- (C) random larger graphs, plus the SolvedMaze constructor path
    nrand = 6000 if thorough else 800
    recs += lib.pmap(observe_random, [(chk.seed, k, 15, "solved" if k % 5 == 0 else "direct") for k in range(nrand)], chunksize=8)
    recs += lib.pmap(observe_random, [(chk.seed, 100000 + k, -1, "solved" if k % 4 == 0 else "direct") for k in range(140 if thorough else 28)], chunksize=2)
    # ---- (C) the repository's own tests as a driver: every find_shortest_path call they make (in-grid cells, lattice graphs)
    try:
        from harness import repo_tests

        _g, sp, summ = repo_tests.observe_dirs(thorough)
        for x in sp:
            x.update(kind="repo_tests", via="tests")
        recs = sp + recs
        chk.notes["repo_tests"] = dict(dirs=summ, solver_calls=len(sp))
    except Exception as e:  # noqa: BLE001 - an extra driver, never a reason to fail the check
        chk.notes["repo_tests"] = dict(error=repr(e)[:200])
    for i, x in enumerate(recs):
        x["id"] = i
    res = lib.oracle("Trace_SP", recs, tag="sp")
    chk.add_oracle("Trace_SP", res, "one-step histories Call(graph,s,e) -> path | ValueError judged against BFS distance")
    for x in recs:
        chk.count([x["R"], x["C"], x["conn"], x["s"], x["e"]], _nontrivial(x))
    chk.sample({k: recs[len(recs) // 3][k] for k in ("R", "C", "conn", "s", "e", "res", "path")})
    chk.sample({k: recs[-1][k] for k in ("R", "C", "conn", "s", "e", "res", "path", "kind", "via")})
    chk.judge({x["id"]: x for x in recs}, res, label="call")
    chk.exhaustive = True
    chk.notes["exhaustive_scope"] = "all graphs x all ordered pairs for shapes " + str(SMALL + ([(2, 4), (4, 2), (3, 3)] if thorough else [])) + ("" if thorough else " + seeded 10% of the 3x3 graphs")

    # ---- (C) step-level traces
    ntr = 3000 if thorough else 400
    trs = lib.pmap(observe_traced, [(chk.seed, k, 8) for k in range(ntr)], chunksize=8)
    ok_tr = [t for t in trs if t["tracer"] and t["snaps"]]
    chk.notes["layer_M_available"] = len(ok_tr) == len(trs)
    if len(ok_tr) < len(trs):
        print(f"MODEL-DIVERGENCE property=C02 loop-head snapshots unavailable for {len(trs) - len(ok_tr)} of {len(trs)} runs (Layer M reduced)")
        chk.divergences.append(("M:tracer_unavailable", "trace"))
    for i, x in enumerate(ok_tr):
        x["id"] = i
    if ok_tr:
        res2 = lib.oracle("Trace_AStar", ok_tr, tag="as")
        chk.add_oracle("Trace_AStar", res2, "loop-head snapshots matched to AStar!Iterate, result judged")
        chk.notes["trace_steps"] = sum(len(t["snaps"]) for t in ok_tr)
        chk.sample({k: ok_tr[0][k] for k in ("R", "C", "s", "e", "res", "path")} | {"snaps": ok_tr[0]["snaps"][:3]})
        chk.judge({x["id"]: {k: v for k, v in x.items() if k != "snaps"} for x in ok_tr}, res2, label="trace")
    # results of untraceable runs are still judged by Layer P
    rest = [t for t in trs if not (t["tracer"] and t["snaps"])]
    if rest:
        for i, x in enumerate(rest):
            x["id"] = i
        res3 = lib.oracle("Trace_SP", rest, tag="sp2")
        chk.judge({x["id"]: x for x in rest}, res3, label="call")
    chk.assumptions = ["TLC, CommunityModules JSON reader, CPython/numpy", "graphs beyond 3x3 (2x4/4x2 in thorough) are sampled, not exhaustive"]
    return chk.finish("AStar.tla checked exhaustively (all tie-breaks); every recorded real call judged by the TLA+ BFS oracle; real A* iterations matched to AStar!Iterate")


def replay(path: str) -> int:
    d = json.load(open(path))
    case = d["case"]
    conn = np.array(case["conn"], dtype=bool)
    m = mz.LatticeMaze(connection_list=conn)
    res, p = mz.outcome(lambda: m.find_shortest_path(tuple(case["s"]), tuple(case["e"])))
    rec = dict(id=0, R=case["R"], C=case["C"], conn=case["conn"], s=case["s"], e=case["e"], res=res, path=[[int(a), int(b)] for a, b in p] if res == "ok" else [])
    out = lib.oracle("Trace_SP", [rec], tag="rp")
    print("replay:", rec["res"], rec["path"], "verdict:", out.verdicts.get(0, []))
    if out.verdicts.get(0):
        print(f"VIOLATION property=C02 replay={path}")
        return 1
    return 0
