"""C03 — every item of a generated dataset is a correctly solved maze (serial and parallel generation).

(A) DatasetGen.tla (serial path / worker pool with the process-global config as a variable; all schedules,
    two consecutive calls; two broken designs rejected) and Endpoints.tla (branch structure of
    generate_random_path with every endpoint option on all graphs of tiny shapes) are model-checked.
(C) real MazeDataset.generate over a configuration matrix, in genuine main processes (harness/dsgen_child.py),
    serial and with pools of 1..4 workers, several calls per process (stale-global hazard): every item is
    judged by SolvedOracle!ItemClauses, every call by DatasetClauses (Layer P); the events of the
    interposed worker initializer / task helper are replayed through DatasetGen's actions (Layer M).
"""
import copy
import json
import os
import shutil
import subprocess
import sys
import tempfile

import numpy as np

from harness import lib

CTORS = ["gen_dfs", "gen_wilson", "gen_percolation", "gen_dfs_percolation", "gen_prim"]


def endpoint_options(rng, n):
    """a random admissible endpoint_kwargs dict + its flat view for the oracle"""
    cells = [(i, j) for i in range(n) for j in range(n)]
    u = rng.random()
    ek = {}
    if u < 0.3:
        pass
    elif u < 0.4:
        ek["endpoints_not_equal"] = True
    elif u < 0.46:
        # an EMPTY allowed set: nothing is admissible, the documented ValueError is the only correct outcome
        ek["allowed_start" if rng.random() < 0.5 else "allowed_end"] = []
        if rng.random() < 0.3:
            ek["endpoints_not_equal"] = True
    else:
        if rng.random() < 0.45:
            k = int(rng.integers(1, 4))
            ek["allowed_start"] = [list(cells[int(x)]) for x in rng.choice(len(cells), size=min(k, len(cells)), replace=False)]
        if rng.random() < 0.45:
            k = int(rng.integers(1, 4))
            ek["allowed_end"] = [list(cells[int(x)]) for x in rng.choice(len(cells), size=min(k, len(cells)), replace=False)]
        if rng.random() < 0.4:
            ek["deadend_start"] = True
        if rng.random() < 0.4:
            ek["deadend_end"] = True
        if rng.random() < 0.5:
            ek["endpoints_not_equal"] = True
    return ek


def flat_opts(ek):
    special = (ek.get("allowed_start") is not None) or (ek.get("allowed_end") is not None) or bool(ek.get("deadend_start")) or bool(ek.get("deadend_end"))
    return dict(
        isdefault=not special,
        has_aS=ek.get("allowed_start") is not None,
        aS=ek.get("allowed_start") or [],
        has_aE=ek.get("allowed_end") is not None,
        aE=ek.get("allowed_end") or [],
        deS=bool(ek.get("deadend_start")),
        deE=bool(ek.get("deadend_end")),
        neq=bool(ek.get("endpoints_not_equal")),
    )


def may_raise(cfg):
    """can the documented ValueError of generate_random_path occur for this configuration?"""
    ck = cfg.get("ctor_kwargs", {})
    tree = cfg["ctor"] in ("gen_dfs", "gen_wilson", "gen_prim") and "max_tree_depth" not in ck and ("accessible_cells" not in ck or ck["accessible_cells"] >= 2)
    return not (tree and flat_opts(cfg.get("endpoint_kwargs", {}))["isdefault"])


def random_cfg(rng, name, seed_base):
    ctor = CTORS[int(rng.integers(0, len(CTORS)))]
    n = int(rng.integers(2, 8))
    ck = {}
    if ctor in ("gen_dfs", "gen_prim"):
        if rng.random() < 0.3:
            ck["accessible_cells"] = int(rng.integers(2, n * n + 1))
        if rng.random() < 0.2:
            ck["max_tree_depth"] = int(rng.integers(2, 2 * n * n))
        if rng.random() < 0.2:
            ck["do_forks"] = False
    if ctor in ("gen_percolation", "gen_dfs_percolation"):
        ck["p"] = float(rng.choice([0.1, 0.4, 0.9] if ctor == "gen_dfs_percolation" else [0.4, 0.6, 0.9]))
    ek = endpoint_options(rng, n) if rng.random() < 0.7 else {}
    return dict(name=name, grid_n=n, n_mazes=int(rng.integers(1, 11)), ctor=ctor, ctor_kwargs=ck, seed=int(seed_base + rng.integers(0, 1000)), endpoint_kwargs=ek)


def build_histories(seed, n_p, n_m):
    hs = []
    rng = np.random.default_rng([seed, 3])
    # Layer-M histories: two fixed configs "a" / "b" of different grid size, n_mazes = 4, <= 3 calls, pools <= 4
    a = dict(name="a", grid_n=3, n_mazes=4, ctor="gen_dfs", ctor_kwargs={}, seed=11, endpoint_kwargs={})
    b = dict(name="b", grid_n=4, n_mazes=4, ctor="gen_wilson", ctor_kwargs={}, seed=12, endpoint_kwargs={"deadend_start": True, "endpoints_not_equal": True})
    for k in range(n_m):
        calls = []
        for _ in range(int(rng.integers(1, 4))):
            cfg = copy.deepcopy(a if rng.random() < 0.5 else b)
            cfg["seed"] = int(rng.integers(1, 50))
            if rng.random() < 0.4:
                calls.append(dict(cfg=cfg, mode="serial"))
            else:
                calls.append(dict(cfg=cfg, mode="pool", W=int(rng.integers(1, 5)), sleep=int(rng.integers(0, 1000))))
        hs.append(dict(hid=len(hs), m=True, calls=calls))
    # Layer-P histories: random configurations, 1..3 calls per process, serial and pools of 1..4
    for k in range(n_p):
        calls = []
        for j in range(int(rng.integers(1, 4))):
            cfg = random_cfg(rng, f"h{k}c{j}", 100)
            if rng.random() < 0.5:
                calls.append(dict(cfg=cfg, mode="serial"))
            else:
                calls.append(dict(cfg=cfg, mode="pool", W=int(rng.integers(1, 5)), sleep=int(rng.integers(0, 1000))))
        hs.append(dict(hid=len(hs), m=False, calls=calls))
    # magnitude boundaries: grids with more than 127 / 255 cells, datasets with more than 127 / 255 items, long solutions
    big = [dict(name="big0", grid_n=12, n_mazes=130, ctor="gen_dfs", ctor_kwargs={}, seed=3, endpoint_kwargs={}),
           dict(name="big1", grid_n=16, n_mazes=20, ctor="gen_dfs", ctor_kwargs={"accessible_cells": 200}, seed=4, endpoint_kwargs={"deadend_start": True, "deadend_end": True, "endpoints_not_equal": True}),
           dict(name="big2", grid_n=13, n_mazes=260, ctor="gen_dfs_percolation", ctor_kwargs={"p": 0.1}, seed=5, endpoint_kwargs={}),
           dict(name="big3", grid_n=20, n_mazes=6, ctor="gen_wilson", ctor_kwargs={}, seed=6, endpoint_kwargs={"endpoints_not_equal": True, "allowed_start": [[19, 19], [0, 0]]})]
    for j, cfg in enumerate(big if n_p >= 1000 else big[: 2 + seed % 2] + big[3:]):
        hs.append(dict(hid=len(hs), m=False, calls=[dict(cfg=cfg, mode="serial" if j % 2 == 0 else "pool", W=3, sleep=0)]))
    return hs


def run_children(histories, nproc=None):
    nproc = min(nproc or lib.NCPU, len(histories)) or 1
    d = lib.workdir("c03_")
    procs = []
    for i in range(nproc):
        part = histories[i::nproc]
        jp, op = os.path.join(d, f"jobs{i}.json"), os.path.join(d, f"out{i}.ndjson")
        json.dump(part, open(jp, "w"))
        procs.append((subprocess.Popen([sys.executable, "-W", "ignore", "-m", "harness.dsgen_child", jp, op], cwd=lib.VERIF, stdout=subprocess.DEVNULL, stderr=subprocess.PIPE), op, part))
    out = {}
    for p, op, part in procs:
        try:
            _o, err = p.communicate(timeout=3600)
        except subprocess.TimeoutExpired:
            p.kill()
            _o, err = p.communicate()
        got = {}
        if os.path.exists(op):
            for line in open(op):
                r = json.loads(line)
                got[r["hid"]] = r
        for h in part:
            if h["hid"] not in got:
                # the child died (the code under test crashed the interpreter / hung): an observation, not a machinery error
                got[h["hid"]] = dict(hid=h["hid"], calls=[dict(cfg=c["cfg"], mode=c["mode"], W=c.get("W", 0), res="timeout", n_got=0, items=[], events_by_proc=[], msg=(err or b"").decode(errors="replace")[-300:]) for c in h["calls"]])
        out.update(got)
    shutil.rmtree(d, ignore_errors=True)
    return [out[h["hid"]] for h in histories]


def flatten_events(call):
    """per-process event lists -> the one sequence DatasetGen can replay (tasks in index order, each
    worker's init before its first task); workers numbered 1.. by first appearance, parent = 0"""
    procs = call["events_by_proc"]
    if call["mode"] == "serial":
        evs = []
        for p in procs:
            for e in p["events"]:
                evs.append(dict(ev=e["ev"], w=0 if p["parent"] else 1, idx=e.get("idx", 0), g=e["g"]))
        return evs
    workers = [p for p in procs if not p["parent"]]
    firsts = sorted(range(len(workers)), key=lambda i: min([e["idx"] for e in workers[i]["events"] if e["ev"] == "task"] or [10**9]))
    num = {wi: k + 1 for k, wi in enumerate(firsts)}
    tasks = []
    inits = {}
    for wi, p in enumerate(workers):
        for e in p["events"]:
            if e["ev"] == "init":
                inits[num[wi]] = e["g"]
            else:
                tasks.append((e["idx"], num[wi], e["g"]))
    tasks.sort()
    evs, done = [], set()
    for idx, w, g in tasks:
        if w not in done and w in inits:
            evs.append(dict(ev="init", w=w, idx=0, g=inits[w]))
            done.add(w)
        evs.append(dict(ev="task", w=w, idx=idx, g=g))
    for w, g in sorted(inits.items()):
        if w not in done:
            evs.append(dict(ev="init", w=w, idx=0, g=g))
    # anything the parent logged during a pool call is unexpected for the model: keep it so that it diverges
    for p in procs:
        if p["parent"]:
            for e in p["events"]:
                evs.append(dict(ev=e["ev"], w=0, idx=e.get("idx", 0), g=e["g"]))
    return evs


def synth_item(**over):
    """hand-made, correct item record: 3x3 comb, solution (0,2) -> (2,2) along the column 0"""
    conn = [[[1, 0, 0], [1, 0, 0], [0, 0, 0]], [[1, 1, 0], [1, 1, 0], [1, 1, 0]]]
    sol = [[0, 2], [0, 1], [0, 0], [1, 0], [2, 0], [2, 1], [2, 2]]
    r = dict(kind="item", n=3, shape=[2, 3, 3], conn=conn, sol=sol, start=[0, 2], end=[2, 2], isdefault=True, has_aS=False, aS=[], has_aE=False, aE=[], deS=False, deE=False, neq=False,
             n_req=0, n_got=0, res="ok", may_raise=False)
    r.update(over)
    return r


def canaries():
    c = []
    c.append((synth_item(n=4), "maze_not_of_configured_grid_size"))
    c.append((synth_item(start=[0, 1]), "solution_does_not_start_at_start_pos"))
    c.append((synth_item(end=[2, 1]), "solution_does_not_end_at_end_pos"))
    c.append((synth_item(sol=[[0, 2], [1, 2], [2, 2]]), "solution_moves_off_connections"))
    c.append((synth_item(sol=[[0, 2], [0, 1], [0, 2], [0, 1], [0, 0], [1, 0], [2, 0], [2, 1], [2, 2]]), "solution_visits_a_cell_twice"))
    cyc = synth_item()
    cyc["conn"][0][0][2] = 1
    cyc["conn"][0][1][2] = 1  # a shortcut down the last column: the logged solution is no longer shortest
    c.append((cyc, "solution_not_a_shortest_route"))
    c.append((synth_item(sol=[[0, 2]], start=[0, 2], end=[0, 2]), "endpoints_equal_although_not_allowed"))
    c.append((synth_item(sol=[[0, 2]], start=[0, 2], end=[0, 2], isdefault=False, deS=True, neq=True), "endpoints_equal_although_not_allowed"))
    c.append((synth_item(isdefault=False, has_aS=True, aS=[[1, 1], [2, 2]]), "start_not_in_allowed_start"))
    c.append((synth_item(isdefault=False, has_aE=True, aE=[[0, 2]]), "end_not_in_allowed_end"))
    c.append((synth_item(isdefault=False, deS=True, sol=[[0, 1], [0, 0], [1, 0]], start=[0, 1], end=[1, 0]), "start_not_a_dead_end"))
    c.append((synth_item(isdefault=False, deE=True, sol=[[0, 2], [0, 1], [0, 0], [1, 0]], end=[1, 0]), "end_not_a_dead_end"))
    c.append((synth_item(sol=[[0, 2], [0, 3]], end=[0, 3]), "solution_empty_or_leaves_grid"))
    c.append((synth_item(kind="dataset", n_req=5, n_got=4), "dataset_length_not_n_mazes"))
    c.append((synth_item(kind="dataset", res="raise:ValueError", may_raise=False), "generation_raised_unexpectedly"))
    c.append((synth_item(kind="dataset", res="raise:KeyError", may_raise=True), "generation_raised_unexpectedly"))
    return c


def m_canaries():
    good = dict(calls=[dict(cfg="a", mode="serial", W=0, events=[dict(ev="init", w=0, idx=0, g="a")] + [dict(ev="task", w=0, idx=i, g="a") for i in (1, 2, 3, 4)]),
                       dict(cfg="b", mode="pool", W=2, events=[dict(ev="init", w=1, idx=0, g="b"), dict(ev="task", w=1, idx=1, g="b"), dict(ev="init", w=2, idx=0, g="b"),
                                                                dict(ev="task", w=2, idx=2, g="b"), dict(ev="task", w=1, idx=3, g="b"), dict(ev="task", w=2, idx=4, g="b")])])
    stale = copy.deepcopy(good)
    for e in stale["calls"][1]["events"]:
        e["g"] = "a"  # workers still hold the previous call's config
    lost = copy.deepcopy(good)
    lost["calls"][0]["events"] = lost["calls"][0]["events"][:-1]
    twice = copy.deepcopy(good)
    twice["calls"][1]["events"][3]["idx"] = 1
    return [(stale, "M:event_not_explained_by_DatasetGen"), (lost, "M:event_not_explained_by_DatasetGen"), (twice, "M:event_not_explained_by_DatasetGen")], good


def main(chk: lib.Check) -> int:
    thorough = chk.tier == "thorough"
    chk.rule = (
        "cases = items of datasets produced by real MazeDataset.generate calls: seeded configuration matrix (5 generators x kwargs x grid_n 2..7 x n_mazes 1..10 x seeds x endpoint options), "
        "serial and pool generation with 1..4 workers, 1..3 calls per parent process (a later call uses another configuration). non-trivial = item of a pool-generated dataset, or of a dataset "
        "generated after another configuration in the same process, or with non-default endpoint options; distinct = distinct (config, index, maze)"
    )
    # ---- (A)
    r = lib.tlc_design("DatasetGen", "DatasetGen_small.cfg", expect_actions=["StartSerial", "SerialItem", "StartParallel", "WorkerInit", "Take", "FinishTask", "Collect"], tag="dg")
    chk.add_model("DatasetGen/small", r, "2 configs, 3 mazes, <= 3 workers, 2 consecutive generate calls (serial or pool), all schedules")
    lib.tlc_expect_violation("DatasetGen", "DatasetGen_noinit.cfg", "ItemFromThisCfg", tag="dg1")
    lib.tlc_expect_violation("DatasetGen", "DatasetGen_noserialinit.cfg", "ItemFromThisCfg", tag="dg2")
    chk.notes["broken_designs_rejected"] = ["pool initializer does not set the worker global", "serial path initialises the global only when unset"]
    r = lib.tlc_design("DatasetGen", "DatasetGen_live.cfg", tag="dgl")
    chk.add_model("DatasetGen/live", r, "progress: a call in progress is never stuck, every step decreases the work left, under fair workers every generate call returns (all schedules)")
    lib.tlc_expect_violation("DatasetGen", "DatasetGen_unfair.cfg", "EveryCallReturns", tag="dgu")
    # unbounded in the number of generate calls per process: ItemFromThisCfg as an inductive invariant (Apalache, symbolic)
    apa = lib.apalache_inductive("MC_DatasetGen", ["DatasetGen.tla"], broken_sub=("InitSetsGlobal == TRUE", "InitSetsGlobal == FALSE"))
    chk.notes["apalache_inductive_invariant"] = apa
    if apa.get("available"):
        chk.models.append(dict(model="DatasetGen/Apalache inductive", what="TypeOK /\\ Strengthening /\\ ItemFromThisCfg /\\ LenExact is inductive (3 mazes, <= 3 workers): holds after any number of generate calls in one process", obligations=apa["obligations"]))
    r = lib.tlc_design("Endpoints", "Endpoints_small.cfg", expect_actions=["DefaultAny", "DefaultRaise", "ComputeSets", "PickSAny", "PickEAny"], tag="ep")
    chk.add_model("Endpoints/small", r, "all graphs <= 2x2, every component, allowed sets {None, one cell, two cells}, 2^3 flags, every draw")
    # ---- (C)
    hs = build_histories(chk.seed, n_p=1500 if thorough else 150, n_m=300 if thorough else 60)
    outs = run_children(hs)
    recs, traces, unfinished = [], [], []
    for h, o in zip(hs, outs):
        for ci, (call, oc) in enumerate(zip(h["calls"], o["calls"])):
            cfg = call["cfg"]
            if oc["res"] == "timeout":
                # the call did not come back (or the child process was lost): machinery-level, not a verdict
                unfinished.append(dict(hid=h["hid"], call=ci, cfg=cfg, mode=call["mode"], W=call.get("W", 0), msg=oc.get("msg", "")))
                continue
            opts = flat_opts(cfg.get("endpoint_kwargs", {}))
            nontriv = call["mode"] == "pool" or ci > 0 or not opts["isdefault"]
            base = dict(n=cfg["grid_n"], n_req=cfg["n_mazes"], n_got=oc["n_got"], res=oc["res"], may_raise=may_raise(cfg), **opts)
            tag = dict(hid=h["hid"], call=ci, mode=call["mode"], W=call.get("W", 0), cfgj=json.dumps(cfg), history=json.dumps(h), nontrivial=nontriv)
            recs.append(dict(kind="dataset", shape=[], conn=[], sol=[], start=[], end=[], **base, **tag))
            for ii, it in enumerate(oc["items"]):
                recs.append(dict(kind="item", **it, **base, index=ii, **tag))
        if h["m"] and not any(oc["res"] == "timeout" for oc in o["calls"]):
            traces.append(dict(hid=h["hid"], history=json.dumps(h), calls=[dict(cfg=c["cfg"]["name"], mode=c["mode"], W=c.get("W", 0), events=flatten_events(oc)) for c, oc in zip(h["calls"], o["calls"])]))
    # ---- (C) the repository's own tests as a driver: every MazeDataset.generate result they produce is judged as well
    try:
        from harness import repo_tests

        _g, _sp, summ = repo_tests.observe_dirs(thorough)
        n_rt = 0
        for di, d in enumerate(repo_tests.LAST_DS):
            cfg = d["cfg"]
            opts = flat_opts(cfg.get("endpoint_kwargs", {}))
            base = dict(n=cfg["grid_n"], n_req=cfg["n_mazes"], n_got=d["n_got"], res="ok", may_raise=may_raise(cfg), **opts)
            tag = dict(hid=f"repo_tests:{di}", call=0, mode="pool" if cfg.get("parallel") else "serial", W=0, cfgj=json.dumps(cfg), history="generate call made by the repository's own tests", nontrivial=not opts["isdefault"])
            recs.append(dict(kind="dataset", shape=[], conn=[], sol=[], start=[], end=[], **base, **tag))
            for ii, it in enumerate(d["items"]):
                recs.append(dict(kind="item", **it, **base, index=ii, **tag))
            n_rt += 1
        chk.notes["repo_tests"] = dict(dirs=summ, generate_calls=n_rt)
    except Exception as e:  # noqa: BLE001 - an extra driver, never a reason to fail the check
        chk.notes["repo_tests"] = dict(error=repr(e)[:200])
    if unfinished:
        print(f"MODEL-DIVERGENCE property=C03 {len(unfinished)} generate call(s) did not return within the watchdog time (not judged): {json.dumps(unfinished[0])[:300]}")
        chk.divergences.append(("M:generate_call_did_not_return", "watchdog"))
        chk.notes["calls_not_returned"] = unfinished[:5]
    keep = ("kind", "n", "shape", "conn", "sol", "start", "end", "isdefault", "has_aS", "aS", "has_aE", "aE", "deS", "deE", "neq", "n_req", "n_got", "res", "may_raise")
    orecs = [{k: r[k] for k in keep} for r in recs]
    lib.judge_with_canaries(chk, "Trace_Items", orecs, canaries(), label="item", what="items / calls of real MazeDataset.generate judged by SolvedOracle!Clauses",
                            case_of=lambda x: {k: v for k, v in recs[x["id"]].items() if k != "conn" or True})
    for r_ in recs:
        if r_["kind"] == "item":
            chk.count([r_["cfgj"], r_["index"], r_["conn"], r_["sol"]], r_["nontrivial"])
    items = [r_ for r_ in recs if r_["kind"] == "item"]
    if items:
        for i in (0, len(items) // 2, len(items) - 1):
            chk.sample({k: items[i][k] for k in ("cfgj", "mode", "W", "call", "index", "conn", "sol", "start", "end")})
    chk.notes["datasets"] = sum(1 for r_ in recs if r_["kind"] == "dataset")
    chk.notes["datasets_pool"] = sum(1 for r_ in recs if r_["kind"] == "dataset" and r_["mode"] == "pool")
    chk.notes["datasets_raised_documented_ValueError"] = sum(1 for r_ in recs if r_["kind"] == "dataset" and r_["res"] == "raise:ValueError")
    # ---- Layer M: replay the recorded worker events through DatasetGen's actions
    mc, good = m_canaries()
    no_events = [t for t in traces if any(not c["events"] for c in t["calls"])]
    if no_events:
        print(f"MODEL-DIVERGENCE property=C03 no initializer/helper events were observed in {len(no_events)} of {len(traces)} histories (Layer M reduced)")
        chk.divergences.append(("M:no_events", "trace"))
    tr = [t for t in traces if t not in no_events]
    tr_in = [dict(calls=t["calls"]) for t in tr] + [good]
    res = lib.judge_with_canaries(chk, "Trace_DatasetGen", tr_in, mc, label="pool_trace", what="interposed initializer / helper events replayed through DatasetGen's actions (serial + pool, <= 3 calls per process)",
                                  case_of=lambda x: dict(history=(tr[x["id"]]["history"] if x["id"] < len(tr) else "synthetic"), calls=x["calls"]), min_per_shard=10)
    chk.notes["pool_trace_events"] = sum(len(c["events"]) for t in tr for c in t["calls"])
    chk.sample(dict(history_calls=[(c["cfg"], c["mode"], c["W"]) for c in tr[0]["calls"]], events=tr[0]["calls"][0]["events"][:6]) if tr else "no traces")
    chk.assumptions = [
        "TLC, CommunityModules JSON reader, CPython/numpy, multiprocessing.Pool.imap handing out tasks in index order",
        "the OS decides the task-to-worker schedule of each real run; the all-schedules claim rests on the DatasetGen model, each observed schedule is replayed through it",
        "configurations are sampled (seeded); ValueError outcomes are accepted only where the Endpoints model allows them",
    ]
    return chk.finish("DatasetGen / Endpoints model-checked (all schedules, all draws); every item of every real dataset judged by the TLA+ clauses; recorded worker events replayed through the model's actions")


def replay(path: str) -> int:
    d = json.load(open(path))
    case = d["case"]
    if "history" not in case or case["history"] == "synthetic":
        print("replay: no history stored")
        return 0
    h = json.loads(case["history"])
    (o,) = run_children([h], nproc=1)
    recs = []
    for call, oc in zip(h["calls"], o["calls"]):
        cfg = call["cfg"]
        base = dict(n=cfg["grid_n"], n_req=cfg["n_mazes"], n_got=oc["n_got"], res=oc["res"], may_raise=may_raise(cfg), **flat_opts(cfg.get("endpoint_kwargs", {})))
        recs.append(dict(kind="dataset", shape=[], conn=[], sol=[], start=[], end=[], **base))
        recs += [dict(kind="item", **it, **base) for it in oc["items"]]
    for i, r in enumerate(recs):
        r["id"] = i
    out = lib.oracle("Trace_Items", recs, tag="rp", shards=1)
    print("replay verdicts:", out.verdicts)
    if out.verdicts:
        print(f"VIOLATION property=C03 replay={path}")
        return 1
    return 0
