"""C10 — pixel and ASCII renderings are faithful and invertible.

(A) PixelsMC.tla (state-machine view of Pixels.tla) model-checked: for every connection structure of
    the small shapes, three kinds, every (start, end), every shortest path: the definitional picture
    satisfies every clause of the statement, the clauses pin the picture down (every one-pixel
    corruption is rejected), FromPx(Px(m)) = m, and the ordering walk always has exactly one
    candidate; with the premise "shortest path" dropped TLC exhibits a stuck walk (non-vacuity).
(C) Trace_Pixels.tla judges real renderings: m.as_pixels / m.as_ascii under the four flag pairs and
    type(m).from_pixels / from_ascii of exactly those pictures; exhaustive small shapes + seeded
    random mazes up to 12x12 (square and oblong).

Interpretation decisions (kept no stronger than the statement):
 * "start and end are drawn whenever endpoints are requested and the maze has them" is judged for
   every kind that has them (TargetedLatticeMaze AND SolvedMaze) independently of show_solution.
 * marks appear nowhere else: a START/END/PATH pixel where none is due contradicts "an open pixel at
   every cell" / "the solution on exactly its cells and in-between pixels".
 * start = end (allowed by the constructors) is rendered as one END mark (DESIGN §4); it is outside
   the read-back premise.  Solutions that are simple walks but not shortest are rendered (judged)
   but not demanded to read back; there the real reader is only compared with the TLA+ reader (M).
 * read-back is demanded for a COMPLETE picture (endpoints shown if the maze has them, solution
   shown if it has one) of a maze inside the premise, with cls = type(m) ("a maze of the same kind").
 * show_solution without show_endpoints is the one rejected flag pair: both renderers must raise
   ValueError (DESIGN C10 spec; clause rejects_solution_without_endpoints).
 * interior posts (pixels between four cells) being walls is not in the statement: M:post_pixels.
 * RGB values are not part of the statement: the image is palette-indexed with the library's own
   PixelColors table (should two entries coincide, the lower code wins: a mark painted like a wall or
   an open pixel IS one); any other colour -> code 9 -> "palette".

Audit 2 (input classes C-H): observe_reps builds every maze value in other REPRESENTATIONS (Fortran / strided connection
arrays, int8..int64 / tuple / list / numpy-scalar coordinates, constructor with generation_meta and redundant start_pos /
end_pos, the from_* factories), passes the flags positionally / as numpy.bool_ and hands the picture to the reader as the
caller's own int64 / int32 / Fortran / strided / negative-stride / read-only array, which is snapshotted before and
overwritten after the read, before the returned maze is looked at.  All of these are Layer P: the record is judged on the
projection of the constructed object.  Inputs outside the declared interface blame one Layer-M clause of their own (record
field lay): flags left to their defaults (M:default_flags) or given as ints (M:int_flags), uint8 / int64 connection arrays
(M:nonbool_connection_list), the 2-D black/white grid (M:bw_grid), text with surrounding blanks (M:ascii_whitespace); a call
that changes its argument is M:argument_modified (and Layer P through the re-reads of the histories).  Unsigned coordinate
arrays are not generated (Coord is declared Int8; differences of unsigned coordinates wrap inside as_pixels' adjacency assert).
observe_extreme: no-edge / all-edge grids up to 12x12 with corner cells, start = end, length-1 / length-2 solutions.

Canaries are corruptions of HAND-MADE records (independent of the code under test; the uncorrupted
ones must be accepted).  Everything the library does in the driver (constructors, renderers, readers)
is recorded as an outcome and judged; readers run under a CPU-time limit.
"""
import json

import numpy as np

from harness import lib, mz

# PxWalk / BfsDist recurse once per path cell: a 100-cell solution on a 12x12 dfs maze overflows the
# JVM's default 1 MB thread stack (intermittently - it depends on what the JIT has compiled so far)
JVM_ENV = {"JAVA_TOOL_OPTIONS": "-Xss64m"}
VIEWS = [(True, True), (True, False), (False, False), (False, True)]
KINDS = ("LatticeMaze", "TargetedLatticeMaze", "SolvedMaze")


# ------------------------------------------------------------------ observation (real code)
_STD_TAB = [(0, 0, 0), (255, 255, 255), (0, 255, 0), (255, 0, 0), (0, 0, 255)]


def _palette():
    """the library's own colour table (the RGB values are not part of the statement)"""
    try:
        from maze_dataset.maze.lattice_maze import PixelColors as P

        tab = [tuple(int(v) for v in x) for x in (P.WALL, P.OPEN, P.START, P.END, P.PATH)]
        if all(len(t) == 3 for t in tab):
            return tab
    except Exception:  # noqa: BLE001 - a broken table is judged through the pictures it produces
        pass
    return list(_STD_TAB)


def _pal(img, tab):
    """RGB image -> rows of palette codes 0..4 (9 = a colour outside the table); None if not an image.
    Should two table entries coincide, the lower code wins (a mark painted in the colour of a wall or
    an open pixel IS a wall / an open pixel)."""
    try:
        a = np.asarray(img)
        if a.ndim != 3 or a.shape[2] != 3 or a.dtype == object:
            return None
        code = np.full(a.shape[:2], 9, dtype=int)
        for k in range(len(tab) - 1, -1, -1):
            code[(a == np.array(tab[k])).all(axis=-1)] = k
        return code.tolist()
    except Exception:  # noqa: BLE001
        return None


class _CpuTimeout(Exception):
    pass


_TIMEOUTS = [0]  # per worker process


def _limited(fn, limit=3.0):
    """mz.outcome with a CPU-time limit (a defective reader may loop forever); ITIMER_VIRTUAL counts
    only this process's own CPU time, so a loaded machine cannot cause a spurious timeout.  Normal
    calls take 0.1-30 ms; after three timeouts in a worker the limit drops so that the run still ends."""
    import signal

    def on_alarm(_sig, _frm):
        raise _CpuTimeout()

    old = signal.signal(signal.SIGVTALRM, on_alarm)
    signal.setitimer(signal.ITIMER_VIRTUAL, limit if _TIMEOUTS[0] < 3 else limit / 10)
    try:
        r = mz.outcome(fn)
    finally:
        signal.setitimer(signal.ITIMER_VIRTUAL, 0)
        signal.signal(signal.SIGVTALRM, old)
    if r[0] == "raise:_CpuTimeout":
        _TIMEOUTS[0] += 1
    return r


def _proj(b):
    try:
        return "ok", mz.proj(b)
    except Exception:  # noqa: BLE001 - not a maze object
        return "raise:NotAMaze", []


def build(kind, conn, s=None, e=None, sol=None):
    if kind == "LatticeMaze":
        return mz.LatticeMaze(connection_list=conn)
    if kind == "TargetedLatticeMaze":
        return mz.TargetedLatticeMaze(connection_list=conn, start_pos=np.array(s), end_pos=np.array(e))
    return mz.SolvedMaze(connection_list=conn, solution=np.array(sol))


def observe_new(kind, conn, s, e, sol, src, tab, views=VIEWS, **kw):
    """construct the maze value and observe it; a constructor that refuses a valid value is an outcome too"""
    res, m = mz.outcome(lambda: build(kind, conn, s, e, sol))
    if res == "ok":
        return observe(m, src, tab, views, **kw)
    if kind == "SolvedMaze":
        s, e = sol[0], sol[-1]
    pm = dict(kind=kind, R=int(conn.shape[1]), C=int(conn.shape[2]), conn=mz.raw(conn), start=[int(v) for v in s] if s is not None else [],
              end=[int(v) for v in e] if e is not None else [], sol=[[int(a), int(b)] for a, b in sol] if sol is not None else [])
    return [dict(maze=pm, se=se, ss=ss, res_px=res, res_ascii=res, img=[], ascii=[], rt_px="na", back_px=[], rt_ascii="na", back_ascii=[], src=src) for se, ss in views]


def observe(m, src, tab, views=VIEWS, reads=1, scribble=False, limit=3.0, hold=None):
    """one record per flag pair (in the given order, repeats allowed): the two renderings and what the
    readers make of exactly them.  History options (audit class A): reads > 1 = the SAME picture object /
    text is read again (one more record per extra read: a reader must not consume or remember its input);
    scribble = the returned array is overwritten afterwards (a later rendering must not show it);
    hold = a list: returned pictures and mazes are kept alive and projected only when settle(hold) is called
    after further calls (a result must not alias state that later calls change)."""
    cls = type(m)
    pm = mz.proj(m)
    out = []
    for se, ss in views:
        rp, img = _limited(lambda: m.as_pixels(show_endpoints=se, show_solution=ss), limit)
        ra, asc = _limited(lambda: m.as_ascii(show_endpoints=se, show_solution=ss), limit)
        rec = dict(maze=pm, se=se, ss=ss, res_px=rp, res_ascii=ra, img=[], ascii=[], rt_px="na", back_px=[], rt_ascii="na", back_ascii=[], src=src)
        mine = []
        if rp == "ok":
            code = _pal(img, tab)
            if code is None:
                rec["res_px"] = rp = "raise:NotAnImage"
            else:
                rec["img"] = code  # the picture as rendered; every read below is a read of this picture
        if ra == "ok" and not isinstance(asc, str):
            rec["res_ascii"] = ra = "raise:NotAString"
        for k in range(reads):
            if k:
                rec = dict(rec, src=f"{src}:read{k + 1}", rt_px="na", back_px=[], rt_ascii="na", back_ascii=[])
            mine.append(rec)
            for ok, key, call in ((rp, "px", lambda: cls.from_pixels(img)), (ra, "ascii", lambda: cls.from_ascii(asc))):
                if ok != "ok":
                    continue
                if key == "ascii":
                    rec["ascii"] = [list(row) for row in asc.split("\n")]
                rt, b = _limited(call, limit)
                if rt == "ok" and hold is not None:
                    hold.append(("back", rec, key, b))
                elif rt == "ok":
                    rt, rec["back_" + key] = _proj(b)
                rec["rt_" + key] = rt
            out.append(rec)
        if scribble and rp == "ok":
            try:
                img[...] = 77  # the caller owns the returned array
            except Exception:  # noqa: BLE001 - read-only result: nothing to scribble
                pass
        elif hold is not None and rp == "ok":
            hold.append(("img", mine, tab, img))
    return out


def settle(hold):
    """project the results that were kept alive while other calls were made"""
    for h in hold:
        if h[0] == "back":
            _, rec, key, b = h
            rec["rt_" + key], rec["back_" + key] = _proj(b)
        else:
            _, recs, tab, img = h
            code = _pal(img, tab)
            for rec in recs:
                rec["img"] = code if code is not None else [[9]]
    hold.clear()


def observe_graphs(args):
    """exhaustive: graphs n_lo..n_hi-1 of shape r x c; three kinds, every ordered pair incl. start = end,
    every shortest path"""
    r, c, lo, hi, rej_every = args
    tab = _palette()
    cells = mz.cells(r, c)
    out = []
    for n in range(lo, hi):
        conn = mz.conn_from_int(r, c, n)
        views = VIEWS if n % rej_every == 0 else VIEWS[:3]
        src = f"ex:{r}x{c}:{n}"
        out += observe_new("LatticeMaze", conn, None, None, None, src, tab, views)
        for s in cells:
            for e in cells:
                out += observe_new("TargetedLatticeMaze", conn, s, e, None, src, tab, views)
                for p in mz.all_shortest(conn, s, e):
                    out += observe_new("SolvedMaze", conn, None, None, p, src, tab, views)
    return out


def _gen_conn(rng, gen, r, c):
    from maze_dataset.generation import LatticeMazeGenerators as G

    if gen == "perc":
        return mz.rand_conn(rng, r, c, float(rng.choice([0.3, 0.5, 0.7])))
    import random

    np.random.seed(int(rng.integers(0, 2**31)))
    random.seed(int(rng.integers(0, 2**31)))
    if gen == "dfs":
        return G.gen_dfs(np.array([r, c])).connection_list
    if gen == "dfs_perc":
        return G.gen_dfs_percolation(np.array([r, c]), p=float(rng.choice([0.1, 0.3]))).connection_list
    raise ValueError(gen)


def _rand_shortest(conn, s, t, rng):
    """input generation only (the oracle decides the premise itself): a uniformly-descending random shortest path"""
    d = mz.bfs(conn, t)
    if s not in d:
        return None
    p = [s]
    while p[-1] != t:
        nb = [y for y in mz.nbrs(conn, p[-1]) if d.get(y) == d[p[-1]] - 1]
        p.append(nb[int(rng.integers(len(nb)))])
    return p


def _rand_simple_walk(conn, s, rng, maxlen):
    p = [s]
    while len(p) < maxlen:
        nb = [y for y in mz.nbrs(conn, p[-1]) if y not in p]
        if not nb:
            break
        p.append(nb[int(rng.integers(len(nb)))])
    return p


def observe_random(args):
    seed, k, maxn = args
    rng = np.random.default_rng([seed, 10, k])
    tab = _palette()
    if k % 3 == 0:  # square
        r = c = int(rng.integers(2, maxn + 1))
    elif k % 3 == 1:  # oblong, incl. single rows / columns
        r, c = int(rng.integers(1, maxn + 1)), int(rng.integers(1, maxn + 1))
        if r == c:
            c = c % maxn + 1
    else:
        r, c = int(rng.integers(1, maxn + 1)), int(rng.integers(1, maxn + 1))
    gen = ["perc", "dfs", "dfs_perc", "perc"][k % 4] if min(r, c) > 1 else "perc"
    try:
        conn = np.array(_gen_conn(rng, gen, r, c), dtype=bool)
        assert conn.shape == (2, r, c)
    except Exception:  # noqa: BLE001 - the generators are other properties' business (C01/C12)
        gen = "perc!"
        conn = mz.rand_conn(rng, r, c, 0.5)
    conn[0, -1, :] = False
    conn[1, :, -1] = False
    src = f"rnd:{seed}:{k}:{gen}:{r}x{c}"
    rc = lambda: (int(rng.integers(0, r)), int(rng.integers(0, c)))  # noqa: E731
    out = observe_new("LatticeMaze", conn, None, None, None, src, tab)
    pairs = [(rc(), rc()), (rc(), rc())]
    s0 = rc()
    pairs.append((s0, s0))  # start = end: rendering only
    nb = mz.nbrs(conn, s0)
    if nb:
        pairs.append((s0, nb[int(rng.integers(len(nb)))]))  # adjacent: length-2 solution, no PATH cell
    far = mz.bfs(conn, s0)
    pairs.append((s0, max(far, key=lambda x: (far[x], x))))  # a longest shortest path from s0
    for s, e in pairs:
        out += observe_new("TargetedLatticeMaze", conn, s, e, None, src, tab)
        p = _rand_shortest(conn, s, e, rng)
        if p is not None:
            out += observe_new("SolvedMaze", conn, None, None, p, src, tab)
    w = _rand_simple_walk(conn, rc(), rng, int(rng.integers(2, 3 * maxn)))
    out += observe_new("SolvedMaze", conn, None, None, w, "walk:" + src, tab)  # usually not shortest: rendering + Layer M
    return out


def observe_snake(args):
    """boustrophedon corridor through every cell: the longest possible solution (R*C cells), both directions"""
    r, c = args
    tab = _palette()
    conn = np.zeros((2, r, c), dtype=bool)
    path = []
    for i in range(r):
        cols = range(c) if i % 2 == 0 else range(c - 1, -1, -1)
        path += [(i, j) for j in cols]
    for a, b in zip(path, path[1:]):
        lo = min(a, b)
        conn[0 if a[0] != b[0] else 1, lo[0], lo[1]] = True
    src = f"snake:{r}x{c}"
    out = observe_new("SolvedMaze", conn, None, None, path, src, tab)
    out += observe_new("SolvedMaze", conn, None, None, path[::-1], src, tab)
    out += observe_new("TargetedLatticeMaze", conn, path[0], path[-1], None, src, tab)
    return out


# ------------------------------------------------------------------ audit class A: histories
ACC = VIEWS[:3]


def _use(m):
    """legitimate uses of a maze value between two renderings (none may change what is drawn)"""
    for f in (lambda: hash(m), lambda: m == m, lambda: m.get_nodes(), lambda: m.as_adj_list(), lambda: m.get_coord_neighbors((0, 0)),
              lambda: m.find_shortest_path((0, 0), (m.connection_list.shape[1] - 1, m.connection_list.shape[2] - 1)), lambda: m._as_pixels_bw()):
        mz.outcome(f)


def observe_history(args):
    """one process, one connection structure, several maze values on it: the SAME objects rendered and read
    repeatedly under changing flags (A-B-A), returned arrays scribbled over, the same picture read twice,
    values used in between, equal-but-distinct / same-graph-different-solution / reloaded objects interleaved.
    Every single observation is an ordinary record: history must not matter."""
    seed, k = args
    rng = np.random.default_rng([seed, 11, k])
    tab = _palette()
    r, c = int(rng.integers(2, 7)), int(rng.integers(2, 7))
    gen = ["dfs", "perc", "dfs_perc"][k % 3]
    try:
        conn = np.array(_gen_conn(rng, gen, r, c), dtype=bool)
        assert conn.shape == (2, r, c)
    except Exception:  # noqa: BLE001
        conn = mz.rand_conn(rng, r, c, 0.6)
    conn[0, -1, :] = False
    conn[1, :, -1] = False
    src = f"hist:{seed}:{k}:{gen}:{r}x{c}"
    s0 = (int(rng.integers(0, r)), int(rng.integers(0, c)))
    far = mz.bfs(conn, s0)
    e0 = max(far, key=lambda x: (far[x], x))
    p = _rand_shortest(conn, s0, e0, rng)
    p2 = _rand_shortest(conn, e0, s0, rng)  # same graph, another solution (reverse direction)
    seq = [ACC[int(i)] for i in rng.permutation(3)]
    seq = seq + [VIEWS[3], seq[0], seq[2], seq[1], seq[0]]  # A B C (rejected) A C B A
    out = []
    hold = []
    objs = {}
    for name, (kind, a) in dict(sv=("SolvedMaze", (None, None, p)), tg=("TargetedLatticeMaze", (s0, e0, None)), lat=("LatticeMaze", (None, None, None)),
                                sv2=("SolvedMaze", (None, None, p2)), sveq=("SolvedMaze", (None, None, [tuple(x) for x in p]))).items():
        res, m = mz.outcome(lambda: build(kind, conn.copy() if name == "sveq" else conn, *a))
        if res == "ok":
            objs[name] = m
    if "sv" in objs:
        out += observe(objs["sv"], src + ":sv", tab, seq, reads=2, scribble=True, hold=hold)
        _use(objs["sv"])
        out += observe(objs["sv"], src + ":sv-used", tab, seq[::-1], scribble=True)
        settle(hold)
        res, m = mz.outcome(lambda: type(objs["sv"]).load(objs["sv"].serialize()))
        if res == "ok" and type(m).__name__ == "SolvedMaze":
            objs["svload"] = m
    for v in seq:  # interleaved: values sharing a graph / a value / a class, one flag pair at a time
        for name in [str(x) for x in rng.permutation(sorted(objs))]:
            out += observe(objs[name], f"{src}:{name}", tab, [v], reads=1 + int(rng.integers(0, 2)), scribble=bool(rng.integers(0, 2)), hold=hold)
    settle(hold)
    return out


def _snake(r, c):
    conn = np.zeros((2, r, c), dtype=bool)
    path = []
    for i in range(r):
        path += [(i, j) for j in (range(c) if i % 2 == 0 else range(c - 1, -1, -1))]
    for a, b in zip(path, path[1:]):
        lo = min(a, b)
        conn[0 if a[0] != b[0] else 1, lo[0], lo[1]] = True
    return conn, path


SIZE_ORDERS = [
    [(7, 7), (7, 4), (4, 7), (3, 3), (2, 5), (1, 2)],  # decreasing
    [(1, 2), (2, 2), (2, 5), (4, 4), (4, 9), (9, 4)],  # increasing
    [(4, 2), (4, 6), (4, 2), (6, 4), (2, 4), (6, 6), (1, 1), (6, 6)],  # narrow then wider with the same row count, scrambled, repeats
]


def observe_sizes(args):
    """one process: the same functions / classes applied to pictures of different sizes in a fixed order"""
    order, rev = args
    tab = _palette()
    out = []
    hold = []
    seq = SIZE_ORDERS[order][::-1] if rev else SIZE_ORDERS[order]
    for n, (r, c) in enumerate(seq):
        conn, path = _snake(r, c)
        src = f"sizes:{order}:{int(rev)}:{n}:{r}x{c}"
        out += observe_new("SolvedMaze", conn, None, None, path, src, tab, ACC, hold=hold)
        out += observe_new("TargetedLatticeMaze", conn, path[-1], path[0], None, src, tab, ACC[:2], hold=hold)
        out += observe_new("LatticeMaze", conn, None, None, None, src, tab, ACC[2:], hold=hold)
    settle(hold)
    return out


# ------------------------------------------------------------------ audit class B: magnitudes
BIG = ["dfs66", "row130", "col130", "snake2x70", "snake70x2", "snake16x17", "cut127", "cut128", "cut129", "cut255", "cut256", "cut257"]


def observe_big(name):
    """pixel coordinates beyond 127 (66x66, 2x70) and 255 (1x130), solutions of 127..129 and 255..257 and 272+ cells"""
    tab = _palette()
    src = "big:" + name
    if name.startswith("dfs66"):  # cell index 64, 65 -> pixel coordinates 129, 131
        n = 66
        rng = np.random.default_rng([n, n])
        try:
            conn = np.array(_gen_conn(rng, "dfs", n, n), dtype=bool)
            assert conn.shape == (2, n, n)
        except Exception:  # noqa: BLE001
            conn = mz.rand_conn(rng, n, n, 0.6)
        conn[0, -1, :] = False
        conn[1, :, -1] = False
        a = (n - 1, n - 1)
        d0 = mz.bfs(conn, a)
        if name == "dfs66long":  # thorough: a longest shortest path (~1800 cells; the oracle is quadratic in it)
            a = max(d0, key=lambda x: (d0[x], x))
            d0 = mz.bfs(conn, a)
            b = max(d0, key=lambda x: (d0[x], x))
        else:
            lim = min(300, max(d0.values()))
            b = max((x for x in d0 if d0[x] == lim), key=lambda x: (min(x), x))
        p = _rand_shortest(conn, a, b, rng)
        out = observe_new("SolvedMaze", conn, None, None, p, src, tab, VIEWS[:2] + VIEWS[3:], limit=60.0)
        if name == "dfs66":
            out += observe_new("SolvedMaze", conn, None, None, p[::-1], src, tab, VIEWS[:1], limit=60.0)
            out += observe_new("TargetedLatticeMaze", conn, (n - 1, n - 2), (n - 2, n - 1), None, src, tab, VIEWS[1:2], limit=60.0)
            out += observe_new("LatticeMaze", conn, None, None, None, src, tab, VIEWS[2:3], limit=60.0)
        return out
    if name.startswith("cut"):
        conn, path = _snake(16, 17)
        path = path[: int(name[3:])]
    else:
        r, c = dict(row130=(1, 130), col130=(130, 1), snake2x70=(2, 70), snake70x2=(70, 2), snake16x17=(16, 17))[name]
        conn, path = _snake(r, c)
    out = observe_new("SolvedMaze", conn, None, None, path, src, tab, VIEWS[:2], limit=30.0)
    out += observe_new("SolvedMaze", conn, None, None, path[::-1], src, tab, VIEWS[:1], limit=30.0)
    out += observe_new("TargetedLatticeMaze", conn, path[-1], path[0], None, src, tab, VIEWS[1:3], limit=30.0)
    return out


# ------------------------------------------------------------------ audit 2: representations, factories, defaults, argument aliasing
# One observation = one maze value built in a given REPRESENTATION (class G / F), rendered with the flags given in a
# given way (class C / G), and the picture handed to the reader as the caller's own array in a given representation
# (class G / E).  `var` names the representation of every argument; VAR0 is what the other drivers use.
#   conn   copy | F (Fortran order) | view (non-contiguous view into a larger caller-owned array) | uint8 | int64 (M: not Bool)
#   co     coordinates (start / end / solution): int64 | int8 (the declared Coord dtype) | int16 | int32 | view | F |
#          tuple | list | npint (python containers of numpy ints)
#   flags  kw | pos (positional) | np (numpy.bool_) | int (0 / 1; M) | dflt (a flag that is True is left to its default; M)
#   img    same | int64 | int32 | F | view | flip (negative strides) | ro (read-only) | bw (the 2-D black/white grid; M)
#   txt    same | nl (surrounding blank lines + trailing blanks, which from_ascii strips; M)
#   fac    ctor | meta (constructor with generation_meta and, for SolvedMaze, the redundant start_pos / end_pos) |
#          from (X.from_lattice_maze of a LatticeMaze with generation_meta) | from_tg (SolvedMaze.from_targeted_lattice_maze)
# The record is judged on the projection of the CONSTRUCTED object: once a constructor has accepted the arguments the
# object is a maze value and the statement applies to it (Layer P), except where the argument is outside the declared
# interface (lay = the Layer-M clause that takes the blame).  The caller's picture is snapshotted before the read and
# overwritten after it, BEFORE anything is read from the returned maze (class E).
VAR0 = dict(conn="copy", co="int64", flags="kw", img="same", txt="same", fac="ctor")
P_CONN = ["F", "view"]
P_CO = ["int8", "int16", "int32", "view", "F", "tuple", "list", "npint"]  # signed: Coord is declared Int8 (unsigned differences wrap)
P_FLAGS = ["pos", "np"]
P_IMG = ["int64", "int32", "F", "view", "flip", "ro"]


def _lay(var):
    if var["conn"] in ("uint8", "int64"):
        return "M:nonbool_connection_list"
    if var["flags"] == "int":
        return "M:int_flags"
    if var["flags"] == "dflt":
        return "M:default_flags"
    if var["img"] == "bw":
        return "M:bw_grid"
    if var["txt"] != "same":
        return "M:ascii_whitespace"
    return ""


def _rep_conn(conn, how):
    conn = np.asarray(conn, dtype=bool)
    if how == "F":
        return np.asfortranarray(conn)
    if how == "view":
        big = np.ones((2, 2 * conn.shape[1] + 1, 2 * conn.shape[2] + 1), dtype=bool)
        big[:, 1::2, 1::2] = conn
        return big[:, 1::2, 1::2]
    if how in ("uint8", "int64"):
        return conn.astype(how)
    return conn.copy()


def _rep_co(x, how):
    """a coordinate (i, j) or a path [(i, j), ...] in the given representation"""
    a = np.array(x, dtype=np.int64)
    if how in ("int8", "int16", "int32", "int64"):
        return a.astype(how)
    if how == "F":
        return np.asfortranarray(a)
    if how == "view":
        big = np.full(a.shape[:-1] + (4,), -3, dtype=np.int64)
        big[..., ::2] = a
        return big[..., ::2]
    if how == "tuple":
        return tuple(int(v) for v in x) if a.ndim == 1 else tuple(tuple(int(v) for v in c) for c in x)
    if how == "list":
        return [int(v) for v in x] if a.ndim == 1 else [[int(v) for v in c] for c in x]
    if how == "npint":
        return tuple(np.int64(v) for v in x) if a.ndim == 1 else [tuple(np.int64(v) for v in c) for c in x]
    raise ValueError(how)


def _meta(conn):
    """a hand-made generation_meta in the style of the generators (values do not matter for a picture)"""
    r, c = conn.shape[1:]
    return dict(func_name="gen_dfs", grid_shape=np.array([r, c]), start_coord=(0, 0), n_accessible_cells=int(r * c), max_tree_depth=None,
                fully_connected=False, visited_cells={(0, 0), (r - 1, c - 1)}, nested=dict(a=[1, 2, {"b": ()}]))


def build_var(kind, conn, s, e, sol, var):
    cr = _rep_conn(conn, var["conn"])
    co, fac = var["co"], var["fac"]
    if fac == "ctor":
        if kind == "LatticeMaze":
            return mz.LatticeMaze(connection_list=cr)
        if kind == "TargetedLatticeMaze":
            return mz.TargetedLatticeMaze(connection_list=cr, start_pos=_rep_co(s, co), end_pos=_rep_co(e, co))
        return mz.SolvedMaze(connection_list=cr, solution=_rep_co(sol, co))
    meta = _meta(cr)
    if fac == "meta":
        if kind == "LatticeMaze":
            return mz.LatticeMaze(connection_list=cr, generation_meta=meta)
        if kind == "TargetedLatticeMaze":
            return mz.TargetedLatticeMaze(connection_list=cr, start_pos=_rep_co(s, co), end_pos=_rep_co(e, co), generation_meta=meta)
        return mz.SolvedMaze(connection_list=cr, solution=_rep_co(sol, co), generation_meta=meta, start_pos=_rep_co(sol[0], co), end_pos=_rep_co(sol[-1], co))
    lat = mz.LatticeMaze(connection_list=cr, generation_meta=meta)
    if kind == "LatticeMaze":
        return lat
    if kind == "TargetedLatticeMaze":
        return mz.TargetedLatticeMaze.from_lattice_maze(lat, _rep_co(s, co), _rep_co(e, co))
    if fac == "from":
        return mz.SolvedMaze.from_lattice_maze(lat, _rep_co(sol, co))
    tg = mz.TargetedLatticeMaze.from_lattice_maze(lat, _rep_co(sol[0], co), _rep_co(sol[-1], co))
    return mz.SolvedMaze.from_targeted_lattice_maze(tg, solution=_rep_co(sol, co))


def _flag_call(f, se, ss, how):
    if how == "pos":
        return lambda: f(se, ss)
    if how == "np":
        return lambda: f(show_endpoints=np.bool_(se), show_solution=np.bool_(ss))
    if how == "int":
        return lambda: f(show_endpoints=int(se), show_solution=int(ss))
    if how == "dflt":
        kw = {k: v for k, v in (("show_endpoints", se), ("show_solution", ss)) if not v}
        return lambda: f(**kw)
    return lambda: f(show_endpoints=se, show_solution=ss)


def _rep_img(img, how):
    """(the array handed to the reader, the caller-owned buffer behind it)"""
    if how in ("int64", "int32"):
        a = img.astype(how)
        return a, a
    if how == "F":
        a = np.asfortranarray(img)
        return a, a
    if how == "view":
        big = np.full((2 * img.shape[0], 2 * img.shape[1], 3), 7, dtype=img.dtype)
        big[::2, ::2] = img
        return big[::2, ::2], big
    if how == "flip":
        big = np.ascontiguousarray(img[::-1, ::-1])
        return big[::-1, ::-1], big
    if how == "ro":
        a = img.view()
        a.setflags(write=False)
        return a, img
    return img, img


def observe_var(kind, conn, s, e, sol, se, ss, var, src, tab, limit=3.0):
    """ONE record: the maze built, rendered and read back in the representations named by `var`"""
    lay = _lay(var)
    extra = dict(var=json.dumps(var, sort_keys=True), lay=lay, intact=True)
    res, m = mz.outcome(lambda: build_var(kind, conn, s, e, sol, var))
    if res != "ok":  # the constructor refused a valid value in this representation: an outcome like any other
        if kind == "SolvedMaze":
            s, e = sol[0], sol[-1]
        pm = dict(kind=kind, R=int(conn.shape[1]), C=int(conn.shape[2]), conn=mz.raw(conn), start=[int(v) for v in s] if s is not None else [],
                  end=[int(v) for v in e] if e is not None else [], sol=[[int(a), int(b)] for a, b in sol] if sol is not None else [])
        return dict(maze=pm, se=se, ss=ss, res_px=res, res_ascii=res, img=[], ascii=[], rt_px="na", back_px=[], rt_ascii="na", back_ascii=[], src=src, **extra)
    cls = type(m)
    pm = mz.proj(m)
    if var["img"] == "bw":
        return _observe_bw(m, cls, pm, src, extra, limit)
    rp, img = _limited(_flag_call(m.as_pixels, se, ss, var["flags"]), limit)
    ra, asc = _limited(_flag_call(m.as_ascii, se, ss, var["flags"]), limit)
    rec = dict(maze=pm, se=se, ss=ss, res_px=rp, res_ascii=ra, img=[], ascii=[], rt_px="na", back_px=[], rt_ascii="na", back_ascii=[], src=src, **extra)
    if rp == "ok":
        code = _pal(img, tab)
        if code is None:
            rec["res_px"] = rp = "raise:NotAnImage"
        else:
            rec["img"] = code
    if ra == "ok" and not isinstance(asc, str):
        rec["res_ascii"] = ra = "raise:NotAString"
    if rp == "ok":
        arg, buf = _rep_img(img, var["img"])
        snap = np.array(arg, copy=True)
        rt, b = _limited(lambda: cls.from_pixels(arg), limit)
        if not (arg.shape == snap.shape and arg.dtype == snap.dtype and np.array_equal(arg, snap)):
            rec["intact"] = False
        for z in (buf, img):  # the caller re-uses its buffers before it looks at the maze it got
            try:
                z[...] = 77
            except Exception:  # noqa: BLE001
                pass
        if rt == "ok":
            rt, rec["back_px"] = _proj(b)
        rec["rt_px"] = rt
    if ra == "ok":
        rec["ascii"] = [list(row) for row in asc.split("\n")]
        text = asc if var["txt"] == "same" else "\n\n" + "\n".join("  " + row + "   " for row in asc.split("\n")) + "\n\n"
        rt, b = _limited(lambda: cls.from_ascii(text), limit)
        if rt == "ok":
            rt, rec["back_ascii"] = _proj(b)
        rec["rt_ascii"] = rt
    if mz.outcome(lambda: mz.proj(m)) != ("ok", pm):
        rec["intact"] = False  # a renderer / reader changed the maze value
    return rec


def _observe_bw(m, cls, pm, src, extra, limit):
    """the 2-D black/white grid (_as_pixels_bw) and from_pixels of it: the bare lattice picture, read back as a
    LatticeMaze whatever the class (Layer M: the statement speaks of the colour image)"""
    lm = dict(pm, kind="LatticeMaze", start=[], end=[], sol=[])
    rb, bw = _limited(lambda: m._as_pixels_bw(), limit)
    ra, asc = _limited(lambda: m.as_ascii(show_endpoints=False, show_solution=False), limit)
    rec = dict(maze=lm, se=False, ss=False, res_px=rb, res_ascii=ra, img=[], ascii=[], rt_px="na", back_px=[], rt_ascii="na", back_ascii=[], src=src, **extra)
    if rb == "ok":
        a = np.asarray(bw)
        if a.ndim != 2 or a.dtype == object:
            rec["res_px"] = rb = "raise:NotAnImage"
        else:
            rec["img"] = a.astype(bool).astype(int).tolist()
            snap = a.copy()
            rt, b = _limited(lambda: cls.from_pixels(bw), limit)
            if not np.array_equal(np.asarray(bw), snap):
                rec["intact"] = False
            try:
                bw[...] = False
            except Exception:  # noqa: BLE001
                pass
            if rt == "ok":
                rt, rec["back_px"] = _proj(b)
            rec["rt_px"] = rt
    if ra == "ok" and isinstance(asc, str):
        rec["ascii"] = [list(row) for row in asc.split("\n")]
        rt, b = _limited(lambda: mz.LatticeMaze.from_ascii(asc), limit)
        if rt == "ok":
            rt, rec["back_ascii"] = _proj(b)
        rec["rt_ascii"] = rt
    elif ra == "ok":
        rec["res_ascii"] = "raise:NotAString"
    if mz.outcome(lambda: mz.proj(m)) != ("ok", pm):
        rec["intact"] = False
    return rec


REP_SHAPES = [(2, 5), (5, 2), (3, 7), (7, 3), (1, 6), (6, 1), (4, 4), (1, 1), (2, 2), (8, 3), (3, 8), (5, 5)]
_COMPLETE = {"LatticeMaze": (False, False), "TargetedLatticeMaze": (True, False), "SolvedMaze": (True, True)}


def observe_reps(args):
    """one connection structure (oblong shapes first; no edge / every edge / percolation), six maze values on it (incl. a
    length-1 and a length-2 solution and start = end), each in every representation: one argument varied at a time + random
    combinations; flag representations under all four flag pairs"""
    seed, k = args
    rng = np.random.default_rng([seed, 12, k])
    tab = _palette()
    r, c = REP_SHAPES[k % len(REP_SHAPES)]
    p = [0.5, 1.0, 0.7, 0.0, 0.85][(k + k // len(REP_SHAPES)) % 5]
    conn = mz.rand_conn(rng, r, c, p)
    src = f"rep:{seed}:{k}:{r}x{c}:p{p}"
    s0 = (int(rng.integers(0, r)), int(rng.integers(0, c)))
    far = mz.bfs(conn, s0)
    e0 = max(far, key=lambda x: (far[x], x))
    nb = mz.nbrs(conn, s0)
    values = [("LatticeMaze", None, None, None), ("TargetedLatticeMaze", s0, e0, None), ("TargetedLatticeMaze", e0, e0, None),
              ("SolvedMaze", None, None, _rand_shortest(conn, s0, e0, rng)), ("SolvedMaze", None, None, [s0])]
    if nb:
        values.append(("SolvedMaze", None, None, [nb[int(rng.integers(len(nb)))], s0]))
    out = []
    for kind, s, e, sol in values:
        full = _COMPLETE[kind]
        other = [v for v in ACC if v != full][int(rng.integers(2))]
        has_co = kind != "LatticeMaze"
        plan = [(dict(VAR0), [full])]
        plan += [(dict(VAR0, conn=x), [full, other]) for x in P_CONN + ["uint8", "int64"]]
        if has_co:
            plan += [(dict(VAR0, co=x), [full]) for x in P_CO]
        plan += [(dict(VAR0, flags=x), VIEWS) for x in P_FLAGS + ["int", "dflt"]]
        plan += [(dict(VAR0, img=x), [full]) for x in P_IMG + ["bw"]]
        plan += [(dict(VAR0, txt="nl"), [full])]
        plan += [(dict(VAR0, fac=x), [full, other]) for x in ["meta", "from"] + (["from_tg"] if kind == "SolvedMaze" else [])]
        for _ in range(3):
            pick = lambda xs: xs[int(rng.integers(len(xs)))]  # noqa: E731
            plan.append((dict(conn=pick(P_CONN + ["copy"]), co=pick(P_CO + ["int64"]) if has_co else "int64", flags=pick(P_FLAGS + ["kw"]), img=pick(P_IMG + ["same"]),
                              txt="same", fac=pick(["ctor", "meta", "from"])), [full, VIEWS[int(rng.integers(4))]]))
        for var, views in plan:
            for se, ss in views:
                out.append(observe_var(kind, conn, s, e, sol, se, ss, var, src, tab))
    return out


EXTREME_SHAPES = [(12, 12), (12, 5), (5, 12), (1, 12), (12, 1), (2, 9), (9, 2)]


def observe_extreme(args):
    """class H at size: no connection at all / every connection, with every kind, corner cells (index 0 and the last
    index), start = end, length-1 and length-2 solutions, all four flag pairs"""
    r, c, full = args
    tab = _palette()
    conn = np.zeros((2, r, c), dtype=bool)
    if full:
        conn[0, :-1, :] = True
        conn[1, :, :-1] = True
    src = f"extreme:{r}x{c}:{'all' if full else 'none'}"
    rng = np.random.default_rng([r, c, int(full)])
    z, last = (0, 0), (r - 1, c - 1)
    out = observe_new("LatticeMaze", conn, None, None, None, src, tab)
    for s, e in [(z, last), (last, z), (z, z), (last, last)]:
        out += observe_new("TargetedLatticeMaze", conn, s, e, None, src, tab)
        out += observe_new("SolvedMaze", conn, None, None, [s], src, tab)
        p = _rand_shortest(conn, s, e, rng)
        if p is not None and len(p) > 1:
            out += observe_new("SolvedMaze", conn, None, None, p, src, tab)
            out += observe_new("SolvedMaze", conn, None, None, p[:2], src, tab)
            out += observe_new("SolvedMaze", conn, None, None, p[-2:], src, tab)
    return out


# ------------------------------------------------------------------ canaries
# Canaries are corruptions of HAND-MADE records (never of observations of the code under test, so a
# defective implementation can only ever produce VIOLATION lines, not a canary whose base was wrong).
# The uncorrupted hand-made records must be ACCEPTED by the oracle (checked on every run).
_CH = {"#": 0, " ": 1, "S": 2, "E": 3, "X": 4}
_CONN_A = [[[1, 0, 1], [0, 0, 0]], [[1, 1, 0], [0, 1, 0]]]  # 2x3: (0,0)-(0,1)-(0,2)-(1,2)-(1,1) and (0,0)-(1,0)
_SOL_A = [[0, 0], [0, 1], [0, 2], [1, 2], [1, 1]]


def _hand(kind, R, C, conn, start, end, sol, se, ss, art, rt="ok"):
    pm = dict(kind=kind, R=R, C=C, conn=conn, start=start, end=end, sol=sol)
    rows = [list(line) for line in art]
    rec = dict(maze=pm, se=se, ss=ss, res_px="ok", res_ascii="ok", img=[[_CH[ch] for ch in row] for row in rows], ascii=rows, rt_px=rt, back_px=_cp(pm) if rt == "ok" else [], rt_ascii=rt, back_ascii=_cp(pm) if rt == "ok" else [], src="hand-made")
    return rec


def _cp(x):
    return json.loads(json.dumps(x))


def hand_made():
    sv = _hand("SolvedMaze", 2, 3, _CONN_A, [0, 0], [1, 1], _SOL_A, True, True, ["#######", "#SXXXX#", "# ###X#", "# #EXX#", "#######"])
    tg = _hand("TargetedLatticeMaze", 2, 3, _CONN_A, [0, 0], [1, 1], [], True, False, ["#######", "#S    #", "# ### #", "# #E  #", "#######"])
    lat = _hand("LatticeMaze", 2, 3, _CONN_A, [], [], [], False, False, ["#######", "#     #", "# ### #", "# #   #", "#######"])
    sv2 = _hand("SolvedMaze", 1, 2, [[[0, 0]], [[1, 0]]], [0, 0], [0, 1], [[0, 0], [0, 1]], True, True, ["#####", "#SXE#", "#####"])
    # the statement's picture of a solved maze with the solution hidden: endpoints drawn, nothing to read back as SolvedMaze
    svh = _hand("SolvedMaze", 2, 3, _CONN_A, [0, 0], [1, 1], _SOL_A, True, False, ["#######", "#S    #", "# ### #", "# #E  #", "#######"], rt="raise:ValueError")
    loop = _hand("TargetedLatticeMaze", 2, 3, _CONN_A, [1, 2], [1, 2], [], True, True, ["#######", "#     #", "# ### #", "# #  E#", "#######"], rt="raise:AssertionError")
    rej = dict(maze=_cp(sv["maze"]), se=False, ss=True, res_px="raise:ValueError", res_ascii="raise:ValueError", img=[], ascii=[], rt_px="na", back_px=[], rt_ascii="na", back_ascii=[], src="hand-made")
    return dict(sv=sv, tg=tg, lat=lat, sv2=sv2, svh=svh, loop=loop, rej=rej)


def make_canaries():
    """[(corrupted hand-made record, clause that must reject it)]"""
    H = hand_made()
    cans = []

    def add(base, clause, fn):
        y = _cp(H[base])
        fn(y)
        y["src"] = "canary:" + clause
        cans.append((y, clause))

    def px(yy, xx, c):
        return lambda y: y["img"][yy].__setitem__(xx, c)

    def both(yy, xx, ch):  # picture and text changed consistently
        return lambda y: (y["img"][yy].__setitem__(xx, _CH[ch]), y["ascii"][yy].__setitem__(xx, ch))

    tr = lambda g: [list(t) for t in zip(*g)]  # noqa: E731
    add("sv", "size", lambda y: y["img"].pop())
    add("lat", "size", lambda y: y.__setitem__("img", tr(y["img"])))  # rows and columns exchanged
    add("lat", "border", both(0, 1, " "))
    add("lat", "border", both(4, 5, " "))  # bottom border below cell (1,2): the off-by-one of an oblong grid
    add("lat", "cell_pixels", both(3, 1, "#"))
    add("lat", "edge_pixels", both(2, 3, " "))  # wall between (0,1) and (1,1) opened
    add("lat", "edge_pixels", both(1, 2, "#"))  # passage (0,0)-(0,1) closed
    add("sv", "edge_pixels", both(3, 2, " "))
    add("lat", "M:post_pixels", both(2, 2, " "))
    add("lat", "palette", px(1, 1, 9))
    add("tg", "endpoints", both(1, 1, " "))  # the shape of the known defect: endpoints requested, not drawn
    add("svh", "endpoints", both(1, 1, " "))
    add("svh", "endpoints", lambda y: (both(1, 1, " ")(y), both(3, 3, " ")(y)))  # exactly the known defect
    add("tg", "endpoints", lambda y: (both(3, 3, " ")(y), both(3, 5, "E")(y)))  # end on the wrong cell
    add("tg", "endpoints", lambda y: (both(1, 1, "E")(y), both(3, 3, "S")(y)))  # start and end exchanged
    add("tg", "endpoints", lambda y: y.__setitem__("se", False))  # drawn although not requested
    add("lat", "endpoints", both(1, 1, "S"))
    add("loop", "endpoints", both(3, 5, "S"))  # start = end is one END mark
    add("sv", "solution_pixels", both(1, 2, " "))  # in-between pixel missing
    add("sv", "solution_pixels", both(3, 4, " "))  # last in-between pixel missing
    add("sv2", "solution_pixels", both(1, 2, " "))
    add("sv", "solution_pixels", both(1, 3, " "))  # a solution cell missing
    add("sv", "solution_pixels", both(3, 1, "X"))  # a cell off the solution marked
    add("svh", "solution_pixels", both(1, 3, "X"))  # solution drawn although hidden
    add("sv", "ascii", lambda y: y["ascii"][1].__setitem__(3, " "))
    add("sv", "ascii", lambda y: y.__setitem__("ascii", tr(y["ascii"])))
    add("sv", "ascii", lambda y: y["ascii"].pop())
    add("sv", "ascii", lambda y: y["ascii"][2].pop())
    add("tg", "ascii", lambda y: y["ascii"][1].__setitem__(1, " "))
    add("sv", "roundtrip_pixels_solution", lambda y: y["back_px"]["sol"].reverse())
    add("sv", "roundtrip_ascii_solution", lambda y: y["back_ascii"]["sol"].pop(1))
    add("sv", "roundtrip_pixels_solution", lambda y: y["back_px"].__setitem__("sol", sorted(y["back_px"]["sol"])))  # raster order

    def swap_ends(key):
        def f(y):
            b = y[key]
            b["start"], b["end"] = b["end"], b["start"]

        return f

    add("sv", "roundtrip_pixels_endpoints", swap_ends("back_px"))
    add("tg", "roundtrip_ascii_endpoints", swap_ends("back_ascii"))
    add("tg", "roundtrip_pixels_endpoints", lambda y: y["back_px"].__setitem__("end", [1, 2]))
    add("lat", "roundtrip_pixels_connections", lambda y: y["back_px"]["conn"][1][0].__setitem__(0, 0))
    add("sv", "roundtrip_ascii_connections", lambda y: y["back_ascii"]["conn"][0][0].__setitem__(1, 1))
    add("lat", "roundtrip_pixels_connections", lambda y: y["back_px"].update(R=3, C=2))
    add("sv", "roundtrip_pixels_kind", lambda y: y["back_px"].update(kind="TargetedLatticeMaze", sol=[]))
    add("tg", "roundtrip_ascii_kind", lambda y: y["back_ascii"].update(kind="LatticeMaze", start=[], end=[]))
    add("sv", "roundtrip_ascii_raises", lambda y: y.update(rt_ascii="raise:AssertionError", back_ascii=[]))
    add("sv2", "roundtrip_pixels_raises", lambda y: y.update(rt_px="raise:ValueError", back_px=[]))
    add("lat", "roundtrip_pixels_raises", lambda y: y.update(rt_px="raise:IndexError", back_px=[]))
    add("sv", "M:frompx_model", lambda y: y.update(rt_px="raise:ValueError", back_px=[]))
    add("svh", "M:frompx_model", lambda y: y.update(rt_px="ok", back_px=_cp(y["maze"])))
    add("sv", "M:fromascii_model", lambda y: y["back_ascii"]["sol"].reverse())
    add("sv", "render_raises", lambda y: y.update(res_ascii="raise:IndexError"))
    add("lat", "render_raises", lambda y: y.update(res_px="raise:NotAnImage", img=[]))
    add("rej", "rejects_solution_without_endpoints", lambda y: y.update(res_px="ok", res_ascii="ok"))
    add("rej", "rejects_solution_without_endpoints", lambda y: y.update(res_px="raise:AssertionError"))
    add("sv", "M:input_malformed", lambda y: y["maze"]["sol"].pop(2))
    # audit 2: an observation outside the statement's quantifier blames its own Layer-M clause; arguments left intact
    add("sv", "M:default_flags", lambda y: (y.update(lay="M:default_flags"), both(1, 2, " ")(y)))
    add("tg", "M:int_flags", lambda y: (y.update(lay="M:int_flags"), y.update(rt_px="raise:TypeError", back_px=[])))
    add("lat", "M:bw_grid", lambda y: (y.update(lay="M:bw_grid"), y["back_px"]["conn"][1][0].__setitem__(0, 0)))
    add("lat", "M:nonbool_connection_list", lambda y: (y.update(lay="M:nonbool_connection_list"), both(2, 3, " ")(y)))
    add("sv", "M:ascii_whitespace", lambda y: (y.update(lay="M:ascii_whitespace"), y.update(rt_ascii="raise:ValueError", back_ascii=[])))
    add("sv", "M:argument_modified", lambda y: y.update(intact=False))
    add("sv", "solution_pixels", lambda y: (y.update(lay="", intact=True), both(1, 2, " ")(y)))  # lay = "" is Layer P
    return cans


def check_hand_made(chk):
    """the uncorrupted hand-made records are accepted (they do not depend on the code under test)"""
    recs = list(hand_made().values())
    for i, x in enumerate(recs):
        x["id"] = i
    res = lib.oracle("Trace_Pixels", recs, tag="hand", extra_env=JVM_ENV)
    if res.verdicts:
        raise lib.MachineryError(f"hand-made canary bases are rejected by the oracle: {res.verdicts}")
    # a record marked as outside the statement (lay) never yields a Layer-P clause: exactly its own Layer-M clause
    y = _cp(hand_made()["sv"])
    y.update(id=0, lay="M:default_flags", intact=True, rt_px="raise:ValueError", back_px=[])
    y["img"][1][2] = 1
    res = lib.oracle("Trace_Pixels", [y], tag="handlay", extra_env=JVM_ENV)
    if sorted(res.verdicts.get(0, [])) != ["M:default_flags", "M:frompx_model"]:
        raise lib.MachineryError(f"a Layer-M observation was not judged as such: {res.verdicts}")
    chk.notes["hand_made_records_accepted"] = len(recs)


# ------------------------------------------------------------------ judging
class _Capped:
    """proxy for lib.Check whose judge() keeps at most `cap` rejected records per (clause, kind, flags)
    group - a systematic defect rejects 10^4..10^5 records and each would become a replay file"""

    def __init__(self, chk, cap=4):
        self._chk, self._cap = chk, cap
        self.seen = {}

    def __getattr__(self, k):
        return getattr(self._chk, k)

    def judge(self, cases_by_id, res, *, label=""):
        keep = {}
        for rid, clauses in sorted(res.verdicts.items()):
            case = cases_by_id.get(rid, {})
            for cl in clauses:
                mm = case.get("maze", {})
                key = (cl, mm.get("kind"), case.get("se"), case.get("ss"), "start=end" if mm.get("start") == mm.get("end") else "start!=end")
                self.seen[key] = self.seen.get(key, 0) + 1
                if self.seen[key] <= self._cap:
                    keep.setdefault(rid, []).append(cl)
        self._chk.judge(cases_by_id, lib.OracleResult(keep, res.states, res.transitions, res.records, res.wall), label=label)


def _nontrivial(x):
    m = x["maze"]
    return m["kind"] != "LatticeMaze" and m["start"] != m["end"] and (x["se"] or not x["ss"]) and any(any(row) for d in m["conn"] for row in d)


def _case(x):
    return {k: x[k] for k in ("maze", "se", "ss", "res_px", "res_ascii", "img", "ascii", "rt_px", "rt_ascii", "src", "var", "lay", "intact") if k in x}


def _judge_batch(chk, cap, recs, label, what, **kw):
    if chk.tier == "thorough":
        print(f"[C10] batch {label}: {len(recs)} records", flush=True)
    lib.judge_with_canaries(cap, "Trace_Pixels", recs, make_canaries(), label=label, what=what, case_of=_case, extra_env=JVM_ENV, **kw)
    if any(c == "M:input_malformed" for c, _ in chk.divergences):
        raise lib.MachineryError("the driver produced a maze outside the scope of the statement (M:input_malformed)")
    for x in recs:
        m = x["maze"]
        chk.count([x["src"], m["kind"], m["start"], m["end"], m["sol"], x["se"], x["ss"]], _nontrivial(x))
        k = m["kind"] + ("/read_back_ok" if x["rt_px"] == "ok" and x["rt_ascii"] == "ok" else "")
        chk.notes["records_by_kind"][k] = chk.notes["records_by_kind"].get(k, 0) + 1


SMALL = [(1, 1), (1, 2), (2, 1), (1, 3), (3, 1), (2, 2), (2, 3), (3, 2), (1, 4), (4, 1)]


def main(chk: lib.Check) -> int:
    thorough = chk.tier == "thorough"
    chk.rule = (
        "cases = (maze value, show_endpoints, show_solution): exhaustive over all connection structures of the listed shapes x "
        "{LatticeMaze, TargetedLatticeMaze with every ordered (start,end) incl. start=end, SolvedMaze with every shortest path of every pair} "
        "x the 4 flag pairs; seeded random mazes (percolation p in {.3,.5,.7}, dfs, dfs+percolation) of shapes up to 12x12 "
        "(1/3 square, 1/3 forced oblong incl. single rows/columns) with random, adjacent, farthest and start=end pairs, random shortest paths "
        "and one random simple (usually non-shortest) walk; histories (same object / same picture / same class observed repeatedly in one process, results scribbled over) "
        "and magnitude cases (pixel coordinates > 127 and > 255, solutions around 128 / 256 cells and longer); representation cases (12 mostly oblong shapes x percolation p in {0,.5,.7,.85,1}: "
        "six maze values per structure incl. start=end, length-1 and length-2 solutions, each argument of constructor / renderer / reader in every other representation, one at a time + random combinations, "
        "factories with generation_meta) and no-edge / all-edge grids up to 12x12; non-trivial = kind with start != end on a graph with at least one edge under an accepted flag pair"
    )
    chk.notes["records_by_kind"] = {}
    # ---- (A) design-level model checking
    r = lib.tlc_design("PixelsMC", "Pixels_small.cfg", expect_actions=["PickLattice", "PickTargeted", "PickSolved", "Render", "WalkStep", "Finish"], tag="s", xmx="2g")
    chk.add_model("PixelsMC/small", r, "all graphs of shapes <= 2x3/3x2 x 3 kinds x all (start,end) x all shortest paths: clauses hold for Px, FromPx(Px(m)) = m, walk has exactly one candidate")
    r = lib.tlc_design("PixelsMC", "Pixels_deep.cfg", tag="d", xmx="2g")
    chk.add_model("PixelsMC/deep", r, "shapes <= 2x2, 1x3, 3x1: additionally every one-pixel corruption of every picture is rejected by the statement's clauses; Px = PxImage")
    r = lib.tlc_expect_violation("PixelsMC", "Pixels_nonshortest.cfg", "NeverStuck", tag="n", xmx="2g")
    chk.add_model("PixelsMC/nonshortest(expected violation)", r, "premise dropped: TLC exhibits a simple non-shortest path on which the ordering walk is stuck")
    if thorough:
        r = lib.tlc_design("PixelsMC", "Pixels_3x3.cfg", tag="3")
        chk.add_model("PixelsMC/3x3", r, "all 4096 graphs x 3 kinds x all (start,end) x all shortest paths")

    cap = _Capped(chk)
    check_hand_made(chk)
    # ---- (C) exhaustive small scope on the real code
    jobs = []
    for rr, cc in SMALL:
        n = mz.n_graphs(rr, cc)
        step = max(1, n // 16)
        jobs += [(rr, cc, lo, min(n, lo + step), 1) for lo in range(0, n, step)]
    recs = [x for sub in lib.pmap(observe_graphs, jobs) for x in sub]
    chk.sample(_case(next(x for x in recs if x["maze"]["kind"] == "SolvedMaze" and len(x["maze"]["sol"]) >= 4 and x["se"] and x["ss"])))
    _judge_batch(chk, cap, recs, "small", "exhaustive small shapes: renderings judged clause by clause, read-back judged under the premise")
    scope = list(SMALL)
    if thorough:
        for rr, cc, per in [(2, 4, 256), (4, 2, 256), (3, 3, 128)]:
            n = mz.n_graphs(rr, cc)
            for b0 in range(0, n, per):
                jobs = [(rr, cc, lo, min(n, lo + 4), 8) for lo in range(b0, min(n, b0 + per), 4)]
                recs = [x for sub in lib.pmap(observe_graphs, jobs) for x in sub]
                _judge_batch(chk, cap, recs, f"ex{rr}x{cc}_{b0}", f"exhaustive {rr}x{cc} graphs {b0}..{min(n, b0 + per) - 1}")
            scope.append((rr, cc))
    chk.exhaustive = True
    chk.notes["exhaustive_scope"] = "all graphs x 3 kinds x all ordered (start,end) incl. equal x all shortest paths x 4 flag pairs for shapes " + str(scope) + (" (rejected flag pair on every 8th graph of the three largest shapes)" if thorough else "")

    # ---- (C) random larger mazes
    nrand = 2400 if thorough else 240
    per = 800
    for b0 in range(0, nrand, per):
        recs = [x for sub in lib.pmap(observe_random, [(chk.seed, k, 12) for k in range(b0, min(nrand, b0 + per))], chunksize=4) for x in sub]
        if b0 == 0:
            recs += [x for sub in lib.pmap(observe_snake, [(12, 12), (12, 5), (3, 11), (1, 12), (12, 1)]) for x in sub]
            big = [x for x in recs if x["maze"]["kind"] == "SolvedMaze" and x["maze"]["R"] >= 8 and x["maze"]["R"] != x["maze"]["C"] and x["se"] and x["ss"] and x["rt_px"] == "ok"]
            if big:
                chk.sample({k: v for k, v in _case(big[0]).items() if k not in ("img",)})
        _judge_batch(chk, cap, recs, f"rnd{b0}", "seeded random mazes up to 12x12 + boustrophedon corridors")
    chk.notes["random_mazes"] = nrand

    # ---- (C) audit class A: histories (the same objects / functions observed repeatedly; every observation is an ordinary record)
    nh = 480 if thorough else 48
    recs = [x for sub in lib.pmap(observe_history, [(chk.seed, k) for k in range(nh)], chunksize=2) for x in sub]
    recs += [x for sub in lib.pmap(observe_sizes, [(o, rev) for o in range(len(SIZE_ORDERS)) for rev in (False, True)]) for x in sub]
    chk.notes["history_records"] = len(recs)
    chk.notes["history_rereads"] = sum(1 for x in recs if ":read" in x["src"])
    _judge_batch(chk, cap, recs, "hist", "histories: same object re-rendered under changing flags (A-B-A) with the returned array scribbled over, the same picture read twice, "
                 "values used / reloaded / interleaved with equal and same-graph values, the same class reading pictures of decreasing, increasing and scrambled sizes in one process")
    # ---- (C) audit 2: representations / factories / defaults / argument aliasing (classes C E F G), extremes at size (class H), oblong (class D)
    nrep = 240 if thorough else 24
    recs = [x for sub in lib.pmap(observe_reps, [(chk.seed, k) for k in range(nrep)], chunksize=1) for x in sub]
    recs += [x for sub in lib.pmap(observe_extreme, [(r, c, f) for r, c in EXTREME_SHAPES for f in (False, True)]) for x in sub]
    recs += [x for sub in lib.pmap(observe_snake, [(2, 5), (5, 2), (3, 7), (7, 3), (2, 12), (11, 3)]) for x in sub]
    chk.notes["representation_records"] = sum(1 for x in recs if "var" in x)
    chk.notes["representation_records_layer_M"] = sum(1 for x in recs if x.get("lay"))
    chk.notes["representation_constructor_refusals"] = sorted({f"{x['maze']['kind']}:{x['var']}:{x['res_px']}" for x in recs if "var" in x and x["res_px"] not in ("ok", "raise:ValueError")})[:20]
    _judge_batch(chk, cap, recs, "reps", "audit 2: every argument in other representations (Fortran / non-contiguous / int8..int64 / tuple / list / numpy scalars; flags positional, numpy.bool_, "
                 "ints, defaults; picture handed to the reader as int64 / int32 / Fortran / strided / negative-stride / read-only array, the 2-D black/white grid, re-formatted text), "
                 "objects built with generation_meta and through the from_* factories, the caller's picture overwritten before the returned maze is read; "
                 "no-connection / every-connection grids up to 12x12 with corner cells, start = end, length-1 and length-2 solutions; oblong corridors")
    # ---- (C) audit class B: magnitudes
    names = BIG + (["dfs66long"] if thorough else [])
    subs = lib.pmap(observe_big, names)
    recs = [x for n, sub in zip(names, subs) if not n.startswith("dfs66") for x in sub]
    heavy = [x for n, sub in zip(names, subs) if n.startswith("dfs66") for x in sub]
    for i, x in enumerate(heavy):  # spread the 133x133 pictures over the oracle shards
        recs.insert((i * len(recs)) // len(heavy), x)
    chk.notes["big_cases"] = names
    chk.notes["max_pixel_coordinate"] = max(max(len(x["img"]), len(x["img"][0]) if x["img"] else 0) for x in recs) - 1
    chk.notes["max_solution_cells"] = max(len(x["maze"]["sol"]) for x in recs)
    _judge_batch(chk, cap, recs, "big", "magnitudes: 66x66 (pixel coordinates 129..132), 1x130/130x1 (> 255), 2x70/70x2, solutions of 127,128,129,255,256,257,272 (and ~1800 in thorough) cells", shards=16)
    chk.notes["rejected_record_groups"] = {"|".join(map(str, k)): v for k, v in sorted(cap.seen.items(), key=str)}
    chk.assumptions = [
        "TLC, CommunityModules JSON reader, CPython/numpy",
        "RGB triples are mapped to palette codes with the library's own PixelColors table ; the RGB values themselves are not judged",
        "input generation (all shortest paths, random walks) is harness code; the premise (shortest path, start != end) is re-decided in TLA+",
        "shapes beyond the exhaustive list are sampled, not exhaustive",
    ]
    return chk.finish(
        "Pixels.tla/PixelsMC.tla checked exhaustively on small shapes (clauses hold for Px, clauses determine the picture, FromPx inverts Px, "
        "unique-candidate walk); every recorded real rendering and read-back judged by the TLA+ oracle built on the same definitions"
    )


def replay(path: str) -> int:
    d = json.load(open(path))
    case = d["case"]
    pm = case["maze"]
    conn = np.array(pm["conn"], dtype=bool)
    if case.get("var"):  # audit-2 observation: rebuilt in the same representations (for the bw grid the record shows the lattice only)
        var = json.loads(case["var"])
        tup = lambda x: tuple(x) if x else None  # noqa: E731
        recs = [observe_var(pm["kind"], conn, tup(pm["start"]), tup(pm["end"]), [tuple(x) for x in pm["sol"]] or None, case["se"], case["ss"], var, "replay", _palette())]
    else:
        recs = observe_new(pm["kind"], conn, pm["start"] or None, pm["end"] or None, pm["sol"] or None, "replay", _palette(), views=[(case["se"], case["ss"])])
    recs[0]["id"] = 0
    out = lib.oracle("Trace_Pixels", recs, tag="rp", extra_env=JVM_ENV)
    v = [c for c in out.verdicts.get(0, []) if not c.startswith("M:")]
    print("replay:", pm["kind"], f"{pm['R']}x{pm['C']}", "flags", (case["se"], case["ss"]), "res", recs[0]["res_px"], recs[0]["rt_px"], recs[0]["rt_ascii"], "verdict:", out.verdicts.get(0, []))
    if recs[0]["ascii"]:
        print("\n".join("".join(row) for row in recs[0]["ascii"]))
    if v:
        print(f"VIOLATION property=C10 replay={path}")
        return 1
    return 0
