"""C20 — maze plots draw the maze that was given.

(A) Plot.tla model-checked: for every connection structure of the shapes 1x2, 2x1, 2x2, 2x3, 3x2, every
    unit length in {3,4,5} and both branches (with / without cell values) the painting loop of
    `_lattice_maze_to_img` is executed step by step; TLC proves Partition (every pixel is exactly one of
    cell block / edge strip / post-or-border), StripBijection (strips <-> lattice edges, each strip lies
    between the blocks of its two cells), CoordCentre (Coord(row, col) = ul*(col+1/2, row+1/2) is the
    centre of the block), Faithful (finished image has the stated size, satisfies the statement's
    clauses, equals the closed form ModelRects), RleAgrees, and in the Deep config Determined (every
    single-pixel change of a block / strip is rejected).  Three broken variants (transposed coordinate
    map, row/col-swapped strip index, inverted-connection hack in both branches) must be rejected.
(C) Trace_Plot.tla judges real figures made on matplotlib's Agg backend: ax.images[0].get_array()
    (value codes, exact), its extent / origin, every Line2D (linestyle, marker, 2*xydata), every Quiver
    (2*X, Y, U, V) and MazePlot.to_ascii() under three flag pairs.

Interpretation decisions (kept no stronger than the statement + the documented behaviour):
 * value codes: without cell values block = 1, passage = 0.93, wall = -1 (docstring of
   `_lattice_maze_to_img`); with cell values block = its value, wall = NaN/masked (painted black via
   cmap.set_bad), passage = "takes node_value": Layer P accepts the value of EITHER cell of the edge,
   that it is the upper/left one (the unit's node, through the one-pixel overhang) is Layer M.
 * posts, border pixels (and the top/left border staying -1 with cell values) are not in the statement:
   Layer M (M:image_model) only.
 * "drawn through the centres of exactly the cells they list, in order": the multiset of polylines with
   >= 2 vertices found in the axes (Line2D with a line style, Quiver arrow chains) equals the multiset of
   Coord-images of the added paths; artist order, colours, labels, arrows-vs-line are left free.  A
   one-cell path has no extent: it is drawn by its two endpoint markers only.
 * the order of a dashed line is only visible through its endpoint markers: 'o' at the first and 'x' at
   the last cell of every path are Layer P (endpoint_markers), and no marker may sit on a cell that is
   neither an endpoint of an added path nor a marked coordinate (marker_off_listed_cells).  mark_coords
   itself is not in the statement: M:marked_coords / M:marker_count.
 * the image must lie where the paths are drawn: pixel (y, x) centred at data (x, y) (image_placement,
   from get_extent()/origin).  Axis ticks/labels are not judged (see notes: tick positions use the row
   count for both axes).
 * a TargetedLatticeMaze is solved by the constructor: ANY shortest path start -> end is accepted as its
   true path (decided in TLA+); start/end in different components => the constructor may raise.
 * "the plot's ASCII export equals the maze's own ASCII drawing": the maze a plot shows is its lattice
   plus its true path, if it has one (`MazePlot.solved_maze`).  to_ascii(se, ss) is compared with
   as_ascii(se, ss) of: the maze object itself (no true path, or an untouched SolvedMaze), otherwise of
   SolvedMaze(lattice, true path) built by the driver; for a targeted maze additionally the (T, T)
   drawing must be the Pixels.tla drawing of the solved maze whose solution is the drawn true path.
   (Read literally against `TargetedLatticeMaze.as_ascii()` the export differs by the solution marks -
   an interpretation note, not a violation.)  The export proper - to_ascii() with its default flags - is
   Layer P (ascii_export); the statement does not quantify over the export's flags, so agreement under
   the other flag pairs (T,F), (F,F) is Layer M (M:ascii_export_flags).  On the unchanged tree that
   clause reports one real discrepancy: MazePlot(LatticeMaze).to_ascii(show_endpoints=False,
   show_solution=False) raises ValueError (to_ascii drops show_solution when there is no true path, the
   default True then conflicts with show_endpoints=False) while the maze's own as_ascii(False, False) works.
   Exports are only requested when the true path is a chain of lattice-adjacent cells (as_pixels asserts that).
 * add_true_path called twice: the later path replaces the earlier one (setter semantics of the code).
 * add_node_values called twice: the later values replace the earlier ones (same setter semantics).
 * an EMPTY predicted path lists no cell: nothing may be drawn for it and the plot must not fail (`_plot_path` skips it).
 * grids with a side of 1 (1x1, 1xN, Nx1) are outside the quantifier ("grid sizes 2..8"): they are exercised, but every clause of
   such a record is reported as Layer M ("M:outside_grid_sizes:<clause>").
 * arguments (audit 2, class E): every array / list / dict handed to the library is the caller's OWN object (connection list in C /
   Fortran / strided layout, cell values float64 / float32 / Fortran / strided, path coordinates as list of tuples / lists / numpy
   ints / arrays, int64 / int32 / int8 arrays, Fortran-ordered and strided views, StyledPath, start / end as array / tuple / list).
   After plot() (and after to_ascii) they are compared with a deep snapshot (M:argument_modified - the statement does not speak about
   the arguments; the stated consequences of a modified maze, a wrong export or a wrong second plot, are Layer P because the maze's
   "own" drawing and the oracle's inputs are built from pristine copies), then ALL of them are overwritten in place and only then the
   artists are read: the finished figure must not depend on the caller's memory any more.  NOT generated: overwriting an array between
   add_*() and plot() - MazePlot keeps the caller's ndarray (and SolvedMaze.solution) by reference until plot(), by design.
 * cell values must be floats (`Float[np.ndarray]`): an INTEGER array makes np.full_like(values, nan) an int array, so walls get the
   value -9.2e18 instead of NaN (observed, outside the declared type, not generated).
 * colormap_center / target_token_coord / preceeding_tokens_coords of add_node_values are exercised with their falsy values (0.0,
   cell (0, 0), empty list): the image must not change, the marked coordinates count as marks (Layer M); colours are not judged
   (all-zero values together with colormap_center=0.0 are refused by matplotlib's TwoSlopeNorm - not generated).

Canaries are corruptions of HAND-MADE records; the uncorrupted ones must be accepted on every run.
Everything the library does in the driver is recorded as an outcome and judged.
"""
import json

import matplotlib

matplotlib.use("Agg")
import numpy as np

from harness import lib, mz

NAN, INEXACT = 999999, 999998
ULS = [3, 4, 5, 7, 14]
FLAGS = [(True, True), (True, False), (False, False)]
KINDS = ("LatticeMaze", "TargetedLatticeMaze", "SolvedMaze")
RAW_LIMIT = 1300  # images up to this many pixels are logged raw AND run-length encoded


# ------------------------------------------------------------------ encoding of observations
def _codes(a):
    """masked float image -> int codes (100 * value when exact, NAN, INEXACT); None if not a 2-D numeric array"""
    try:
        data = np.asarray(np.ma.getdata(a))
        if data.ndim != 2 or data.dtype == object or data.size == 0:
            return None
        data = data.astype(float)
        mask = np.ma.getmaskarray(a) | np.isnan(data)
        fin = np.isfinite(data) & (np.abs(data) < 9000)
        safe = np.where(mask | ~fin, 0.0, data)
        c = np.rint(safe * 100)
        exact = (c / 100.0 == safe) & fin
        return np.where(mask, NAN, np.where(exact, c, INEXACT)).astype(np.int64)
    except Exception:  # noqa: BLE001
        return None


def _rle(codes):
    """lossless 2-D run-length encoding (Plot.tla RleVals): distinct rows as runs [value, x0, len],
    vertical runs [pattern (1-based), y0, count]; only distinct rows are run-encoded (513 x 513 images)"""
    codes = np.ascontiguousarray(np.asarray(codes, dtype=np.int64))
    pats, index, vr = [], {}, []
    for y in range(codes.shape[0]):
        row = codes[y]
        key = row.tobytes()
        if key not in index:
            cuts = [0] + [int(i) + 1 for i in np.flatnonzero(row[1:] != row[:-1])] + [len(row)]
            pats.append([[int(row[a]), a, b - a] for a, b in zip(cuts, cuts[1:])])
            index[key] = len(pats)
        p = index[key]
        if vr and vr[-1][0] == p:
            vr[-1][2] += 1
        else:
            vr.append([p, y, 1])
    return pats, vr


def _h(x):
    """coordinate -> exact half units (2*x as int) or INEXACT"""
    try:
        t = 2.0 * float(x)
        if np.isfinite(t) and abs(t) < 900000 and t == round(t):
            return int(round(t))
    except Exception:  # noqa: BLE001
        pass
    return INEXACT


def _put_image(rec, codes, force_both=False):
    codes = np.asarray(codes)
    pats, vr = _rle(codes)
    rec["pats"], rec["vruns"] = pats, vr
    if codes.size <= RAW_LIMIT or force_both:
        rec["enc"], rec["img"] = "both", [[int(v) for v in row] for row in codes]
    else:
        rec["enc"], rec["img"] = "rle", []


# ------------------------------------------------------------------ observation (real code)
def _path_input(style, path):
    """the caller's argument for one path in the requested representation -> (argument, keyword arguments)"""
    from maze_dataset.plotting.plot_maze import PathFormat, StyledPath

    cells = [[int(a), int(b)] for a, b in path]
    arr = np.array(cells, dtype=np.int64).reshape(-1, 2)
    if style == "list":
        return [(a, b) for a, b in cells], {}
    if style == "list_lists":
        return [[a, b] for a, b in cells], {}
    if style == "list_np":  # numpy integers inside a list
        return [(np.int64(a), np.int8(b)) for a, b in cells], {}
    if style == "list_arrs":  # list of coordinate arrays
        return [np.array([a, b]) for a, b in cells], {}
    if style == "array":
        return arr, {}
    if style == "array8":
        return arr.astype(np.int8), {}
    if style == "array32":
        return arr.astype(np.int32), {}
    if style == "array_f":  # Fortran-ordered (not C-contiguous for >= 2 cells)
        return np.asfortranarray(arr), {}
    if style == "array8_f":
        return np.asfortranarray(arr.astype(np.int8)), {}
    if style in ("array_view", "styled_view"):  # non-contiguous view into a larger caller-owned array
        big = np.full((2 * len(cells) + 1, 4), 99, dtype=np.int64)
        big[1::2, 1:3] = arr
        v = big[1::2, 1:3]
        if style == "array_view":
            return v, {}
        return StyledPath(path=v, fmt="-", color="blue", line_width=1.5, quiver_kwargs=None), {}
    if style == "styled_line8":
        return StyledPath(path=arr.astype(np.int8), fmt="-", color="blue", line_width=1.5, quiver_kwargs=None), {}
    if style == "styled_quiver8":
        return StyledPath(path=arr.astype(np.int8), fmt=":", color="green", quiver_kwargs={"width": 0.01}), {}
    if style == "styled_line":
        return StyledPath(path=arr, fmt="-", color="blue", line_width=1.5, quiver_kwargs=None, label="styled"), {}
    if style == "styled_dash":
        return StyledPath(path=arr, fmt="--", color="black", line_width=1.0, quiver_kwargs=None), {}
    if style == "styled_quiver":
        return StyledPath(path=arr, fmt=":", color="green", line_width=2, quiver_kwargs={"width": 0.01}), {}
    if style == "styled_cmap":
        return StyledPath(path=arr, fmt=":", color="green", cmap="viridis", quiver_kwargs={"width": 0.01}), {}
    if style == "styled_q0":  # falsy-but-meaningful options: empty quiver kwargs (= arrows with matplotlib's defaults), empty label
        return StyledPath(path=arr, fmt=":", color="green", label="", quiver_kwargs={}), {}
    if style == "styled_cmap0":
        return StyledPath(path=arr, fmt=":", color="green", cmap="viridis", quiver_kwargs={}), {}
    if style == "fmt":
        return arr, dict(path_fmt=PathFormat(fmt="-.", color="purple", line_width=3.0))
    if style == "fmt_q0":
        return arr, dict(path_fmt=PathFormat(label="", quiver_kwargs={}))
    if style == "kw":
        return [(a, b) for a, b in cells], dict(color="brown")
    if style == "kw0":
        return [(a, b) for a, b in cells], dict(color="brown", label="")
    raise ValueError(style)


# ---- CLASS E: the caller's own mutable argument objects: deep snapshot, comparison, overwriting
def _snap(o):
    if isinstance(o, np.ndarray):
        return ("a", str(o.dtype), tuple(o.shape), o.tolist())
    if isinstance(o, (list, tuple)):
        return ("l", type(o).__name__, [_snap(v) for v in o])
    if isinstance(o, dict):
        return ("d", sorted((str(k), _snap(v)) for k, v in o.items()))
    return ("v", type(o).__name__, repr(o))


def _scramble(o):
    """overwrite a caller-owned object in place (after the call, before anything is read from the result)"""
    try:
        if isinstance(o, np.ndarray):
            if o.dtype == bool:
                o[...] = ~o
            elif o.dtype.kind == "f":
                o[...] = -777.25
            else:
                o[...] = -7
        elif isinstance(o, list):
            for v in o:
                _scramble(v)
            o.clear()
        elif isinstance(o, dict):
            for v in o.values():
                _scramble(v)
            o.clear()
    except Exception:  # noqa: BLE001 - read-only argument: nothing to overwrite
        pass


def _expected(scn):
    tp, tpset, preds, marks = [], False, [], []
    o = scn.get("nvopts") or {}
    if scn["hasnv"]:  # add_node_values(target_token_coord=, preceeding_tokens_coords=) mark coordinates too
        marks += ([o["target"]] if o.get("target") is not None else []) + list(o.get("prec") or [])
    for op, _style, payload in scn["ops"]:
        if op == "true":
            tp, tpset = payload, True
        elif op == "pred":
            preds.append(payload)
        elif op == "pred_twice":  # ONE argument object added twice
            preds += [payload, payload]
        elif op == "true_and_pred":  # ONE argument object added as true path and as predicted path
            tp, tpset = payload, True
            preds.append(payload)
        elif op == "multi":
            preds += payload
        elif op in ("mark", "mark_arr"):
            marks += payload
    return tp, tpset, preds, marks


def _chain(path):
    return all(abs(a[0] - b[0]) + abs(a[1] - b[1]) == 1 for a, b in zip(path, path[1:]))


def _pos(form, p):
    p = [int(v) for v in p]
    return {"array": np.array(p), "int8": np.array(p, dtype=np.int8), "tuple": tuple(p), "list": list(p)}[form or "array"]


def _conn_arg(scn):
    """the caller's connection list in the requested memory layout (CLASS G)"""
    conn = np.array(scn["conn"], dtype=bool)
    form = scn.get("connform", "c")
    if form == "fortran":
        return np.asfortranarray(conn)
    if form == "view":
        big = np.ones((2, 2 * conn.shape[1] + 1, conn.shape[2] + 2), dtype=bool)
        big[:, 1::2, 1:-1] = conn
        return big[:, 1::2, 1:-1]
    return conn


def _build(scn, conn, own=None):
    """the maze object, through the plain constructor or (scn['via']) through the factories / with redundant
    start_pos / end_pos / generation metadata (CLASS F); `own` collects the caller's mutable argument objects"""
    own = own if own is not None else {}
    via, ef = scn.get("via", "ctor"), scn.get("endform", "array")
    extra = {}
    if scn.get("meta"):
        own["meta"] = extra["generation_meta"] = dict(func_name="gen_dfs", grid_shape=np.array(conn.shape[1:]), kwargs=dict(lst=[1, 2], nested=dict(a=0)), fully_connected=False)
    if scn["kind"] == "LatticeMaze":
        return mz.LatticeMaze(connection_list=conn, **extra)
    if scn["kind"] == "TargetedLatticeMaze":
        sp, ep = _pos(ef, scn["start"]), _pos(ef, scn["end"])
        own["start"], own["end"] = sp, ep
        if via == "factory":
            return mz.TargetedLatticeMaze.from_lattice_maze(mz.LatticeMaze(connection_list=conn, **extra), sp, ep)
        return mz.TargetedLatticeMaze(connection_list=conn, start_pos=sp, end_pos=ep, **extra)
    sol = np.array(scn["sol"])
    own["sol"] = sol
    if via == "factory":
        return mz.SolvedMaze.from_lattice_maze(mz.LatticeMaze(connection_list=conn, **extra), [tuple(int(v) for v in p) for p in scn["sol"]])
    if via == "factory_targeted":
        t = mz.TargetedLatticeMaze(connection_list=conn, start_pos=_pos(ef, scn["sol"][0]), end_pos=_pos(ef, scn["sol"][-1]), **extra)
        return mz.SolvedMaze.from_targeted_lattice_maze(t, solution=sol)
    if via == "ctor_se":  # redundant, agreeing start / end
        return mz.SolvedMaze(connection_list=conn, solution=sol, start_pos=_pos(ef, scn["sol"][0]), end_pos=_pos(ef, scn["sol"][-1]), **extra)
    return mz.SolvedMaze(connection_list=conn, solution=sol, **extra)


def _build_args_pristine(scn):
    bo = {}
    try:
        _build(scn, np.array(scn["conn"], dtype=bool), bo)
    except Exception:  # noqa: BLE001
        pass
    return bo


def _nv_arg(codes, form):
    a = np.array(codes, dtype=float) / 100.0
    if form == "f32":
        return a.astype(np.float32)
    if form == "fortran":
        return np.asfortranarray(a)
    if form == "view":
        big = np.full((2 * a.shape[0], a.shape[1] + 3), 55.5)
        big[::2, 2:-1] = a
        return big[::2, 2:-1]
    return a


def _ul_arg(scn):
    return {"int": int, "np64": np.int64, "np32": np.int32}[scn.get("ulform", "int")](scn["ul"])


def observe(scn):
    """run one scenario on the real code; everything the library does is an outcome.
    Order (CLASS E): build the caller's own argument objects -> snapshot -> construct / add_* / plot() [-> plot() again]
    -> arguments compared with the snapshot -> to_ascii (strings; needs the maze, which legitimately keeps the caller's
    connection list) -> arguments compared again -> ALL argument objects overwritten in place -> only then the artists
    of the figure are read.  The oracle's inputs and the maze's "own" ASCII drawing come from pristine copies."""
    import matplotlib.pyplot as plt
    from matplotlib.quiver import Quiver

    from maze_dataset.plotting import MazePlot
    from maze_dataset.plotting.plot_maze import StyledPath

    pristine = np.array(scn["conn"], dtype=bool)
    R, C = int(pristine.shape[1]), int(pristine.shape[2])
    kind = scn["kind"]
    sol = scn["sol"]
    tp, tpset, preds, marks = _expected(scn)
    pm = dict(kind=kind, R=R, C=C, conn=mz.raw(pristine), start=list(sol[0]) if kind == "SolvedMaze" else list(scn["start"]),
              end=list(sol[-1]) if kind == "SolvedMaze" else list(scn["end"]), sol=[list(p) for p in sol] if kind == "SolvedMaze" else [])
    rec = dict(maze=pm, ul=int(scn["ul"]), hasnv=bool(scn["hasnv"]), nv=scn["nv"] if scn["hasnv"] else [], tpset=tpset, tp=tp, preds=preds, marks=marks,
               res="ok", enc="none", img=[], pats=[], vruns=[], ext=[], origin="", lines=[], quiv=[], asc=[], argmod=[], scn=scn)
    holder = {}
    owned = {}  # name -> the caller's own mutable object
    snaps = {}

    def snap_new():
        for k in list(owned):
            if k not in snaps:
                snaps[k] = _snap(owned[k])

    def own_path(name, x, kw):
        owned[name] = x.path if isinstance(x, StyledPath) else x
        if isinstance(x, StyledPath) and isinstance(x.quiver_kwargs, dict):
            owned[name + ".quiver_kwargs"] = x.quiver_kwargs
        if "path_fmt" in kw:
            owned[name + ".path_fmt"] = vars(kw["path_fmt"])
        snap_new()

    def run():
        conn = _conn_arg(scn)
        owned["conn"] = conn
        snap_new()
        bo = {}
        m = _build(scn, conn, bo)
        for k, v in bo.items():  # handed to the constructor already: compared with values rebuilt from the scenario
            owned[k] = v
        snaps.update({k: _snap(v) for k, v in _build_args_pristine(scn).items() if k in bo})
        holder["m"] = m
        mp = MazePlot(m, unit_length=_ul_arg(scn))
        holder["mp"] = mp
        o = scn.get("nvopts") or {}
        if scn["hasnv"]:
            form = scn.get("nvform", "f64")
            if scn.get("nv_first"):  # cell values supplied twice: the later ones replace the earlier ones (setter semantics, like add_true_path)
                owned["nv_first"] = _nv_arg([[75 - v for v in row] for row in scn["nv"]], form)
                snap_new()
                mp.add_node_values(owned["nv_first"], hide_colorbar=True)
            owned["nv"] = _nv_arg(scn["nv"], form)
            kw = dict(hide_colorbar=bool(scn.get("hide_cbar", False)))
            if o.get("center0"):
                kw["colormap_center"] = 0.0
            if o.get("target") is not None:
                owned["nv.target"] = kw["target_token_coord"] = _pos(o.get("tform", "array"), o["target"])
            if o.get("prec") is not None:
                owned["nv.prec"] = kw["preceeding_tokens_coords"] = np.array(o["prec"], dtype=np.int64).reshape(-1, 2) if o.get("tform", "array") != "list" else [tuple(c) for c in o["prec"]]
            snap_new()
            mp.add_node_values(owned["nv"], **kw)
        for i, (op, style, payload) in enumerate(scn["ops"]):
            if op in ("true", "pred", "pred_twice", "true_and_pred"):
                x, kw = _path_input(style, payload)
                own_path(f"ops[{i}]", x, kw)
                if op in ("true", "true_and_pred"):
                    mp.add_true_path(x, **kw)
                if op in ("pred", "pred_twice", "true_and_pred"):
                    mp.add_predicted_path(x, **kw)
                if op == "pred_twice":
                    mp.add_predicted_path(x, **kw)
            elif op == "multi":
                xs = [_path_input(style, p)[0] for p in payload]
                own_path(f"ops[{i}]", xs, {})
                mp.add_multiple_paths(xs)
            elif op == "mark":
                xs = [(int(a), int(b)) for a, b in payload]
                own_path(f"ops[{i}]", xs, {})
                mp.mark_coords(xs)
            elif op == "mark_arr":
                xs = np.array(payload, dtype=np.int64).reshape(-1, 2)
                own_path(f"ops[{i}]", xs, {})
                mp.mark_coords(xs)
        for rep in range(2 if scn.get("replot") else 1):  # CLASS A / F: the same MazePlot plotted twice; the LAST figure is judged
            if rep:
                plt.close("all")
            if scn.get("own_ax"):
                fig, ax = plt.subplots()
                mp.plot(fig_ax=(fig, ax), plain=bool(scn.get("plain", False)))
            elif scn.get("title0"):
                mp.plot(plain=bool(scn.get("plain", False)))  # default title ""
            else:
                mp.plot(plain=bool(scn.get("plain", False)), title="t")
        return mp

    def modified(tag):
        out = []
        for k, o in owned.items():
            try:
                if k in snaps and _snap(o) != snaps[k]:
                    out.append(k + tag)
            except Exception:  # noqa: BLE001
                out.append(k + tag + ":unreadable")
        return out

    try:
        res, mp = mz.outcome(run)
        rec["res"] = res
        rec["argmod"] = modified("")
        if res != "ok":
            return rec
        # ---- ASCII export (only when the plot's true path is a chain of lattice-adjacent cells)
        exp_true = tp if tpset else (sol if kind == "SolvedMaze" else None)
        if exp_true is None or _chain(exp_true):
            drawn = None
            if not tpset and kind == "TargetedLatticeMaze" and getattr(mp, "true_path", None) is not None:
                drawn = np.array(mp.true_path.path).copy()

            def own(se, ss):  # the maze's own drawing, of a maze built by the driver from PRISTINE values through the plain constructor
                if tpset:
                    return mz.SolvedMaze(connection_list=pristine.copy(), solution=np.array(tp)).as_ascii(show_endpoints=se, show_solution=ss)
                if drawn is not None:
                    return mz.SolvedMaze(connection_list=pristine.copy(), solution=drawn.copy()).as_ascii(show_endpoints=se, show_solution=ss)
                plain = {k: scn[k] for k in ("kind", "start", "end", "sol")}
                return _build(plain, pristine.copy()).as_ascii(show_endpoints=se, show_solution=ss)

            for se, ss in FLAGS:
                ra, txt = mz.outcome(lambda: mp.to_ascii(show_endpoints=se, show_solution=ss))
                ro, otxt = mz.outcome(lambda: own(se, ss))
                if ra == "ok" and not isinstance(txt, str):
                    ra = "raise:NotAString"
                rec["asc"].append(dict(se=se, ss=ss, res=ra, rows=[list(r) for r in txt.split("\n")] if ra == "ok" else [],
                                       own_res=ro, own=[list(r) for r in otxt.split("\n")] if ro == "ok" and isinstance(otxt, str) else []))
            rec["argmod"] += [k for k in modified(":to_ascii") if k[: -len(":to_ascii")] not in rec["argmod"]]
        # ---- the caller overwrites every argument object; the figure must not change any more
        if scn.get("scramble", True):
            for o in owned.values():
                _scramble(o)
        try:
            ax = mp.ax
            ims = list(ax.images)
            codes = _codes(ims[0].get_array()) if len(ims) == 1 else None
            if codes is None:
                rec["res"] = "raise:NotOneImage"
                rec["asc"] = []
                return rec
            _put_image(rec, codes, force_both=bool(scn.get("force_both", False)))
            rec["ext"] = [_h(v) for v in ims[0].get_extent()]
            rec["origin"] = str(ims[0].origin)
            for ln in ax.lines:
                xy = np.asarray(ln.get_xydata(), dtype=float).reshape(-1, 2)
                rec["lines"].append(dict(ls=str(ln.get_linestyle()), mk=str(ln.get_marker()), pts=[[_h(x), _h(y)] for x, y in xy]))
            for col in ax.collections:
                if isinstance(col, Quiver):
                    rec["quiv"].append({k: [_h(v) for v in np.ravel(np.ma.filled(getattr(col, k), np.nan))] for k in ("X", "Y", "U", "V")})
        except Exception as e:  # noqa: BLE001 - the figure cannot be inspected: an outcome, judged as such
            rec["res"] = "raise:Inspect" + type(e).__name__
            rec["asc"] = []
            return rec
        return rec
    finally:
        plt.close("all")


def observe_many(scns):
    return [observe(s) for s in scns]


# ------------------------------------------------------------------ scenario generation (inputs only)
def _scn(kind, conn, ul, nv=None, start=None, end=None, sol=None, ops=(), src="", **kw):
    d = dict(kind=kind, conn=mz.raw(conn), ul=int(ul), hasnv=nv is not None, nv=nv if nv is not None else [], start=[int(v) for v in start] if start is not None else [],
             end=[int(v) for v in end] if end is not None else [], sol=[[int(a), int(b)] for a, b in sol] if sol is not None else [], ops=[list(o) for o in ops], src=src)
    d.update(kw)
    return d


def _nv_fixed(r, c):
    """distinct exact quarters incl. -1.0 (= the background value), negatives, positives"""
    return [[25 * (3 * (i * c + j) - 4) for j in range(c)] for i in range(r)]


def _nv_pattern(mode, r, c):
    """CLASS C cell values: 'falsy' = 0.0, the default block value 1.0, the background -1.0 and the passage value 0.93 among
    distinct quarters; 'zeros' = every value 0.0; 'const' = every value 2.5"""
    if mode == "fixed":
        return _nv_fixed(r, c)
    if mode == "zeros":
        return [[0] * c for _ in range(r)]
    if mode == "const":
        return [[250] * c for _ in range(r)]
    head = [0, 100, -100, 93]
    flat = [head[i] if i < 4 else 25 * (i + 5) * (1 if i % 2 else -1) for i in range(r * c)]
    return [flat[i * c : (i + 1) * c] for i in range(r)]


def _nv_random(rng, r, c):
    n = r * c
    mode = int(rng.integers(0, 3))
    if mode == 0:
        ints = rng.choice(np.arange(-2 * n - 2, 2 * n + 3), size=n, replace=False)
    elif mode == 1:
        ints = rng.choice(np.arange(1, 4 * n + 1), size=n, replace=False)
    else:
        ints = -rng.choice(np.arange(1, 4 * n + 1), size=n, replace=False)
    return [[int(ints[i * c + j]) * 25 for j in range(c)] for i in range(r)]


def _rand_cells(rng, r, c, n):
    return [[int(rng.integers(0, r)), int(rng.integers(0, c))] for _ in range(n)]


def _rand_walk(rng, conn, s, maxlen):
    p = [tuple(s)]
    while len(p) < maxlen:
        nb = [y for y in mz.nbrs(conn, p[-1]) if y not in p]
        if not nb:
            break
        p.append(nb[int(rng.integers(len(nb)))])
    return [list(x) for x in p]


def _rand_shortest(rng, conn, s, t):
    d = mz.bfs(conn, tuple(t))
    if tuple(s) not in d:
        return None
    p = [tuple(s)]
    while p[-1] != tuple(t):
        nb = [y for y in mz.nbrs(conn, p[-1]) if d.get(y) == d[p[-1]] - 1]
        p.append(nb[int(rng.integers(len(nb)))])
    return [list(x) for x in p]


LINE_STYLES = ["list", "array", "styled_line", "styled_dash", "fmt", "kw", "array8", "styled_line8",
               "list_lists", "list_np", "list_arrs", "array32", "array_f", "array8_f", "array_view", "styled_view", "fmt_q0", "kw0"]
PRED_STYLES = ["list", "array", "styled_quiver", "styled_line", "styled_cmap", "kw", "array8", "styled_quiver8",
               "list_lists", "list_np", "list_arrs", "array32", "array_f", "array8_f", "array_view", "styled_view", "styled_q0", "styled_cmap0", "fmt_q0", "kw0"]


def _rand_path(rng, conn, r, c):
    u = rng.random()
    if u < 0.3:
        return _rand_cells(rng, r, c, int(rng.integers(1, 9)))  # arbitrary cell sequence (repeats, jumps)
    if u < 0.4:
        return _rand_cells(rng, r, c, 1)  # single cell
    s = (int(rng.integers(0, r)), int(rng.integers(0, c)))
    if u < 0.8:
        return _rand_walk(rng, conn, s, int(rng.integers(2, 3 * max(r, c))))
    reach = sorted(mz.bfs(conn, s))
    t = reach[int(rng.integers(len(reach)))]
    return _rand_shortest(rng, conn, s, t)


def _rand_ops(rng, conn, r, c, p_true=0.4):
    ops = []
    if rng.random() < p_true:
        ops.append(["true", LINE_STYLES[int(rng.integers(len(LINE_STYLES)))], _rand_path(rng, conn, r, c)])
        if rng.random() < 0.15:  # a second call replaces the first
            ops.append(["true", "list", _rand_path(rng, conn, r, c)])
    npred = int(rng.choice([0, 0, 1, 2, 3]))
    if npred >= 2 and rng.random() < 0.5:
        ops.append(["multi", ["list", "array"][int(rng.integers(2))], [_rand_path(rng, conn, r, c) for _ in range(npred)]])
    else:
        for _ in range(npred):
            st = PRED_STYLES[int(rng.integers(len(PRED_STYLES)))]
            ops.append(["pred", st, _rand_path(rng, conn, r, c)])
    if rng.random() < 0.25:
        ops.append(["mark", "", _rand_cells(rng, r, c, int(rng.integers(1, 4)))])
    if rng.random() < 0.3:
        ops = [ops[int(i)] for i in rng.permutation(len(ops))]
    return ops


def scenarios_graph(args):
    """tiny exhaustive scope: one graph, three kinds, every ordered (start, end), every shortest path"""
    seed, r, c, n, full = args
    rng = np.random.default_rng([seed, 21, r, c, n])
    conn = mz.conn_from_int(r, c, n)
    src = f"ex:{r}x{c}:{n}"
    combos = [(3, False), (4, True), (4, False), (3, True)]
    out = []
    cnt = [0]

    def emit(kind, **kw):
        sel = combos if full else [combos[cnt[0] % 4], combos[(cnt[0] + 1) % 4]]
        cnt[0] += 1
        for ul, hasnv in sel:
            out.append(_scn(kind, conn, ul, nv=_nv_fixed(r, c) if hasnv else None, src=src, **kw))
            # class A (state kept between plots must not matter) needs the earlier figures' arguments LEFT INTACT - a stale cache keyed
            # on a maze is only hit again while that maze still equals the next one; class E needs them overwritten: alternate per graph
            out[-1]["scramble"] = bool(n % 2)

    emit("LatticeMaze")
    emit("LatticeMaze", ops=_rand_ops(rng, conn, r, c, p_true=1.0))
    emit("LatticeMaze", ops=[["pred", "list", _rand_cells(rng, r, c, 3)], ["pred", "styled_line", [[r - 1, 0], [0, c - 1]]], ["mark", "", [[r - 1, 0]]]])
    cells = mz.cells(r, c)
    for s in cells:
        for e in cells:
            emit("TargetedLatticeMaze", start=s, end=e)
            for p in mz.all_shortest(conn, s, e):
                emit("SolvedMaze", sol=p)
    return observe_many(out)


def _gen_conn(rng, gen, r, c):
    import random

    from maze_dataset.generation import LatticeMazeGenerators as G

    np.random.seed(int(rng.integers(0, 2**31)))
    random.seed(int(rng.integers(0, 2**31)))
    shape = np.array([r, c])
    if gen == "dfs":
        return G.gen_dfs(shape).connection_list
    if gen == "wilson":
        return G.gen_wilson(shape).connection_list
    if gen == "dfs_perc":
        return G.gen_dfs_percolation(shape, p=float(rng.choice([0.1, 0.3]))).connection_list
    if gen == "perc":
        return G.gen_percolation(shape, p=float(rng.choice([0.3, 0.5, 0.7]))).connection_list
    raise ValueError(gen)


def scenario_random(seed, k, maxn=8):
    rng = np.random.default_rng([seed, 20, k])
    if k % 3 == 0:
        r = c = int(rng.integers(2, maxn + 1))
    else:
        r, c = int(rng.integers(2, maxn + 1)), int(rng.integers(2, maxn + 1))
        if k % 3 == 1 and r == c:
            c = 2 + (c - 1) % (maxn - 1)
    gen = ["dfs", "wilson", "dfs_perc", "perc"][k % 4]
    kind = KINDS[(k // 4) % 3]
    ul = ULS[(k // 12) % 5]
    hasnv = (k // 60) % 2 == 1
    try:
        conn = np.array(_gen_conn(rng, gen, r, c), dtype=bool)
        assert conn.shape == (2, r, c)
    except Exception:  # noqa: BLE001 - the generators are other properties' business (C01/C12)
        gen += "!"
        conn = mz.rand_conn(rng, r, c, 0.5)
    conn[0, -1, :] = False
    conn[1, :, -1] = False
    src = f"rnd:{seed}:{k}:{gen}:{r}x{c}"
    s = (int(rng.integers(0, r)), int(rng.integers(0, c)))
    reach = sorted(mz.bfs(conn, s))
    e = reach[int(rng.integers(len(reach)))] if rng.random() < 0.9 else (int(rng.integers(0, r)), int(rng.integers(0, c)))
    kw = {}
    if kind == "TargetedLatticeMaze":
        kw = dict(start=s, end=e)
    elif kind == "SolvedMaze":
        u = rng.random()
        e = reach[int(rng.integers(len(reach)))]
        kw = dict(sol=[list(s)] if u < 0.06 else (_rand_walk(rng, conn, s, int(rng.integers(2, 3 * maxn))) if u < 0.35 else _rand_shortest(rng, conn, s, e)))
    scn = _scn(kind, conn, ul, nv=_nv_random(rng, r, c) if hasnv else None, ops=_rand_ops(rng, conn, r, c), src=src,
               plain=bool(rng.random() < 0.3), own_ax=bool(rng.random() < 0.2), hide_cbar=bool(rng.random() < 0.3), force_both=(k % 8 == 0), **kw)
    scn.update(_rand_forms(np.random.default_rng([seed, 25, k]), scn, r, c))
    return scn


def _rand_forms(rng, scn, r, c):
    """CLASSES C / E / F / G on the random figures: memory layout and dtype of the caller's arrays, construction route of the maze,
    unit length as a numpy integer, cell values supplied twice, marker options with falsy values, the same MazePlot plotted twice"""
    pick = lambda xs, p0=0.5: xs[0] if rng.random() < p0 else xs[int(rng.integers(len(xs)))]  # noqa: E731
    d = dict(connform=pick(["c", "fortran", "view"]), ulform=pick(["int", "np64", "np32"]), endform=pick(["array", "tuple", "list", "int8"]),
             via=pick(["ctor", "factory"] if scn["kind"] != "SolvedMaze" else ["ctor", "factory", "factory_targeted", "ctor_se"]),
             meta=bool(rng.random() < 0.25), replot=bool(rng.random() < 0.15), title0=bool(rng.random() < 0.5))
    if scn["hasnv"]:
        o = {}
        if rng.random() < 0.25:
            o["center0"] = True
        if rng.random() < 0.25:
            o["target"] = [0, 0] if rng.random() < 0.5 else _rand_cells(rng, r, c, 1)[0]
        if rng.random() < 0.25:
            o["prec"] = _rand_cells(rng, r, c, int(rng.integers(0, 3)))
        o["tform"] = pick(["array", "tuple", "list", "int8"])
        d.update(nvform=pick(["f64", "f32", "fortran", "view"]), nv_first=bool(rng.random() < 0.15), nvopts=o)
    return d


def observe_random(args):
    seed, k = args
    return observe(scenario_random(seed, k))


# (grid size n, unit length): ul * (n-1) just below / at / above 127 and 255 (8- and 16-bit products), and
# unit lengths far beyond the default 14; the images (up to 641 x 641) are judged through the run-length encoding
LARGE_UL = [(8, 18), (8, 19), (8, 25), (8, 36), (8, 37), (8, 40), (8, 64), (7, 21), (7, 22), (6, 25), (6, 26), (6, 51), (6, 52), (5, 32), (5, 64), (5, 128),
            (4, 42), (4, 43), (4, 64), (4, 85), (4, 86), (3, 63), (3, 64), (3, 127), (3, 128), (2, 127), (2, 128), (2, 255), (2, 256)]


def scenario_large_ul(seed, k):
    """paths that reach the far rows / columns of the grid under a large unit length, in every input form"""
    rng = np.random.default_rng([seed, 23, k])
    n, ul = LARGE_UL[k % len(LARGE_UL)]
    form = (k // len(LARGE_UL)) % 3
    r, c = (n, n) if form == 0 else ((n, int(rng.integers(2, n + 1))) if form == 1 else (int(rng.integers(2, n + 1)), n))
    gen = ["dfs", "wilson"][k % 2]
    try:
        conn = np.array(_gen_conn(rng, gen, r, c), dtype=bool)
        assert conn.shape == (2, r, c)
    except Exception:  # noqa: BLE001
        gen += "!"
        conn = mz.rand_conn(rng, r, c, 0.7)
    conn[0, -1, :] = False
    conn[1, :, -1] = False
    corners = [(0, 0), (r - 1, c - 1), (0, c - 1), (r - 1, 0)]
    a = corners[int(rng.integers(4))]
    reach = mz.bfs(conn, a)
    b = max(reach, key=lambda x: (abs(x[0] - a[0]) + abs(x[1] - a[1]), x))  # the reachable cell farthest away on the grid
    kind = KINDS[(k // 2) % 3]
    kw = {}
    if kind == "TargetedLatticeMaze":
        kw = dict(start=a, end=b)
    elif kind == "SolvedMaze":
        kw = dict(sol=_rand_shortest(rng, conn, a, b))
    far = [[r - 1, c - 1], [0, c - 1], [r - 1, 0], [r - 1, int(rng.integers(0, c))], [int(rng.integers(0, r)), c - 1]]
    ops = []
    if kind == "LatticeMaze" or rng.random() < 0.3:
        tpath = _rand_shortest(rng, conn, b, a) if rng.random() < 0.6 else [far[int(i)] for i in rng.permutation(5)[:3]]
        ops.append(["true", LINE_STYLES[int(rng.integers(len(LINE_STYLES)))], tpath])
    for _ in range(int(rng.integers(1, 3))):
        u = rng.random()
        ppath = [far[int(i)] for i in rng.permutation(5)[: int(rng.integers(1, 5))]] if u < 0.5 else (_rand_walk(rng, conn, b, 3 * n) if u < 0.8 else _rand_shortest(rng, conn, a, b))
        ops.append(["pred", PRED_STYLES[int(rng.integers(len(PRED_STYLES)))], ppath])
    if rng.random() < 0.3:
        ops.append(["mark", "", [far[0]]])
    return _scn(kind, conn, ul, nv=_nv_random(rng, r, c) if k % 4 == 3 else None, ops=ops, src=f"lul:{seed}:{k}:{gen}:{r}x{c}:ul{ul}",
                plain=bool(rng.random() < 0.3), hide_cbar=True, ulform=("int", "np64", "int", "np32")[(k // len(LARGE_UL)) % 4], replot=(k % 7 == 3), **kw)


def observe_large_ul(args):
    seed, k = args
    return observe(scenario_large_ul(seed, k))


# ---- CLASSES C / D / F / G / H, systematically: the shortest paths (0, 1, 2 cells) in EVERY input representation / format option,
# on oblong grids (sides differing by >= 2, both orientations) without any / with every / with tree connections, x three kinds
# (length-1 and length-2 solutions, start == end), x falsy cell values, layouts, construction routes, replot.
# Every third repetition uses a shape with a side of 1: outside the quantifier, judged as Layer M (M:outside_grid_sizes:*).
EDGE_SHAPES = [(2, 5), (5, 2), (3, 7), (7, 3), (2, 2), (8, 2), (2, 8), (4, 4)]
DEGEN_SHAPES = [(1, 1), (1, 2), (2, 1), (1, 5), (5, 1), (1, 8)]
EDGE_PRED = [(st, n) for st in PRED_STYLES for n in (0, 1, 2)]
EDGE_TRUE = [(st, n) for st in LINE_STYLES for n in (1, 2)]
EDGE_EXTRA = [("mark", "", 1), ("mark_arr", "", 2), ("mark", "", 0), ("mark_arr", "", 0), ("pred_twice", "list", 1), ("pred_twice", "array", 2), ("pred_twice", "styled_quiver", 1),
              ("pred_twice", "styled_line", 2), ("true_and_pred", "array", 1), ("true_and_pred", "styled_line", 2), ("true_and_pred", "list", 2),
              ("multi", "list", 0), ("multi", "array", 1), ("multi", "list_lists", 2), ("multi", "styled_q0", 0), ("multi", "array_view", 1)]
N_EDGE = len(EDGE_PRED)


def _full_conn(r, c):
    conn = np.ones((2, r, c), dtype=bool)
    conn[0, -1, :] = False
    conn[1, :, -1] = False
    return conn


def scenario_edge(seed, k):
    rng = np.random.default_rng([seed, 24, k])
    j, rep = k % N_EDGE, k // N_EDGE
    degenerate = rep % 3 == 2
    shapes = DEGEN_SHAPES if degenerate else EDGE_SHAPES
    r, c = shapes[(j + rep) % len(shapes)]
    ctype = ("tree", "none", "all")[(j + rep // 3) % 3]
    if ctype == "none":
        conn = np.zeros((2, r, c), dtype=bool)
    elif ctype == "all":
        conn = _full_conn(r, c)
    else:
        try:
            conn = np.array(_gen_conn(rng, "dfs", r, c), dtype=bool)
            assert conn.shape == (2, r, c)
        except Exception:  # noqa: BLE001
            ctype = "tree!"
            conn = mz.rand_conn(rng, r, c, 0.6)
        conn[0, -1, :] = False
        conn[1, :, -1] = False
    corners = [(0, 0), (r - 1, c - 1), (0, c - 1), (r - 1, 0)]

    def short(n, i):
        """0, 1 or 2 cells starting in a corner (the first corner is cell (0, 0)); the second cell is a connected neighbour if there is one"""
        a = corners[i % 4]
        if n == 0:
            return []
        if n == 1:
            return [list(a)]
        nb = mz.nbrs(conn, a) or [b for b in [(a[0] + 1, a[1]), (a[0] - 1, a[1]), (a[0], a[1] + 1), (a[0], a[1] - 1)] if 0 <= b[0] < r and 0 <= b[1] < c] or [a]
        return [list(a), list(nb[(i // 4) % len(nb)])]

    kind = KINDS[(j // 3 + rep) % 3]
    a = corners[j % 4]
    reach = mz.bfs(conn, a)
    far = max(reach, key=lambda x: (abs(x[0] - a[0]) + abs(x[1] - a[1]), x))
    kw = {}
    if kind == "TargetedLatticeMaze":
        kw = dict(start=a, end=[a, tuple(short(2, j)[1]), far][(j + rep) % 3])
    elif kind == "SolvedMaze":
        kw = dict(sol=[short(1, j), short(2, j), _rand_shortest(rng, conn, a, far)][(j + rep) % 3])
    ops = []
    if j < len(EDGE_TRUE) and (kind == "LatticeMaze" or (j + rep) % 2 == 0):
        st, n = EDGE_TRUE[(j + 7 * rep) % len(EDGE_TRUE)]
        ops.append(["true", st, short(n, j + 1)])
    st, n = EDGE_PRED[j]
    ops.append(["pred", st, short(n, j + 2 + rep)])
    if j % 3 == 0:
        op, st, n = EDGE_EXTRA[(j // 3 + rep) % len(EDGE_EXTRA)]
        if op in ("mark", "mark_arr"):
            ops.append([op, "", [list(corners[0])] * n])  # n = 2: the same cell marked twice
        elif op == "multi":
            ops.append([op, st, [short(n, j), short(1, j + 1), short(2, j + 3)]])
        else:
            ops.append([op, st, short(n, j + 3)])
    nvmode = (None, "falsy", None, "zeros", "fixed", "const")[(j + rep) % 6]
    opts = dict(connform=("c", "fortran", "view")[(j // 2) % 3], ulform=("int", "np64", "np32")[(j // 3) % 3], endform=("array", "tuple", "list", "int8")[(j // 4) % 4],
                via=("ctor", "factory")[j % 2] if kind != "SolvedMaze" else ("ctor", "factory", "factory_targeted", "ctor_se")[j % 4], meta=(j % 3 == 1),
                replot=(j % 4 == 2), title0=(j % 2 == 0), plain=(j % 5 == 0), own_ax=(j % 7 == 3), hide_cbar=(j % 3 != 0), force_both=True)
    if nvmode is not None:
        o = dict(tform=("array", "tuple", "list", "int8")[(j // 5) % 4])
        if j % 4 == 1 and nvmode != "zeros":  # (all-zero values with colormap_center=0.0: matplotlib's TwoSlopeNorm refuses vmin == vcenter == vmax - colours are not in the statement)
            o["center0"] = True
        if j % 5 == 2:
            o["target"] = [0, 0]
        if j % 5 == 3:
            o["prec"] = []
        if j % 5 == 4:
            o["prec"] = [[0, 0], [r - 1, c - 1]]
        opts.update(nvform=("f64", "f32", "fortran", "view")[(j // 6) % 4], nv_first=((j // 2) % 4 == 1), nvopts=o)
    nv = _nv_pattern(nvmode, r, c) if nvmode else None
    if nv is not None and opts["nvform"] == "f32":  # 0.93 is not a float32: the value supplied would not be the value logged
        nv = [[75 if v == 93 else v for v in row] for row in nv]
    return _scn(kind, conn, (3, 4, 5)[(j + rep) % 3], nv=nv, ops=ops,
                src=f"edge:{seed}:{k}:{ctype}:{r}x{c}" + (":outside" if degenerate else ""), **opts, **kw)


def observe_edge(args):
    seed, k = args
    return observe(scenario_edge(seed, k))


# ------------------------------------------------------------------ canaries (hand-made records)
_CONN_A = [[[1, 0, 1], [0, 0, 0]], [[1, 1, 0], [0, 1, 0]]]  # 2x3 tree: (0,0)-(0,1)-(0,2)-(1,2)-(1,1) and (0,0)-(1,0)
_SOL_A = [[0, 0], [0, 1], [0, 2], [1, 2], [1, 1]]
_PLAIN = {"#": -100, ".": 100, "+": 93}
_ART_PLAIN = ["##########", "#..+..+..#", "#..+..+..#", "#++####++#", "#..#..+..#", "#..#..+..#", "##########"]
_NVV = {"a": -100, "b": -25, "c": 50, "d": 125, "e": 200, "f": 275, "~": NAN, "#": -100}
_ART_NV = ["##########", "#aaabbbcc~", "#aaabbbcc~", "#aaa~~bccc", "#dd~eeeff~", "#dd~eeeff~", "#~~d~~e~~f"]
_ASC_SOLVED = ["#######", "#SXXXX#", "# ###X#", "# #EXX#", "#######"]
_ASC_BARE = ["#######", "#     #", "# ### #", "# #   #", "#######"]
_ASC_ENDS = ["#######", "#S    #", "# ### #", "# #E  #", "#######"]


def _cp(x):
    return json.loads(json.dumps(x))


def _asc(rows_tt, rows_tf, rows_ff):
    return [dict(se=se, ss=ss, res="ok", rows=[list(r) for r in rows], own_res="ok", own=[list(r) for r in rows]) for (se, ss), rows in zip(FLAGS, (rows_tt, rows_tf, rows_ff))]


def _hand(kind, art, table, hasnv, lines, quiv, asc, start=(), end=(), sol=(), preds=(), marks=(), tp=None):
    rec = dict(maze=dict(kind=kind, R=2, C=3, conn=_cp(_CONN_A), start=list(start), end=list(end), sol=[list(p) for p in sol]), ul=3, hasnv=hasnv,
               nv=[[-100, -25, 50], [125, 200, 275]] if hasnv else [], tpset=tp is not None, tp=tp or [], preds=[list(map(list, p)) for p in preds], marks=[list(p) for p in marks],
               res="ok", enc="none", img=[], pats=[], vruns=[], ext=[-1, 19, 13, -1], origin="upper", lines=lines, quiv=quiv, asc=asc, argmod=[], scn={"src": "hand-made"})
    _put_image(rec, np.array([[table[ch] for ch in row] for row in art]))
    return rec


def _ln(ls, mk, *pts):
    return dict(ls=ls, mk=mk, pts=[list(p) for p in pts])


def hand_made():
    true_line = _ln("--", "None", (3, 3), (9, 3), (15, 3), (15, 9), (9, 9))
    sv = _hand("SolvedMaze", _ART_PLAIN, _PLAIN, False,
               [true_line, _ln("None", "o", (3, 3)), _ln("None", "x", (9, 9)), _ln("None", "o", (3, 9)), _ln("None", "x", (3, 3)), _ln("-", "+", (15, 3))],
               [dict(X=[3], Y=[9], U=[0], V=[-6])], _asc(_ASC_SOLVED, _ASC_BARE, _ASC_BARE), start=(0, 0), end=(1, 1), sol=_SOL_A, preds=[[(1, 0), (0, 0)]], marks=[(0, 2)])
    nv = _hand("LatticeMaze", _ART_NV, _NVV, True, [], [], _asc(_ASC_BARE, _ASC_BARE, _ASC_BARE))
    tg = _hand("TargetedLatticeMaze", _ART_PLAIN, _PLAIN, False, [_cp(true_line), _ln("None", "o", (3, 3)), _ln("None", "x", (9, 9))], [],
               _asc(_ASC_SOLVED, _ASC_BARE, _ASC_BARE), start=(0, 0), end=(1, 1))
    # added true path = an arbitrary cell sequence, a one-cell predicted path (empty quiver), line-styled prediction
    lt = _hand("LatticeMaze", _ART_PLAIN, _PLAIN, False,
               [_ln("--", "None", (15, 9), (3, 3)), _ln("None", "o", (15, 9)), _ln("None", "x", (3, 3)), _ln("None", "o", (9, 9)), _ln("None", "x", (9, 9)),
                _ln("-", "None", (3, 9), (3, 3), (9, 3)), _ln("None", "o", (3, 9)), _ln("None", "x", (9, 3))],
               [dict(X=[], Y=[], U=[], V=[])], [], tp=[[1, 2], [0, 0]], preds=[[(1, 1)], [(1, 0), (0, 0), (0, 1)], []])  # the last predicted path is EMPTY: nothing drawn
    rl = _cp(sv)
    rl.update(enc="rle", img=[])
    nvr = _cp(nv)
    nvr.update(enc="rle", img=[])
    dis = _hand("TargetedLatticeMaze", _ART_PLAIN, _PLAIN, False, [], [], [], start=(0, 0), end=(1, 1))
    dis["maze"]["conn"] = [[[0, 0, 0], [0, 0, 0]], [[0, 0, 0], [0, 0, 0]]]
    dis.update(res="raise:ValueError", enc="none", img=[], pats=[], vruns=[], ext=[], origin="")
    # a 1 x 2 maze (outside the quantifier): one passage, no paths
    dg = _hand("LatticeMaze", ["#######", "#..+..#", "#..+..#", "#######"], _PLAIN, False, [], [], _asc(["#####", "#   #", "#####"], ["#####", "#   #", "#####"], ["#####", "#   #", "#####"]))
    dg["maze"].update(R=1, C=2, conn=[[[0, 0]], [[1, 0]]])
    dg["ext"] = [-1, 13, 7, -1]
    return dict(sv=sv, nv=nv, tg=tg, lt=lt, rl=rl, nvr=nvr, dis=dis, dg=dg)


def make_canaries():
    H = hand_made()
    cans = []

    def add(base, clause, fn):
        y = _cp(H[base])
        fn(y)
        y["scn"] = {"src": "canary:" + clause}
        cans.append((y, clause))

    def px(yy, xx, v):  # pixel(s) changed (yy / xx may be slices), both encodings rebuilt
        def f(y):
            a = np.array(y["img"])
            a[yy, xx] = v
            _put_image(y, a)

        return f

    def px_rle(yy, xx, v):  # run-length-only record: decode is not needed, rebuild from the hand-made art
        def f(y):
            base = _ART_NV if y["hasnv"] else _ART_PLAIN
            tab = _NVV if y["hasnv"] else _PLAIN
            a = np.array([[tab[ch] for ch in row] for row in base])
            a[yy, xx] = v
            y["pats"], y["vruns"] = _rle(a)

        return f

    def line(i, **kw):
        return lambda y: y["lines"][i].update(kw)

    tr = lambda p: [[b, a] for a, b in p]  # noqa: E731
    add("sv", "cell_blocks", px(4, 5, 93))
    add("sv", "cell_blocks", px(1, 1, -100))
    add("rl", "cell_blocks", px_rle(5, 8, 93))
    add("nv", "cell_values", px(4, 4, 125))  # cell (1,1) shows the value of (1,0)
    add("nvr", "cell_values", px_rle(2, 7, -25))

    def swap_cells(y):  # the picture of the maze whose values at (0,1) and (1,0) are exchanged
        a = np.array(y["img"])
        a[a == -25] = 7777
        a[a == 125] = -25
        a[a == 7777] = 125
        _put_image(y, a)

    add("nv", "cell_values", swap_cells)
    add("sv", "connected_strip_not_passage", px(1, 3, -100))  # passage (0,0)-(0,1) closed
    add("sv", "connected_strip_not_passage", px(3, 2, -100))  # half of the passage (0,0)-(1,0) closed
    add("sv", "connected_strip_not_passage", px(3, 8, 100))  # passage painted like a cell
    add("rl", "connected_strip_not_passage", px_rle(4, 6, -100))
    add("sv", "unconnected_strip_not_wall", px(3, 4, 93))  # wall (0,1)|(1,1) opened
    add("sv", "unconnected_strip_not_wall", px(5, 3, 93))
    add("rl", "unconnected_strip_not_wall", px_rle(4, 3, 93))
    add("nv", "connected_strip_not_passage", px(1, 3, NAN))
    add("nv", "connected_strip_not_passage", px(3, 7, -25))  # passage (0,2)-(1,2) carries the value of a cell that is not on the edge
    add("nv", "unconnected_strip_not_wall", px(3, 4, -25))  # wall below (0,1) carries the cell's value
    add("nv", "unconnected_strip_not_wall", px(4, 3, -100))  # wall painted with the background value instead of NaN
    add("nvr", "unconnected_strip_not_wall", px_rle(3, 5, 200))
    add("nv", "M:passage_value_of_unit_cell", px(slice(1, 3), 3, -25))  # passage (0,0)-(0,1) carries the right cell's value: statement ok, model no
    add("sv", "M:image_model", px(3, 3, 93))  # a post
    add("nv", "M:image_model", px(0, 4, NAN))  # top border
    add("sv", "image_size", lambda y: _put_image(y, np.array(y["img"]).T))
    add("sv", "image_size", lambda y: _put_image(y, np.array(y["img"])[:-1]))
    add("rl", "image_size", lambda y: y["vruns"].pop())
    add("sv", "image_size", lambda y: y.update(enc="none", img=[], pats=[], vruns=[]))
    add("sv", "image_placement", lambda y: y.update(origin="lower"))
    add("sv", "image_placement", lambda y: y.update(ext=[-1, 19, -1, 13]))
    add("sv", "image_placement", lambda y: y.update(ext=[0, 20, 14, 0]))
    add("sv", "image_placement", lambda y: y.update(ext=[-1, 13, 19, -1]))
    add("sv", "path_polylines", lambda y: y["lines"][0].update(pts=tr(y["lines"][0]["pts"])))  # rows <-> columns
    add("sv", "path_polylines", lambda y: y["lines"][0]["pts"].reverse())
    add("sv", "path_polylines", lambda y: y["lines"][0]["pts"].pop(2))
    add("sv", "path_polylines", lambda y: y["lines"].pop(0))
    add("sv", "path_polylines", lambda y: y["lines"].append(_ln("-", "None", (3, 3), (3, 9))))
    add("sv", "path_polylines", lambda y: y["lines"][0]["pts"].__setitem__(1, [8, 3]))  # off-centre
    add("sv", "path_polylines", lambda y: y["quiv"][0].update(U=[-6], V=[0]))
    add("sv", "path_polylines", lambda y: y["quiv"][0].update(X=[9], Y=[3], U=[-6], V=[0]))  # prediction transposed
    add("sv", "path_polylines", lambda y: y.__setitem__("quiv", []))
    add("sv", "path_polylines", lambda y: y["quiv"][0].update(X=[3, 9], Y=[9, 9], U=[0, 0], V=[-6, -6]))  # arrows do not chain
    add("lt", "path_polylines", lambda y: y["lines"][5]["pts"].pop())
    add("lt", "path_polylines", lambda y: y["lines"][0].update(pts=[[3, 3], [15, 9]]))
    add("tg", "path_polylines", lambda y: y["lines"].pop(0))  # true path of a targeted maze not drawn
    add("tg", "path_polylines", lambda y: y["lines"][0].update(pts=[[3, 3], [9, 3], [9, 9]]))  # through the wall
    add("tg", "path_polylines", lambda y: y["lines"][0].update(pts=[[3, 3], [3, 9], [3, 3], [9, 3], [15, 3], [15, 9], [9, 9]]))  # not shortest
    add("tg", "path_polylines", lambda y: y["lines"][0]["pts"].reverse())
    add("sv", "endpoint_markers", lambda y: (line(1, mk="x")(y), line(2, mk="o")(y)))  # direction reversed
    add("sv", "endpoint_markers", lambda y: y["lines"].pop(2))
    add("lt", "endpoint_markers", lambda y: y["lines"].pop(4))  # one-cell path: end mark missing
    add("tg", "endpoint_markers", line(2, pts=[[15, 9]]))
    add("sv", "marker_off_listed_cells", line(2, pts=[[15, 9]]))
    add("sv", "marker_off_listed_cells", lambda y: y["lines"].append(_ln("None", "o", (15, 9))))
    add("sv", "marker_off_listed_cells", line(1, pts=[[3, 3], [9, 3]]))
    add("sv", "M:marked_coords", line(5, pts=[[15, 9]]))  # mark on another cell
    add("sv", "M:marker_count", lambda y: y["lines"].append(_ln("None", "o", (3, 3))))
    add("sv", "ascii_export", lambda y: y["asc"][0]["rows"][1].__setitem__(2, " "))
    add("sv", "M:ascii_export_flags", lambda y: y["asc"][1].update(rows=[list(r) for r in _ASC_ENDS]))
    add("sv", "M:ascii_export_flags", lambda y: y["asc"][2].update(res="raise:ValueError", rows=[]))
    add("sv", "ascii_export", lambda y: y["asc"][0].update(res="raise:AssertionError", rows=[]))
    add("sv", "ascii_export", lambda y: y["asc"][0].update(rows=[list(t) for t in zip(*y["asc"][0]["rows"])]))

    def both_rows(i, rows):
        return lambda y: y["asc"][i].update(rows=[list(r) for r in rows], own=[list(r) for r in rows])

    add("tg", "ascii_export", both_rows(0, _ASC_ENDS))  # export and "own" agree but do not show the drawn true path
    add("tg", "ascii_export", both_rows(0, ["#######", "#SXX  #", "# ###X#", "# #EXX#", "#######"]))
    add("sv", "plot_raises", lambda y: y.update(res="raise:IndexError"))
    add("nv", "plot_raises", lambda y: y.update(res="raise:NotOneImage", enc="none", img=[], pats=[], vruns=[]))
    add("tg", "plot_raises", lambda y: y.update(res="raise:ValueError"))  # solvable targeted maze refused
    add("sv", "X:rle_disagrees_with_raw", lambda y: y["pats"][1][1].__setitem__(0, -100))
    add("rl", "X:rle_malformed", lambda y: y["vruns"][1].__setitem__(1, 2))
    add("lt", "path_polylines", lambda y: y["lines"].append(_ln("-", "None", (3, 3), (9, 3))))  # something drawn for the empty path
    add("lt", "marker_off_listed_cells", lambda y: y["lines"].append(_ln("None", "o", (15, 3))))
    add("sv", "M:argument_modified", lambda y: y.update(argmod=["conn"]))
    add("dis", "M:argument_modified", lambda y: y.update(argmod=["start"]))
    add("dg", "M:outside_grid_sizes:cell_blocks", px(1, 1, -100))
    add("dg", "M:outside_grid_sizes:connected_strip_not_passage", px(2, 3, -100))
    add("dg", "M:outside_grid_sizes:image_size", lambda y: _put_image(y, np.array(y["img"]).T))
    add("dg", "M:outside_grid_sizes:plot_raises", lambda y: y.update(res="raise:IndexError"))
    add("dg", "M:outside_grid_sizes:M:argument_modified", lambda y: y.update(argmod=["conn"]))
    add("dg", "X:rle_disagrees_with_raw", lambda y: y["pats"][1][1].__setitem__(0, -100))
    add("nv", "M:input_malformed", lambda y: y["nv"].pop())
    add("lt", "M:input_malformed", lambda y: y["tp"].append([2, 0]))
    return cans


def check_hand_made(chk):
    recs = list(hand_made().values())
    for i, x in enumerate(recs):
        x["id"] = i
    res = lib.oracle("Trace_Plot", recs, tag="hand")
    if res.verdicts:
        raise lib.MachineryError(f"hand-made canary bases are rejected by the oracle: {res.verdicts}")
    chk.notes["hand_made_records_accepted"] = len(recs)


# ------------------------------------------------------------------ judging
class _Guard:
    """proxy for lib.Check: X:* clauses are harness machinery errors; at most `cap` rejected records per
    (clause, kind, cell values?, source class) become replay files (a systematic defect rejects thousands)"""

    def __init__(self, chk, cap=3):
        self._chk, self._cap = chk, cap
        self.seen = {}

    def __getattr__(self, k):
        return getattr(self._chk, k)

    def judge(self, cases_by_id, res, *, label=""):
        keep = {}
        for rid, clauses in sorted(res.verdicts.items()):
            case = cases_by_id.get(rid, {})
            for cl in clauses:
                if cl.startswith("X:"):
                    raise lib.MachineryError(f"observation encoding broken ({cl}) for case {json.dumps(case, default=str)[:600]}")
                scn = case.get("scn", {})
                key = (cl, scn.get("kind"), bool(scn.get("hasnv")), str(scn.get("src", ""))[:2])
                self.seen[key] = self.seen.get(key, 0) + 1
                if self.seen[key] <= self._cap:
                    keep.setdefault(rid, []).append(cl)
        self._chk.judge(cases_by_id, lib.OracleResult(keep, res.states, res.transitions, res.records, res.wall), label=label)


def _case(x):
    d = {k: x[k] for k in ("scn", "res", "ext", "origin", "lines", "quiv", "asc", "argmod")}
    if x["enc"] in ("raw", "both") and len(x["img"]) * (len(x["img"][0]) if x["img"] else 0) <= 260:
        d["img"] = x["img"]
    return d


def _nontrivial(x):
    m = x["maze"]
    ne = int(np.sum(np.array(m["conn"])))
    total = m["R"] * (m["C"] - 1) + (m["R"] - 1) * m["C"]
    return x["res"] == "ok" and 0 < ne < total and m["R"] * m["C"] >= 4


_OPT_KEYS = ("connform", "ulform", "endform", "via", "meta", "replot", "title0", "plain", "own_ax", "hide_cbar", "nvform", "nv_first", "nvopts")


def _judge_batch(chk, guard, recs, label, what):
    lib.judge_with_canaries(guard, "Trace_Plot", recs, make_canaries(), label=label, what=what, case_of=_case)
    if any(c == "M:input_malformed" for c, _ in chk.divergences):
        raise lib.MachineryError("the driver produced a case outside the scope of the statement (M:input_malformed)")
    st = chk.notes["records"]
    for x in recs:
        s = x["scn"]
        chk.count([s["src"], s["kind"], s["start"], s["end"], s["sol"], s["ul"], s["hasnv"], s["nv"], s["ops"], {k: s[k] for k in _OPT_KEYS if k in s}], _nontrivial(x))
        for key in (x["maze"]["kind"], "cell_values" if x["hasnv"] else "plain", "ul=%d" % x["ul"], "res=" + x["res"], "enc=" + x["enc"],
                    "oblong" if x["maze"]["R"] != x["maze"]["C"] else "square", "ascii_judged" if x["asc"] else "ascii_skipped",
                    *(["side_1(outside quantifier, Layer M)"] if min(x["maze"]["R"], x["maze"]["C"]) < 2 else []), *(["sides_differ_by>=2"] if abs(x["maze"]["R"] - x["maze"]["C"]) >= 2 else []),
                    *(["replotted"] if s.get("replot") else []), *(["cell_values_supplied_twice"] if s.get("nv_first") and x["hasnv"] else []),
                    *(["cell_value_0.0"] if x["hasnv"] and any(v == 0 for row in x["nv"] for v in row) else []),
                    *(["empty_predicted_path"] if any(len(q) == 0 for q in x["preds"]) else []), *(["one_cell_path"] if any(len(q) == 1 for q in x["preds"] + ([x["tp"]] if x["tpset"] else [])) else []),
                    *(["one_cell_solution"] if len(x["maze"]["sol"]) == 1 else []), *(["no_connection"] if x["maze"]["R"] * x["maze"]["C"] > 1 and not np.any(np.array(x["maze"]["conn"])) else []),
                    *(["conn_" + s["connform"]] if s.get("connform", "c") != "c" else []), *(["via_" + s["via"]] if s.get("via", "ctor") != "ctor" else []),
                    *(["ul_" + s["ulform"]] if s.get("ulform", "int") != "int" else []), *(["nv_" + s["nvform"]] if x["hasnv"] and s.get("nvform", "f64") != "f64" else []),
                    *(["arguments_modified"] if x["argmod"] else [])):
            st[key] = st.get(key, 0) + 1
        st["polylines"] = st.get("polylines", 0) + sum(1 for a in x["lines"] if a["ls"] != "None" and len(a["pts"]) >= 2) + sum(1 for q in x["quiv"] if q["X"])
        st["pixels"] = st.get("pixels", 0) + (sum(v[2] for v in x["vruns"]) * sum(r[2] for r in x["pats"][0]) if x["pats"] else 0)


def main(chk: lib.Check) -> int:
    thorough = chk.tier == "thorough"
    chk.rule = (
        "cases = one figure: (maze value, unit_length, cell values?, path operations); exhaustive: every connection structure of 2x2 "
        "x {LatticeMaze (bare, with random/true/predicted paths and marks), TargetedLatticeMaze for every ordered (start,end) incl. equal and disconnected, "
        "SolvedMaze for every shortest path of every pair} x ul in {3,4} x {plain, cell values}; the same for 2x3/3x2 graphs (quick: seeded sample of graphs; "
        "two of the four (ul, values) combinations per maze, rotating); seeded random mazes 2..8 x 2..8 (1/3 square, 1/3 forced oblong) from gen_dfs, gen_wilson, "
        "gen_dfs_percolation, gen_percolation x three kinds x ul in {3,4,5,7,14} x {plain, random distinct quarter values: mixed/all positive/all negative} "
        "plus a large-unit-length family (ul 18..256 with ul*(n-1) just below / at / above 127 and 255 on grids 2..8, square and oblong, paths through the far corners) "
        "with random true / predicted paths (shortest paths, simple walks, arbitrary cell sequences with repeats and jumps, single cells; list / array / StyledPath "
        "line / quiver / cmap / int8-array inputs, add_multiple_paths, replaced true path), mark_coords, plain / own axes / hidden colorbar; "
        "every figure: the caller's own argument objects (C / Fortran / strided layouts, float32 values, numpy unit lengths, mazes built through the factories, with redundant "
        "start / end and generation metadata) are snapshotted, compared after plot() / to_ascii() and overwritten before the artists are read; 15 % of the figures are plotted twice (the second is judged), "
        "cell values supplied twice, add_node_values options with falsy values; edge family: paths of 0 / 1 / 2 cells x every input representation / format option (20 predicted, 18 true) on "
        "2x5, 5x2, 3x7, 7x3, 8x2, 2x8, 2x2, 4x4 with no / every / tree connections x three kinds (one- and two-cell solutions, start == end) x cell values {none, 0.0 / 1.0 / -1.0 / 0.93 among quarters, "
        "all zero, constant}, same argument object added twice / as true and predicted path, duplicated and empty marks; every third repetition on 1x1, 1x2, 2x1, 1x5, 5x1, 1x8 (Layer M only); "
        "non-trivial = figure produced for a graph with at least one passage and one wall"
    )
    chk.notes["records"] = {}
    # ---- (A) design-level model checking
    r = lib.tlc_design("Plot", "Plot_small.cfg", expect_actions=["PaintNode", "PaintDown", "PaintRight"], tag="s")
    chk.add_model("Plot/small", r, "all graphs of 1x2,2x1,2x2,2x3,3x2 x ul in {3,4,5} x both branches: Partition, StripBijection, CoordCentre, PaintsInside, Faithful, ModelCovers, RleAgrees")
    r = lib.tlc_design("Plot", "Plot_deep.cfg", tag="d")
    chk.add_model("Plot/deep", r, "1x2,2x1,2x2 x ul in {3,4}: additionally every single-pixel change of a block / strip pixel is rejected by the statement's clauses")
    for cfg, inv, what in [("Plot_transposed.cfg", "CoordCentre", "Coord with row/col exchanged"), ("Plot_swapstrip.cfg", "Faithful", "painter's strip index with row/col exchanged"),
                           ("Plot_hackboth.cfg", "Faithful", "inverted connection list also used with cell values")]:
        r = lib.tlc_expect_violation("Plot", cfg, inv, tag="v")
        chk.add_model(f"Plot/{cfg[5:-4]}(expected violation)", r, f"broken variant: {what} -> {inv} violated")

    guard = _Guard(chk)
    check_hand_made(chk)
    # ---- (C) exhaustive tiny scope on the real code
    jobs = [(chk.seed, 2, 2, n, thorough) for n in range(mz.n_graphs(2, 2))]
    rng = np.random.default_rng([chk.seed, 22])
    scope = ["2x2: all 16 graphs, " + ("full (ul, values) product" if thorough else "two of the four (ul, values) combinations per maze, rotating")]
    for rr, cc in [(2, 3), (3, 2)]:
        n = mz.n_graphs(rr, cc)
        pick = list(range(n)) if thorough else sorted(int(v) for v in rng.choice(n, size=4, replace=False))
        jobs += [(chk.seed, rr, cc, g, False) for g in pick]
        scope.append(f"{rr}x{cc}: {len(pick)} of {n} graphs")
    per = 64
    first = True
    for b0 in range(0, len(jobs), per):
        recs = [x for sub in lib.pmap(scenarios_graph, jobs[b0 : b0 + per]) for x in sub]
        if first:
            ex = next((x for x in recs if x["maze"]["kind"] == "SolvedMaze" and len(x["maze"]["sol"]) >= 3 and x["hasnv"] and x["res"] == "ok"), None)
            if ex:
                chk.sample({k: ex[k] for k in ("maze", "ul", "nv", "img", "ext", "origin", "lines", "asc")})
            first = False
        _judge_batch(chk, guard, recs, f"tiny{b0}", "exhaustive tiny scope: image judged pixel-exact through both encodings, paths, markers, ASCII export")
    chk.exhaustive = True
    chk.notes["exhaustive_scope"] = "; ".join(scope) + "; per graph: 3 LatticeMaze scenarios, every ordered (start,end) as TargetedLatticeMaze, every shortest path of every pair as SolvedMaze"

    # ---- (C) seeded random larger mazes
    nrand = 9600 if thorough else 480
    per = 1600
    for b0 in range(0, nrand, per):
        recs = lib.pmap(observe_random, [(chk.seed, k) for k in range(b0, min(nrand, b0 + per))], chunksize=4)
        if b0 == 0:
            big = next((x for x in recs if x["enc"] == "rle" and x["maze"]["R"] != x["maze"]["C"] and x["preds"] and x["res"] == "ok"), None)
            if big:
                chk.sample({k: big[k] for k in ("maze", "ul", "hasnv", "tpset", "tp", "preds", "marks", "vruns", "ext", "lines", "quiv")})
        _judge_batch(chk, guard, recs, f"rnd{b0}", "seeded random mazes 2..8 x 2..8, ul in {3,4,5,7,14}: run-length encoded image judged block by block / strip by strip, paths, markers, ASCII export")
    chk.notes["random_figures"] = nrand
    # ---- (C) large unit lengths (far beyond the default 14), paths reaching the far rows / columns
    nlarge = 1740 if thorough else 174
    recs = lib.pmap(observe_large_ul, [(chk.seed, k) for k in range(nlarge)], chunksize=2)
    _judge_batch(chk, guard, recs, "lul", "unit lengths 18..256 with ul*(n-1) around 127 / 255 on grids 2..8: image through the run-length encoding, paths given as list / int64 / int8 arrays / StyledPath reaching the last row and column")
    chk.notes["large_unit_length_figures"] = nlarge
    chk.notes["large_unit_lengths"] = sorted({u for _n, u in LARGE_UL})
    # ---- (C) shortest paths x every input representation / option, oblong + degenerate shapes, falsy cell values, argument aliasing
    nedge = N_EDGE * (18 if thorough else 3)
    recs = lib.pmap(observe_edge, [(chk.seed, k) for k in range(nedge)], chunksize=4)
    _judge_batch(chk, guard, recs, "edge", "paths of 0 / 1 / 2 cells in every input representation and format option on 2x5, 5x2, 3x7, 7x3, 8x2, 2x8 (no / every / tree connections), "
                 "one- and two-cell solutions, falsy cell values (0.0, all zero, constant), layouts / dtypes / construction routes, replot; every third repetition on 1x1, 1xN, Nx1 (Layer M)")
    chk.notes["edge_family_figures"] = nedge
    chk.notes["rejected_record_groups"] = {"|".join(map(str, k)): v for k, v in sorted(guard.seen.items(), key=str)}
    chk.notes["layer_M_findings"] = (
        "M:ascii_export_flags: MazePlot(LatticeMaze).to_ascii(show_endpoints=False, show_solution=False) raises ValueError "
        "('show_solution=True requires show_endpoints=True') although LatticeMaze.as_ascii(False, False) succeeds: to_ascii does not forward show_solution when the plot has no true path"
    )
    chk.notes["not_judged"] = "axis ticks / labels / colours / legend / colorbar; plot() places the ticks of BOTH axes with np.arange(grid_shape[0]) (row count): on an R x C grid with R > C the x view limit is stretched beyond the image, with R < C the last columns have no tick (not in the statement)"
    chk.assumptions = [
        "TLC, CommunityModules JSON reader, CPython/numpy",
        "matplotlib's Agg backend and its artist objects are a faithful observer: what ax.images[0].get_array()/get_extent(), Line2D.get_xydata() and Quiver.X/Y/U/V hold is what is drawn",
        "value codes: a pixel v is logged as round(100 v) only when round(100 v)/100 == v exactly (else INEXACT); the run-length encoder is harness code, cross-checked against the raw rows on every image of <= 1300 pixels and every 8th larger one (X:rle_disagrees_with_raw)",
        "input generation (all shortest paths, random walks) is harness code; the true path of a targeted maze is re-decided in TLA+ (shortest path)",
        "argument snapshots compare coordinates / values / connection bits / metadata deeply; formatting fields of a StyledPath (label, color) are set by add_predicted_path on the caller's object by design and are not compared",
        "graphs beyond 2x2 (quick) / 2x3, 3x2 (thorough) are sampled, not exhaustive; unit lengths other than {3,4,5,7,14} and the listed large ones (18..256) not exercised",
    ]
    return chk.finish(
        "Plot.tla checked exhaustively on tiny shapes (geometry partition / strip bijection / coordinate map / painting loop = statement = closed form; three broken variants rejected); "
        "every real figure judged by the TLA+ oracle built on the same definitions"
    )


def replay(path: str) -> int:
    d = json.load(open(path))
    scn = d["case"]["scn"]
    rec = observe(scn)
    rec["id"] = 0
    out = lib.oracle("Trace_Plot", [rec], tag="rp")
    v = [c for c in out.verdicts.get(0, []) if not c.startswith("M:")]
    print("replay:", scn.get("kind"), scn.get("src"), "ul", scn.get("ul"), "values" if scn.get("hasnv") else "plain", "res", rec["res"], "verdict:", out.verdicts.get(0, []))
    if v:
        print(f"VIOLATION property=C20 replay={path}")
        return 1
    return 0
