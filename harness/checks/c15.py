"""C15 -- the tokenizer configuration space is enumerated exactly and identified uniquely.

(A) TokSpace.tla model-checked (TokSpace_small.cfg): parameter spaces + validity rules give 9 / 216 / 2 /
    1008 valid coord / adjacency-list / target / path configurations (raw 9 / 1584 / 2 / 10880), the
    product 9*216*2*1008 + 9*216*1008 = 5 878 656 (AOP has no target field), names injective per family
    and well nested (=> injective on the product by composition), legacy-equivalent set.
    TokSpace_broken.cfg (validity rule admitting pre = TRUE) must be rejected by TLC (CardInv).
    TLC EMITS the element name sets + the top-level format; the driver composes the spec's product
    set from them (never from the library).
(C) Trace_TokSpace.tla judges observations of the real code:
      enum      all_instances(<family>, DEFAULT_VALIDATION_FUNCS) for the 9 element families (names, raw
                field dumps, hashes), exhaustive
      raw       all_instances(<family>, None): EVERY point of the parameter space (12 500 instances) with the
                library's own is_valid verdict and whether the validated enumeration contains it
      space     get_all_tokenizers() complete (5 878 656; both tiers): count, distinct names, name set == the
                spec's product set (missing / extra counted exactly), distinct hash() values (quick: of every
                4th member, thorough: of all); thorough: is_valid and is_legacy_equivalent on every member,
                hash() of every member in two more interpreter processes (PYTHONHASHSEED = 1 / random).
                The enumeration runs under an address-space cap and is skipped when the family enumerations
                already predict > 3*10^7 members (both are outcomes judged by the oracle, never exit 2)
      tok       seeded sample of enumerated tokenizers + random points of the RAW product (invalid ones
                included): name grammar, validity, twin (independently built equal object), the same
                configuration built in 3 other processes (PYTHONHASHSEED 0 / 1 / random)
      io        serialize -> load, serialize -> json text (sorted keys) -> load, ZANJ save -> read, reload (same dict loaded
                twice, then overwritten): per family exhaustively (element inside the default tokenizer) and for the sample
      use       HISTORY of an object: every enumerated element inside the DEFAULT tokenizer (shared default
                instances) and every sampled tokenizer: name / hash() / hash_b64() fresh, after to_tokens and
                maze.as_tokens on a solved, a targeted and a plain 3x3 maze, of an equal twin built AFTER the
                use, and of the used tokenizer saved to JSON text and loaded
      history   HISTORY of a process (own interpreter): get_all_tokenizers() before and after
                sample_all_tokenizers, sample_tokenizers_for_test(None | 10 | 2), all_tokenizers_set (thorough:
                + save_hashes into /verif/.work) were called: size, the from_legacy images are members, the list
                is still the same sequence of objects (else its name set is compared with the spec product again)
      legacy    from_legacy for the 3 modes (enum value and MazeTokenizer object), legacyset: who reports
                is_legacy_equivalent (quick: all one-component neighbours of the images + the sample;
                thorough: all 5 878 656)

Audit 2 (input / history classes C-H of harness/AUDIT2_PROMPT.txt)
  G/E/A   every family is enumerated a SECOND time in the process with the validity rules handed over as the caller's own plain
          dict by keyword (the wrapper has one code path per calling convention and converts to a frozendict); the dict must come
          back unmodified (M:validation_funcs_argument_modified) and is emptied before the instances are read
  C       all_instances(cls, {}) positional / keyword = the unvalidated space (rawcount, Layer M); sample_all_tokenizers(0) and
          sample_tokenizers_for_test(0) among the consumers of the history worker; from_legacy(MazeTokenizer(max_grid_size=None))
  E/F/A   io via "reload": an earlier serialize() result is overwritten by its owner, the SAME serialized dict is loaded twice, must
          be left unmodified (deep snapshot, M:load_modifies_its_argument) and is overwritten in place BEFORE the second loaded
          tokenizer is read;  G: the "json" text is written with sorted keys
  F       use histories also COLLECT derived state without tokenizing: is_valid, is_legacy_equivalent, summary, tokenizer_elements
          (cached_property), element tree / dict, has_element, is_AOTP / is_UT, str, repr, serialize (result overwritten)
  H/D     use histories also tokenize a 2x5 maze WITHOUT any connection whose solution has length 1 (start == end in the last
          column) -- with every element of every family and every sampled tokenizer (AllLatticeEdges documents "only square
          mazes": its AssertionError is an outcome of the use, not judged here)
  not generated (outside the statement's quantifier): mutating the list get_all_tokenizers() returns (it is the functools.cache'd
  object itself; sample_tokenizers_for_test(None) hands it out too), field values outside the declared types (an ordinal 1.0
  or numpy Booleans print differently while comparing equal, a hand-written `_type_`), an empty step_tokenizers tuple.

Interpretation decisions
  * "tokenizer" = MazeTokenizerModular.  hash() of a single ELEMENT is not part of the statement; the model
    says it is H(name) like the docstring of _TokenizerElement.__hash__ -> Layer M only
    ("M:element_hash_collision"; its process-dependence is recorded in notes.element_hash_stable).
  * "stable hash" = hash(tok) (what save_hashes stores) and hash_b64(); both must agree across processes.
  * the identity of the legacy images (which configuration a mode maps to) is Layer M; Layer P is: every
    image reports is_legacy_equivalent() and nothing else in the scope does.
  * loading an ELEMENT on its own (type(e).load) is not a documented path and is not judged; elements are
    saved/loaded inside a tokenizer.
  * MazeTokenizerModular_hashes.npz is empty in this checkout: nothing here reads it.
"""
import copy
import dataclasses
import hashlib
import itertools
import json
import os
import resource
import shutil
import subprocess
import sys
import tempfile
import time

import numpy as np

from harness import lib

FAMILIES = ["coord", "grouping", "permuter", "subset", "adj", "target", "stepsize", "steptok", "path"]
BOOL_FIELDS = {"pre", "intra", "post", "shuffle_d0", "walls", "shuffle_group"}
INT_FIELDS = {"connection_token_ordinal"}
ENUM_MEM_HEADROOM = 5 * 2**30  # address-space headroom while enumerating (the real list needs ~1.7 GB; an unvalidated product fits nowhere)
PRODUCT_GUARD = 30_000_000  # if the family enumerations already predict more members than this, the full enumeration is not attempted
PRED_FULL = 5_878_656  # only used to size samples / sanity-print; the judgement is PredictedScope in TLA+


# ------------------------------------------------------------------ library access (lazy)
def _mt():
    from maze_dataset.tokenization import maze_tokenizer as mt

    return mt


def _bases():
    mt = _mt()
    return {
        "coord": mt.CoordTokenizers._CoordTokenizer,
        "grouping": mt.EdgeGroupings._EdgeGrouping,
        "permuter": mt.EdgePermuters._EdgePermuter,
        "subset": mt.EdgeSubsets._EdgeSubset,
        "adj": mt.AdjListTokenizers._AdjListTokenizer,
        "target": mt.TargetTokenizers._TargetTokenizer,
        "stepsize": mt.StepSizes._StepSize,
        "steptok": mt.StepTokenizers._StepTokenizer,
        "path": mt.PathTokenizers._PathTokenizer,
    }


def _run(fn):
    """('ok', value) | ('raise:<Type>', None): nothing the library raises escapes into the harness"""
    try:
        return "ok", fn()
    except BaseException as e:  # noqa: BLE001
        if isinstance(e, (KeyboardInterrupt, SystemExit)):
            raise
        return "raise:" + type(e).__name__, None


def _tf(fn):
    """'T' | 'F' | 'raise:<Type>' | 'other:<type>'"""
    res, v = _run(fn)
    if res != "ok":
        return res
    if v is True:
        return "T"
    if v is False:
        return "F"
    return "other:" + type(v).__name__


def _s(fn):
    """a string-valued observation; exceptions / non-strings become distinguishable strings"""
    res, v = _run(fn)
    if res != "ok":
        return "<" + res + ">"
    return v if isinstance(v, str) else "<not-a-string:" + type(v).__name__ + ">"


def _h(fn):
    """an integer-valued observation as decimal string"""
    res, v = _run(fn)
    if res != "ok":
        return "<" + res + ">"
    return str(int(v)) if isinstance(v, (int, np.integer)) and not isinstance(v, bool) else "<not-an-int:" + type(v).__name__ + ">"


# ------------------------------------------------------------------ raw field dump  <->  real object
def dump(x):
    """raw projection: class name + dataclass fields (the hidden `_type_` left out), tuples as lists"""
    if isinstance(x, (tuple, list)):
        return [dump(y) for y in x]
    if dataclasses.is_dataclass(x) and not isinstance(x, type):
        d = {"cls": type(x).__name__}
        for f in dataclasses.fields(x):
            if f.name != "_type_":
                d[f.name] = dump(getattr(x, f.name, "<missing>"))
        return d
    return x


NESTED_FIELDS = {"prompt_sequencer", "coord_tokenizer", "adj_list_tokenizer", "target_tokenizer", "path_tokenizer", "step_size", "edge_grouping", "edge_subset", "edge_permuter"}


def typed(c, key=None):
    """only the JSON typing TLC needs (ONE type per field name, else comparing two records is a TLC error);
    membership in the space is judged in TLA+"""
    if key == "cls":
        return isinstance(c, str)
    if key in BOOL_FIELDS:
        return isinstance(c, bool)
    if key in INT_FIELDS:
        return isinstance(c, int) and not isinstance(c, bool) and -1000 < c < 1000
    if key == "step_tokenizers":
        return isinstance(c, list) and all(isinstance(v, dict) and typed(v) for v in c)
    if key in NESTED_FIELDS or key is None:
        return isinstance(c, dict) and isinstance(c.get("cls"), str) and all(isinstance(k, str) and typed(v, k) for k, v in c.items())
    return isinstance(c, bool)  # an unknown field: tolerated only as a Boolean scalar (the configuration is outside the space anyway)


def ckey(c):
    return json.dumps(c, sort_keys=True, separators=(",", ":"))


_CLS = {}


def _classes():
    if not _CLS:
        mt = _mt()

        def rec(c):
            for s in c.__subclasses__():
                _CLS.setdefault(s.__name__, s)
                rec(s)

        rec(mt._TokenizerElement)
        _CLS["MazeTokenizerModular"] = mt.MazeTokenizerModular
    return _CLS


def build(c):
    """construct the real object of a configuration with the public constructors (independent of all_instances / load)"""
    if isinstance(c, list):
        return tuple(build(v) for v in c)
    if isinstance(c, dict):
        return _classes()[c["cls"]](**{k: build(v) for k, v in c.items() if k != "cls"})
    return c


def wrap(K, e):
    """the default tokenizer with element e put in (how an element is saved / validated in practice)"""
    mt = _mt()
    PS, AL, PT = mt.PromptSequencers, mt.AdjListTokenizers, mt.PathTokenizers
    if K == "coord":
        ps = PS.AOTP(coord_tokenizer=e)
    elif K == "adj":
        ps = PS.AOTP(adj_list_tokenizer=e)
    elif K == "target":
        ps = PS.AOTP(target_tokenizer=e)
    elif K == "path":
        ps = PS.AOTP(path_tokenizer=e)
    elif K == "grouping":
        ps = PS.AOTP(adj_list_tokenizer=AL.AdjListCoord(edge_grouping=e))
    elif K == "permuter":
        ps = PS.AOTP(adj_list_tokenizer=AL.AdjListCoord(edge_permuter=e))
    elif K == "subset":
        ps = PS.AOTP(adj_list_tokenizer=AL.AdjListCoord(edge_subset=e))
    elif K == "stepsize":
        ps = PS.AOTP(path_tokenizer=PT.StepSequence(step_size=e))
    elif K == "steptok":
        # a lone Distance is excluded by the TUPLE rule, not by the element: pair it with Coord
        st = (e,) if type(e).__name__ != "Distance" else (mt.StepTokenizers.Coord(), e)
        ps = PS.AOTP(path_tokenizer=PT.StepSequence(step_tokenizers=st))
    else:
        raise ValueError(K)
    return mt.MazeTokenizerModular(prompt_sequencer=ps)


# ------------------------------------------------------------------ (C) element families
def observe_families():
    """enum / raw / rawcount / untyped records + per family the enumerated instances"""
    from maze_dataset.tokenization.all_tokenizers import MAZE_TOKENIZER_MODULAR_DEFAULT_VALIDATION_FUNCS as VF
    from maze_dataset.utils import all_instances

    recs, insts = [], {}
    late = []  # (the second enum record of a family goes to the end of the batch: the two large ones then fall into different oracle shards)
    elem_hash = {}
    for K, base in _bases().items():
        res, xs = _run(lambda: list(all_instances(base, VF)))
        xs = xs or []
        insts[K] = xs
        cfgs = [dump(e) for e in xs]
        ok = all(typed(c) for c in cfgs)
        recs.append(dict(kind="enum", K=K, via="positional frozendict", vf_intact=True, res=res, typed=ok, names=[_s(lambda: e.name) for e in xs], cfgs=cfgs if ok else [], hashes=[_h(lambda: hash(e)) for e in xs]))
        elem_hash[K] = {ckey(c): _h(lambda: hash(e)) for c, e in zip(cfgs, xs)} if ok else {}
        inenum = {ckey(c) for c in cfgs} if ok else set()
        # audit 2, classes G / E / A: the SAME validity rules in another representation -- the caller's OWN mutable dict, given by
        # keyword (the wrapper has one code path per calling convention) -- enumerated a second time in this process; the dict
        # is emptied by its owner before anything is read from the yielded instances and must not have been modified by the call
        own = dict(VF)
        snap = list(own.items())
        res3, ys = _run(lambda: list(all_instances(base, validation_funcs=own)))
        intact = len(own) == len(snap) and all(k is k0 and v is v0 for (k, v), (k0, v0) in zip(own.items(), snap))
        own.clear()
        ys = ys or []
        cfgs3 = [dump(e) for e in ys]
        ok3 = all(typed(c) for c in cfgs3)
        late.append(dict(kind="enum", K=K, via="keyword dict (2nd enumeration in the process)", vf_intact=intact, res=res3, typed=ok3, names=[_s(lambda: e.name) for e in ys], cfgs=cfgs3 if ok3 else [], hashes=[_h(lambda: hash(e)) for e in ys]))
        res2, raw = _run(lambda: list(all_instances(base, None)))
        raw = raw or []
        recs.append(dict(kind="rawcount", K=K, via="None", n=len(raw), res=res2))
        # class C: an EMPTY mapping of validation functions is not "no argument given": it filters nothing (Layer M like the
        # size of the unvalidated space itself)
        for via, call in (("{} positional", lambda: all_instances(base, {})), ("{} keyword", lambda: all_instances(base, validation_funcs={}))):
            res4, zs = _run(lambda: sum(1 for _ in call()))
            recs.append(dict(kind="rawcount", K=K, via=via, n=zs if res4 == "ok" else -1, res=res4))
        for e in raw:
            c = dump(e)
            if not typed(c):
                recs.append(dict(kind="untyped", K=K, repr=repr(c)[:300]))
                continue
            recs.append(dict(kind="raw", K=K, cfg=c, name=_s(lambda: e.name), valid=_tf(lambda: wrap(K, e).is_valid()), in_enum=ckey(c) in inenum))
    return recs + late, insts, elem_hash


def _nontrivial_raw(r):
    """a point of the parameter space that a validity rule excludes, or a nested / tuple-valued configuration"""
    return r["kind"] == "raw" and (r["valid"] != "T" or r["K"] in ("adj", "path"))


# ------------------------------------------------------------------ (C) save / load
def _wreck(x):
    """overwrite a serialized structure IN PLACE (every dict and list inside it): whatever still shares memory with it changes"""
    if isinstance(x, dict):
        for v in list(x.values()):
            _wreck(v)
        x.clear()
        x["__format__"] = "wrecked"
    elif isinstance(x, list):
        for v in x:
            _wreck(v)
        x[:] = ["wrecked"]
    return x


def observe_io(args):
    """tok cfg -> io records (serialize, json[, zanj])"""
    c, with_zanj, tag = args
    mt = _mt()
    MTM = mt.MazeTokenizerModular
    res0, t = _run(lambda: build(c))
    if res0 != "ok":
        return [dict(kind="io", via="build", cfg=c, name="", hash="", res=res0, eq=False, name2="", hash2="", typed2=False, cfg2=[], tag=tag, arg_intact=True)]
    name, h = _s(lambda: t.name), _h(lambda: hash(t))
    out = []

    intact = [True]

    def one(via, fn):
        intact[0] = True
        res, u = _run(fn)
        if res != "ok" or u is None:
            out.append(dict(kind="io", via=via, cfg=c, name=name, hash=h, res=res if res != "ok" else "raise:ReturnedNone", eq=False, name2="", hash2="", typed2=False, cfg2=[], tag=tag, arg_intact=intact[0]))
            return
        c2 = dump(u)
        t2 = isinstance(c2, dict) and typed(c2)
        out.append(dict(kind="io", via=via, cfg=c, name=name, hash=h, res="ok", eq=_tf(lambda: u == t) == "T", name2=_s(lambda: u.name), hash2=_h(lambda: hash(u)), typed2=t2, cfg2=c2 if t2 else [], tag=tag, arg_intact=intact[0]))

    def reload():
        """audit 2, classes E / F / A: the saved data is the CALLER'S object.  An earlier save is overwritten by its owner (must not
        leak into the next save), the SAME saved dict is loaded twice (a load that consumes its argument breaks the second one),
        the dict must come back unmodified (deep snapshot; Layer M), and it is overwritten in place BEFORE anything is read from
        the second loaded tokenizer (which therefore must not share memory with it)"""
        _wreck(t.serialize())
        d = t.serialize()
        snap = copy.deepcopy(d)
        MTM.load(d)
        intact[0] = _tf(lambda: d == snap) == "T"
        u = MTM.load(d)
        _wreck(d)
        return u

    one("serialize", lambda: MTM.load(t.serialize()))
    # (audit 2, class G: the JSON text is written with SORTED keys -- another representation of the same saved value; the
    # insertion-ordered dict is the "serialize" case above)
    one("json", lambda: MTM.load(json.loads(json.dumps(t.serialize(), sort_keys=True))))
    one("reload", reload)
    if with_zanj:
        from zanj import ZANJ

        d = tempfile.mkdtemp(prefix="c15z_", dir=str(lib.WORK))
        try:
            p = os.path.join(d, "tok.zanj")

            def z():
                zz = ZANJ()
                zz.save(t, p)
                return ZANJ().read(p)

            one("zanj", z)
        finally:
            shutil.rmtree(d, ignore_errors=True)
    return out


# ------------------------------------------------------------------ (C) complete tokenizers
def observe_tok(args):
    c, enumerated = args
    res0, t = _run(lambda: build(c))
    if res0 != "ok":
        return dict(kind="tok", enumerated=enumerated, cfg=c, name="<" + res0 + ">", hash="", b64="", valid=res0, legacy=res0, twin_eq=False, twin_name="", twin_hash="", procs=[])
    res1, u = _run(lambda: build(json.loads(json.dumps(c))))
    return dict(
        kind="tok", enumerated=enumerated, cfg=c, name=_s(lambda: t.name), hash=_h(lambda: hash(t)), b64=_s(lambda: t.hash_b64()),
        valid=_tf(lambda: t.is_valid()), legacy=_tf(lambda: t.is_legacy_equivalent()),
        twin_eq=res1 == "ok" and u is not t and _tf(lambda: u == t) == "T", twin_name=_s(lambda: u.name), twin_hash=_h(lambda: hash(u)), procs=[],
    )


def _worker_build():
    """subprocess (own PYTHONHASHSEED): stdin = json list of cfgs, stdout = json list of {res,name,hash,b64,ehash}"""
    import warnings

    warnings.filterwarnings("ignore")
    cfgs = json.load(sys.stdin)
    out = []
    for c in cfgs:
        res, t = _run(lambda: build(c))
        if res != "ok":
            out.append(dict(res=res, name="", hash="", b64=""))
            continue
        if c.get("cls") == "MazeTokenizerModular":
            out.append(dict(res="ok", name=_s(lambda: t.name), hash=_h(lambda: hash(t)), b64=_s(lambda: t.hash_b64())))
        else:  # a single element (Layer M bookkeeping only)
            out.append(dict(res="ok", name=_s(lambda: t.name), hash=_h(lambda: hash(t)), b64=""))
    sys.stdout.write("\n@@C15@@" + json.dumps(out))


def run_in_processes(cfgs, seeds=("0", "1", "random")):
    """build the same configurations in fresh interpreters with different PYTHONHASHSEED; -> {seed: [obs...]}"""
    procs = []
    for s in seeds:
        env = dict(os.environ)
        env["PYTHONHASHSEED"] = s
        p = subprocess.Popen([sys.executable, "-W", "ignore", "-c", "from harness.checks import c15; c15._worker_build()"], cwd=str(lib.VERIF), env=env, stdin=subprocess.PIPE, stdout=subprocess.PIPE, stderr=subprocess.PIPE, text=True)
        procs.append((s, p))
    data = json.dumps(cfgs)
    outs = {}
    import concurrent.futures as cf

    with cf.ThreadPoolExecutor(len(procs)) as ex:
        futs = {s: ex.submit(p.communicate, data, 1800) for s, p in procs}
        for s, p in procs:
            try:
                so, se = futs[s].result()
            except Exception as e:  # noqa: BLE001
                p.kill()
                so, se = "", repr(e)
            if "@@C15@@" in so:
                outs[s] = json.loads(so.split("@@C15@@", 1)[1])
            else:  # the interpreter died (import error of a broken library, ...): an outcome, judged per record
                outs[s] = [dict(res="raise:ProcessFailed", name="", hash="", b64="")] * len(cfgs)
                print(f"  [c15] worker PYTHONHASHSEED={s} failed: {se[-300:]}")
    return outs


# ------------------------------------------------------------------ (C) the whole enumerated space
_ALL = None


def _scan_range(args):
    i0, i1, deep, hstride = args
    names, hs = [], []
    n_raise = n_invalid = 0
    legacy, first_err = [], ""
    for k in range(i0, i1):
        t = _ALL[k]
        try:
            n = t.name
            if not isinstance(n, str):
                raise TypeError("name is not a string")
            h = hash(t) if k % hstride == 0 else None
            inv = deep and t.is_valid() is not True
            leg = deep and bool(t.is_legacy_equivalent())
            names.append(n.replace("\n", " "))
            if h is not None:
                hs.append(h)
            n_invalid += inv
            if leg:
                legacy.append(k)
        except BaseException as e:  # noqa: BLE001
            if isinstance(e, (KeyboardInterrupt, SystemExit)):
                raise
            n_raise += 1
            first_err = first_err or type(e).__name__
            names.append(f"<raise:{type(e).__name__}:{k}>")
    return "\n".join(names).encode(), np.array(hs, dtype=np.int64), n_raise, n_invalid, legacy, first_err


def enumerate_all():
    """get_all_tokenizers() under an address-space cap (a missing validity rule makes the product explode)"""
    global _ALL
    from maze_dataset.tokenization.all_tokenizers import get_all_tokenizers

    soft, hard = resource.getrlimit(resource.RLIMIT_AS)
    try:
        vm_now = int(open("/proc/self/statm").read().split()[0]) * os.sysconf("SC_PAGE_SIZE")
    except Exception:  # noqa: BLE001
        vm_now = 4 * 2**30
    cap = vm_now + ENUM_MEM_HEADROOM
    cap = cap if hard == resource.RLIM_INFINITY else min(cap, hard)
    resource.setrlimit(resource.RLIMIT_AS, (cap, hard))
    try:
        res, xs = _run(get_all_tokenizers)
    finally:
        resource.setrlimit(resource.RLIMIT_AS, (soft, hard))
    if res == "ok" and not isinstance(xs, (list, tuple)):
        res, xs = "raise:NotAList", None
    if res != "ok":
        _run(get_all_tokenizers.cache_clear)
    _ALL = xs if res == "ok" else None
    return res


def scan_all(deep, hstride=1):
    """names (/ is_valid / is_legacy_equivalent) of every member, hash() of every hstride-th, 16 forked readers of the cached list"""
    n = len(_ALL)
    step = 50_000
    jobs = [(i, min(n, i + step), deep, hstride) for i in range(0, n, step)]
    parts = lib.pmap(_scan_range, jobs)
    names = []
    for p in parts:  # every chunk holds >= 1 member (n > 0 is checked by the caller)
        names.extend(p[0].decode().split("\n"))
    hashes = np.concatenate([p[1] for p in parts]) if parts else np.zeros(0, dtype=np.int64)
    n_raise = sum(p[2] for p in parts)
    n_invalid = sum(p[3] for p in parts)
    legacy = [k for p in parts for k in p[4]]
    err = next((p[5] for p in parts if p[5]), "")
    return names, hashes, n_raise, n_invalid, legacy, err


def spec_product(emit):
    """the spec's product name set, composed ONLY from what TLC emitted (element name sets + top-level format)"""
    fam = {d["K"]: d["names"] for d in emit if d["K"] != "fmt"}
    fmt = next(d for d in emit if d["K"] == "fmt")
    head, op, sep, cl = fmt["pieces"]
    for s in fmt["seqs"]:
        pre = head + s["cls"] + op
        for combo in itertools.product(*[fam[k] for k in s["parts"]]):
            yield pre + sep.join(combo) + cl


def _worker_scan():
    """subprocess (own PYTHONHASHSEED): enumerate everything, write hashes + a digest of the name sequence"""
    import warnings

    warnings.filterwarnings("ignore")
    out = sys.argv[-1]
    res = enumerate_all()
    info = dict(res=res, n=0, name_digest="", n_raise=0)
    if res == "ok" and len(_ALL) > 0:
        names, hashes, n_raise, _, _, _ = scan_all(False, 1)
        hd = hashlib.sha256()
        for nm in names:
            hd.update(nm.encode())
            hd.update(b"\n")
        np.save(out + ".npy", hashes)
        info.update(n=len(names), name_digest=hd.hexdigest(), n_raise=n_raise)
    json.dump(info, open(out + ".json", "w"))


def observe_space(chk, emit, deep, seeds, hstride=1, fam_sizes=None):
    """-> (space record, sample helper data)"""
    t0 = time.time()
    f = fam_sizes or {}
    expect = f.get("coord", 1) * f.get("adj", 1) * f.get("path", 1) * (f.get("target", 1) + 1)
    res = enumerate_all() if expect <= PRODUCT_GUARD else "skipped"
    t_enum = time.time() - t0
    rec = dict(kind="space", scope="full", res=res, n_items=0, n_distinct_names=0, n_hashed=0, n_distinct_hashes=0, n_spec=0, n_missing=-1, n_extra=-1, n_invalid=-1, n_unstable=-1, first_error="")
    if res != "ok":
        chk.notes["enumeration"] = dict(res=res, wall_s=round(t_enum, 1), product_of_family_enumerations=expect)
        return rec, None
    n = len(_ALL)
    rec["n_items"] = n
    if n == 0:
        return rec, None
    # the other interpreters enumerate + hash concurrently with our own scan
    others = []
    tmp = tempfile.mkdtemp(prefix="c15s_", dir=str(lib.WORK))
    for s in seeds:
        env = dict(os.environ)
        env["PYTHONHASHSEED"] = s
        outp = os.path.join(tmp, f"seed_{s}")
        p = subprocess.Popen([sys.executable, "-W", "ignore", "-c", "from harness.checks import c15; c15._worker_scan()", outp], cwd=str(lib.VERIF), env=env, stdout=subprocess.PIPE, stderr=subprocess.PIPE, text=True)
        others.append((s, p, outp))
    t1 = time.time()
    names, hashes, n_raise, n_invalid, legacy, err = scan_all(deep, hstride)
    rec["n_hashed"] = int(hashes.shape[0])
    t_scan = time.time() - t1
    if n_raise:
        rec["res"] = "raise:" + err
        rec["first_error"] = err
    t2 = time.time()
    real = set(names)
    rec["n_distinct_names"] = len(real)
    rec["n_distinct_hashes"] = int(np.unique(hashes).shape[0])
    n_spec = hit = 0
    for s in spec_product(emit):
        n_spec += 1
        hit += s in real
    rec["n_spec"] = n_spec
    rec["n_missing"] = n_spec - hit
    rec["n_extra"] = len(real) - hit
    if rec["n_extra"] < 0:
        raise lib.MachineryError("spec product composed with duplicates (n_hit > distinct real names)")
    t_cmp = time.time() - t2
    if deep:
        rec["n_invalid"] = n_invalid
    # cross-process hashes
    hd = hashlib.sha256()
    if others:
        for nm in names:
            hd.update(nm.encode())
            hd.update(b"\n")
    own_digest = hd.hexdigest()
    unstable = 0 if others else -1
    procinfo = []
    for s, p, outp in others:
        try:
            so, se = p.communicate(timeout=3600)
        except subprocess.TimeoutExpired:
            p.kill()
            so, se = "", "timeout"
        if not os.path.exists(outp + ".json"):
            procinfo.append(dict(seed=s, res="raise:ProcessFailed", err=se[-300:]))
            unstable += 1
            continue
        info = json.load(open(outp + ".json"))
        procinfo.append(dict(seed=s, **info))
        if info["res"] != "ok" or info["n"] != n:
            unstable += 1
            continue
        oh = np.load(outp + ".npy")
        if info["name_digest"] == own_digest:
            unstable += int(np.sum(oh != hashes))  # same name sequence: compare member by member
        else:  # order / names differ between processes: equal tokenizers cannot be matched by position -> compare the hash sets
            unstable += int(np.setxor1d(oh, hashes).shape[0]) + 1
    shutil.rmtree(tmp, ignore_errors=True)
    rec["n_unstable"] = unstable
    chk.notes["enumeration"] = dict(res=res, n=n, wall_enum_s=round(t_enum, 1), wall_scan_s=round(t_scan, 1), wall_compare_s=round(t_cmp, 1), deep=deep, other_processes=procinfo)
    chk.notes["hash_examples"] = [dict(name=names[i * hstride], hash=str(int(hashes[i]))) for i in (0, len(hashes) // 2, len(hashes) - 1)]
    return rec, dict(n=n, legacy=legacy)


# ------------------------------------------------------------------ (C) HISTORY 2: identity after USE
_MAZES = None
_INSTS = None  # family -> enumerated instances (set before forking the observers)


def _mazes():
    """one plain, one targeted and one solved 3x3 maze (a comb-shaped spanning tree: the solution has forks and turns)"""
    global _MAZES
    if _MAZES is None:
        from harness import mz

        conn = mz.conn_from_int(3, 3, 255)  # all six vertical edges + the two horizontal edges of row 0
        plain = mz.LatticeMaze(connection_list=conn)
        targ = mz.TargetedLatticeMaze(connection_list=conn, start_pos=np.array([2, 0]), end_pos=np.array([2, 2]))
        solved = mz.SolvedMaze.from_targeted_lattice_maze(targ)
        # audit 2, classes H / D: the shortest case on a degenerate oblong grid -- a 2x5 maze with NO connection at all whose
        # solution has length 1 (start == end, in the last column: col index > number of rows) -- with every option family
        bare = np.zeros((2, 2, 5), dtype=bool)
        one = mz.SolvedMaze(connection_list=bare, solution=np.array([[1, 4]]))
        _MAZES = [("solved.to_tokens", solved, 0), ("solved.as_tokens", solved, 1), ("targeted.to_tokens", targ, 0), ("targeted.as_tokens", targ, 1), ("plain.to_tokens", plain, 0), ("plain.as_tokens", plain, 1),
                  ("len1_2x5_unconnected.to_tokens", one, 0), ("len1_2x5_unconnected.as_tokens", one, 1)]
    return _MAZES


def _queries():
    """audit 2, class F: uses that COLLECT derived state without tokenizing anything (the cached element list, validity, legacy
    equivalence, summaries, the element tree, membership queries, printing, saving)"""
    mt = _mt()
    return [
        ("is_valid", lambda t: t.is_valid()), ("is_legacy_equivalent", lambda t: t.is_legacy_equivalent()), ("summary", lambda t: t.summary()),
        ("tokenizer_elements", lambda t: list(t.tokenizer_elements)), ("tokenizer_element_tree", lambda t: t.tokenizer_element_tree()),
        ("tokenizer_element_tree(abstract)", lambda t: t.tokenizer_element_tree(abstract=True)), ("tokenizer_element_dict", lambda t: t.tokenizer_element_dict()),
        ("has_element(UT)", lambda t: t.has_element(mt.CoordTokenizers.UT)), ("has_element(Coord())", lambda t: t.has_element(mt.StepTokenizers.Coord())),
        ("is_AOTP", lambda t: t.is_AOTP()), ("is_UT", lambda t: t.is_UT()), ("str", str), ("repr", repr), ("serialize+overwrite", lambda t: _wreck(t.serialize())),
    ]


def observe_use(args):
    """name / hash of a tokenizer BEFORE it is used, AFTER it has tokenized mazes, of an equal twin built after
    the use and of the used tokenizer saved and loaded.  src = ("cfg", cfg) (built with explicit arguments) or
    ("family", K, j) (enumerated element j of family K put into the DEFAULT tokenizer: the other components are
    the library's shared default instances)"""
    src = args
    if src[0] == "cfg":
        c = src[1]
        res0, t = _run(lambda: build(c))
        label = "sample"
    else:
        _, K, j = src
        res0, t = _run(lambda: wrap(K, _INSTS[K][j]))
        c = dump(t) if res0 == "ok" else {}
        label = "family:" + K
        if not (isinstance(c, dict) and typed(c)):
            return dict(kind="untyped", K="use:" + label, repr=repr(c)[:300])
    rec = dict(kind="use", src=label, cfg=c, res=res0, name="", hash="", b64="", uses=[], n_used_ok=0, name_used="", hash_used="", b64_used="",
               twin_eq=False, twin_name="", twin_hash="", load_res="", load_eq=False, load_name="")
    if res0 != "ok":
        return rec
    mt = _mt()
    rec.update(name=_s(lambda: t.name), hash=_h(lambda: hash(t)), b64=_s(lambda: t.hash_b64()))
    for what, maze, via in _mazes():
        r, toks = _run((lambda: maze.as_tokens(t)) if via else (lambda: t.to_tokens(maze)))
        rec["uses"].append(what + ":" + r)
        rec["n_used_ok"] += r == "ok" and isinstance(toks, list) and len(toks) > 0
    for what, q in _queries():
        r, _ = _run(lambda: q(t))
        rec["uses"].append(what + ":" + r)
    rec.update(name_used=_s(lambda: t.name), hash_used=_h(lambda: hash(t)), b64_used=_s(lambda: t.hash_b64()))
    r1, u = _run(lambda: build(json.loads(json.dumps(c))))  # a fresh equal tokenizer, built AFTER the use
    rec.update(twin_eq=r1 == "ok" and u is not t and _tf(lambda: u == t) == "T", twin_name=_s(lambda: u.name), twin_hash=_h(lambda: hash(u)))
    r2, v = _run(lambda: mt.MazeTokenizerModular.load(json.loads(json.dumps(t.serialize()))))
    rec.update(load_res=r2 if (r2 != "ok" or v is not None) else "raise:ReturnedNone", load_eq=r2 == "ok" and _tf(lambda: v == t) == "T", load_name=_s(lambda: v.name) if r2 == "ok" else "")
    return rec


# ------------------------------------------------------------------ (C) HISTORY 1: the enumeration after its consumers ran
def _worker_history():
    """subprocess: get_all_tokenizers() observed BEFORE and AFTER every public helper of all_tokenizers.py that
    consumes it has been called IN THIS PROCESS (count, membership of the from_legacy images, the members
    themselves; if the list is no longer the same sequence of objects its name set is compared with the spec
    product again).  argv: <emit.ndjson> <out.json> <tier>"""
    import warnings

    warnings.filterwarnings("ignore")
    try:  # this single thread is the critical path of the quick tier: ask the scheduler to prefer it (no effect without the privilege)
        os.nice(-10)
    except Exception:  # noqa: BLE001
        pass
    emit_path, out, tier = sys.argv[-3:]
    rec = dict(kind="history", res="ok", calls=[], before_n=0, after_n=0, images=[], before_images=[], after_images=[], same_members=False,
               after_missing=-1, after_extra=-1, after_distinct=-1, first_change="", wall_s=0)
    t0 = time.time()

    def finish():
        rec["wall_s"] = round(time.time() - t0, 1)
        json.dump(rec, open(out, "w"))

    r, _ = _run(lambda: (_mt(), _classes()))
    if r != "ok":
        rec["res"] = r
        return finish()
    import maze_dataset.tokenization.all_tokenizers as at

    mt = _mt()
    imgs = []
    for m in mt.TokenizationMode:
        r, t = _run(lambda: mt.MazeTokenizerModular.from_legacy(m))
        c = dump(t) if r == "ok" else None
        if isinstance(c, dict) and typed(c) and ckey(c) not in [ckey(x[1]) for x in imgs]:
            imgs.append((t, c))
    rec["images"] = [c for _, c in imgs]
    res = enumerate_all()
    if res != "ok" or not _ALL:
        rec["res"] = res if res != "ok" else "raise:EmptyEnumeration"
        return finish()
    before = list(_ALL)  # the members themselves (a shallow copy of the list)
    rec["before_n"] = len(before)

    def member(lst, t):
        r, v = _run(lambda: t in lst)
        return r == "ok" and bool(v)

    rec["before_images"] = [member(before, t) for t, _ in imgs]

    def same(now):
        return isinstance(now, list) and len(now) == len(before) and all(a is b for a, b in zip(now, before))

    tmp = tempfile.mkdtemp(prefix="c15h_", dir=str(lib.WORK))
    calls = [
        ("sample_all_tokenizers(3)", lambda: at.sample_all_tokenizers(3)),
        ("sample_all_tokenizers(0)", lambda: at.sample_all_tokenizers(0)),  # audit 2, class C: the empty selection
        ("sample_tokenizers_for_test(None)", lambda: at.sample_tokenizers_for_test(None)),
        ("sample_tokenizers_for_test(10)", lambda: at.sample_tokenizers_for_test(10)),
        ("sample_tokenizers_for_test(2)", lambda: at.sample_tokenizers_for_test(2)),  # = len(EVERY_TEST_TOKENIZERS): an empty random part
        ("sample_tokenizers_for_test(0)", lambda: at.sample_tokenizers_for_test(0)),  # class C: 0 is not None (documented: ValueError; only its effect on the enumeration is judged)
        ("all_tokenizers_set()", lambda: at.all_tokenizers_set()),
    ]
    if tier == "thorough":  # writes only below /verif/.work
        calls.append(("save_hashes(path=<scratch>)", lambda: at.save_hashes(path=os.path.join(tmp, "hashes.npz"), verbose=False, parallelize=False)))
    now = before
    try:
        for name, fn in calls:
            tc = time.time()
            r, v = _run(fn)
            r2, now = _run(at.get_all_tokenizers)
            ok = r2 == "ok" and same(now)
            rec["calls"].append(dict(call=name, res=r, returned=(len(v) if hasattr(v, "__len__") else -1) if r == "ok" else -1, enumeration_same_after=ok, wall_s=round(time.time() - tc, 1)))
            if not ok and not rec["first_change"]:
                rec["first_change"] = name
    finally:
        shutil.rmtree(tmp, ignore_errors=True)
    if not isinstance(now, list):
        rec["res"] = "raise:EnumerationNotAList"
        return finish()
    rec["after_n"] = len(now)
    rec["same_members"] = same(now)
    if rec["same_members"]:
        rec["after_images"] = list(rec["before_images"])
    else:
        rec["after_images"] = [member(now, t) for t, _ in imgs]
        globals()["_ALL"] = now
        if len(now) > 0:
            names, _, n_raise, _, _, err = scan_all(False, 10**9)
            real = set(names)
            emit = [json.loads(x) for x in open(emit_path) if x.strip()]
            hit = sum(1 for s_ in spec_product(emit) if s_ in real)
            fam = {d["K"]: len(d["names"]) for d in emit if d["K"] != "fmt"}
            n_spec = fam["coord"] * fam["adj"] * fam["path"] * (fam["target"] + 1)
            rec.update(after_distinct=len(real), after_missing=n_spec - hit, after_extra=len(real) - hit)
            if n_raise:
                rec["res"] = "raise:" + err
        else:
            rec.update(after_distinct=0, after_missing=PRED_FULL, after_extra=0)
    finish()


def start_history(hdir, emit_path, tier):
    out = os.path.join(hdir, "history.json")
    p = subprocess.Popen([sys.executable, "-W", "ignore", "-c", "from harness.checks import c15; c15._worker_history()", emit_path, out, tier],
                         cwd=str(lib.VERIF), env=dict(os.environ), stdout=subprocess.DEVNULL, stderr=subprocess.PIPE, text=True)
    return p, out


def collect_history(h):
    p, out = h
    try:
        _, se = p.communicate(timeout=3600)
    except subprocess.TimeoutExpired:
        p.kill()
        se = "timeout"
    if True:
        if os.path.exists(out):
            return json.load(open(out))
        print(f"  [c15] history worker failed: {(se or '')[-400:]}")
        return dict(kind="history", res="raise:ProcessFailed", calls=[], before_n=0, after_n=0, images=[], before_images=[], after_images=[], same_members=False, after_missing=-1, after_extra=-1, after_distinct=-1, first_change="", wall_s=0)


# ------------------------------------------------------------------ (C) legacy
def observe_legacy():
    mt = _mt()
    MTM = mt.MazeTokenizerModular
    recs, images = [], []
    for m in mt.TokenizationMode:
        # (audit 2, class C: the legacy tokenizer object also with its falsy-but-meaningful grid size None = "no limit")
        for via, arg in (("mode", lambda: m), ("MazeTokenizer", lambda: mt.MazeTokenizer(tokenization_mode=m, max_grid_size=7)),
                         ("MazeTokenizer(max_grid_size=None)", lambda: mt.MazeTokenizer(tokenization_mode=m, max_grid_size=None))):
            res, t = _run(lambda: MTM.from_legacy(arg()))
            c = dump(t) if res == "ok" else []
            ok = res == "ok" and isinstance(c, dict) and typed(c)
            if res == "ok" and not ok:
                recs.append(dict(kind="untyped", K="legacy:" + m.name, repr=repr(c)[:300]))
                continue
            recs.append(dict(kind="legacy", via=via, mode=m.name, res=res, cfg=c, name=_s(lambda: t.name) if ok else "", self_reports=_tf(lambda: t.is_legacy_equivalent()) if ok else "F"))
            if ok and via == "mode":
                images.append(c)
    return recs, images


def legacy_neighbours(images, insts):
    """every tokenizer that differs from a legacy image in exactly one top-level component, + the AOP variants"""
    field = {"coord": "coord_tokenizer", "adj": "adj_list_tokenizer", "target": "target_tokenizer", "path": "path_tokenizer"}
    out = {}
    for im in images:
        out[ckey(im)] = im
        ps = im["prompt_sequencer"]
        for K, f in field.items():
            if f not in ps:
                continue
            for e in insts.get(K, []):
                c = json.loads(json.dumps(im))
                c["prompt_sequencer"][f] = dump(e)
                out[ckey(c)] = c
                if "target_tokenizer" in c["prompt_sequencer"]:
                    a = json.loads(json.dumps(c))
                    a["prompt_sequencer"]["cls"] = "AOP"
                    del a["prompt_sequencer"]["target_tokenizer"]
                    out[ckey(a)] = a
    return [c for c in out.values() if typed(c)]


def _legacy_flag(c):
    res, t = _run(lambda: build(c))
    return _tf(lambda: t.is_legacy_equivalent()) if res == "ok" else res


# ------------------------------------------------------------------ canaries: synthetic, hand-made records
_C_ADJ = {"cls": "AdjListCoord", "pre": False, "post": True, "shuffle_d0": True, "edge_grouping": {"cls": "Ungrouped", "connection_token_ordinal": 1},
          "edge_subset": {"cls": "ConnectionEdges", "walls": False}, "edge_permuter": {"cls": "RandomCoords"}}
_C_PATH = {"cls": "StepSequence", "step_size": {"cls": "Singles"}, "step_tokenizers": [{"cls": "Coord"}], "pre": False, "intra": False, "post": False}
_C_TOK = {"cls": "MazeTokenizerModular", "prompt_sequencer": {"cls": "AOTP", "coord_tokenizer": {"cls": "UT"}, "adj_list_tokenizer": _C_ADJ,
                                                               "target_tokenizer": {"cls": "Unlabeled", "post": False}, "path_tokenizer": _C_PATH}}
_C_NAME = ("MazeTokenizerModular-AOTP(UT(), AdjListCoord(pre=F, post=T, shuffle_d0=T, Ungrouped(connection_token_ordinal=1), ConnectionEdges(walls=F), RandomCoords()), "
           "Unlabeled(post=F), StepSequence(Singles(), step_tokenizers=(Coord(), ), pre=F, intra=F, post=F))")


def _cp(x):
    return json.loads(json.dumps(x))


def canaries():
    tgt = [{"cls": "Unlabeled", "post": True}, {"cls": "Unlabeled", "post": False}]
    tn = ["Unlabeled(post=T)", "Unlabeled(post=F)"]
    good_enum = dict(kind="enum", K="target", via="canary", vf_intact=True, res="ok", typed=True, names=tn, cfgs=tgt, hashes=["11", "12"])
    adj_pre = _cp(_C_ADJ)
    adj_pre["pre"] = True
    tok2 = _cp(_C_TOK)
    tok2["prompt_sequencer"]["coord_tokenizer"] = {"cls": "CTT", "pre": True, "intra": True, "post": True}
    tok_aop_bad = _cp(_C_TOK)
    tok_aop_bad["prompt_sequencer"]["cls"] = "AOP"  # an AOP with a target tokenizer is outside the space
    good_tok = dict(kind="tok", enumerated=True, cfg=_C_TOK, name=_C_NAME, hash="123456789012345678", b64="abc", valid="T", legacy="T", twin_eq=True, twin_name=_C_NAME, twin_hash="123456789012345678",
                    procs=[dict(seed="0", res="ok", name=_C_NAME, hash="123456789012345678", b64="abc"), dict(seed="1", res="ok", name=_C_NAME, hash="123456789012345678", b64="abc")])
    good_io = dict(kind="io", via="json", cfg=_C_TOK, name=_C_NAME, hash="5", res="ok", eq=True, name2=_C_NAME, hash2="5", typed2=True, cfg2=_C_TOK, tag="canary", arg_intact=True)
    good_space = dict(kind="space", scope="full", res="ok", n_items=5878656, n_distinct_names=5878656, n_hashed=5878656, n_distinct_hashes=5878656, n_spec=5878656, n_missing=0, n_extra=0, n_invalid=0, n_unstable=0, first_error="")

    good_use = dict(kind="use", src="canary", cfg=_C_TOK, res="ok", name=_C_NAME, hash="77", b64="q", uses=["solved.to_tokens:ok"], n_used_ok=1, name_used=_C_NAME, hash_used="77", b64_used="q",
                    twin_eq=True, twin_name=_C_NAME, twin_hash="77", load_res="ok", load_eq=True, load_name=_C_NAME)
    dirty = _C_NAME.replace("pre=F, intra=F, post=F))", "pre=F, intra=F, post=F, _cache=T))")
    good_hist = dict(kind="history", res="ok", calls=[dict(call="sample_tokenizers_for_test(10)", res="ok", returned=10, enumeration_same_after=True, wall_s=1)], images=[_C_TOK, tok2],
                     before_n=5878656, before_images=[True, True], after_n=5878656, after_images=[True, True], same_members=True, after_missing=-1, after_extra=-1, after_distinct=-1, first_change="", wall_s=1)

    def mod(base, **kw):
        d = _cp(base)
        d.update(kw)
        return d

    unstable = _cp(good_tok)
    unstable["procs"][1]["hash"] = "99"
    unstable_name = _cp(good_tok)
    unstable_name["procs"][0]["name"] = _C_NAME + " "
    return [
        (mod(good_enum, names=["Unlabeled(post=T)", "Unlabeled(post=T)"], cfgs=[tgt[0], tgt[0]]), "duplicate_names"),
        (mod(good_enum, names=tn[:1], cfgs=tgt[:1], hashes=["11"]), "enum_missing_valid_config"),
        (mod(good_enum, names=tn + ["Unlabeled(post=X)"], cfgs=tgt + [tgt[0]], hashes=["1", "2", "3"]), "enum_extra_config"),
        (mod(good_enum, names=["Unlabeled(post=F)", "Unlabeled(post=T)"]), "name_differs_from_grammar"),
        (mod(good_enum, K="adj", names=["x"], cfgs=[adj_pre], hashes=["1"]), "enum_invalid_config"),
        (mod(good_enum, hashes=["7", "7"]), "M:element_hash_collision"),
        (dict(kind="raw", K="adj", cfg=adj_pre, name="AdjListCoord(pre=T, post=T, shuffle_d0=T, Ungrouped(connection_token_ordinal=1), ConnectionEdges(walls=F), RandomCoords())", valid="T", in_enum=False), "validity_rule_differs"),
        (dict(kind="raw", K="adj", cfg=adj_pre, name="AdjListCoord(pre=T, post=T, shuffle_d0=T, Ungrouped(connection_token_ordinal=1), ConnectionEdges(walls=F), RandomCoords())", valid="F", in_enum=True), "enum_invalid_config"),
        (dict(kind="raw", K="path", cfg=_C_PATH, name="StepSequence(Singles(), step_tokenizers=(Coord(), ), pre=F, intra=F, post=F)", valid="T", in_enum=False), "enum_missing_valid_config"),
        (dict(kind="raw", K="path", cfg=mod(_C_PATH, step_tokenizers=[{"cls": "Distance"}]), name="StepSequence(Singles(), step_tokenizers=(Distance(), ), pre=F, intra=F, post=F)", valid="T", in_enum=False), "validity_rule_differs"),
        (dict(kind="raw", K="path", cfg=mod(_C_PATH, step_tokenizers=[{"cls": "Coord"}, {"cls": "Cardinal"}]), name="StepSequence(Singles(), step_tokenizers=(Coord(), Cardinal()), pre=F, intra=F, post=F)", valid="T", in_enum=True), "name_differs_from_grammar"),
        (dict(kind="raw", K="coord", cfg={"cls": "CTT", "pre": True, "intra": True}, name="CTT(pre=T, intra=T)", valid="T", in_enum=True), "config_outside_parameter_space"),
        (mod(good_io, eq=False), "loaded_not_equal"),
        (mod(good_io, cfg2=tok2), "loaded_config_differs"),
        (mod(good_io, name2=_C_NAME[:-1]), "loaded_name_differs"),
        (mod(good_io, res="raise:KeyError"), "load_raises"),
        (mod(good_io, via="reload", res="raise:KeyError", arg_intact=False), "load_raises"),
        (mod(good_io, via="reload", arg_intact=False), "M:load_modifies_its_argument"),
        (mod(good_io, via="reload", name2=_C_NAME.replace("(Coord(), )", "(wrecked, )")), "loaded_name_differs"),
        (mod(good_enum, via="keyword dict", vf_intact=False), "M:validation_funcs_argument_modified"),
        (mod(good_enum, via="keyword dict", res="raise:TypeError", names=[], cfgs=[], hashes=[]), "enumeration_raises"),
        (mod(good_enum, via="keyword dict", names=[], cfgs=[], hashes=[]), "enum_missing_valid_config"),
        (dict(kind="rawcount", K="target", via="{} positional", n=0, res="ok"), "M:raw_parameter_space_differs"),
        (unstable, "hash_unstable_across_processes"),
        (unstable_name, "name_unstable_across_processes"),
        (mod(good_tok, name=_C_NAME.replace("AOTP", "AOP")), "name_differs_from_grammar"),
        (mod(good_tok, valid="F"), "validity_rule_differs"),
        (mod(good_tok, twin_hash="5"), "equal_tokenizers_differ"),
        (mod(good_tok, cfg=tok_aop_bad), "config_outside_parameter_space"),
        (dict(kind="distinct", scope="canary", names=["a", "b", "c"], hashes=["1", "2", "1"], b64s=["x", "y", "z"]), "hash_collision"),
        (dict(kind="distinct", scope="canary", names=["a", "b", "a"], hashes=["1", "2", "3"], b64s=["x", "y", "z"]), "duplicate_names"),
        (mod(good_space, n_items=5878655), "space_size_not_predicted"),
        (mod(good_space, n_distinct_hashes=5878655), "hash_collision"),
        (mod(good_space, n_distinct_names=5878600), "duplicate_names"),
        (mod(good_space, n_extra=1), "enum_extra_config"),
        (mod(good_space, n_missing=3), "enum_missing_valid_config"),
        (mod(good_space, n_invalid=1), "enum_invalid_config"),
        (mod(good_space, n_unstable=2), "hash_unstable_across_processes"),
        (mod(good_space, res="raise:MemoryError"), "enumeration_raises"),
        (mod(good_use, name_used=dirty), "name_changed_by_use"),
        (mod(good_use, hash_used="78"), "hash_changed_by_use"),
        (mod(good_use, b64_used="r"), "hash_changed_by_use"),
        (mod(good_use, name_used=dirty, hash_used="78", load_name=dirty), "equal_tokenizers_differ_after_use"),
        (mod(good_use, name_used=dirty, hash_used="78", twin_name=dirty, twin_hash="78"), "loaded_name_differs_after_use"),
        (mod(good_use, name=dirty, name_used=dirty, twin_name=dirty, load_name=dirty), "name_differs_from_grammar"),
        (mod(good_hist, after_n=5878654, after_images=[False, False], same_members=False, after_missing=2, after_extra=0, after_distinct=5878654), "enumeration_changed_by_use"),
        (mod(good_hist, after_n=5878654, same_members=False, after_missing=0, after_extra=0, after_distinct=5878654), "enumeration_changed_by_use"),
        (mod(good_hist, same_members=False, after_missing=1, after_extra=1, after_distinct=5878656), "enumeration_changed_by_use"),
        (mod(good_hist, after_images=[True, False]), "enumeration_changed_by_use"),
        (mod(good_hist, before_images=[False, True], after_images=[False, True]), "enum_missing_valid_config"),
        (mod(good_hist, before_n=5878654, after_n=5878654), "space_size_not_predicted"),
        (mod(good_hist, res="raise:ProcessFailed"), "enumeration_raises"),
        (dict(kind="legacy", via="mode", mode="AOTP_UT_uniform", res="ok", cfg=_C_TOK, name=_C_NAME, self_reports="F"), "legacy_image_not_self_reported"),
        (dict(kind="legacy", via="mode", mode="AOTP_CTT_indexed", res="ok", cfg=_C_TOK, name=_C_NAME, self_reports="T"), "M:legacy_image_differs_from_model"),
        (dict(kind="legacyset", scope="canary", full=False, images=[_C_TOK, tok2], claimed=[_C_TOK, tok2, mod(_C_TOK, prompt_sequencer=mod(_C_TOK["prompt_sequencer"], target_tokenizer={"cls": "Unlabeled", "post": True}))]), "non_image_reports_legacy_equivalent"),
        (dict(kind="legacyset", scope="canary", full=False, images=[_C_TOK, tok2], claimed=[_C_TOK]), "legacy_image_not_self_reported"),
    ]


# ------------------------------------------------------------------ sampling
def raw_product_sample(rng, n):
    """random points of the RAW product (classes marked unsupported, pre = True, duplicated step tokenizers included)"""
    from maze_dataset.utils import all_instances

    raw = {}
    for K, b in _bases().items():
        if K in ("coord", "adj", "target", "path"):
            res, xs = _run(lambda: [dump(e) for e in all_instances(b, None)])
            raw[K] = [c for c in (xs or []) if typed(c)]
    if not all(raw.values()):  # the unvalidated enumeration yields nothing for some family (judged by the rawcount records)
        return []
    out = []
    for _ in range(n):
        ps = {"cls": "AOTP" if rng.random() < 0.6 else "AOP"}
        ps["coord_tokenizer"] = raw["coord"][int(rng.integers(len(raw["coord"])))]
        ps["adj_list_tokenizer"] = raw["adj"][int(rng.integers(len(raw["adj"])))]
        if ps["cls"] == "AOTP":
            ps["target_tokenizer"] = raw["target"][int(rng.integers(len(raw["target"])))]
        ps["path_tokenizer"] = raw["path"][int(rng.integers(len(raw["path"])))]
        out.append({"cls": "MazeTokenizerModular", "prompt_sequencer": ps})
    return out


def _brief(r):
    """what is stored with a violation (large lists cut; the replay re-observes from kind / K / cfg)"""
    d = {}
    for k, v in r.items():
        if isinstance(v, list) and len(v) > 12 and k != "procs":
            d[k] = v[:12]
            d[k + "_len"] = len(v)
        else:
            d[k] = v
    return d


MAX_REPORTS_PER_CLAUSE = 12


def judge(chk, recs, cans, what):
    """lib.judge_with_canaries, except that at most MAX_REPORTS_PER_CLAUSE cases per clause are turned into
    VIOLATION lines / replay files (a broken name grammar fails tens of thousands of records at once);
    the full per-clause counts go to the evidence (notes.rejected_records_by_clause)"""
    for i, x in enumerate(recs):
        x["id"] = i
    allrecs = list(recs)
    cans = [(dict(c, id=lib.CANARY_BASE + k), cl) for k, (c, cl) in enumerate(cans)]
    for k, (c, _cl) in enumerate(cans):  # spread over the batch: every shard layout judges them like ordinary records
        allrecs.insert((len(allrecs) * (k + 1)) // (len(cans) + 1), c)
    res = lib.oracle("Trace_TokSpace", allrecs, tag="space", min_per_shard=400)
    for c, cl in cans:
        got = res.verdicts.pop(c["id"], [])
        if cl not in got:
            raise lib.MachineryError(f"canary not rejected by Trace_TokSpace: expected clause {cl!r}, got {got} (oracle does not bind this field): {json.dumps(c)[:300]}")
    chk.notes["canaries_rejected"] = chk.notes.get("canaries_rejected", 0) + len(cans)
    res.records -= len(cans)
    chk.add_oracle("Trace_TokSpace", res, what)
    per, kept = {}, {}
    for rid, clauses in sorted(res.verdicts.items()):
        keep = []
        for c in clauses:
            per[c] = per.get(c, 0) + 1
            if per[c] <= MAX_REPORTS_PER_CLAUSE:
                keep.append(c)
        if keep:
            kept[rid] = keep
    if per:
        chk.notes["rejected_records_by_clause"] = per
    res.verdicts = kept
    chk.judge({x["id"]: _brief(x) for x in recs if x["id"] in kept}, res, label="space")
    return res


# ------------------------------------------------------------------ main
def main(chk: lib.Check) -> int:
    thorough = chk.tier == "thorough"
    chk.rule = (
        "cases = (a) every point of each of the 9 element parameter spaces (raw: all classes x all field values; enum: the validated "
        "enumeration, taken twice per process: the library's frozendict of validity rules positionally / the caller's own dict by keyword), (b) the complete get_all_tokenizers() list as one 'space' case + a seeded sample of its members and of random points "
        "of the raw product as 'tok' cases (each built in 3 more processes), (c) save/load cases (per family exhaustive inside the default "
        "tokenizer + the sample; the saved dict also loaded twice and overwritten by the caller), (d) legacy mapping cases, (e) HISTORY cases: every (c)-tokenizer observed fresh, after tokenizing a solved / targeted / "
        "plain 3x3 maze and an unconnected 2x5 maze with a length-1 solution and after every non-tokenizing query, against a twin built afterwards and after save/load ('use'); the enumeration observed before and after all its public consumers "
        "ran in one process ('history'); non-trivial = a point a validity rule excludes or a nested/tuple-valued "
        "configuration (raw), a complete tokenizer whose configuration differs from every other case (tok/io)"
    )
    # ---- HISTORY 1 runs in its own interpreter, concurrently with everything below (the library's set-building helper alone
    #      hashes 5.9M tokenizers in one thread); it reads the TLC-emitted name sets only if the enumeration changed
    lib.WORK.mkdir(exist_ok=True)
    hdir = tempfile.mkdtemp(prefix="c15hh_", dir=str(lib.WORK))
    emit_path = os.path.join(hdir, "emit.ndjson")
    hist = start_history(hdir, emit_path, chk.tier)
    try:
        return _main(chk, thorough, hist, emit_path)
    finally:
        if hist[0].poll() is None:
            hist[0].kill()
        shutil.rmtree(hdir, ignore_errors=True)


def _main(chk, thorough, hist, emit_path):
    # ---- (A) design level
    r = lib.tlc_design("TokSpace", "TokSpace_small.cfg", env={"VERIF_EMIT": emit_path}, workers=1, tag="d")
    chk.add_model("TokSpace/small", r, "9 element families: cardinalities 9/3/3/3/216/2/2/4/1008 (raw 9/11/3/3/1584/2/4/4/10880), product 5 878 656, names injective + well nested, composition, legacy set")
    if r.distinct != len(FAMILIES):
        raise lib.MachineryError(f"TokSpace design run visited {r.distinct} families, expected {len(FAMILIES)}")
    rb = lib.tlc_expect_violation("TokSpace", "TokSpace_broken.cfg", "CardInv", workers=1, tag="b")
    chk.add_model("TokSpace/broken(pre admitted)", rb, "deliberately broken validity rule: TLC must report CardInv violated")
    emit = [json.loads(x) for x in open(emit_path) if x.strip()]
    sizes = {d["K"]: len(d["names"]) for d in emit if d["K"] != "fmt"}
    chk.notes["spec_emitted_name_sets"] = sizes
    if sizes != {"coord": 9, "adj": 216, "target": 2, "path": 1008}:
        raise lib.MachineryError(f"TLC emitted unexpected name sets {sizes}")

    # ---- the library (an import failure is an outcome)
    res, _ = _run(lambda: (_mt(), _bases(), _classes()))
    if res != "ok":
        collect_history(hist)
        chk.violation("library_import_raises", dict(kind="import", res=res), "import")
        return chk.finish("the tokenization modules could not be imported")

    chk.notes["library_path"] = os.path.dirname(_mt().__file__)
    rng = np.random.default_rng([chk.seed, 15])
    recs = []
    # ---- (C) element families: enum + raw, exhaustive
    fam_recs, insts, elem_hash = observe_families()
    recs += fam_recs
    chk.notes["family_sizes_real"] = {r["K"]: len(r["names"]) for r in fam_recs if r["kind"] == "enum" and r["via"].startswith("positional")}
    chk.notes["family_sizes_real_keyword_dict"] = {r["K"]: len(r["names"]) for r in fam_recs if r["kind"] == "enum" and not r["via"].startswith("positional")}
    chk.notes["raw_sizes_real"] = {r["K"]: r["n"] for r in fam_recs if r["kind"] == "rawcount" and r["via"] == "None"}

    # ---- (C) the whole space
    # quick: hash() of every 4th member (names of all); thorough: of all, in three processes
    space, info = observe_space(chk, emit, deep=thorough, seeds=("1", "random") if thorough else (), hstride=1 if thorough else 4, fam_sizes=chk.notes["family_sizes_real"])
    recs.append(space)
    print(f"  [c15] enumeration: {json.dumps({k: v for k, v in space.items() if k != 'kind'})}")

    # ---- (C) legacy images
    leg_recs, images = observe_legacy()
    recs += leg_recs

    # ---- sample of complete tokenizers
    n_enum = 20000 if thorough else 2500
    n_raw = 3000 if thorough else 500
    sample = {}
    if info:
        n = info["n"]
        idx = sorted(set([0, 1, n // 2, n - 2, n - 1] + rng.integers(0, n, size=n_enum).tolist()))
        for i in idx:
            c = dump(_ALL[i])
            if isinstance(c, dict) and typed(c):
                sample.setdefault(ckey(c), (c, True))
            else:
                recs.append(dict(kind="untyped", K="tok", repr=repr(c)[:300]))
    for c in images:
        sample.setdefault(ckey(c), (c, False))
    for c in raw_product_sample(rng, n_raw):
        sample.setdefault(ckey(c), (c, False))
    sample = list(sample.values())
    # legacy-equivalence over the scope
    if thorough and info:
        claimed = [dump(_ALL[k]) for k in info["legacy"]]
        recs.append(dict(kind="legacyset", scope="full", full=True, images=images, claimed=[c for c in claimed if typed(c)], n_scope=info["n"]))
    # free the 5.9M objects before forking observers
    _release()

    toks = lib.pmap(observe_tok, sample, chunksize=64)
    # the same configurations in three fresh interpreters
    procs = run_in_processes([t["cfg"] for t in toks])
    for k, t in enumerate(toks):
        t["procs"] = [dict(seed=s, **procs[s][k]) for s in procs]
    recs += toks
    # element hash() across processes: Layer M bookkeeping (not the statement)
    el_cfgs = [json.loads(k) for K in ("coord", "adj", "target", "path") for k in list(elem_hash.get(K, {}))[:40]]
    el_own = [h for K in ("coord", "adj", "target", "path") for h in list(elem_hash.get(K, {}).values())[:40]]
    if el_cfgs:
        ep = run_in_processes(el_cfgs, seeds=("1",))["1"]
        stable = all(o["res"] == "ok" and o["hash"] == h for o, h in zip(ep, el_own))
        chk.notes["element_hash_stable_across_processes"] = stable
        if not stable:
            chk.divergence("M:element_hash_process_dependent", dict(note="hash() of _TokenizerElement instances is the dataclass-generated field hash (it includes str hashes), not the name-based __hash__ the base class defines", example=el_cfgs[0]), "element")
    if not thorough:
        nb = legacy_neighbours(images, insts)
        flags = lib.pmap(_legacy_flag, nb, chunksize=128)
        claimed = [c for c, f in zip(nb, flags) if f != "F"] + [t["cfg"] for t in toks if t["legacy"] != "F"]
        claimed = list({ckey(c): c for c in claimed}.values())
        recs.append(dict(kind="legacyset", scope="one-component neighbours of the images + sample", full=False, images=images, claimed=claimed, n_scope=len(nb) + len(toks)))
        chk.notes["legacy_scope"] = len(nb) + len(toks)
    built = [t for t in toks if t["hash"] and not t["hash"].startswith("<")]  # (an object that cannot be built is judged in its own record)
    recs.append(dict(kind="distinct", scope="sample", names=[t["name"] for t in built], hashes=[t["hash"] for t in built], b64s=[t["b64"] for t in built]))

    # ---- (C) save / load
    io_jobs = []
    for K in FAMILIES:
        for j, e in enumerate(insts.get(K, [])):
            res, t = _run(lambda: wrap(K, e))
            c = dump(t) if res == "ok" else None
            if isinstance(c, dict) and typed(c):
                io_jobs.append((c, thorough or j % 3 == 0, "family:" + K))
    n_io = 6000 if thorough else 600
    for j, t in enumerate(toks[:n_io]):
        io_jobs.append((t["cfg"], j % (4 if thorough else 6) == 0, "sample"))
    io = [x for sub in lib.pmap(observe_io, io_jobs, chunksize=16) for x in sub]
    recs += io

    # ---- (C) HISTORY 2: identity before / after use (every enumerated element inside the default tokenizer + the sample)
    global _INSTS
    _INSTS = insts
    use_jobs = [("family", K, j) for K in FAMILIES for j in range(len(insts.get(K, [])))] + [("cfg", t["cfg"]) for t in toks]
    uses = lib.pmap(observe_use, use_jobs, chunksize=32)
    recs += uses
    chk.notes["use_history"] = dict(cases=len(uses), tokenizations_ok=sum(u.get("n_used_ok", 0) for u in uses), cases_with_a_successful_tokenization=sum(1 for u in uses if u.get("n_used_ok", 0) > 0))


    # ---- judge
    judge(chk, recs, canaries(), "element families (enum + raw), whole-space counts, sampled tokenizers x 4 processes, save/load, identity before/after use, legacy")

    # ---- (C) HISTORY 1: the enumeration before / after its consumers ran (own interpreter, started first; judged on its own
    #      because it finishes last)
    hrec = collect_history(hist)
    chk.notes["enumeration_history"] = {k: v for k, v in hrec.items() if k not in ("kind", "images")}
    print(f"  [c15] enumeration history: res={hrec['res']} before={hrec['before_n']} after={hrec['after_n']} same_members={hrec['same_members']} first_change={hrec['first_change']!r} wall={hrec['wall_s']}s")
    hrec["id"] = 0
    hres = lib.oracle("Trace_TokSpace", [hrec], tag="hist", shards=1)
    chk.add_oracle("Trace_TokSpace", hres, "the enumeration before / after sample_all_tokenizers, sample_tokenizers_for_test(None|10|2), all_tokenizers_set" + (", save_hashes" if thorough else "") + " ran in the same process")
    chk.judge({0: _brief(hrec)}, hres, label="space")
    recs.append(hrec)

    # ---- evidence
    seen = set()
    for r in recs:
        k = r["kind"]
        if k == "raw":
            chk.count([k, r["K"], r["cfg"]], _nontrivial_raw(r))
        elif k == "use":
            chk.count([k, r["src"], ckey(r["cfg"])], r["n_used_ok"] > 0)
        elif k == "history":
            chk.count([k], True)
        elif k in ("tok", "io"):
            key = [k, r.get("via", ""), ckey(r["cfg"])]
            chk.count(key, tuple(key) not in seen)
            seen.add(tuple(key))
        else:
            chk.count([k, r.get("K", r.get("scope", r.get("mode", ""))), r.get("via", "")], k in ("enum", "space", "legacyset", "legacy"))
    kinds = {}
    for r in recs:
        kinds[r["kind"]] = kinds.get(r["kind"], 0) + 1
    chk.notes["records_by_kind"] = kinds
    chk.notes["space_counts"] = {k: v for k, v in space.items() if k != "kind"}
    chk.notes["io_by_via"] = {v: sum(1 for r in io if r["via"] == v) for v in sorted({r["via"] for r in io})}
    chk.notes["sample"] = dict(enumerated=sum(1 for t in toks if t["enumerated"]), raw_product=sum(1 for t in toks if not t["enumerated"]), invalid_in_sample=sum(1 for t in toks if t["valid"] != "T"), processes=["0", "1", "random"])
    for r in (next((x for x in recs if x["kind"] == "raw" and x["valid"] == "F"), None), toks[len(toks) // 2] if toks else None, io[len(io) // 2] if io else None, leg_recs[0] if leg_recs else None):
        if r is not None:
            chk.sample(_brief(r))
    chk.exhaustive = True
    chk.notes["exhaustive_scope"] = (
        "all 9 element families (validated enumeration and every point of the unvalidated parameter space); the complete "
        "get_all_tokenizers() list for count / names / hash() distinctness / name-set equality with the spec product"
        + ("; is_valid, is_legacy_equivalent and cross-process hash() on every one of its members" if thorough else "; is_valid / legacy / cross-process on a seeded sample + structured neighbours")
    )
    chk.assumptions = [
        "TLC, CommunityModules JSON reader, CPython",
        "the driver's raw field dump (dataclasses.fields/getattr) and its JSON typing guard are trusted; whole-space set sizes and the membership count against the TLC-emitted product are computed in Python (sets of 5.9M strings), TLA+ judges the counts",
        "BLAKE2b is not modelled: hash injectivity is demanded only on the enumerated set; PYTHONHASHSEED in {0, 1, random (one draw per run)}",
        "save/load beyond the per-family exhaustive sweep is sampled",
    ]
    return chk.finish(
        "TokSpace.tla checked (cardinalities, product, name injectivity, well-nestedness; broken validity rule rejected); every element family "
        "swept exhaustively (validated + raw) and the complete enumeration compared with the product of the TLC-emitted name sets; sampled "
        "tokenizers judged for grammar / validity / cross-process stability / save-load; legacy images and who reports legacy equivalence"
    )


def _release():
    global _ALL
    _ALL = None
    try:
        from maze_dataset.tokenization.all_tokenizers import get_all_tokenizers

        get_all_tokenizers.cache_clear()
    except Exception:  # noqa: BLE001
        pass
    import gc

    gc.collect()


# ------------------------------------------------------------------ replay
def reobserve(case):
    k = case.get("kind")
    if k in ("enum", "raw", "rawcount", "untyped") and case.get("K") in FAMILIES:
        recs, _, _ = observe_families()
        sel = [r for r in recs if r["K"] == case["K"] and r["kind"] == k and (k != "raw" or r["cfg"] == case["cfg"])]
        return sel or [r for r in recs if r["K"] == case["K"]]
    if k == "tok":
        t = observe_tok((case["cfg"], case.get("enumerated", False)))
        p = run_in_processes([case["cfg"]])
        t["procs"] = [dict(seed=s, **p[s][0]) for s in p]
        return [t]
    if k == "use":
        return [observe_use(("cfg", case["cfg"]))]
    if k == "history":
        tmp = tempfile.mkdtemp(prefix="c15e_", dir=str(lib.WORK))
        try:
            ep = os.path.join(tmp, "emit.ndjson")
            lib.tlc_design("TokSpace", "TokSpace_small.cfg", env={"VERIF_EMIT": ep}, workers=1, tag="rp")
            return [collect_history(start_history(tmp, ep, "quick"))]
        finally:
            shutil.rmtree(tmp, ignore_errors=True)
    if k == "io":
        return [r for r in observe_io((case["cfg"], case.get("via") == "zanj", case.get("tag", "replay"))) if r["via"] == case.get("via")] or observe_io((case["cfg"], True, "replay"))
    if k in ("legacy", "legacyset"):
        recs, images = observe_legacy()
        if k == "legacy":
            return [r for r in recs if r.get("mode") == case.get("mode") and r.get("via") == case.get("via")] or recs
        cl = [c for c in case.get("claimed", []) if _legacy_flag(c) != "F"]
        return [dict(kind="legacyset", scope="replay", full=False, images=images, claimed=cl)]
    if k in ("space", "distinct"):
        chk = lib.Check("C15", "quick", 0)
        tmp = tempfile.mkdtemp(prefix="c15e_", dir=str(lib.WORK))
        try:
            ep = os.path.join(tmp, "emit.ndjson")
            lib.tlc_design("TokSpace", "TokSpace_small.cfg", env={"VERIF_EMIT": ep}, workers=1, tag="rp")
            emit = [json.loads(x) for x in open(ep) if x.strip()]
        finally:
            shutil.rmtree(tmp, ignore_errors=True)
        space, _ = observe_space(chk, emit, deep=True, seeds=("1",), hstride=1)
        _release()
        return [space]
    raise lib.MachineryError(f"cannot replay a case of kind {k!r}")


def replay(path: str) -> int:
    d = json.load(open(path))
    lib.WORK.mkdir(exist_ok=True)
    recs = reobserve(d["case"])
    for i, r in enumerate(recs):
        r["id"] = i
    out = lib.oracle("Trace_TokSpace", recs, tag="rp")
    bad = {i: v for i, v in out.verdicts.items() if any(not c.startswith("M:") for c in v)}
    print("replay:", len(recs), "record(s) re-observed;", "verdicts:", json.dumps(out.verdicts)[:600])
    if bad:
        print(f"VIOLATION property=C15 replay={path}")
        return 1
    return 0
