"""C17 — rasterized input/target images show the problem and only the solution.

(A) Raster.tla (on top of Pixels.tla) model-checked: for every connection structure of the small
    shapes x every (start, end) incl. start = end x every simple path x the 8 option combinations,
    the implementation's mechanism (render once, rewrite colours, remove isolated, extend) computes
    exactly what the statement says; clause-style theorems (input hides the solution and is the
    maze's picture by C10's clauses, target shows exactly the solution pixels, target = input masked
    by the solution, Extend has shape 2n+2 / constant 2x2 blocks / wall frame, remove_isolated walls
    exactly the cells without connections, is idempotent and leaves no isolated pixel on arbitrary
    small images, batches keep index order).  Six deliberately broken mechanisms are rejected by TLC.
(C) Trace_Raster.tla judges the REAL code: process_maze_rasterized_input_target over solved mazes
    (exhaustive tiny shapes; all five generators, percolation mazes with isolated cells, hand-built
    mazes, grid 2..10, solutions of length 1 and 2) x 8 option combinations; RasterizedMazeDataset[i]
    and get_batch(idxs) of datasets built by from_base_MazeDataset / from_config_augmented; the two
    post-processing helpers on arbitrary small images.
    HISTORIES (state that must not matter): one maze object under all option combinations in several
    orders (A-B-A, with/without), the returned tensor / the maze's rendered picture overwritten in
    place in between, the maze used otherwise (hash, ascii, ==); mazes of decreasing / increasing /
    scrambled shapes (narrow then wide) in one process; every dataset read in two passes on the SAME
    object (items, batches, every tensor handed out overwritten, batches again, items read twice);
    datasets of different grid sizes built one after the other in one process.  Each step is an
    ordinary record judged against the spec, i.e. compared with what a fresh object must give.
    MAGNITUDES: grids 33, 65, 2x130, 130x2 (picture 261 and extended picture 524 pixels wide: pixel
    coordinates cross 127/128 and 255/256), solutions of 301 cells, isolated cells at the largest
    coordinates, a dataset of 260 items (thorough: 1030) read and batched at indices 127..129, 255, 256.
    AUDIT 2 (input / history classes of the missed seeded defects):
    C falsy values: every option False; options OMITTED (call form "dflt": only what differs from the documented defaults
      is passed, nothing at all for (True, True, False)); added_params = {} / partial / None; config seed 0; config
      n_mazes 0; the empty selection as [] / () / empty ndarray; index 0.
    D shapes: hand-built 2x5, 5x2, 3x7, 7x3, 1x6, 6x1, 1x1 (no connection / corridor along the last row or column /
      every connection; one-cell solutions on isolated and connected cells, two-cell solutions both ways), random oblong
      mazes of every generator in both orientations, exhaustive 1x1 (thorough: 1x4, 4x1), datasets of oblong mazes;
      Raster.tla variant "ext_square" (width from the height) is rejected only thanks to the oblong shapes.
    E aliasing: every call is bracketed by a deep snapshot of the caller's objects (maze arrays + nested generation_meta,
      base dataset config, added_params dict, RasterizedMazeDatasetConfig, index list / ndarray, helper image):
      a change is M:argument_modified (the statement is about the returned images), but the DAMAGE is Layer P, because
      the records that follow on the same object are judged against the object as first projected.  added_params, the
      config object and the index buffer are overwritten by the "caller" right after the call, before anything is read.
      Helper results sharing memory with the image: M:result_aliases_argument (read-only images are among the inputs:
      a helper that writes into its argument raises there, which is helper_raises, Layer P).
    F stale / redundant state: config n_mazes (0, too many, too few) and grid_n (1, shorter side, 64) disagreeing with
      the mazes; the same maze object and an equal copy repeated in one dataset; RasterizedMazeDataset built directly
      through its constructor; a base that is itself rasterized with the OPPOSITE options; bases that went through
      filter_by.path_length (once, twice in a row) and / or collect_generation_meta (metadata present / collected).
    G representations: the maze built in 10 ways (_REPS); options as keywords / positionally / numpy.bool_ (the last is
      Layer M: M:option_representation); dataset[i] with numpy.int64 indices; get_batch with list, list of numpy ints
      (Layer P), tuple / int64 / int32 ndarray (a refusal is M:batch_index_representation, a returned batch must be
      right), range / generator (Layer M throughout); helper images as uint8 / int64 / int32 / Fortran-ordered /
      non-contiguous view surrounded by open pixels / read-only.
    H shortest cases x options: the hand-built mazes of one shape as ONE dataset under all 8 option combinations along
      the routes base / ctor / rebase / partial (quick: routes rotate over 4 shapes so each meets all 8; thorough: full
      product over 10 shapes); Raster.tla variant "ric_open_only" needs a one-cell solution on an isolated cell.
    Not generated: unsigned (uint8) solution arrays - LatticeMaze.as_pixels itself refuses them (coordinate differences
      wrap around, "not adjacent" AssertionError): C10 / C09's business, outside "solved maze" as the library builds it.

Interpretation decisions (kept no stronger than the statement):
 * "open" in "open pixels with no open 4-neighbour" = not a wall (docstring of _remove_isolated_cells:
   "surrounded by walls on all sides"); nothing outside the image is open.  See Raster.tla.
 * start = end is one END mark (Pixels.tla, DESIGN 4).
 * RGB values are not part of the statement: images are palette-indexed with the library's own
   PixelColors table (should two entries coincide the lower code wins); any other colour -> 9.
 * batches: the statement fixes the order of the items, not which tensor axis comes first; the
   annotated layout [in/tgt, item, ...] is Layer M (M:batch_layout), index order is Layer P.
   get_batch([]) may be refused; get_batch(None) is the documented "all items in order".
 * the options a dataset applies are the ones ASKED for (added_params / the augmented config;
   added_params=None means the documented defaults remove_isolated_cells = extend_pixels = True; a key missing
   from added_params / an omitted keyword means the default documented in RasterizedMazeDatasetConfig and in the
   signature of process_maze_rasterized_input_target: True, True, False).
 * dataset generation itself (from_config) is C03's business: a configuration whose plain
   MazeDataset.from_config raises is skipped; once the plain dataset exists, the rasterized
   construction of the same configuration must succeed.

Canaries are corruptions of HAND-MADE records (independent of the code under test; the uncorrupted
ones must be accepted on every run).  Everything the library does is recorded as an outcome and judged.
"""
import contextlib
import json
import shutil
import tempfile
import zlib

import numpy as np

from harness import lib, mz

OPTS = [(a, b, c) for a in (False, True) for b in (False, True) for c in (False, True)]  # (ric, ext, eao)
GENS = ["gen_dfs", "gen_wilson", "gen_percolation", "gen_dfs_percolation", "gen_prim"]
_STD_TAB = [(0, 0, 0), (255, 255, 255), (0, 255, 0), (255, 0, 0), (0, 0, 255)]


# ------------------------------------------------------------------ observation helpers
def _palette():
    """the library's own colour table (the RGB values are not part of the statement)"""
    try:
        from maze_dataset.maze.lattice_maze import PixelColors as P

        tab = [tuple(int(v) for v in x) for x in (P.WALL, P.OPEN, P.START, P.END, P.PATH)]
        if all(len(t) == 3 for t in tab):
            return tab
    except Exception:  # noqa: BLE001 - a broken table is judged through the pictures it produces
        pass
    return list(_STD_TAB)


def _codes(a, tab):
    """[..., 3] RGB array -> array of palette codes (9 = colour outside the table)"""
    code = np.full(a.shape[:-1], 9, dtype=int)
    for k in range(len(tab) - 1, -1, -1):
        code[(a == np.array(tab[k])).all(axis=-1)] = k
    return code


def _arr(t):
    if hasattr(t, "detach"):
        t = t.detach().cpu().numpy()
    a = np.asarray(t)
    if a.dtype == object or a.ndim < 3 or a.shape[-1] != 3:
        raise ValueError("not an RGB array")
    return a


def _pair(t, tab):
    """result of one item -> (input rows, target rows) or None when it is not an image pair"""
    try:
        a = _arr(t)
        if a.ndim != 4 or a.shape[0] != 2:
            return None
        c = _codes(a, tab)
        return c[0].tolist(), c[1].tolist()
    except Exception:  # noqa: BLE001
        return None


def _rast():
    import maze_dataset.dataset.rasterized as R

    return R


def _salt(x):
    """deterministic small hash (which representation / call form a case gets; never Python's hash())"""
    return zlib.crc32(str(x).encode())


# the SAME solved maze handed over in different representations / built along different routes (audit 2, classes F, G)
_REPS = ["arr", "list", "tuple", "i8", "i32", "view", "fconn", "from_lattice", "from_targeted", "meta"]


def _meta(r, c, s):
    """a generation_meta as the generators leave it (nested: array, set of tuples)"""
    return dict(func_name="gen_dfs", grid_shape=np.array([r, c]), start_coord=(int(s[0][0]), int(s[0][1])), n_accessible_cells=int(r * c),
                max_tree_depth=int(2 * r * c), fully_connected=False, visited_cells={(int(a), int(b)) for a, b in s})


def _solved(conn, sol, rep="arr"):
    """rep: arr = bool C-array + int64 solution array (as before); list / tuple = solution as list of lists / tuple of
    tuples; i8 / i32 = solution of that dtype (int8 = what a minimal serialization loads); view = negative-stride view;
    fconn = Fortran-ordered connection_list + solution as a non-contiguous column slice of a wider array;
    from_lattice / from_targeted = the classmethod routes (generation_meta carried over); meta = constructor with
    generation_meta, start_pos and end_pos given"""
    c = np.array(conn, dtype=bool)
    s = [(int(a), int(b)) for a, b in sol]
    if rep == "list":
        return mz.SolvedMaze(connection_list=c, solution=[list(x) for x in s])
    if rep == "tuple":
        return mz.SolvedMaze(connection_list=c, solution=tuple(s))
    if rep in ("i8", "i32"):
        return mz.SolvedMaze(connection_list=c, solution=np.array(s, dtype=np.int8 if rep == "i8" else np.int32))
    if rep == "view":
        return mz.SolvedMaze(connection_list=c, solution=np.array(s[::-1])[::-1])
    if rep == "fconn":
        wide = np.full((len(s), 5), -3, dtype=np.int64)
        wide[:, 1:3] = s
        return mz.SolvedMaze(connection_list=np.asfortranarray(c), solution=wide[:, 1:3])
    if rep == "from_lattice":
        return mz.SolvedMaze.from_lattice_maze(mz.LatticeMaze(connection_list=c, generation_meta=_meta(c.shape[1], c.shape[2], s)), s)
    if rep == "from_targeted":
        return mz.SolvedMaze.from_targeted_lattice_maze(mz.TargetedLatticeMaze(connection_list=c, start_pos=np.array(s[0]), end_pos=np.array(s[-1])), solution=s)
    if rep == "meta":
        return mz.SolvedMaze(connection_list=c, solution=np.array(s), generation_meta=_meta(c.shape[1], c.shape[2], s), start_pos=s[0], end_pos=s[-1])
    return mz.SolvedMaze(connection_list=c, solution=np.array(s))


def _canon(x):
    """deep, order-free, type-aware snapshot of a value (nested dicts / lists / sets / arrays) for before / after comparison"""
    if isinstance(x, dict):
        return ["dict", sorted(([str(k), _canon(v)] for k, v in x.items()), key=str)]
    if isinstance(x, (set, frozenset)):
        return ["set", sorted((_canon(v) for v in x), key=str)]
    if isinstance(x, (list, tuple)):
        return [type(x).__name__, [_canon(v) for v in x]]
    if isinstance(x, np.ndarray):
        return ["nd", str(x.dtype), list(x.shape), x.tolist()]
    if isinstance(x, (np.generic,)):
        return [type(x).__name__, x.item()]
    if isinstance(x, (bool, int, float, str)) or x is None:
        return [type(x).__name__, x]
    return ["obj", type(x).__name__, repr(x)]


def _mstate(m):
    """everything a caller can see of a maze object (arrays with dtype, endpoints, nested generation_meta)"""
    try:
        return _canon([m.connection_list, np.asarray(m.solution), np.asarray(m.start_pos), np.asarray(m.end_pos), getattr(m, "generation_meta", None)])
    except Exception as e:  # noqa: BLE001 - an object that can no longer be read HAS been modified
        return ["unreadable", type(e).__name__]


# how the three options are handed over (audit 2, classes C, G): keywords; positional; only the options that differ
# from the documented defaults (remove_isolated_cells=True, extend_pixels=True, endpoints_as_open=False), i.e. no
# argument at all for (True, True, False); numpy.bool_ (Layer M: the annotation says bool)
_CALLS = ["kw", "pos", "dflt", "kw", "npbool", "pos", "dflt", "kw"]


def _call(m, opts, call):
    ric, ext, eao = opts
    f = _rast().process_maze_rasterized_input_target
    if call == "pos":
        return f(m, ric, ext, eao)
    if call == "dflt":
        kw = {}
        if not ric:
            kw["remove_isolated_cells"] = False
        if not ext:
            kw["extend_pixels"] = False
        if eao:
            kw["endpoints_as_open"] = True
        return f(m, **kw)
    if call == "npbool":
        return f(maze=m, remove_isolated_cells=np.bool_(ric), extend_pixels=np.bool_(ext), endpoints_as_open=np.bool_(eao))
    return f(m, remove_isolated_cells=ric, extend_pixels=ext, endpoints_as_open=eao)


def observe_item(m, pm, opts, src, tab, via="fn", call="kw", rep="arr"):
    ric, ext, eao = opts
    before = _mstate(m)
    res, t = mz.outcome(lambda: _call(m, opts, call))
    rec = dict(kind="item", maze=pm, ric=ric, ext=ext, eao=eao, res=res, inp=[], tgt=[], src=src, via=via, call=call, rep=rep, argmod=_mstate(m) != before)
    if res == "ok":
        p = _pair(t, tab)
        if p is None:
            rec["res"] = "raise:NotAnImagePair"
        else:
            rec["inp"], rec["tgt"] = p
    return rec


def observe_maze(conn, sol, src, tab, opts=OPTS, rep=None, calls=None):
    """all option combinations on one solved maze OBJECT (built once, in the representation `rep`; the maze record is
    projected once, before the first call: whatever a call does to the object shows in the calls after it);
    a constructor refusing a valid value is an outcome too"""
    h = _salt([src, [list(map(int, x)) for x in sol]])
    rep = rep or _REPS[h % len(_REPS)]
    calls = calls or [_CALLS[(h // 16 + j) % len(_CALLS)] for j in range(len(opts))]
    res, m = mz.outcome(lambda: _solved(conn, sol, rep))
    if res != "ok":
        pm = dict(kind="SolvedMaze", R=int(np.shape(conn)[1]), C=int(np.shape(conn)[2]), conn=mz.raw(conn), start=[int(v) for v in sol[0]], end=[int(v) for v in sol[-1]], sol=[[int(a), int(b)] for a, b in sol])
        return [dict(kind="item", maze=pm, ric=o[0], ext=o[1], eao=o[2], res=res, inp=[], tgt=[], src=src, via="ctor", call="kw", rep=rep, argmod=False) for o in opts]
    pm = mz.proj(m)
    return [observe_item(m, pm, o, src, tab, call=calls[j], rep=rep) for j, o in enumerate(opts)]


# ------------------------------------------------------------------ (C1) exhaustive tiny scope
def observe_graphs(args):
    r, c, lo, hi = args
    tab = _palette()
    cells = mz.cells(r, c)
    out = []
    for n in range(lo, hi):
        conn = mz.conn_from_int(r, c, n)
        for s in cells:
            for e in cells:
                for p in mz.all_shortest(conn, s, e):
                    out += observe_maze(conn, p, f"ex:{r}x{c}:{n}", tab)
    return out


# ------------------------------------------------------------------ (C2) generators / hand-built
def _seed_lib(rng):
    import random

    np.random.seed(int(rng.integers(0, 2**31)))
    random.seed(int(rng.integers(0, 2**31)))


def _gen_conn(rng, gen, r, c):
    from maze_dataset.generation import LatticeMazeGenerators as G

    _seed_lib(rng)
    shape = np.array([r, c])
    if gen == "rand_perc":  # harness-made percolation with many isolated cells
        return mz.rand_conn(rng, r, c, float(rng.choice([0.15, 0.3, 0.5])))
    if gen == "gen_dfs":
        return G.gen_dfs(shape).connection_list
    if gen == "gen_wilson":
        return G.gen_wilson(shape).connection_list
    if gen == "gen_percolation":
        return G.gen_percolation(shape, p=float(rng.choice([0.2, 0.4, 0.6]))).connection_list
    if gen == "gen_dfs_percolation":
        return G.gen_dfs_percolation(shape, p=float(rng.choice([0.1, 0.3]))).connection_list
    if gen == "gen_prim":
        return G.gen_prim(shape).connection_list
    if gen == "gen_dfs_partial":  # dfs tree on part of the grid: the rest are isolated cells
        return G.gen_dfs(shape, accessible_cells=int(max(1, r * c // 2))).connection_list
    raise ValueError(gen)


def _rand_shortest(conn, s, t, rng):
    """input generation only: a random shortest path (the oracle re-checks that it is a simple walk)"""
    d = mz.bfs(conn, t)
    if s not in d:
        return None
    p = [s]
    while p[-1] != t:
        nb = [y for y in mz.nbrs(conn, p[-1]) if d.get(y) == d[p[-1]] - 1]
        p.append(nb[int(rng.integers(len(nb)))])
    return p


def _rand_simple_walk(conn, s, rng, maxlen):
    p = [s]
    while len(p) < maxlen:
        nb = [y for y in mz.nbrs(conn, p[-1]) if y not in p]
        if not nb:
            break
        p.append(nb[int(rng.integers(len(nb)))])
    return p


def _paths_for(conn, rng, r, c):
    """a few solutions on one graph: random pair, one-cell (also on an isolated cell), adjacent, farthest, a non-shortest walk"""
    rc = lambda: (int(rng.integers(0, r)), int(rng.integers(0, c)))  # noqa: E731
    out = []
    s0 = rc()
    far = mz.bfs(conn, s0)
    comp = sorted(far)
    out.append(_rand_shortest(conn, s0, comp[int(rng.integers(len(comp)))], rng))
    out.append(_rand_shortest(conn, s0, max(far, key=lambda x: (far[x], x)), rng))
    out.append([rc()])
    iso = [x for x in mz.cells(r, c) if not mz.nbrs(conn, x)]
    if iso:
        out.append([iso[int(rng.integers(len(iso)))]])
    linked = [x for x in mz.cells(r, c) if mz.nbrs(conn, x)]
    if linked:
        a = linked[int(rng.integers(len(linked)))]
        nb = mz.nbrs(conn, a)
        out.append([a, nb[int(rng.integers(len(nb)))]])
        out.append(_rand_simple_walk(conn, a, rng, int(rng.integers(3, 3 * max(r, c)))))
    seen, res = set(), []
    for p in out:
        if p is not None and tuple(p) not in seen:
            seen.add(tuple(p))
            res.append(p)
    return res


def observe_random(args):
    seed, k, maxn = args
    rng = np.random.default_rng([seed, 17, k])
    tab = _palette()
    kinds = GENS + ["rand_perc", "gen_dfs_partial", "gen_percolation"]
    gen = kinds[k % len(kinds)]
    n = 2 + (k // len(kinds)) % (maxn - 1)  # grid sizes 2..maxn, every size with every generator
    r = c = n
    if k % 5 == 4 and gen in ("rand_perc", "gen_dfs", "gen_percolation"):  # oblong
        c = int(rng.integers(2, maxn + 1))
    elif k % 5 == 2:  # oblong, sides differing by >= 2, both orientations, every generator (one that refuses gets "!")
        o = [x for x in range(2, maxn + 1) if abs(x - n) >= 2]
        o = int(o[int(rng.integers(len(o)))])
        r, c = (n, o) if (k // 5) % 2 == 0 else (o, n)
    try:
        conn = np.array(_gen_conn(rng, gen, r, c), dtype=bool)
        assert conn.shape == (2, r, c)
    except Exception:  # noqa: BLE001 - the generators are other properties' business (C01/C12)
        gen += "!"
        conn = mz.rand_conn(rng, r, c, 0.4)
    conn[0, -1, :] = False
    conn[1, :, -1] = False
    src = f"rnd:{seed}:{k}:{gen}:{r}x{c}"
    out = []
    paths = _paths_for(conn, rng, r, c)
    # the library's own way of solving a maze (random endpoints in the connected component)
    _seed_lib(rng)
    res, p = mz.outcome(lambda: mz.LatticeMaze(connection_list=conn).generate_random_path())
    if res == "ok" and len(p) >= 1:
        paths.append([(int(a), int(b)) for a, b in p])
    for p in paths:
        out += observe_maze(conn, p, src, tab)
    return out


def _hand_mazes():
    """hand-built solved mazes with isolated open cells beside / under the solution"""
    out = []
    for n in (2, 3, 5, 10):
        z = np.zeros((2, n, n), dtype=bool)  # no connection at all: every cell isolated
        out += [(z, [(0, 0)], f"hand:empty{n}:corner"), (z, [(n - 1, n - 1)], f"hand:empty{n}:far"), (z, [(n // 2, 0)], f"hand:empty{n}:edge")]
        one = z.copy()
        one[1, n - 1, 0] = True  # single passage bottom-left, everything else isolated
        out += [(one, [(n - 1, 0), (n - 1, 1)], f"hand:one{n}"), (one, [(n - 1, 1), (n - 1, 0)], f"hand:one{n}:rev"), (one, [(n - 1, 1)], f"hand:one{n}:len1")]
        col = z.copy()
        col[0, : n - 1, n - 1] = True  # corridor down the last column, the other columns isolated
        out += [(col, [(i, n - 1) for i in range(n)], f"hand:col{n}"), (col, [(i, n - 1) for i in range(n - 1, -1, -1)], f"hand:col{n}:rev"), (col, [(0, 0)], f"hand:col{n}:iso")]
        full = np.ones((2, n, n), dtype=bool)
        full[0, -1, :] = False
        full[1, :, -1] = False  # every connection present: nothing isolated
        out += [(full, [(0, j) for j in range(n)] + [(i, n - 1) for i in range(1, n)], f"hand:full{n}"), (full, [(n - 1, n - 1)], f"hand:full{n}:len1")]
    for r, c in ((2, 7), (6, 3)):  # oblong, checkerboard of isolated cells with one corridor along the top row
        z = np.zeros((2, r, c), dtype=bool)
        z[1, 0, : c - 1] = True
        out += [(z, [(0, j) for j in range(c)], f"hand:top{r}x{c}"), (z, [(r - 1, c - 1)], f"hand:top{r}x{c}:iso"), (z, [(0, 1), (0, 0)], f"hand:top{r}x{c}:len2")]
    # audit 2, classes D x H: oblong (sides differing by >= 2, both orientations), 1xN / Nx1 and 1x1, each with no connection
    # at all / one corridor along the LAST row or column (the far coordinates) / every connection, and solutions of
    # one cell (on an isolated cell, on the corridor), two cells (both directions) and the whole corridor
    for r, c in ((2, 5), (5, 2), (3, 7), (7, 3), (1, 6), (6, 1), (1, 1)):
        t = f"{r}x{c}"
        z = np.zeros((2, r, c), dtype=bool)
        out += [(z, [(r - 1, c - 1)], f"hand:ob-empty{t}:far")]
        if r * c > 1:
            out += [(z, [(0, 0)], f"hand:ob-empty{t}:corner")]
        if c > 1:
            row = z.copy()
            row[1, r - 1, : c - 1] = True
            out += [(row, [(r - 1, j) for j in range(c - 1, -1, -1)], f"hand:ob-row{t}:rev"), (row, [(r - 1, c - 1), (r - 1, c - 2)], f"hand:ob-row{t}:len2"),
                    (row, [(r - 1, c - 2), (r - 1, c - 1)], f"hand:ob-row{t}:len2rev"), (row, [(r - 1, c - 1)], f"hand:ob-row{t}:len1")]
            if r > 1:
                out += [(row, [(0, c - 1)], f"hand:ob-row{t}:iso")]
        if r > 1:
            col = z.copy()
            col[0, : r - 1, c - 1] = True
            out += [(col, [(i, c - 1) for i in range(r)], f"hand:ob-col{t}"), (col, [(r - 1, c - 1), (r - 2, c - 1)], f"hand:ob-col{t}:len2"), (col, [(r - 2, c - 1)], f"hand:ob-col{t}:len1")]
        if r * c > 1:
            full = np.ones((2, r, c), dtype=bool)
            full[0, -1, :] = False
            full[1, :, -1] = False
            out += [(full, [(i, 0) for i in range(r)] + [(r - 1, j) for j in range(1, c)], f"hand:ob-full{t}"), (full, [(r - 1, 0)], f"hand:ob-full{t}:len1")]
    return out


def observe_hand(i):
    conn, sol, src = _hand_mazes()[i]
    return observe_maze(conn, sol, src, _palette())


# ------------------------------------------------------------------ (C3) datasets and batches
_BREPS = ["tuple", "nd64", "npints", "range", "gen", "nd32"]


def _idx_lists(n, rng):
    if n < 1:  # a dataset whose filters left nothing: only the empty selection exists
        return [[]]
    ls = [list(range(n)), list(range(n - 1, -1, -1)), [n - 1], [0, 0], []]
    if n >= 2:
        ls += [[1, 0, 1], [n - 1, 0]]
        ls.append([int(x) for x in rng.integers(0, n, size=int(rng.integers(2, 2 * n + 1)))])
        ls.append([int(x) for x in rng.permutation(n)])
    seen, out = set(), []
    for x in ls:
        if tuple(x) not in seen:
            seen.add(tuple(x))
            out.append(x)
    # audit 2, class G: index lists in other representations (tuple, int64 / int32 ndarray, list of numpy ints, range,
    # one-shot generator); class C: the empty selection as an empty tuple / empty ndarray
    off = int(rng.integers(0, len(_BREPS)))
    extra = []
    for j in range(3):
        rp = _BREPS[(off + j) % len(_BREPS)]
        ix = [x for x in out if x][int(rng.integers(len([x for x in out if x])))]
        if rp == "range":
            ix = list(range(n)) if (off + j) % 2 == 0 else list(range(n - 1, -1, -1))
        extra.append(dict(rep=rp, idxs=list(ix)))
    extra.append(dict(rep=["tuple", "nd64"][off % 2], idxs=[]))
    return out + extra


def _batch_arg(spec):
    """one entry of an index-list plan -> (the caller's OWN object handed to get_batch, the indices as plain ints, rep)"""
    if isinstance(spec, dict):
        rp, ix = spec["rep"], [int(v) for v in spec["idxs"]]
    else:
        rp, ix = "list", [int(v) for v in spec]
    if rp == "tuple":
        arg = tuple(ix)
    elif rp in ("nd64", "nd32"):
        arg = np.array(ix, dtype=np.int64 if rp == "nd64" else np.int32)
    elif rp == "npints":
        arg = [np.int64(v) if i % 2 == 0 else np.int32(v) for i, v in enumerate(ix)]
    elif rp == "range":
        arg = range(ix[0], ix[-1] + 1) if ix[0] <= ix[-1] else range(ix[0], ix[-1] - 1, -1)
        if list(arg) != ix:
            raise lib.MachineryError(f"index plan {spec} is not a range")
    elif rp == "gen":
        arg = (v for v in ix)
    else:
        arg = list(ix)
    return arg, ix, rp


def _arg_changed(arg, ix):
    if isinstance(arg, list):
        return len(arg) != len(ix) or any(int(a) != b for a, b in zip(arg, ix))
    if isinstance(arg, np.ndarray):
        return arg.shape != (len(ix),) or arg.tolist() != ix
    return False


def _arg_overwrite(arg):
    """the caller reuses its index buffer right after the call (before it looks at the batch)"""
    if isinstance(arg, list):
        arg[:] = [0] * (len(arg) + 1)
    elif isinstance(arg, np.ndarray):
        arg[...] = 0


def _scribble(t):
    """the caller may do what it likes with a returned tensor / array: overwrite it in place"""
    try:
        if hasattr(t, "fill_"):
            t.fill_(7)
        else:
            np.asarray(t)[...] = 7
    except Exception:  # noqa: BLE001 - read-only results cannot alias anything
        pass


def _observe_ds(build, opts, idx_lists, src, tab, recipe, flags=None):
    """build() -> RasterizedMazeDataset.  HISTORY on the one dataset object, two records:
    pass 0: every item, then the listed batches;  then every tensor handed out so far is overwritten in place;
    pass 1: the batches again (list order reversed), then every item read, overwritten and read again (odd indices
    as numpy.int64 instead of int).
    Each pass is judged like a fresh dataset (item images against the spec, batches against the items).
    Index lists are the caller's own objects: compared with a snapshot after the call (argmod) and overwritten before
    the batch is read.  flags["argmod"] (set by build) = the construction changed one of ITS arguments; the mazes of the
    dataset are projected once after construction and their state is compared again at the very end (argmod of pass 1)."""
    ric, ext, eao = opts
    new = lambda k: dict(kind="ds", mazes=[], ric=ric, ext=ext, eao=eao, res="ok", items=[], batches=[], src=f"{src}:pass{k}", recipe=json.dumps(recipe), argmod=False)  # noqa: E731
    rec = new(0)
    res, ds = mz.outcome(build)
    if res == "ok":
        res, pms = mz.outcome(lambda: [mz.proj(m) for m in ds.mazes])
    if res != "ok":
        rec["res"] = res
        rec["mazes"] = recipe.get("mazes", [])
        return [rec]
    rec["argmod"] = bool(flags and flags.get("argmod"))
    states = [_mstate(m) for m in ds.mazes]
    handed = []

    def item(i, as_np=False):
        idx = np.int64(i) if as_np else i
        r1, t = mz.outcome(lambda: ds[idx])
        it = dict(res=r1, inp=[], tgt=[])
        if r1 == "ok":
            handed.append(t)
            p = _pair(t, tab)
            if p is None:
                it["res"] = "raise:NotAnImagePair"
            else:
                it["inp"], it["tgt"] = p
        return it

    def batch(spec):
        if spec == "all":
            arg, ix, rp = None, list(range(len(pms))), "none"
        else:
            arg, ix, rp = _batch_arg(spec)
        r1, b = mz.outcome(lambda: ds.get_batch(arg))
        bt = dict(idxs=ix, res=r1, out=[], none=spec == "all", rep=rp, argmod=_arg_changed(arg, ix))
        _arg_overwrite(arg)
        if r1 == "ok":
            handed.append(b)
            try:
                a = _arr(b)
                if a.ndim != 5:
                    raise ValueError("not [a, b, x, y, 3]")
                bt["out"] = _codes(a, tab).tolist()
            except Exception:  # noqa: BLE001
                bt["res"] = "raise:NotABatch"
        return bt

    lists = idx_lists(len(pms))
    rec["mazes"] = pms
    rec["items"] = [item(i) for i in range(len(pms))]
    rec["batches"] = [batch(x) for x in lists]
    for t in handed:
        _scribble(t)
    rec2 = new(1)
    rec2["mazes"] = pms
    rec2["batches"] = [batch(x) for x in lists[::-1]]
    for i in range(len(pms) - 1, -1, -1):
        item(i)
        _scribble(handed[-1]) if handed else None
    rec2["items"] = [item(i, as_np=i % 2 == 1) for i in range(len(pms))]
    r3, after = mz.outcome(lambda: [_mstate(m) for m in ds.mazes])
    rec2["argmod"] = r3 != "ok" or after != states
    return [rec, rec2]


# ---- construction routes.  recipe["how"]:
#   base    from_base_MazeDataset(plain in-memory MazeDataset, added_params)      added: full | none | partial
#   ctor    RasterizedMazeDataset(cfg=RasterizedMazeDatasetConfig(..., options), mazes=[...]) directly, no factory
#   config  from_config_augmented(RasterizedMazeDatasetConfig)                     (the caller's cfg is changed afterwards)
#   cfgbase from_base_MazeDataset(generated MazeDataset after filter_by... / collect_generation_meta, added_params)
# knobs (audit 2, class F): n_mazes / grid_n of the config that DISAGREE with the mazes (n_mazes is compare=False state,
# len(dataset) is len(mazes)); dup = the same maze object and an equal copy once more; pre = "raster": the base is
# itself a RasterizedMazeDataset carrying the OPPOSITE options (the options asked for now must win).
_DEFAULT_OPTS = (True, True, False)
_OPT_NAMES = ("remove_isolated_cells", "extend_pixels", "endpoints_as_open")


def _added(opts, mode):
    if mode == "none":
        return None
    if mode == "partial":  # only what differs from the documented defaults; {} for the defaults themselves
        return {k: v for k, v, d in zip(_OPT_NAMES, opts, _DEFAULT_OPTS) if v != d}
    return dict(zip(_OPT_NAMES, opts))


def _ms(pms, dup=False):
    ms = [_solved(pm["conn"], pm["sol"], _REPS[(i + len(pms)) % len(_REPS)]) for i, pm in enumerate(pms)]
    if dup:
        ms = ms + [ms[0], _solved(pms[-1]["conn"], pms[-1]["sol"], "arr"), ms[0]]
    return ms


def _base_dataset(pms, n_mazes=None, grid_n=None, dup=False):
    from maze_dataset import MazeDataset, MazeDatasetConfig

    ms = _ms(pms, dup)
    return MazeDataset(cfg=MazeDatasetConfig(name="c17_base", grid_n=int(max(pms[0]["R"], pms[0]["C"])) if grid_n is None else int(grid_n), n_mazes=len(ms) if n_mazes is None else int(n_mazes)), mazes=ms)


def _from_base_checked(base, ap, flags):
    """from_base_MazeDataset on the caller's own base dataset and added_params dict: both compared with a deep snapshot
    after the call; then the caller reuses its dict (every option flipped) before anything is read from the dataset"""
    R = _rast()
    snap = lambda: _canon([base.cfg.serialize(), [id(m) for m in base.mazes], len(base), ap])  # noqa: E731
    before = snap()
    ds = R.RasterizedMazeDataset.from_base_MazeDataset(base) if ap is None else R.RasterizedMazeDataset.from_base_MazeDataset(base, added_params=ap)
    if flags is not None:
        flags["argmod"] = flags.get("argmod", False) or snap() != before
    if ap:
        for k in list(ap):
            ap[k] = not ap[k]
    return ds


def _build_from_base(pms, opts, flags=None, *, added="full", n_mazes=None, grid_n=None, dup=False, pre=None):
    R = _rast()
    base = _base_dataset(pms, n_mazes, grid_n, dup)
    if pre == "raster":
        base = R.RasterizedMazeDataset.from_base_MazeDataset(base, added_params=dict(zip(_OPT_NAMES, [not o for o in opts])))
    return _from_base_checked(base, _added(opts, added), flags)


def _build_ctor(pms, opts, *, n_mazes=None, grid_n=None, dup=False):
    R = _rast()
    ms = _ms(pms, dup)
    cfg = R.RasterizedMazeDatasetConfig(name="c17_ctor", grid_n=int(max(pms[0]["R"], pms[0]["C"])) if grid_n is None else int(grid_n),
                                        n_mazes=len(ms) if n_mazes is None else int(n_mazes), **dict(zip(_OPT_NAMES, opts)))
    return R.RasterizedMazeDataset(cfg=cfg, mazes=ms)


def _cfg_kwargs(recipe):
    from maze_dataset.generation import GENERATORS_MAP

    return dict(name="c17_cfg", grid_n=recipe["grid_n"], n_mazes=recipe["n_mazes"], maze_ctor=GENERATORS_MAP[recipe["gen"]], maze_ctor_kwargs=recipe["kwargs"], seed=recipe["seed"])


_FROM_CFG = dict(load_local=False, save_local=False, do_download=False, do_generate=True, gen_parallel=False, verbose=False)


@contextlib.contextmanager
def _as_main_process():
    """lib.pmap runs the drivers in pool workers.  MazeDataset.generate looks at multiprocessing.current_process()._identity
    to decide whether it runs inside one of ITS OWN generation workers and, if so, seeds numpy with cfg.seed + worker
    number: inside a harness worker the mazes of a configuration (and whether a percolation configuration generates at all:
    a one-cell component has no two distinct endpoints -> ValueError) would depend on which worker picked the job up, and a
    replay (main process) would build other mazes than the run it replays.  While the library generates, the harness worker
    therefore presents itself as what it is from the library's point of view: a process that is not a generation worker.
    (Generation is C03's business; this only fixes WHICH datasets C17 looks at.)"""
    import multiprocessing

    p = multiprocessing.current_process()
    old = p._identity
    p._identity = ()
    try:
        yield
    finally:
        p._identity = old


def _build_from_config(recipe, opts, tmp, flags=None):
    R = _rast()
    cfg = R.RasterizedMazeDatasetConfig(**_cfg_kwargs(recipe), remove_isolated_cells=opts[0], extend_pixels=opts[1], endpoints_as_open=opts[2])
    before = _canon(cfg.serialize())
    with _as_main_process():
        ds = R.RasterizedMazeDataset.from_config_augmented(cfg, local_base_path=tmp, **_FROM_CFG)
    if flags is not None:
        flags["argmod"] = _canon(cfg.serialize()) != before
    if ds.cfg is not cfg:  # the caller goes on to its next variant with the same config object (as make_numpy_collection does with grid_n)
        cfg.remove_isolated_cells, cfg.extend_pixels, cfg.endpoints_as_open = (not o for o in opts)
    return ds


def _build_cfgbase(recipe, opts, tmp, flags=None):
    """class F: the base went through filters (one / the same one twice in a row) and / or had its metadata collected"""
    from maze_dataset import MazeDataset, MazeDatasetConfig

    with _as_main_process():
        base = MazeDataset.from_config(MazeDatasetConfig(**_cfg_kwargs(recipe)), local_base_path=tmp, **_FROM_CFG)
    for step in recipe["post"]:
        if step == "filter":
            base = base.filter_by.path_length(min_length=recipe.get("min_length", 1))
        elif step == "collect":
            base = base.filter_by.collect_generation_meta()
        else:
            raise ValueError(step)
    return _from_base_checked(base, _added(opts, "full"), flags)


def _build(recipe, opts, tmp, flags=None):
    how = recipe.get("how")
    kn = {k: recipe[k] for k in ("n_mazes", "grid_n", "dup") if k in recipe and how in ("base", "ctor")}
    if how == "base":
        return _build_from_base(recipe["mazes"], opts, flags, added="none" if recipe.get("default") else recipe.get("added", "full"), pre=recipe.get("pre"), **kn)
    if how == "ctor":
        return _build_ctor(recipe["mazes"], opts, **kn)
    if how == "cfgbase":
        return _build_cfgbase(recipe, opts, tmp, flags)
    return _build_from_config(recipe, opts, tmp, flags)


def _observe_recipe(recipe, opts, lists, src, tab, tmp=None):
    """opts = the options ASKED for (for added_params=None: the documented defaults)"""
    flags = {}
    return _observe_ds(lambda: _silenced(lambda: _build(recipe, opts, tmp, flags)), opts, lists, src, tab, recipe, flags)


def _plain_generates(recipe, tmp):
    """C03's business: does the plain dataset of this configuration generate at all?"""
    from maze_dataset import MazeDataset, MazeDatasetConfig

    with _as_main_process():
        res, _ = mz.outcome(lambda: MazeDataset.from_config(MazeDatasetConfig(**_cfg_kwargs(recipe)), local_base_path=tmp, **_FROM_CFG))
    return res == "ok"


def _silenced(fn):
    """the library prints progress bars / warnings while generating"""
    import contextlib
    import io

    with contextlib.redirect_stdout(io.StringIO()), contextlib.redirect_stderr(io.StringIO()):
        return fn()


def observe_dataset(args):
    seed, k, maxn = args
    rng = np.random.default_rng([seed, 117, k])
    tab = _palette()
    opts = OPTS[k % 8]
    lists = lambda n: _idx_lists(n, rng) + ["all"]  # noqa: E731
    if k % 3 != 2:  # in-memory base dataset of mazes of one shape
        n = int(rng.integers(2, maxn + 1))
        gen = (GENS + ["rand_perc"])[(k // 3) % 6]
        pms = []
        for _ in range(int(rng.integers(1, 5))):
            try:
                conn = np.array(_gen_conn(rng, gen, n, n), dtype=bool)
                assert conn.shape == (2, n, n)
            except Exception:  # noqa: BLE001
                conn = mz.rand_conn(rng, n, n, 0.4)
            conn[0, -1, :] = False
            conn[1, :, -1] = False
            ps = _paths_for(conn, rng, n, n)
            p = ps[int(rng.integers(len(ps)))]
            pms.append(dict(kind="SolvedMaze", R=n, C=n, conn=mz.raw(conn), start=list(p[0]), end=list(p[-1]), sol=[list(x) for x in p]))
        use_default = k % 24 == 3  # added_params=None: the documented defaults (ric, ext) = (True, True), eao False
        asked = (True, True, False) if use_default else opts
        recipe = dict(how="base", mazes=pms, default=use_default)
        return _observe_recipe(recipe, asked, lists, f"ds:base:{seed}:{k}:{gen}:{n}", tab)
    gen = GENS[(k // 3) % 5]
    kw = {"p": float(rng.choice([0.3, 0.5]))} if "percolation" in gen else {}
    recipe = dict(how="config", gen=gen, kwargs=kw, grid_n=int(rng.integers(2, min(maxn, 6) + 1)), n_mazes=int(rng.integers(1, 5)), seed=int(rng.integers(0, 2**31 - 1)))
    if (k // 3) % 4 == 0:
        recipe["seed"] = 0  # class C: the falsy seed
    tmp = tempfile.mkdtemp(prefix="c17_", dir=str(lib.WORK))
    try:
        if not _silenced(lambda: _plain_generates(recipe, tmp)):
            return []
        return _observe_recipe(recipe, opts, lists, f"ds:config:{seed}:{k}:{gen}", tab, tmp)
    finally:
        shutil.rmtree(tmp, ignore_errors=True)


# ---- audit 2: shortest cases x every option combination x every construction route (H), stale / redundant derived
# state (F), falsy config values (C), oblong and degenerate shapes inside datasets (D)
_ROUTES = ["base", "ctor", "rebase", "partial"]


def _hand_pms(shape):
    out = []
    for conn, sol, _src in _hand_mazes():
        if conn.shape[1:] == tuple(shape):
            out.append(dict(kind="SolvedMaze", R=int(shape[0]), C=int(shape[1]), conn=mz.raw(conn), start=[int(v) for v in sol[0]], end=[int(v) for v in sol[-1]], sol=[[int(a), int(b)] for a, b in sol]))
    return out


def ds2_jobs(thorough):
    """deterministic plan.  short: the hand-built mazes of one shape (no connection / one passage / corridor / every
    connection; one-cell solutions on isolated and on connected cells, two-cell solutions both ways) as ONE dataset,
    under every option combination along every route (quick: the routes rotate over 4 shapes so that each route meets all
    8 combinations; thorough: full product over 10 shapes).  stale: config fields that disagree with the mazes.
    cfgbase: filtered / collected bases.  """
    jobs = []
    if thorough:
        for sh in [(2, 2), (2, 5), (5, 2), (1, 6), (6, 1), (1, 1), (3, 3), (3, 7), (7, 3), (5, 5)]:
            jobs += [("short", sh, oi, rt) for oi in range(8) for rt in _ROUTES]
            jobs += [("short", sh, 6, "none")]
    else:
        for si, sh in enumerate([(2, 2), (2, 5), (5, 2), (1, 6)]):
            jobs += [("short", sh, oi, _ROUTES[(oi + si) % 4]) for oi in range(8)]
        jobs += [("short", (6, 1), 6, "none"), ("short", (1, 1), 6, "none"), ("short", (1, 1), 1, "partial"), ("short", (6, 1), 3, "ctor")]
    stale_shapes = [(2, 5), (5, 2), (1, 6), (6, 1), (1, 1), (3, 7), (2, 2), (7, 3)]
    for j in range(24 if thorough else 8):
        # n_mazes: 0 (falsy), more than there are, fewer than there are;  grid_n: 1, the shorter side, far too large
        jobs.append(("stale", stale_shapes[j % 8], (3 * j + 1) % 8, ["base", "ctor", "rebase"][j % 3], ["zero", "more", "one"][(j // 2) % 3], ["one", "min", "huge"][(j // 3) % 3], j % 2 == 0))
    posts = [["filter"], ["collect"], ["filter", "filter"], ["filter", "collect"], ["collect", "filter"], ["collect", "collect"]]
    for j in range(30 if thorough else 6):
        jobs.append(("cfgbase", GENS[j % 5], posts[j % 6], (5 * j + 2) % 8, 0 if j % 2 == 0 else 1000 + j, 1 + j % 2))
    return jobs


def observe_dataset2(args):
    seed, j, job = args
    rng = np.random.default_rng([seed, 717, j])
    tab = _palette()
    lists = lambda n: _idx_lists(n, rng) + ["all"]  # noqa: E731
    fam = job[0]
    if fam in ("short", "stale"):
        sh, oi, route = job[1], job[2], job[3]
        opts = OPTS[oi]
        pms = _hand_pms(sh)
        recipe = dict(how="ctor" if route == "ctor" else "base", mazes=pms)
        if route == "rebase":
            recipe["pre"] = "raster"
        elif route in ("partial", "none"):
            recipe["added"] = route
        asked = _DEFAULT_OPTS if route == "none" else opts
        if fam == "stale":
            n = len(pms) + (3 if job[6] else 0)
            recipe.update(n_mazes=dict(zero=0, more=n + 3, one=1)[job[4]], grid_n=dict(one=1, min=min(sh), huge=64)[job[5]], dup=bool(job[6]))
        return _observe_recipe(recipe, asked, lists, f"ds:{fam}:{seed}:{j}:{sh[0]}x{sh[1]}:{route}", tab)
    _fam, gen, post, oi, cseed, minlen = job
    kw = {"p": 0.4} if "percolation" in gen else {}
    recipe = dict(how="cfgbase", gen=gen, kwargs=kw, grid_n=int(rng.integers(3, 6)), n_mazes=int(rng.integers(2, 5)), seed=int(cseed), post=list(post), min_length=int(minlen))
    tmp = tempfile.mkdtemp(prefix="c17_", dir=str(lib.WORK))
    try:
        if not _silenced(lambda: _plain_generates(recipe, tmp)):
            return []
        return _observe_recipe(recipe, OPTS[oi], lists, f"ds:cfgbase:{seed}:{j}:{gen}:{'+'.join(post)}", tab, tmp)
    finally:
        shutil.rmtree(tmp, ignore_errors=True)


# ------------------------------------------------------------------ (C5) histories: state that must not matter
def _history(mazes, steps, src, tab):
    """mazes = [(conn, sol)], each built ONCE; steps = [[maze index, ric, ext, eao, use]] run in order in this
    process on those objects.  use: 0 nothing; 1 overwrite the returned tensor in place; 2 render the maze
    (as_pixels) and overwrite that picture; 3 use the maze otherwise (hash, ascii, ==, lattice copy).
    Every step is one ordinary item record: judged against the spec = compared with a fresh object's result."""
    recipe = json.dumps(dict(mazes=[[mz.raw(c), [[int(a), int(b)] for a, b in p]] for c, p in mazes], steps=steps))
    objs = []
    for i, (conn, sol) in enumerate(mazes):
        rp = _REPS[(i + len(steps)) % len(_REPS)]  # representation fixed by the recipe (replay builds the same objects)
        res, m = mz.outcome(lambda: _solved(conn, sol, rp))
        if res != "ok":
            return []  # constructors are judged in observe_maze
        objs.append((m, mz.proj(m), rp))
    out = []
    for k, (mi, ric, ext, eao, use) in enumerate(steps):
        m, pm, rp = objs[mi]
        call = _CALLS[(k + len(mazes)) % len(_CALLS)]
        before = _mstate(m)
        res, t = mz.outcome(lambda: _call(m, (ric, ext, eao), call))
        rec = dict(kind="item", maze=pm, ric=ric, ext=ext, eao=eao, res=res, inp=[], tgt=[], src=f"{src}:step{k}", via="hist", hist=recipe, call=call, rep=rp, argmod=_mstate(m) != before)
        if res == "ok":
            p = _pair(t, tab)
            if p is None:
                rec["res"] = "raise:NotAnImagePair"
            else:
                rec["inp"], rec["tgt"] = p
        out.append(rec)
        if use == 1 and res == "ok":
            _scribble(t)
        elif use == 2:
            r2, px = mz.outcome(lambda: m.as_pixels(show_endpoints=True, show_solution=True))
            if r2 == "ok":
                _scribble(px)
        elif use == 3:
            mz.outcome(lambda: (hash(m), m.as_ascii(), m == _solved(*mazes[mi]), m.as_pixels(show_endpoints=True, show_solution=False), mz.LatticeMaze(connection_list=m.connection_list).as_pixels()))
    return out


def _one_maze(rng, gen, r, c):
    try:
        conn = np.array(_gen_conn(rng, gen, r, c), dtype=bool)
        assert conn.shape == (2, r, c)
    except Exception:  # noqa: BLE001
        conn = mz.rand_conn(rng, r, c, 0.4)
    conn[0, -1, :] = False
    conn[1, :, -1] = False
    ps = _paths_for(conn, rng, r, c)
    return conn, ps[int(rng.integers(len(ps)))]


_SIZE_SEQ = [(10, 10), (8, 8), (8, 5), (5, 5), (3, 5), (3, 2), (2, 2)]


def observe_history(args):
    seed, k = args
    rng = np.random.default_rng([seed, 317, k])
    tab = _palette()
    if k % 3 != 2:  # ONE maze object under all option combinations in several orders, used / scribbled on in between
        n = int(rng.integers(2, 8))
        conn, sol = _one_maze(rng, ["rand_perc", "gen_percolation", "gen_dfs", "gen_dfs_partial"][k % 4], n, n)
        order = [OPTS[i] for i in rng.permutation(8)]
        a, b = OPTS[int(rng.integers(8))], OPTS[int(rng.integers(8))]
        seq = order + [a, b, a] + order[::-1][:3] + [(True, True, False), (False, False, True), (True, True, False)]
        steps = [[0, o[0], o[1], o[2], int(rng.integers(0, 4))] for o in seq]
        return _history([(conn, sol)], steps, f"hist:one:{seed}:{k}", tab)
    # the same functions on different shapes in one process: decreasing, increasing, scrambled; narrow then wide
    shapes = list(_SIZE_SEQ)
    mode = (k // 3) % 3
    if mode == 1:
        shapes = shapes[::-1]
    elif mode == 2:
        shapes = [shapes[i] for i in rng.permutation(len(shapes))]
    shapes += [(3, 2), (3, 7), (7, 3), (2, 3)]
    mazes = [_one_maze(rng, ["rand_perc", "gen_dfs", "gen_percolation"][i % 3], r, c) for i, (r, c) in enumerate(shapes)]
    steps = []
    for i in range(len(mazes)):
        o = OPTS[int(rng.integers(8))]
        steps += [[i, o[0], o[1], o[2], int(rng.integers(0, 3))], [i, not o[0], o[1], not o[2], 0]]
    steps += [[0, True, True, False, 0], [len(mazes) - 1, True, True, False, 0], [0, True, False, True, 0]]  # back to the first shape
    return _history(mazes, steps, f"hist:sizes:{seed}:{k}", tab)


def observe_ds_sizes(args):
    """datasets of different grid sizes built and read in ONE process: decreasing, then up again"""
    seed, k = args
    rng = np.random.default_rng([seed, 417, k])
    tab = _palette()
    out, prelude = [], []
    lists = lambda n: _idx_lists(n, rng) + ["all"]  # noqa: E731
    sizes = [8, 5, 3, 2, 6] if k % 2 == 0 else [6, 4, 2, 5]
    tmp = tempfile.mkdtemp(prefix="c17_", dir=str(lib.WORK))
    try:
        for j, n in enumerate(sizes):
            opts = OPTS[(k + 3 * j) % 8]
            if k % 2 == 0:
                pms = []
                for _ in range(int(rng.integers(2, 4))):
                    conn, p = _one_maze(rng, ["rand_perc", "gen_dfs"][j % 2], n, n)
                    pms.append(dict(kind="SolvedMaze", R=n, C=n, conn=mz.raw(conn), start=list(p[0]), end=list(p[-1]), sol=[list(x) for x in p]))
                recipe = dict(how="base", mazes=pms, default=False, prelude=list(prelude))
                out += _observe_recipe(recipe, opts, lists, f"ds:sizes:base:{seed}:{k}:{j}:{n}", tab)
            else:
                recipe = dict(how="config", gen="gen_dfs", kwargs={}, grid_n=n, n_mazes=3, seed=int(rng.integers(0, 2**31 - 1)), prelude=list(prelude))
                if not _silenced(lambda: _plain_generates(recipe, tmp)):
                    continue
                out += _observe_recipe(recipe, opts, lists, f"ds:sizes:config:{seed}:{k}:{j}:{n}", tab, tmp)
            prelude.append([{x: y for x, y in recipe.items() if x != "prelude"}, list(opts)])
    finally:
        shutil.rmtree(tmp, ignore_errors=True)
    return out


# ------------------------------------------------------------------ (C6) magnitude boundaries
def observe_big(args):
    """grids whose picture (2n+1) and extended picture (4n+4) cross 127/128 and 255/256; solutions of >= 256 cells
    where the graph allows; isolated cells at the largest coordinates"""
    r, c, seed = args
    rng = np.random.default_rng([seed, 517, r, c])
    tab = _palette()
    conn = np.array(_gen_conn(rng, "gen_dfs", r, c), dtype=bool)
    conn[0, -1, :] = False
    conn[1, :, -1] = False
    for cell in ((r - 1, c - 1), (0, c - 1)):  # cut two corner cells off: isolated cells at the far coordinates
        for nb in mz.nbrs(conn, cell):
            lo = min(cell, nb)
            conn[0 if cell[0] != nb[0] else 1, lo[0], lo[1]] = False
    best = None
    for s in ((0, 0), (r - 1, 0), (r // 2, c // 2)):
        d = mz.bfs(conn, s)
        far = max(d.values())
        if best is None or far > best[0]:
            best = (far, s, d)
    far, s, d = best
    want = min(far, 300)
    t = min((x for x in d if d[x] == want))
    out = []
    src = f"big:{r}x{c}:{seed}"
    p = _rand_shortest(conn, s, t, rng)
    # representations: int8 solutions (as loaded from a minimal serialization) where every coordinate fits - on grid 65 the
    # pixel coordinate 2 * 64 + 1 does not fit int8 any more; int32 / Fortran order / classmethod routes elsewhere
    small = max(r, c) <= 127
    out += observe_maze(conn, p, src, tab, opts=[(True, True, False), (False, True, True), (True, False, True)], rep="i8" if small else "i32")
    out += observe_maze(conn, [(r - 1, c - 1)], src + ":iso", tab, opts=[(True, True, False), (False, True, False), (False, False, True)], rep="i8" if small else "fconn")
    a = (r - 1, c - 2)
    nb = mz.nbrs(conn, a)
    if nb:
        out += observe_maze(conn, [a, nb[0]], src + ":len2", tab, opts=[(True, True, True), (False, True, False)], rep="from_lattice" if small else "view")
    return out


def observe_bigds(args):
    """a dataset of 260 items: get_batch / dataset[i] with indices beyond 127 and 255"""
    seed, n_items = args
    rng = np.random.default_rng([seed, 617])
    tab = _palette()
    pms = []
    for _ in range(n_items):
        conn, p = _one_maze(rng, "rand_perc", 3, 3)
        pms.append(dict(kind="SolvedMaze", R=3, C=3, conn=mz.raw(conn), start=list(p[0]), end=list(p[-1]), sol=[list(x) for x in p]))
    n = n_items
    lists = lambda _n: [[0, 127, 128, 129, 255, 256, n - 1], [n - 1, 256, 255, 128, 127, 0], [128], [256, 256, 0], list(range(n - 1, -1, -1)), [int(x) for x in rng.integers(0, n, size=40)], "all"]  # noqa: E731
    opts = (True, False, True)
    recipe = dict(how="base", mazes=pms, default=False, biglists=True)
    return _observe_recipe(recipe, opts, lists, f"ds:big:{seed}:{n}", tab)


# ------------------------------------------------------------------ (C4) post-processing helpers on arbitrary images
_HREPS = ["u8", "i64", "fortran", "view", "i32", "ro"]


def _helper(kind, img, tab, src, rep="u8"):
    """the image is the caller's own array in the representation `rep` (audit 2, classes E, G): uint8 C-order (what
    as_pixels returns), int64 / int32, Fortran-ordered, a non-contiguous view into a larger picture whose surroundings
    are OPEN pixels (nothing outside the image counts), read-only.  After the call the array is compared with a snapshot
    (argmod) and the result is tested for shared memory (alias); the result is read BEFORE anything is touched, so both
    are reported on their own (Layer M) and the returned image is judged for what it is."""
    R = _rast()
    fn = getattr(R, "_remove_isolated_cells" if kind == "ric" else "_extend_pixels", None)
    rec = dict(kind=kind, img=img, res="na", out=[], src=src, rep=rep, argmod=False, alias=False)
    if fn is None:
        return rec
    rgb = np.array(tab, dtype=np.uint8)[np.array(img, dtype=int)]
    if rep == "i64":
        rgb = rgb.astype(np.int64)
    elif rep == "i32":
        rgb = rgb.astype(np.int32)
    elif rep == "fortran":
        rgb = np.asfortranarray(rgb)
    elif rep == "view":
        wide = np.full((rgb.shape[0] + 3, rgb.shape[1] + 4, 3), np.array(tab[1], dtype=np.uint8), dtype=np.uint8)
        wide[1:1 + rgb.shape[0], 2:2 + rgb.shape[1]] = rgb
        rgb = wide[1:1 + rgb.shape[0], 2:2 + rgb.shape[1]]
    elif rep == "ro":
        rgb.flags.writeable = False
    snap = rgb.copy()
    res, o = mz.outcome(lambda: fn(rgb))
    rec["res"] = res
    rec["argmod"] = not (rgb.shape == snap.shape and rgb.dtype == snap.dtype and np.array_equal(rgb, snap))
    if res == "ok":
        try:
            a = _arr(o)
            if a.ndim != 3:
                raise ValueError
            rec["out"] = _codes(a, tab).tolist()
            rec["alias"] = bool(isinstance(o, np.ndarray) and np.shares_memory(o, rgb))
        except Exception:  # noqa: BLE001
            rec["res"] = "raise:NotAnImage"
    return rec


def observe_helpers(args):
    mode, a, b, seed = args
    tab = _palette()
    out = []
    if mode == "ex":  # every wall/open image of shape a x b
        for n in range(2 ** (a * b)):
            img = [[(n >> (i * b + j)) & 1 for j in range(b)] for i in range(a)]
            out.append(_helper("ric", img, tab, f"img:ex:{a}x{b}:{n}", _HREPS[(n + a) % len(_HREPS)]))
            if n % 4 == 0 or a * b <= 4:
                out.append(_helper("ext", img, tab, f"img:ex:{a}x{b}:{n}", _HREPS[(n // 4 + b) % len(_HREPS)]))
    else:  # random coloured images (all five codes), sparse and dense
        for k in range(a, b):
            rng = np.random.default_rng([seed, 217, k])
            h, w = int(rng.integers(1, 10)), int(rng.integers(1, 10))
            dens = float(rng.choice([0.15, 0.35, 0.6]))
            img = np.where(rng.random((h, w)) < dens, rng.integers(1, 5, size=(h, w)), 0).tolist()
            out.append(_helper("ric", img, tab, f"img:rnd:{seed}:{k}", _HREPS[k % len(_HREPS)]))
            out.append(_helper("ext", img, tab, f"img:rnd:{seed}:{k}", _HREPS[(k + 3) % len(_HREPS)]))
    return out


# ------------------------------------------------------------------ canaries (hand-made records)
_CH = {"#": 0, " ": 1, "S": 2, "E": 3, "X": 4}
# 2x3: (0,0)-(0,1), (0,1)-(1,1), (1,1)-(1,2); cells (0,2) and (1,0) have no connection (isolated)
_CONN_B = [[[0, 1, 0], [0, 0, 0]], [[1, 0, 0], [0, 1, 0]]]
_SOL_B = [[0, 0], [0, 1], [1, 1]]
_B_IN = ["#######", "#S  # #", "### ###", "# #E  #", "#######"]
_B_IN_RIC = ["#######", "#S  ###", "### ###", "###E  #", "#######"]
_B_TG = ["#######", "#S  ###", "### ###", "###E###", "#######"]
_B_TG_OPEN = ["#######", "#   ###", "### ###", "### ###", "#######"]
_B2_IN = ["#######", "#E  # #", "### ###", "# #S  #", "#######"]  # the same maze solved backwards
_B2_TG = ["#######", "#E  ###", "### ###", "###S###", "#######"]
# 2x2 without connections, one-cell solution on (1,0)
_CONN_C = [[[0, 0], [0, 0]], [[0, 0], [0, 0]]]
_C_IN = ["#####", "# # #", "#####", "#E# #", "#####"]
_C_TG = ["#####", "#####", "#####", "#E###", "#####"]
_C_WALL = ["#####"] * 5


def _img(art):
    return [[_CH[ch] for ch in row] for row in art]


def _ext(img):
    """hand-written pixel extension (harness code, independent of the library)"""
    w = 2 * len(img[0]) + 2
    rows = [[0] * w]
    for row in img:
        r2 = [0] + [v for v in row for _ in (0, 1)] + [0]
        rows += [list(r2), list(r2)]
    return rows + [[0] * w]


def _cp(x):
    return json.loads(json.dumps(x))


def _item(pm, opts, inp, tgt):
    ric, ext, eao = opts
    return dict(kind="item", maze=_cp(pm), ric=ric, ext=ext, eao=eao, res="ok", inp=_ext(_img(inp)) if ext else _img(inp), tgt=_ext(_img(tgt)) if ext else _img(tgt), src="hand-made", via="hand",
                call="kw", rep="arr", argmod=False)


def hand_made():
    B = dict(kind="SolvedMaze", R=2, C=3, conn=_CONN_B, start=[0, 0], end=[1, 1], sol=_SOL_B)
    B2 = dict(kind="SolvedMaze", R=2, C=3, conn=_CONN_B, start=[1, 1], end=[0, 0], sol=_SOL_B[::-1])
    C = dict(kind="SolvedMaze", R=2, C=2, conn=_CONN_C, start=[1, 0], end=[1, 0], sol=[[1, 0]])
    D = dict(kind="SolvedMaze", R=1, C=1, conn=[[[0]], [[0]]], start=[0, 0], end=[0, 0], sol=[[0, 0]])  # the smallest maze there is
    # 3x1 (a column): (0,0)-(1,0) connected, (2,0) isolated; two-cell solution going UP
    T = dict(kind="SolvedMaze", R=3, C=1, conn=[[[1], [0], [0]], [[0], [0], [0]]], start=[1, 0], end=[0, 0], sol=[[1, 0], [0, 0]])
    H = dict(
        b000=_item(B, (False, False, False), _B_IN, _B_TG),
        b001=_item(B, (False, False, True), _B_IN, _B_TG_OPEN),
        b100=_item(B, (True, False, False), _B_IN_RIC, _B_TG),
        b010=_item(B, (False, True, False), _B_IN, _B_TG),
        b111=_item(B, (True, True, True), _B_IN_RIC, _B_TG_OPEN),
        c000=_item(C, (False, False, False), _C_IN, _C_TG),
        c100=_item(C, (True, False, False), _C_WALL, _C_WALL),
        c110=_item(C, (True, True, False), _C_WALL, _C_WALL),
        d000=_item(D, (False, False, False), ["###", "#E#", "###"], ["###", "#E#", "###"]),
        d011=_item(D, (False, True, True), ["###", "#E#", "###"], ["###", "# #", "###"]),
        d110=_item(D, (True, True, False), ["###"] * 3, ["###"] * 3),
        t000=_item(T, (False, False, False), ["###", "#E#", "# #", "#S#", "###", "# #", "###"], ["###", "#E#", "# #", "#S#", "###", "###", "###"]),
        t111=_item(T, (True, True, True), ["###", "#E#", "# #", "#S#", "###", "###", "###"], ["###", "# #", "# #", "# #", "###", "###", "###"]),
    )
    i1 = dict(res="ok", inp=_img(_B_IN), tgt=_img(_B_TG))
    i2 = dict(res="ok", inp=_img(_B2_IN), tgt=_img(_B2_TG))
    bt = lambda idxs, rp="list": dict(idxs=idxs, res="ok", out=[[[i1, i2][k]["inp"] for k in idxs], [[i1, i2][k]["tgt"] for k in idxs]], none=False, rep=rp, argmod=False)  # noqa: E731
    H["ds"] = dict(kind="ds", mazes=[B, B2], ric=False, ext=False, eao=False, res="ok", items=[i1, i2],
                   batches=[bt([0, 1]), bt([1, 0]), bt([1, 1, 0]), bt([1]), dict(idxs=[], res="raise:ValueError", out=[], none=False, rep="list", argmod=False),
                            dict(idxs=[], res="ok", out=[[], []], none=False, rep="list", argmod=False),
                            bt([1, 0], "tuple"), bt([1, 0], "gen"), bt([1, 0], "npints"), bt([0, 1], "range"), bt([1, 1, 0], "nd64"),
                            dict(idxs=[], res="raise:ValueError", out=[], none=False, rep="nd64", argmod=False)],
                   src="hand-made", recipe="{}", argmod=False)
    diag = [[1, 0, 0], [0, 1, 0], [0, 0, 2]]
    hx = dict(src="hand-made", rep="u8", argmod=False, alias=False)
    H["ric"] = dict(kind="ric", img=diag, res="ok", out=[[0, 0, 0], [0, 0, 0], [0, 0, 0]], **hx)
    pair = [[1, 3, 0], [0, 0, 1]]
    H["ric2"] = dict(kind="ric", img=pair, res="ok", out=[[1, 3, 0], [0, 0, 0]], **hx)
    H["ext"] = dict(kind="ext", img=pair, res="ok", out=_ext(pair), **hx)
    H["ext1"] = dict(kind="ext", img=[[1, 0, 3]], res="ok", out=[[0] * 8, [0, 1, 1, 0, 0, 3, 3, 0], [0, 1, 1, 0, 0, 3, 3, 0], [0] * 8], **hx)  # 1x3: 4 rows of 8
    return _cp(H)


def make_canaries():
    """[(corrupted hand-made record, clause that must reject it)]"""
    H = hand_made()
    cans = []

    def add(base, clause, fn):
        y = _cp(H[base])
        fn(y)
        y["src"] = "canary:" + clause
        cans.append((y, clause))

    def px(key, yy, xx, ch):
        return lambda y: y[key][yy].__setitem__(xx, _CH.get(ch, ch))

    tr = lambda g: [list(t) for t in zip(*g)]  # noqa: E731
    add("b000", "input_image", px("inp", 1, 2, "X"))  # the path leaks into the input
    add("b000", "input_image", px("inp", 1, 1, " "))  # start mark missing
    add("b000", "input_image", lambda y: (px("inp", 1, 1, "E")(y), px("inp", 3, 3, "S")(y)))  # marks exchanged
    add("b000", "input_image", px("inp", 2, 3, "#"))  # solution passage closed
    add("b000", "input_image", px("inp", 1, 5, "#"))  # an isolated cell removed although not asked
    add("b000", "input_image", px("inp", 1, 1, 9))  # colour outside the table
    add("b000", "input_size", lambda y: y.__setitem__("inp", tr(y["inp"])))
    add("b000", "target_size", lambda y: y["tgt"].pop())
    add("b000", "target_image", px("tgt", 3, 5, " "))  # an open cell off the solution left open
    add("b000", "target_image", px("tgt", 2, 3, "#"))  # in-between pixel of the solution missing
    add("b000", "target_image", px("tgt", 1, 3, "X"))  # solution left in path colour
    add("b000", "target_image", lambda y: y.__setitem__("tgt", _cp(y["inp"])))  # target = input
    add("b000", "target_image", lambda y: (px("tgt", 1, 1, " ")(y), px("tgt", 3, 3, " ")(y)))  # endpoints opened although not asked
    add("b001", "target_image", px("tgt", 1, 1, "S"))  # start kept although endpoints_as_open
    add("b001", "target_image", px("tgt", 3, 3, "E"))
    add("b001", "target_image", px("tgt", 3, 3, "#"))  # end walled instead of opened
    add("b100", "remove_isolated", px("inp", 1, 5, " "))  # isolated cell survives
    add("b100", "remove_isolated", lambda y: y.__setitem__("inp", _img(_B_IN)))  # nothing removed
    add("b100", "remove_isolated", px("inp", 3, 5, "#"))  # an open pixel WITH an open neighbour removed
    add("b100", "remove_isolated", px("inp", 3, 3, "#"))  # the end mark (has an open neighbour) removed
    add("c100", "remove_isolated", lambda y: y.__setitem__("tgt", _img(_C_TG)))  # lone end mark survives
    add("c100", "remove_isolated", lambda y: y.__setitem__("inp", _img(_C_IN)))
    add("c000", "target_image", lambda y: y.__setitem__("tgt", _img(_C_WALL)))  # removed although not asked
    add("c000", "input_image", px("inp", 3, 1, "S"))  # start = end is one END mark
    add("b010", "extend_shape", lambda y: y.__setitem__("inp", [[v for v in row for _ in (0, 1)] for row in ([[0] * 9] + [[0] + r + [0] for r in _img(_B_IN)] + [[0] * 9]) for _ in (0, 1)]))  # pad first, then repeat
    add("b010", "extend_shape", lambda y: y.__setitem__("tgt", _img(_B_TG)))  # not extended
    add("b000", "input_size", lambda y: y.__setitem__("inp", _ext(_img(_B_IN))))  # extended although not asked
    add("b010", "extend_pixels", px("inp", 3, 4, "#"))  # one pixel of a 2x2 block differs
    add("b010", "extend_pixels", px("tgt", 0, 4, " "))  # frame not wall
    add("b010", "extend_pixels", lambda y: y.__setitem__("inp", [r[1:] + [0] for r in y["inp"]]))  # shifted by one pixel
    add("b010", "input_image", lambda y: [y["inp"][a].__setitem__(b, 4) for a in (3, 4) for b in (5, 6)])  # a whole block in path colour
    add("b111", "remove_isolated", lambda y: y.__setitem__("inp", _ext(_img(_B_IN))))  # isolated removal applied after extension = never
    add("b111", "target_image", lambda y: y.__setitem__("tgt", _ext(_img(_B_TG))))
    add("c110", "remove_isolated", lambda y: y.__setitem__("tgt", _ext(_img(_C_TG))))
    add("b000", "raises", lambda y: y.update(res="raise:IndexError", inp=[], tgt=[]))
    add("b100", "raises", lambda y: y.update(res="raise:NotAnImagePair", inp=[], tgt=[]))
    add("b000", "M:input_malformed", lambda y: y["maze"]["sol"].pop(1))
    add("b000", "M:input_malformed", lambda y: y["maze"].update(kind="TargetedLatticeMaze", sol=[]))
    # audit 2: degenerate / column-shaped mazes, argument modification, option representation
    add("d000", "input_image", px("inp", 1, 1, "S"))  # 1x1: start = end is one END mark
    add("d000", "target_image", px("tgt", 1, 1, "#"))  # the one-cell solution missing from the target
    add("d000", "input_size", lambda y: y.__setitem__("inp", _img(["#####", "#E# #", "#####"])))
    add("d011", "target_image", lambda y: [y["tgt"][a_].__setitem__(b_, 3) for a_ in (3, 4) for b_ in (3, 4)])  # endpoint kept although endpoints_as_open (its whole 2x2 block)
    add("d011", "extend_pixels", px("tgt", 3, 3, "E"))  # one pixel of the block only
    add("d011", "extend_shape", lambda y: y.__setitem__("tgt", _img(["###", "# #", "###"])))
    add("d110", "remove_isolated", lambda y: y.__setitem__("inp", _ext(_img(["###", "#E#", "###"]))))  # the lone mark of the smallest maze survives
    add("t000", "input_size", lambda y: y.__setitem__("inp", tr(y["inp"])))  # rows and columns exchanged (7x3 <-> 3x7)
    add("t000", "input_image", lambda y: (px("inp", 1, 1, "S")(y), px("inp", 3, 1, "E")(y)))  # a solution going up drawn downwards
    add("t000", "target_image", px("tgt", 5, 1, " "))  # the isolated cell below shows in the target
    add("t111", "remove_isolated", lambda y: [y["inp"][a_].__setitem__(b_, 1) for a_ in (11, 12) for b_ in (3, 4)])  # isolated cell at the far end survives
    add("t111", "extend_shape", lambda y: y.__setitem__("inp", tr(y["inp"])))  # extended picture with the sides exchanged (8x16)
    add("b000", "M:argument_modified", lambda y: y.update(argmod=True))
    add("b001", "M:argument_modified", lambda y: (y.update(argmod=True), px("tgt", 3, 3, "E")(y)))
    add("b001", "target_image", lambda y: (y.update(argmod=True), px("tgt", 3, 3, "E")(y)))  # ... and a wrong picture stays Layer P
    add("b001", "M:option_representation", lambda y: (y.update(call="npbool"), px("tgt", 1, 1, "S")(y)))
    add("b001", "target_image", lambda y: (y.update(call="dflt"), px("tgt", 1, 1, "S")(y)))  # default not honoured: Layer P
    add("b001", "target_image", lambda y: (y.update(call="pos"), px("tgt", 1, 1, "S")(y)))
    # datasets / batches
    add("ds", "batch_order", lambda y: y["batches"][1].__setitem__("out", _cp(y["batches"][0]["out"])))  # visited in sorted order
    add("ds", "batch_order", lambda y: y["batches"][1]["out"].reverse())  # targets first
    add("ds", "batch_order", lambda y: y["batches"][2]["out"][0].pop())  # an item missing
    add("ds", "batch_order", lambda y: y["batches"][2]["out"][1].__setitem__(2, _cp(y["items"][1]["tgt"])))  # one target from the wrong item
    add("ds", "batch_order", lambda y: y["batches"][3].__setitem__("out", [[_cp(y["items"][0]["inp"])], [_cp(y["items"][0]["tgt"])]]))
    add("ds", "batch_order", lambda y: y["batches"][5].__setitem__("out", _cp(y["batches"][3]["out"])))  # empty list, non-empty batch
    add("ds", "M:batch_layout", lambda y: y["batches"][2].__setitem__("out", tr(y["batches"][2]["out"])))  # [item, in/tgt]
    add("ds", "batch_raises", lambda y: y["batches"][0].update(res="raise:RuntimeError", out=[]))
    add("ds", "batch_raises", lambda y: y["batches"][3].update(res="raise:NotABatch", out=[]))
    add("ds", "batch_order", lambda y: y["batches"][6]["out"][0].reverse())  # a tuple is accepted: what comes back must be in order
    add("ds", "M:batch_index_representation", lambda y: y["batches"][6].update(res="raise:TypeError", out=[]))  # ... refusing it is Layer M
    add("ds", "M:batch_index_representation", lambda y: y["batches"][7]["out"][0].reverse())  # generators / ranges: Layer M throughout
    add("ds", "M:batch_index_representation", lambda y: y["batches"][9].update(res="raise:TypeError", out=[]))
    add("ds", "batch_raises", lambda y: y["batches"][8].update(res="raise:TypeError", out=[]))  # a LIST of numpy ints is a list
    add("ds", "batch_order", lambda y: y["batches"][8]["out"][1].reverse())
    add("ds", "batch_order", lambda y: y["batches"][10].__setitem__("out", _cp(y["batches"][2]["out"][:1] + [y["batches"][2]["out"][1][::-1]])))
    add("ds", "batch_order", lambda y: y["batches"][11].update(res="ok", out=_cp(y["batches"][0]["out"])))  # empty ndarray read as "all"
    add("ds", "M:argument_modified", lambda y: y["batches"][1].update(argmod=True))
    add("ds", "M:argument_modified", lambda y: y.update(argmod=True))
    add("ds", "construct_raises", lambda y: y.update(res="raise:KeyError", items=[], batches=[]))
    add("ds", "target_image", lambda y: y["items"][1]["tgt"][1].__setitem__(5, 1))
    add("ds", "target_image", lambda y: y.update(eao=True))  # option asked for but not applied
    add("ds", "extend_shape", lambda y: y.update(ext=True))  # option asked for but not applied
    add("ds", "remove_isolated", lambda y: y.update(ric=True))
    add("ds", "raises", lambda y: y["items"][0].update(res="raise:IndexError", inp=[], tgt=[]))
    # helpers
    add("ric", "remove_isolated", lambda y: y.__setitem__("out", _cp(y["img"])))  # 8-neighbour isolation keeps the diagonal
    add("ric", "remove_isolated", lambda y: y["out"][2].__setitem__(2, 2))  # a lone mark is an isolated open pixel too
    add("ric2", "remove_isolated", lambda y: y["out"][1].__setitem__(2, 1))  # corner pixel: nothing outside the image is open
    add("ric2", "remove_isolated", lambda y: y["out"][0].__setitem__(1, 0))  # a mark next to an open pixel stays
    add("ric2", "helper_raises", lambda y: y.update(res="raise:ValueError", out=[]))
    add("ric2", "M:helper_unavailable", lambda y: y.update(res="na", out=[]))
    add("ext", "extend_pixels", lambda y: y["out"][1].__setitem__(1, 0))
    add("ext", "extend_shape", lambda y: y.__setitem__("out", tr(y["out"])))
    add("ext", "extend_shape", lambda y: y.__setitem__("out", [r[1:-1] for r in y["out"][1:-1]]))  # no frame
    add("ext1", "extend_shape", lambda y: y.__setitem__("out", [[0] * 4] + [[0, 1, 1, 0]] * 2 + [[0, 0, 0, 0]] * 2 + [[0, 3, 3, 0]] * 2 + [[0] * 4]))  # 1x3 extended as 3x1
    add("ext1", "extend_shape", lambda y: y.__setitem__("out", [[0] * 4] * 4))  # width taken from the height
    add("ric2", "M:argument_modified", lambda y: y.update(argmod=True))
    add("ric2", "M:result_aliases_argument", lambda y: y.update(alias=True))
    add("ext", "M:result_aliases_argument", lambda y: y.update(alias=True, argmod=True))
    return cans


def check_hand_made(chk):
    recs = list(hand_made().values())
    for i, x in enumerate(recs):
        x["id"] = i
    res = lib.oracle("Trace_Raster", recs, tag="hand")
    if res.verdicts:
        raise lib.MachineryError(f"hand-made canary bases are rejected by the oracle: {res.verdicts}")
    chk.notes["hand_made_records_accepted"] = len(recs)


# ------------------------------------------------------------------ judging
class _Capped:
    """keeps at most `cap` rejected records per (clause, record kind, options): a systematic defect
    rejects thousands of records and each would become a replay file"""

    def __init__(self, chk, cap=3):
        self._chk, self._cap = chk, cap
        self.seen = {}

    def __getattr__(self, k):
        return getattr(self._chk, k)

    def judge(self, cases_by_id, res, *, label=""):
        keep = {}
        for rid, clauses in sorted(res.verdicts.items()):
            case = cases_by_id.get(rid, {})
            for cl in clauses:
                key = (cl, case.get("kind"), case.get("ric"), case.get("ext"), case.get("eao"))
                self.seen[key] = self.seen.get(key, 0) + 1
                if self.seen[key] <= self._cap:
                    keep.setdefault(rid, []).append(cl)
        self._chk.judge(cases_by_id, lib.OracleResult(keep, res.states, res.transitions, res.records, res.wall), label=label)


def _case(x):
    """what a replay needs (images are re-observed)"""
    if x["kind"] == "item":
        return {k: x[k] for k in ("kind", "maze", "ric", "ext", "eao", "res", "src", "via", "hist", "call", "rep", "argmod") if k in x}
    if x["kind"] == "ds":
        return dict(kind="ds", ric=x["ric"], ext=x["ext"], eao=x["eao"], res=x["res"], src=x["src"], recipe=x["recipe"], n=len(x["mazes"]),
                    item_res=[i["res"] for i in x["items"]], batches=[[b["idxs"], b["res"], b["none"], b["rep"], b["argmod"]] for b in x["batches"]], argmod=x["argmod"])
    return {k: x[k] for k in ("kind", "img", "res", "out", "src", "rep", "argmod", "alias")}


def _has_isolated(conn):
    """some cell without any connection (remove_isolated_cells has something to do in the input)"""
    c = np.array(conn, dtype=int)
    deg = c[0] + c[1]
    deg[1:, :] += c[0][:-1, :]
    deg[:, 1:] += c[1][:, :-1]
    return bool((deg == 0).any())


def _nontrivial(x):
    if x["kind"] == "item":
        m = x["maze"]
        return len(m["sol"]) >= 2 or x["ric"]
    if x["kind"] == "ds":
        return len(x["mazes"]) >= 2
    return any(v for row in x["img"] for v in row)


def _judge(chk, cap, recs, label, what, **kw):
    lib.judge_with_canaries(cap, "Trace_Raster", recs, make_canaries(), label=label, what=what, case_of=_case, **kw)
    if any(c == "M:input_malformed" for c, _ in chk.divergences):
        raise lib.MachineryError("the driver produced a record outside the scope of the statement (M:input_malformed)")
    by = chk.notes["records_by_kind"]
    for x in recs:
        if x["kind"] == "item":
            chk.count([x["maze"], x["ric"], x["ext"], x["eao"]], _nontrivial(x))
            key = "item/" + x["src"].split(":")[0] + (":" + x["src"].split(":")[3] if x["src"].startswith("rnd") else "") + (":" + x["src"].split(":")[1] if x["src"].startswith(("hist", "big")) else "")
            if len(x["maze"]["sol"]) == 1:
                by["item/solution_of_one_cell"] = by.get("item/solution_of_one_cell", 0) + 1
            if len(x["maze"]["sol"]) == 2:
                by["item/solution_of_two_cells"] = by.get("item/solution_of_two_cells", 0) + 1
            if x["ric"] and _has_isolated(x["maze"]["conn"]):
                by["item/remove_isolated_on_maze_with_isolated_cell"] = by.get("item/remove_isolated_on_maze_with_isolated_cell", 0) + 1
            for k2 in ("item/call=" + x["call"], "item/maze_rep=" + x["rep"]) + (("item/oblong_sides_differ_by_2_or_more",) if abs(x["maze"]["R"] - x["maze"]["C"]) >= 2 else ()) + (("item/one_row_or_one_column",) if min(x["maze"]["R"], x["maze"]["C"]) == 1 else ()):
                by[k2] = by.get(k2, 0) + 1
        elif x["kind"] == "ds":
            chk.count([x["src"], x["recipe"], x["ric"], x["ext"], x["eao"]], _nontrivial(x))
            key = "ds/" + x["src"].split(":")[1]
            by["ds/items"] = by.get("ds/items", 0) + len(x["items"])
            by["ds/batches"] = by.get("ds/batches", 0) + len(x["batches"])
            by["ds/batches_refused_empty"] = by.get("ds/batches_refused_empty", 0) + sum(1 for b in x["batches"] if not b["idxs"] and b["res"] != "ok")
            for b in x["batches"]:
                by["ds/batch_idxs_as=" + b["rep"]] = by.get("ds/batch_idxs_as=" + b["rep"], 0) + 1
            by["ds/items_of_one_cell_solutions"] = by.get("ds/items_of_one_cell_solutions", 0) + sum(1 for m in x["mazes"] if len(m["sol"]) == 1)
            if x["mazes"] and x["mazes"][0]["R"] != x["mazes"][0]["C"]:
                by["ds/oblong"] = by.get("ds/oblong", 0) + 1
        else:
            chk.count([x["kind"], x["img"]], _nontrivial(x))
            key = "helper/" + x["kind"]
            by["helper/image_as=" + x["rep"]] = by.get("helper/image_as=" + x["rep"], 0) + 1
        by[key] = by.get(key, 0) + 1


def main(chk: lib.Check) -> int:
    thorough = chk.tier == "thorough"
    chk.rule = (
        "cases = (solved maze, remove_isolated_cells, extend_pixels, endpoints_as_open): exhaustive over all connection structures of the "
        "listed tiny shapes x every ordered (start, end) incl. start = end x every shortest path x the 8 option combinations; seeded random mazes "
        "from gen_dfs, gen_wilson, gen_percolation, gen_dfs_percolation, gen_prim, partial dfs and harness percolation (many isolated cells), grid 2..10 "
        "(every size with every generator, some oblong), with random / farthest / adjacent (two-cell) / one-cell (also on an isolated cell) / non-shortest "
        "solutions and the library's own generate_random_path; hand-built mazes with isolated cells; datasets (from_base_MazeDataset with explicit and "
        "default options, from_config_augmented for the five generators) with every item and index lists in order, reversed, repeated, single, random, "
        "empty and None; the two post-processing helpers on every wall/open image up to 3x3 (+3x4, 4x3) and random coloured images up to 9x9. "
        "histories on one maze / dataset object and across shapes in one process (results overwritten in between); grids 33, 65, 2x130, 130x2 and a 260-item dataset. "
        "audit 2: every maze object is built in one of 10 representations / routes (solution as list, tuple, int8, int32, strided view; Fortran-ordered connection_list; "
        "from_lattice_maze, from_targeted_lattice_maze, constructor with generation_meta) and the options are handed over as keywords, positionally, by omission of the "
        "documented defaults, as numpy.bool_; hand-built oblong / 1xN / Nx1 / 1x1 mazes with one- and two-cell solutions; datasets of those along every construction route; "
        "stale config fields; helper images as uint8 / int64 / int32 / Fortran / non-contiguous view / read-only; arguments snapshotted before and compared after every call. "
        "non-trivial = solution of >= 2 cells or remove_isolated_cells on (items), >= 2 mazes (datasets), image with an open pixel (helpers)"
    )
    chk.notes["records_by_kind"] = {}
    # ---- (A) design-level model checking
    r = lib.tlc_design("Raster", "Raster_small.cfg", expect_actions=["Pick", "Rasterize", "Images", "Batches"], tag="s")
    chk.add_model("Raster/small", r, "all graphs of shapes <= 2x3/3x2 x all (start,end) x all simple paths x 8 option combinations: mechanism = statement + clause-style theorems; "
                  "remove_isolated / extend on all 3-colour images <= 2x3, 3x2 and wall/open 3x3; batches of 3 abstract items for all index lists of length <= 3")
    for v, inv, what in [
        ("leak", "InputHidesSolution", "path not hidden in the input"),
        ("recolour_order", "TargetShowsOnlySolution", "path -> open before open -> wall: the target is emptied"),
        ("nbr8", "IsolatedMeans4Nbr", "isolation judged on 8 neighbours"),
        ("pad_first", "ExtendShape", "frame added before the pixels are doubled"),
        ("post_order", "IsolatedCellsWalled", "isolated cells removed after extension (never isolated any more)"),
        ("batch_sorted", "BatchOrder", "batch visits the indices in sorted order"),
        ("ext_square", "ExtendShape", "width of the framed picture computed from its height (only an oblong maze shows it)"),
        ("ric_open_only", "IsolatedCellsWalled", "only OPEN-coloured pixels are candidates: the lone END mark of a one-cell solution on an isolated cell survives"),
    ]:
        r = lib.tlc_expect_violation("Raster", f"Raster_{v}.cfg", inv, tag=v, workers=2)
        chk.add_model(f"Raster/{v}(expected violation)", r, f"broken mechanism rejected by {inv}: {what}")

    if thorough:
        r = lib.tlc_design("Raster", "Raster_3x3.cfg", tag="3")
        chk.add_model("Raster/3x3", r, "all 4096 graphs of 3x3 x all (start,end) x all simple paths x 8 option combinations: mechanism = statement + clause-style theorems")

    cap = _Capped(chk)
    check_hand_made(chk)
    # ---- (C1) exhaustive tiny scope on the real code
    shapes = [(1, 1), (2, 2), (1, 2), (2, 1), (1, 3), (3, 1)] + ([(2, 3), (3, 2), (1, 4), (4, 1)] if thorough else [])
    jobs = []
    for rr, cc in shapes:
        n = mz.n_graphs(rr, cc)
        step = max(1, n // 16)
        jobs += [(rr, cc, lo, min(n, lo + step)) for lo in range(0, n, step)]
    rng = np.random.default_rng([chk.seed, 1])
    sampled = [(3, 3, 48)] if thorough else [(2, 3, 12), (3, 2, 12), (3, 3, 2)]  # seeded graphs of the next shapes
    for rr, cc, cnt in sampled:
        jobs += [(rr, cc, int(g), int(g) + 1) for g in sorted(rng.choice(mz.n_graphs(rr, cc), size=cnt, replace=False).tolist())]
    recs = [x for sub in lib.pmap(observe_graphs, jobs) for x in sub]
    chk.sample(next(x for x in recs if len(x["maze"]["sol"]) >= 3 and x["ric"] and not x["ext"] and x["eao"]))
    _judge(chk, cap, recs, "tiny", "exhaustive tiny shapes x 8 option combinations, judged per image against Raster.tla")
    chk.exhaustive = True
    chk.notes["exhaustive_scope"] = "all graphs x all ordered (start,end) incl. equal x all shortest paths x 8 option combinations for shapes " + str(shapes) + " + seeded graphs (shape, count): " + str(sampled)

    # ---- (C2) generators, hand-built mazes
    nrand = 3000 if thorough else 112
    per = 500
    for b0 in range(0, nrand, per):
        recs = [x for sub in lib.pmap(observe_random, [(chk.seed, k, 10) for k in range(b0, min(nrand, b0 + per))], chunksize=2) for x in sub]
        if b0 == 0:
            recs += [x for sub in lib.pmap(observe_hand, range(len(_hand_mazes()))) for x in sub]
            big = [x for x in recs if x["maze"]["R"] >= 8 and x["ric"] and x["ext"] and len(x["maze"]["sol"]) > 5]
            if big:
                chk.sample({k: v for k, v in big[0].items() if k not in ("inp", "tgt")} | {"inp_shape": [len(big[0]["inp"]), len(big[0]["inp"][0]) if big[0]["inp"] else 0]})
        _judge(chk, cap, recs, f"rnd{b0}", "seeded random mazes of all generators (grid 2..10) + hand-built mazes x 8 option combinations")
    chk.notes["random_graphs"] = nrand

    # ---- (C3) datasets and batches
    nds = 960 if thorough else 96
    recs = [x for sub in lib.pmap(observe_dataset, [(chk.seed, k, 10 if thorough else 7) for k in range(nds)], chunksize=2) for x in sub]
    built = sum(1 for x in recs if x["src"].endswith("pass0"))
    chk.notes["datasets_skipped_generation_raises"] = nds - built
    if built < nds // 2:
        raise lib.MachineryError(f"only {len(recs)} of {nds} datasets could be built")
    small = [x for x in recs if x["res"] == "ok" and len(x["mazes"]) == 2 and x["mazes"][0]["R"] <= 3]
    if small:
        chk.sample({k: v for k, v in small[0].items() if k not in ("items", "batches")} | {"batch_idxs": [b["idxs"] for b in small[0]["batches"]]})
    plan = ds2_jobs(thorough)
    recs += [x for sub in lib.pmap(observe_dataset2, [(chk.seed, j, job) for j, job in enumerate(plan)], chunksize=2) for x in sub]
    chk.notes["datasets_routes_x_shortest_cases_x_stale_state"] = len(plan)
    _judge(chk, cap, recs, "ds", "RasterizedMazeDataset[i] judged per image; get_batch(idxs) compared item by item with dataset[idxs[k]]; construction routes from_base_MazeDataset "
           "(full / partial / empty / no added_params, base already rasterized with the opposite options, base filtered / metadata collected), direct constructor, "
           "from_config_augmented; configs whose n_mazes / grid_n disagree with the mazes; index lists as list / tuple / ndarray / numpy ints / range / generator")

    # ---- (C5) histories: the same objects / functions / datasets used repeatedly in one process
    nh = 240 if thorough else 48
    recs = [x for sub in lib.pmap(observe_history, [(chk.seed, k) for k in range(nh)], chunksize=2) for x in sub]
    recs += [x for sub in lib.pmap(observe_ds_sizes, [(chk.seed, k) for k in range(32 if thorough else 8)]) for x in sub]
    _judge(chk, cap, recs, "hist", "histories in one process: one maze object under all option combinations in several orders (A-B-A, with/without, returned tensors and rendered "
           "pictures overwritten in between), mazes of decreasing / increasing / scrambled shapes, datasets of different grid sizes in sequence; every step judged like a fresh call")
    chk.notes["history_steps"] = len(recs)

    # ---- (C6) magnitude boundaries: pictures wider than 127 / 255 pixels, solutions of >= 256 cells, dataset indices > 127 / 255
    bigs = [(33, 33), (65, 65), (2, 130), (130, 2)] + ([(64, 40), (100, 3), (16, 16)] if thorough else [])
    recs = [x for sub in lib.pmap(observe_big, [(r_, c_, chk.seed) for r_, c_ in bigs]) for x in sub]
    recs += [x for sub in lib.pmap(observe_bigds, [(chk.seed, 260)] + ([(chk.seed + 1, 1030)] if thorough else [])) for x in sub]
    chk.notes["big_shapes"] = str(bigs)
    chk.notes["longest_solution"] = max(len(x["maze"]["sol"]) for x in recs if x["kind"] == "item")
    chk.notes["widest_image"] = max(len(x["inp"][0]) for x in recs if x["kind"] == "item" and x["inp"])
    _judge(chk, cap, recs, "big", "grids 33, 65, 2x130, 130x2 (pictures up to 261 and extended pictures up to 524 pixels wide: pixel coordinates cross 127/128 and 255/256; solutions up to 301 cells; isolated cells at the largest coordinates); "
           "a dataset of 260 items read and batched at indices 127, 128, 255, 256, 259", min_per_shard=4)

    # ---- (C4) post-processing helpers on arbitrary images
    ex = [(1, 1), (1, 2), (2, 1), (2, 2), (1, 3), (3, 1), (2, 3), (3, 2), (3, 3)] + ([(3, 4), (4, 3)] if thorough else [])
    nimg = 4000 if thorough else 600
    jobs = [("ex", a, b, 0) for a, b in ex] + [("rnd", lo, min(nimg, lo + 100), chk.seed) for lo in range(0, nimg, 100)]
    recs = [x for sub in lib.pmap(observe_helpers, jobs) for x in sub]
    _judge(chk, cap, recs, "img", "_remove_isolated_cells / _extend_pixels on arbitrary images (every wall/open image of the small shapes, random coloured images)")
    chk.notes["helper_image_shapes_exhaustive"] = str(ex)
    chk.notes["rejected_record_groups"] = {"|".join(map(str, k)): v for k, v in sorted(cap.seen.items(), key=str)}
    chk.assumptions = [
        "TLC, CommunityModules JSON reader, CPython/numpy/torch",
        "RGB triples are mapped to palette codes with the library's own PixelColors table; the RGB values themselves are not judged",
        "input generation (shortest paths, random walks, hand-built mazes) is harness code; the oracle re-checks that every maze is a well-formed solved maze",
        "dataset generation (MazeDataset.from_config) is not judged here; configurations whose plain generation raises are skipped",
        "shapes beyond the exhaustive list are sampled, not exhaustive",
    ]
    return chk.finish(
        "Raster.tla checked exhaustively on small shapes (mechanism = statement, clause-style theorems, six broken mechanisms rejected); every recorded real "
        "image pair, dataset item, batch and helper result judged by the TLA+ oracle built on the same definitions"
    )


def _replay_ds(recipe, opts, lists, tab, tmp, src):
    return _observe_recipe(recipe, opts, lists, src, tab, tmp)


def replay(path: str) -> int:
    """re-runs the stored case - for histories the WHOLE history (all steps / both passes / the datasets
    built before it in the same process) - against the real code and re-judges every record of it"""
    d = json.load(open(path))
    case = d["case"]
    tab = _palette()
    kind = case.get("kind", "item")
    if kind == "item" and case.get("hist"):
        h = json.loads(case["hist"])
        recs = _history([(np.array(c, dtype=bool), [tuple(x) for x in p]) for c, p in h["mazes"]], h["steps"], "replay", tab)
    elif kind == "item":
        pm = case["maze"]
        recs = observe_maze(np.array(pm["conn"], dtype=bool), pm["sol"], "replay", tab, opts=[(case["ric"], case["ext"], case["eao"])], rep=case.get("rep", "arr"), calls=[case.get("call", "kw")])
    elif kind == "ds":
        recipe = json.loads(case["recipe"])
        opts = (case["ric"], case["ext"], case["eao"])
        bl = [("all" if b[2] else b[0] if len(b) < 4 or b[3] == "list" else dict(rep=b[3], idxs=b[0])) for b in case["batches"]]
        if case.get("src", "").endswith("pass1"):
            bl = bl[::-1]
        tmp = tempfile.mkdtemp(prefix="c17_", dir=str(lib.WORK))
        try:
            for pre, po in recipe.get("prelude", []):  # the datasets this process had built before
                _replay_ds(pre, tuple(po), lambda n: [list(range(n)), "all"], tab, tmp, "prelude")
            recs = _replay_ds(recipe, opts, lambda n: bl, tab, tmp, "replay")
        finally:
            shutil.rmtree(tmp, ignore_errors=True)
    else:
        recs = [_helper(kind, case["img"], tab, "replay", case.get("rep", "u8"))]
    for i, x in enumerate(recs):
        x["id"] = i
    out = lib.oracle("Trace_Raster", recs, tag="rp")
    allv = sorted({c for cs in out.verdicts.values() for c in cs})
    v = [c for c in allv if not c.startswith("M:")]
    print("replay:", kind, case.get("src"), "options (ric, ext, eao) =", (case.get("ric"), case.get("ext"), case.get("eao")), "records", len(recs), "res", recs[0]["res"], "verdict:", allv,
          "at", sorted(out.verdicts)[:10])
    if kind == "item" and len(recs) == 1 and recs[0]["inp"] and len(recs[0]["inp"]) <= 24:
        ch = {0: "#", 1: " ", 2: "S", 3: "E", 4: "X"}
        for a_, b_ in zip(recs[0]["inp"], recs[0]["tgt"]):
            print("".join(ch.get(v_, "?") for v_ in a_), "  ", "".join(ch.get(v_, "?") for v_ in b_))
    if v:
        print(f"VIOLATION property=C17 replay={path}")
        return 1
    return 0
