"""C07 — legacy tokenization round-trips and agrees with its modular equivalent.

(A) TokLegacy.tla (the AOTP grammar: Emit as a set of admissible token sequences, Parse, Equivalent,
    DatasetTokens) is model-checked through TokLegacyMC.tla: every graph of the shapes <= 2x2 (and 1x3/3x1)
    x three kinds x {UT, CTT} x EVERY admissible emission; Parse(Emit(m)) = m under the premise, the premise
    is shown necessary (TokLegacy_nopremise.cfg must fail), InEmit == membership in Emit, Equivalent is exact;
    dataset-level reference with a deliberately broken variant that must be rejected.
(C) Trace_TokLegacy.tla judges raw observations of the real code: for a maze and a legacy tokenizer
    configuration both token streams (legacy, modular equivalent) verbatim and the four re-parses
    (legacy/modular x list/space-joined string); MazeDataset.as_tokens with limit x join.

Interpretation decisions
  * from_tokens infers the grid size from the largest index in the adjacency list and builds a SQUARE grid
    (docstring: "only tested for square mazes"); the property's quantifier is "grid sizes 2..20" = grid_n,
    so the ROUND TRIP is judged on square mazes only (an oblong 2x3 maze comes back 3x3 - outside the statement;
    TokLegacy!PadSq / TokLegacy_sqinfer.cfg).  Oblong mazes (audit class D) are observed all the same: their round trip
    is Layer M (the maze itself or the maze padded to the square of side max(R, C)), while the second sentence of the
    statement - both tokenizers emit the same tokens, dataset level = per maze - does not go through from_tokens and
    stays Layer P for them.
  * side effects on the caller's objects (token list handed to from_tokens, maze handed to as_tokens) are not part of
    the statement: Layer M (M:from_tokens_modified_its_argument, M:tokenization_modified_the_maze).  Their CONSEQUENCES
    are Layer P: the string that is parsed is joined from the caller's list after the list call, the maze is compared
    with its value before the calls.
  * a 0/1 connection array that is not boolean is beyond the declared type (ConnectionList = Bool): lax records, every
    clause Layer M.  Fortran-ordered / non-contiguous boolean arrays, start / end / solution as tuple, list, int8 or
    int64 arrays are ordinary mazes (the constructors convert them): Layer P.
  * `cls.from_tokens` returns the kind that the TOKENS denote whatever `cls` is; "same kind" is judged
    against the kind of the maze that was tokenized; cls is rotated over the three classes.
  * equivalence legacy/modular is up to order and orientation of adjacency entries: equal outside the
    adjacency region, equal as multisets of unordered edges inside (TokLegacy!Equivalent).
  * dataset level: out[i] must be Equivalent to a separately observed maze_i.as_tokens(tok) (the shuffle
    is random, so literal equality is not demanded), count = min(limit, n) for limit >= 0 / all for None,
    join => each item is ONE string whose split on single blanks is that token list (re-joined in TLA+).
  * conformance of the real token streams to the TokLegacy grammar (InEmit, spec Parse) is Layer M.
"""
import concurrent.futures as cf
import json
import random

import numpy as np

from harness import lib, mz

MODES = ["AOTP_UT_rasterized", "AOTP_UT_uniform", "AOTP_CTT_indexed"]
MGS = ["none", "n", "20"]
KINDS = ["LatticeMaze", "TargetedLatticeMaze", "SolvedMaze"]
ORACLE = "Trace_TokLegacy"
MAX_REPORTED_PER_CLAUSE = 25


# ------------------------------------------------------------------ input construction (harness side)
def premise_py(conn):
    """input filter only (the oracle re-checks TokLegacy!Premise): every row/column index occurs in a connection"""
    _, r, c = conn.shape
    rows, cols = set(), set()
    for d, i, j in zip(*np.nonzero(conn)):
        a, b = (i, j), (i + (d == 0), j + (d == 1))
        rows.update((a[0], b[0]))
        cols.update((a[1], b[1]))
    return rows == set(range(r)) and cols == set(range(c))


def _bfs_path(conn, s, e):
    import collections

    par = {s: None}
    q = collections.deque([s])
    while q:
        x = q.popleft()
        if x == e:
            break
        for y in mz.nbrs(conn, x):
            if y not in par:
                par[y] = x
                q.append(y)
    if e not in par:
        return None
    p = [e]
    while par[p[-1]] is not None:
        p.append(par[p[-1]])
    return p[::-1]


def _walk(rng, conn, s, maxlen):
    """self-avoiding random walk along connections (a valid but usually non-shortest 'solution')"""
    p = [s]
    seen = {s}
    while len(p) < maxlen:
        nb = [y for y in mz.nbrs(conn, p[-1]) if y not in seen]
        if not nb:
            break
        y = nb[int(rng.integers(0, len(nb)))]
        p.append(y)
        seen.add(y)
    return p


def _snake(n):
    """boustrophedon Hamiltonian path (harness-built): the only s-e path visits all n*n cells"""
    conn = np.zeros((2, n, n), dtype=bool)
    conn[1, :, :-1] = True
    for i in range(n - 1):
        conn[0, i, (n - 1) if i % 2 == 0 else 0] = True
    return conn


def _far_ends(conn):
    """two cells far apart (double BFS): the ends of a longest path when the graph is a tree"""
    d = mz.bfs(conn, (0, 0))
    a = max(d, key=lambda c: (d[c], c))
    d2 = mz.bfs(conn, a)
    b = max(d2, key=lambda c: (d2[c], c))
    return a, b


def _full(r, c):
    """every connection of the r x c lattice (harness-built)"""
    conn = np.ones((2, r, c), dtype=bool)
    conn[0, -1, :] = False
    conn[1, :, -1] = False
    return conn


def _sparse(r, c):
    """about as few connections as the premise allows (harness-built): one horizontal step per row, placed (and
    topped up) so that every column is touched as well.  Mostly two-cell components and isolated cells: one-cell
    solutions at a cell without any neighbour, two-cell solutions that are a whole component."""
    if c == 1:  # a single column: the transposed single row
        t = _sparse(c, r)
        return np.stack([t[1].T, t[0].T])
    conn = np.zeros((2, r, c), dtype=bool)
    covered = set()
    for i in range(r):
        j = min(2 * i, c - 2)
        conn[1, i, j] = True
        covered |= {j, j + 1}
    for j in range(c):
        if j not in covered:
            jj = min(j, c - 2)
            conn[1, j % r, jj] = True
            covered |= {jj, jj + 1}
    return conn


def _gen_conn(rng, gen, r, c):
    """-> (connection list, generation_meta of the generator's maze or None)"""
    if gen == "snake":
        assert r == c
        return _snake(r), None
    if gen == "full":
        return _full(r, c), None
    if gen == "sparse":
        return _sparse(r, c), None
    from maze_dataset.generation import LatticeMazeGenerators as G

    np.random.seed(int(rng.integers(0, 2**31)))
    random.seed(int(rng.integers(0, 2**31)))
    shape = np.array([r, c])
    if gen == "dfs":
        m = G.gen_dfs(shape)
    elif gen == "wilson":
        m = G.gen_wilson(shape)
    elif gen == "dfs_perc":
        m = G.gen_dfs_percolation(shape, p=float(rng.choice([0.1, 0.3, 0.6])))
    else:
        raise ValueError(gen)
    return m.connection_list, m.generation_meta


def _pick_se(rng, conn, how):
    nr, nc = conn.shape[1], conn.shape[2]
    s = (int(rng.integers(0, nr)), int(rng.integers(0, nc)))
    if how == "same":
        return s, s
    if how == "origin":  # the falsy cell: index 0 on both axes, as a one-cell path
        return (0, 0), (0, 0)
    if how == "iso":  # a cell without any connection when there is one (one-cell path in a one-cell component)
        iso = [x for x in mz.cells(nr, nc) if not mz.nbrs(conn, x)]
        if iso:
            s = iso[int(rng.integers(0, len(iso)))]
        return s, s
    if how == "adj":
        for _ in range(50):
            nb = mz.nbrs(conn, s)
            if nb:
                return s, nb[int(rng.integers(0, len(nb)))]
            s = (int(rng.integers(0, nr)), int(rng.integers(0, nc)))
        return s, s
    e = (int(rng.integers(0, nr)), int(rng.integers(0, nc)))
    return s, e


# audit class G: the same maze handed over in another representation.  All of them are values the constructors accept
# as documented (they convert start / end / solution with np.array); "u8" (a 0/1 connection array that is not boolean)
# is beyond the declared type and only ever used with lax = "nonbool_conn" (Layer M).
REPS = ["c", "f", "v", "i8"]
CTORS = ["plain", "factory", "redundant"]


def _rep_conn(conn, rep):
    conn = np.asarray(conn, dtype=bool)
    if rep == "f":  # Fortran-ordered
        return np.asfortranarray(conn)
    if rep == "v":  # a non-contiguous view into the caller's larger buffer; the gaps hold the complement
        big = np.empty((2, conn.shape[1], 2 * conn.shape[2]), dtype=bool)
        big[:, :, 0::2] = conn
        big[:, :, 1::2] = ~conn
        return big[:, :, 0::2]
    if rep == "u8":
        return conn.astype(np.uint8)
    return np.ascontiguousarray(conn)


def _rep_cell(x, rep):
    if rep == "f":
        return (int(x[0]), int(x[1]))
    if rep == "v":
        return [int(x[0]), int(x[1])]
    if rep == "i8":
        return np.array(x, dtype=np.int8)
    return np.array(x)


def _rep_sol(sol, rep):
    if rep == "f":
        return [(int(a), int(b)) for a, b in sol]
    if rep == "v":  # every second row of a larger int64 buffer
        big = np.full((2 * len(sol), 2), 77, dtype=np.int64)
        big[0::2] = np.array(sol).reshape(len(sol), 2)
        return big[0::2]
    if rep == "i8":
        return np.array(sol, dtype=np.int8)
    return np.array(sol)


def _make_maze(conn, kind, s, e, sol, rep="c", ctor="plain", meta=None):
    """ctor (audit class F): "plain" = the class constructors; "factory" = LatticeMaze -> from_lattice_maze /
    from_targeted_lattice_maze; "redundant" = SolvedMaze(..., start_pos=, end_pos=) with the (consistent) redundant
    endpoints spelled out.  meta: generation_meta present (a dict) or absent (None)."""
    conn = _rep_conn(conn, rep)
    if kind == "LatticeMaze":
        return mz.LatticeMaze(connection_list=conn, generation_meta=meta)
    if kind == "TargetedLatticeMaze":
        if ctor == "factory":
            return mz.TargetedLatticeMaze.from_lattice_maze(mz.LatticeMaze(connection_list=conn, generation_meta=meta), _rep_cell(s, rep), _rep_cell(e, rep))
        return mz.TargetedLatticeMaze(connection_list=conn, start_pos=_rep_cell(s, rep), end_pos=_rep_cell(e, rep), generation_meta=meta)
    if ctor == "factory":
        lm = mz.LatticeMaze(connection_list=conn, generation_meta=meta)
        if rep in ("c", "i8"):
            return mz.SolvedMaze.from_lattice_maze(lm, _rep_sol(sol, rep))
        return mz.SolvedMaze.from_targeted_lattice_maze(mz.TargetedLatticeMaze.from_lattice_maze(lm, _rep_cell(sol[0], rep), _rep_cell(sol[-1], rep)), solution=_rep_sol(sol, rep))
    if ctor == "redundant":
        return mz.SolvedMaze(connection_list=conn, solution=_rep_sol(sol, rep), start_pos=_rep_cell(sol[0], rep), end_pos=_rep_cell(sol[-1], rep), generation_meta=meta)
    return mz.SolvedMaze(connection_list=conn, solution=_rep_sol(sol, rep), generation_meta=meta)


def _transposed(m):
    """the maze mirrored at the diagonal (rows <-> columns): same size, kind and token count, different content"""
    c = np.asarray(m.connection_list)
    conn = np.stack([c[1].T, c[0].T])
    sw = lambda p: (int(p[1]), int(p[0]))
    if isinstance(m, mz.SolvedMaze):
        return _make_maze(conn, "SolvedMaze", None, None, [sw(p) for p in m.solution])
    if isinstance(m, mz.TargetedLatticeMaze):
        return _make_maze(conn, "TargetedLatticeMaze", sw(m.start_pos), sw(m.end_pos), None)
    return _make_maze(conn, "LatticeMaze", None, None, None)


def _shape(job):
    """(rows, cols): job["rc"] for an oblong maze, else the square job["n"]"""
    rc = job.get("rc")
    return (int(rc[0]), int(rc[1])) if rc else (job["n"], job["n"])


def build_maze(job):
    """job -> (maze object, effective kind).  Deterministic in the job."""
    rng = np.random.default_rng(job["seed"])
    n = job["n"]
    nr, nc = _shape(job)
    if job.get("g") is not None:
        conn, meta = mz.conn_from_int(nr, nc, job["g"]), None
    else:
        conn, meta = _gen_conn(rng, job["gen"], nr, nc)
    if not job.get("meta"):
        meta = None
    elif meta is None:  # harness-built graph: a small hand-made record
        meta = dict(func_name="harness", grid_shape=[nr, nc], fully_connected=False)
    kind = job["kind"]
    s = e = sol = None
    if kind != "LatticeMaze":
        if job.get("se") == "far":
            s, e = _far_ends(conn)
        elif job.get("se") in ("same", "adj", "rand", "iso", "origin"):
            s, e = _pick_se(rng, conn, job["se"])
        else:
            s, e = tuple(job["se"][0]), tuple(job["se"][1])
        if kind == "SolvedMaze":
            sol = _walk(rng, conn, s, int(rng.integers(2, 3 * n))) if job.get("walk") else _bfs_path(conn, s, e)
            if sol is None:  # disconnected pair: no solution exists, keep the case as a targeted maze
                kind = "TargetedLatticeMaze"
    return _make_maze(conn, kind, s, e, sol, rep=job.get("rep") or "c", ctor=job.get("ctor") or "plain", meta=meta), kind


def tokenizers(mode, mgs_opt, n, as_enum):
    from maze_dataset.tokenization import MazeTokenizer, MazeTokenizerModular, TokenizationMode

    tm = TokenizationMode[mode]
    mgs = None if mgs_opt == "none" else (n if mgs_opt == "n" else 20)
    lt = tm if (as_enum and mgs is None) else MazeTokenizer(tokenization_mode=tm, max_grid_size=mgs)
    # the declared equivalent; from_legacy accepts the tokenizer object or the bare mode
    mt = MazeTokenizerModular.from_legacy(tm if as_enum else lt)
    return lt, mt, mgs


# ------------------------------------------------------------------ observation (real code)
def _tok_list(x):
    """tokens verbatim; anything that is not a list of str is made visible as a marker string so that a
    broken library yields a judged record (VIOLATION), never an oracle type error"""
    if not isinstance(x, (list, tuple)):
        raise TypeError("as_tokens did not return a list")
    return [t if isinstance(t, str) else "<<non-str " + repr(t)[:40] + ">>" for t in x]


def _proj_safe(y):
    if not isinstance(y, mz.LatticeMaze):
        raise TypeError("from_tokens did not return a maze")
    cl = np.asarray(y.connection_list)
    if cl.ndim != 3 or cl.shape[0] != 2:
        raise TypeError("connection_list shape")
    d = mz.proj(y)
    if len(d["start"]) not in (0, 2) or len(d["end"]) not in (0, 2):
        raise TypeError("start/end shape")
    return d


EMPTY_MAZE = dict(kind="", R=0, C=0, conn=[], start=[], end=[], sol=[])


def _reseed(job, salt):
    x = (int(job["seed"][0]) * 1000003 + int(job["seed"][-1]) * 7919 + salt) % (2**31)
    np.random.seed(x)
    random.seed(x)


def _reparse(cls, tok, toks, via, rp, argmod):
    """the two re-parses (list, string) of one token stream, audit class E: the tokens are handed over as the CALLER'S
    OWN list object; the string is joined from that same list AFTER the list call (a call that edits its argument
    spoils the next parse); the list is then overwritten in place BEFORE anything is read from the returned maze."""
    L = list(toks)
    r2, y = mz.outcome(lambda: cls.from_tokens(L, tok))
    if L != list(toks):
        argmod.append(via)
    S = " ".join(L)
    L.reverse()
    L[:] = [PAD_TOKEN] * len(L)
    if r2 == "ok":
        r2, y = mz.outcome(lambda: _proj_safe(y))
    rp.append(dict(via=via, inp="list", res=r2, maze=y if r2 == "ok" else EMPTY_MAZE))
    r2, y = mz.outcome(lambda: cls.from_tokens(S, tok))
    if r2 == "ok":
        r2, y = mz.outcome(lambda: _proj_safe(y))
    rp.append(dict(via=via, inp="str", res=r2, maze=y if r2 == "ok" else EMPTY_MAZE))


PAD_TOKEN = "<PADDING>"


def _scramble_maze(y):
    """the caller overwrites, in place, every array of a maze it was given (a later call must not be affected)"""
    for name in ("connection_list", "start_pos", "end_pos", "solution"):
        a = getattr(y, name, None)
        if isinstance(a, np.ndarray) and a.flags.writeable:
            if a.dtype == bool:
                a[...] = ~a
            else:
                a[...] = a + 1


def observe_rt(job):
    m, kind = build_maze(job)
    lt, mt, mgs = tokenizers(job["mode"], job["mgs"], job["n"], job["as_enum"])
    before = mz.proj(m)
    rec = dict(t="rt", mode=job["mode"], mgs=[] if mgs is None else [mgs], maze=before, job=json.dumps(job), src=job["src"], lax=job.get("lax") or "")
    _reseed(job, 1)
    rec["resL"], tl = mz.outcome(lambda: _tok_list(m.as_tokens(lt)))
    _reseed(job, 2)
    rec["resM"], tm = mz.outcome(lambda: _tok_list(m.as_tokens(mt)))
    rec["tokL"], rec["tokM"] = tl or [], tm or []
    cls = [mz.LatticeMaze, mz.TargetedLatticeMaze, mz.SolvedMaze][(KINDS.index(kind) + job["clsrot"]) % 3]
    rec["cls"] = cls.__name__
    rp, argmod = [], []
    for via, tok, res, toks in (("legacy", lt, rec["resL"], tl), ("modular", mt, rec["resM"], tm)):
        if res == "ok":
            _reparse(cls, tok, toks, via, rp, argmod)
    rec["rp"], rec["argmod"] = rp, argmod
    r3, after = mz.outcome(lambda: mz.proj(m))
    rec["mazemod"] = not (r3 == "ok" and after == before)
    return rec


def _ds_call(rec, ds, tok, limit, join, defaults, scramble=False):
    """one MazeDataset.as_tokens call on the GIVEN dataset / tokenizer objects -> fills rec (copies are logged; with
    `scramble` the returned object is then emptied in place: a later call must not be affected by what the caller
    does with an earlier result)"""

    def call():
        if defaults:  # limit / join left at their defaults (None / False)
            return ds.as_tokens(tok)
        return ds.as_tokens(tok, limit=limit, join_tokens_individual_maze=join)

    holder = []

    def run():
        o = call()
        holder.append(o)
        return list(o)

    rec["res"], out = mz.outcome(run)
    out = out or []
    if not out:
        shape = "empty"
    elif all(isinstance(x, str) for x in out):
        shape = "strs"
    elif all(isinstance(x, (list, tuple)) for x in out):
        shape = "lists"
    else:
        shape = "mixed"
    rec["shape"] = shape
    if shape == "strs":
        rec["strs"] = list(out)
        rec["out"] = [x.split(" ") for x in out]  # harness-side split; re-joined and compared in TLA+
    elif shape == "lists":
        rec["strs"] = []
        rec["out"] = [_tok_list(x) for x in out]
    else:
        rec["strs"], rec["out"] = [], []
    if scramble and holder:
        o = holder[0]
        for x in o if isinstance(o, list) else []:
            if isinstance(x, list):
                x.clear()
        if isinstance(o, list):
            o.clear()
    return rec


def _ds_base(job, mazes, mgs, limit, join):
    return dict(t="ds", mode=job["mode"], via=job["via"], mgs=[] if mgs is None else [mgs], n=len(mazes), mazes=[mz.proj(x) for x in mazes],
                limit=[] if limit is None else [limit], join=bool(join), src=job["src"])


def _ds_mazes(job):
    """the mazes of a dataset job in order; job["dup"]: "object" = the first maze OBJECT once more at the end,
    "equal" = an equal maze built a second time at the end (audit class F: duplicated elements)"""
    mazes = [build_maze(j)[0] for j in job["mazes"]]
    if job.get("dup") == "object" and mazes:
        mazes.append(mazes[0])
    elif job.get("dup") == "equal" and mazes:
        mazes.append(build_maze(job["mazes"][0])[0])
    return mazes


def _ds_build(job, mazes):
    """the dataset object of a job (audit classes E / F / G).
    job["cfg_n"]   the config's n_mazes: "len" (default), "zero", "less", "more" - a stale count (the field is declared
                   compare=False and is not updated by filters); job["cfg_grid"] likewise a grid_n that is not the mazes';
    job["ctor"]    how the mazes are handed to the constructor: "list" (default), "tuple", "iter" (a one-shot iterator),
                   "own-cleared" / "own-reversed" (the caller's own list, emptied / reversed in place AFTER construction);
    job["generated"]  instead of all that: MazeDataset.generate (the usual factory: mazes carry generation_meta),
                   "collected" = generation metadata collected (removed from the mazes) before tokenizing.
    -> (dataset, the mazes the dataset was given, in order)"""
    from maze_dataset import MazeDataset, MazeDatasetConfig

    if job.get("generated"):
        from maze_dataset.generation import LatticeMazeGenerators as G

        cfg = MazeDatasetConfig(name="c07g", grid_n=job["n"], n_mazes=job["nm"], maze_ctor=G.gen_dfs, seed=int(job["seed"][-1]) + 1)
        ds = MazeDataset.generate(cfg, gen_parallel=False)
        if job["generated"] == "collected":
            ds = ds.filter_by.collect_generation_meta()
        return ds, list(ds.mazes)
    n = len(mazes)
    cfg_n = dict(len=n, zero=0, less=max(n - 1, 0), more=n + 2)[job.get("cfg_n") or "len"]
    cfg = MazeDatasetConfig(name="c07", grid_n=job.get("cfg_grid") or job["n"], n_mazes=cfg_n)
    ctor = job.get("ctor") or "list"
    if ctor == "tuple":
        return MazeDataset(cfg, tuple(mazes)), mazes
    if ctor == "iter":
        return MazeDataset(cfg, iter(list(mazes))), mazes
    if ctor in ("own-cleared", "own-reversed"):
        own = list(mazes)
        ds = MazeDataset(cfg, own)
        if ctor == "own-cleared":
            own.clear()
        else:
            own.reverse()
        return ds, mazes
    return MazeDataset(cfg, mazes), mazes


def observe_ds(job):
    lt, mt, mgs = tokenizers(job["mode"], job["mgs"], job["n"], job["as_enum"])
    tok = lt if job["via"] == "legacy" else mt
    _reseed(job, 4)
    res0, built = mz.outcome(lambda: _ds_build(job, _ds_mazes(job)))
    ds, mazes = built if res0 == "ok" else (None, [])
    rec = _ds_base(job, mazes, mgs, job["limit"], job["join"])
    rec["job"] = json.dumps(job)
    _reseed(job, 3)
    rec["perres"], per = mz.outcome(lambda: [_tok_list(x.as_tokens(tok)) for x in mazes])
    rec["per"] = per or []
    rec["res"] = res0
    if rec["res"] != "ok":
        rec.update(shape="empty", strs=[], out=[])
        return rec
    limit = job["limit"]
    if job.get("limit_np") and limit is not None:  # audit class G: a numpy integer where an int is documented
        limit = np.int64(limit)
    _reseed(job, 5)
    return _ds_call(rec, ds, tok, limit, job["join"], job.get("defaults"))


# ------------------------------------------------------------------ histories (audit class A): state must not matter
def _session_ds(job):
    """ONE dataset object and ONE tokenizer object, as_tokens called repeatedly with different limit / join in the
    given order (larger then smaller, with then without join, A-B-A); every call is an ordinary "ds" record.  The
    result of each call is emptied in place by the caller before the next call."""
    from maze_dataset import MazeDataset, MazeDatasetConfig

    mazes = [build_maze(j)[0] for j in job["mazes"]]
    lt, mt, mgs = tokenizers(job["mode"], job["mgs"], job["n"], False)
    tok = lt if job["via"] == "legacy" else mt
    _reseed(job, 3)
    perres, per = mz.outcome(lambda: [_tok_list(x.as_tokens(tok)) for x in mazes])
    res0, ds = mz.outcome(lambda: MazeDataset(MazeDatasetConfig(name="c07", grid_n=job["n"], n_mazes=len(mazes)), mazes))
    out = []
    for k, (limit, join) in enumerate(job["calls"]):
        rec = _ds_base(job, mazes, mgs, limit, join)
        rec.update(perres=perres, per=per or [], job=json.dumps(dict(job, pick=k)), call=k)
        if res0 != "ok":
            rec.update(res=res0, shape="empty", strs=[], out=[])
        else:
            _reseed(job, 10 + k)
            _ds_call(rec, ds, tok, limit, join, False, scramble=True)
        out.append(rec)
    return out


def _session_tok(job):
    """ONE legacy tokenizer object and ONE modular tokenizer object used for mazes of different sizes / kinds in the
    given order (decreasing, scrambled, A-B-A); between observations the objects are USED (vocabulary properties,
    encode/decode).  Per maze an ordinary "rt" record:
      * as_tokens is called twice; the first result is emptied in place by the caller, the second one is logged;
      * from_tokens is called twice on the SAME list object (and twice on the same string); the arrays of the first
        returned maze are overwritten in place by the caller, the second result is logged;
      * then the list objects are overwritten in place with the PREVIOUS maze's tokens and parsed again: a second
        "rt" record for the previous maze (src = history-modified-list)."""
    n_max = max(j["n"] for j in job["mazes"])
    lt, mt, mgs = tokenizers(job["mode"], "none" if job["mgs"] == "none" else "n", n_max, False)
    out = []
    prev = None
    for k, mj in enumerate(job["mazes"]):
        m, kind = build_maze(mj)
        if mgs is not None:  # legitimate use of the tokenizer objects between observations
            mz.outcome(lambda: (len(lt.token_arr), len(lt.tokenizer_map), lt.vocab_size, lt.padding_token_index))
        mz.outcome(lambda: (len(mt.token_arr), mt.vocab_size, mt.is_legacy_equivalent(), mt.name, hash(mt)))
        before = mz.proj(m)
        rec = dict(t="rt", mode=job["mode"], mgs=[] if mgs is None else [mgs], maze=before, src="history", job=json.dumps(dict(job, pick=len(out))), lax="", argmod=[], mazemod=False)
        toks = {}
        for via, tok, salt in (("legacy", lt, 1), ("modular", mt, 2)):
            _reseed(mj, salt)
            r0, first = mz.outcome(lambda: m.as_tokens(tok))
            if r0 == "ok" and isinstance(first, list):
                first.clear()  # the caller may do what it likes with a returned list
            _reseed(mj, salt + 2)
            res, t2 = mz.outcome(lambda: _tok_list(m.as_tokens(tok)))
            toks[via] = (res, t2 or [])
            if res == "ok" and mgs is not None:
                mz.outcome(lambda: tok.decode(tok.encode(t2)))
        rec["resL"], rec["tokL"] = toks["legacy"]
        rec["resM"], rec["tokM"] = toks["modular"]
        cls = [mz.LatticeMaze, mz.TargetedLatticeMaze, mz.SolvedMaze][(KINDS.index(kind) + k) % 3]
        rec["cls"] = cls.__name__
        rp, objs = [], {}
        for via, tok in (("legacy", lt), ("modular", mt)):
            res, tk = toks[via]
            if res != "ok":
                continue
            L = list(tk)
            S = " ".join(tk)
            objs[via] = L
            for inp, arg in (("list", L), ("str", S)):
                r1, y1 = mz.outcome(lambda: cls.from_tokens(arg, tok))
                if r1 == "ok":
                    mz.outcome(lambda: _scramble_maze(y1))  # the caller may do what it likes with a returned maze
                r2, y = mz.outcome(lambda: _proj_safe(cls.from_tokens(arg, tok)))
                rp.append(dict(via=via, inp=inp, res=r2, maze=y if r2 == "ok" else EMPTY_MAZE))
            if L != list(tk):
                rec["argmod"].append(via)
        rec["rp"] = rp
        r3, after = mz.outcome(lambda: mz.proj(m))
        rec["mazemod"] = not (r3 == "ok" and after == before)
        out.append(rec)
        if prev is not None and prev["resL"] == "ok" and prev["resM"] == "ok" and len(objs) == 2:
            rec2 = dict(t="rt", mode=job["mode"], mgs=rec["mgs"], maze=prev["maze"], src="history-modified-list", cls=cls.__name__,
                        resL="ok", resM="ok", job=json.dumps(dict(job, pick=len(out))), lax="", argmod=[], mazemod=False)
            rp2 = []
            for via, tok, key in (("legacy", lt, "tokL"), ("modular", mt, "tokM")):
                L = objs[via]
                L[:] = prev[key]  # same list object, new content
                r2, y = mz.outcome(lambda: _proj_safe(cls.from_tokens(L, tok)))
                rp2.append(dict(via=via, inp="list", res=r2, maze=y if r2 == "ok" else EMPTY_MAZE))
                r2, y = mz.outcome(lambda: _proj_safe(cls.from_tokens(" ".join(L), tok)))
                rp2.append(dict(via=via, inp="str", res=r2, maze=y if r2 == "ok" else EMPTY_MAZE))
                rec2[key] = _tok_list(L)
            rec2["rp"] = rp2
            out.append(rec2)
        # same list objects once more, overwritten with tokens of the SAME LENGTH and kind: the transposed maze
        if rec["resL"] == "ok" and rec["resM"] == "ok" and len(objs) == 2:
            mT = _transposed(m)
            rec3 = dict(t="rt", mode=job["mode"], mgs=rec["mgs"], maze=mz.proj(mT), src="history-modified-list", cls=cls.__name__,
                        job=json.dumps(dict(job, pick=len(out))), lax="", argmod=[], mazemod=False)
            rp3 = []
            for via, tok, key, rk in (("legacy", lt, "tokL", "resL"), ("modular", mt, "tokM", "resM")):
                _reseed(mj, 7)
                rec3[rk], tT = mz.outcome(lambda: _tok_list(mT.as_tokens(tok)))
                rec3[key] = tT or []
                if rec3[rk] != "ok":
                    continue
                L = objs[via]
                L[:] = tT
                r2, y = mz.outcome(lambda: _proj_safe(cls.from_tokens(L, tok)))
                rp3.append(dict(via=via, inp="list", res=r2, maze=y if r2 == "ok" else EMPTY_MAZE))
                r2, y = mz.outcome(lambda: _proj_safe(cls.from_tokens(" ".join(L), tok)))
                rp3.append(dict(via=via, inp="str", res=r2, maze=y if r2 == "ok" else EMPTY_MAZE))
            rec3["rp"] = rp3
            out.append(rec3)
        prev = rec
    return out


def observe(job):
    """-> list of records (a session yields several)"""
    if job["t"] == "session":
        return _session_tok(job) if job["what"] == "tok" else _session_ds(job)
    return [observe_ds(job) if job["t"] == "ds" else observe_rt(job)]


# ------------------------------------------------------------------ case enumeration
def _mix(seed):
    """a deterministic number decorrelated from the counters the other options rotate with"""
    import hashlib

    return int.from_bytes(hashlib.md5(",".join(str(int(x)) for x in seed).encode()).digest()[:6], "big")


def _rt_job(src, n, mode, mgs, kind, seed, **kw):
    """representation of the maze's arrays (REPS), the way it is constructed (CTORS) and generation_meta present /
    absent rotate over ALL cases (audit classes F / G), decorrelated from mode / max_grid_size / kind / endpoints"""
    h = _mix(seed)
    j = dict(t="rt", src=src, n=n, mode=mode, mgs=mgs, kind=kind, seed=list(seed), g=None, gen=None, se=None, walk=False, as_enum=False, clsrot=0,
             rep=REPS[h % 4], ctor=CTORS[(h // 4) % 3], meta=(h // 12) % 2 == 1)
    j.update(kw)
    return j


def _trees(n):
    out = []
    for g in range(mz.n_graphs(n, n)):
        if bin(g).count("1") != n * n - 1:
            continue
        conn = mz.conn_from_int(n, n, g)
        if len(mz.bfs(conn, (0, 0))) == n * n:
            out.append(g)
    return out


def jobs_exhaustive(seed, thorough):
    jobs = []
    k = 0
    # 2x2: every graph satisfying the premise x every kind x every (start, end) x 3 modes x 3 max_grid_size
    cells2 = mz.cells(2, 2)
    b = 0  # block counter: a block has 33 = 0 (mod 3) cases, so k % 3 alone would tie the parsing class to the (s, e, kind) slot
    for g in range(mz.n_graphs(2, 2)):
        conn = mz.conn_from_int(2, 2, g)
        if not premise_py(conn):
            continue
        for mode in MODES:
            for mgs in MGS:
                k += 1
                b += 1
                jobs.append(_rt_job("2x2", 2, mode, mgs, "LatticeMaze", (seed, 1, k), g=g, as_enum=k % 2 == 0, clsrot=(k + b) % 3))
                for s in cells2:
                    for e in cells2:
                        for kind in ("TargetedLatticeMaze", "SolvedMaze"):
                            k += 1
                            jobs.append(_rt_job("2x2", 2, mode, mgs, kind, (seed, 1, k), g=g, se=[list(s), list(e)], as_enum=k % 2 == 0, clsrot=(k + b) % 3))
    # 3x3: every spanning tree (192)
    cells3 = mz.cells(3, 3)
    rng = np.random.default_rng([seed, 2])
    for ti, g in enumerate(_trees(3)):
        if thorough:
            # every (start, end) as a solved maze (mode rotates with the pair, max_grid_size with the tree) ...
            for pi, (s, e) in enumerate((s, e) for s in cells3 for e in cells3):
                k += 1
                jobs.append(_rt_job("3x3tree", 3, MODES[(pi + ti) % 3], MGS[(pi // 3 + ti) % 3], "SolvedMaze", (seed, 2, k), g=g, se=[list(s), list(e)], as_enum=k % 2 == 0, clsrot=k % 3))
            # ... and plain + one targeted under all nine configurations
            for mode in MODES:
                for mgs in MGS:
                    k += 1
                    jobs.append(_rt_job("3x3tree", 3, mode, mgs, "LatticeMaze", (seed, 2, k), g=g, as_enum=k % 2 == 0, clsrot=k % 3))
                    k += 1
                    jobs.append(_rt_job("3x3tree", 3, mode, mgs, "TargetedLatticeMaze", (seed, 2, k), g=g, se="rand", clsrot=k % 3))
        else:
            combos = [(mo, mg) for mo in MODES for mg in MGS]
            for ci, (kind, se) in enumerate([("LatticeMaze", None), ("TargetedLatticeMaze", "rand"), ("TargetedLatticeMaze", "same"), ("SolvedMaze", "rand"), ("SolvedMaze", "adj"), ("SolvedMaze", "same")]):
                k += 1
                mode, mgs = combos[(ti + 4 * ci) % 9]
                jobs.append(_rt_job("3x3tree", 3, mode, mgs, kind, (seed, 2, k), g=g, se=se, as_enum=k % 2 == 0, clsrot=k % 3))
    # 3x3: graphs with cycles / several components that satisfy the premise (seeded sample; thorough: all)
    n33 = mz.n_graphs(3, 3)
    gs = range(n33) if thorough else sorted(rng.choice(n33, size=300, replace=False).tolist())
    for g in gs:
        conn = mz.conn_from_int(3, 3, int(g))
        if not premise_py(conn):
            continue
        k += 1
        kind = KINDS[k % 3]
        jobs.append(_rt_job("3x3graph", 3, MODES[k % 3], MGS[(k // 3) % 3], kind, (seed, 3, k), g=int(g), se=None if kind == "LatticeMaze" else "rand", as_enum=k % 2 == 0, clsrot=k % 3))
    return jobs


def jobs_random(seed, count):
    jobs = []
    gens = ["dfs", "wilson", "dfs_perc"]
    for k in range(count):
        rng = np.random.default_rng([seed, 4, k])
        # half small, a quarter 7..12 (first multi-digit indices), a quarter 13..20; 20 and 11 forced regularly
        u = k % 8
        if u < 4:
            n = int(rng.integers(2, 7))
        elif u < 6:
            n = int(rng.integers(7, 13))
        else:
            n = int(rng.integers(13, 21))
        if k % 40 == 7:
            n = 20
        if k % 40 == 27:
            n = 11
        gen = gens[k % 3]
        if gen == "wilson" and n > 12:
            gen = "dfs"
        kind = KINDS[(k // 3) % 3]
        se = None if kind == "LatticeMaze" else ["rand", "rand", "adj", "same"][(k // 9) % 4]
        jobs.append(_rt_job("random", n, MODES[(k // 2) % 3], MGS[(k // 5) % 3], kind, (seed, 4, k), gen=gen, se=se,
                            walk=(kind == "SolvedMaze" and gen == "dfs_perc" and k % 2 == 0), as_enum=k % 4 == 1, clsrot=k % 3))
    return jobs


OBLONG_SMALL = [(1, 2), (2, 1), (1, 3), (3, 1), (1, 4), (4, 1), (2, 3), (3, 2)]
OBLONG_BIG = [(2, 5), (5, 2), (3, 7), (7, 3), (1, 6), (6, 1), (4, 11), (11, 4), (2, 20), (20, 3), (12, 13), (13, 10), (1, 12), (12, 1), (5, 8), (9, 6)]


def jobs_oblong(seed, thorough):
    """audit class D: rows != cols, both orientations, sides differing by >= 2, 1 x N / N x 1.  Judged: emission
    (as_tokens of both tokenizers, Equivalent) in Layer P, the round trip in Layer M (from_tokens builds square grids)."""
    jobs = []
    k = 0
    variants = [("LatticeMaze", None), ("TargetedLatticeMaze", "rand"), ("SolvedMaze", "rand"), ("SolvedMaze", "adj"), ("SolvedMaze", "same"), ("TargetedLatticeMaze", "same")]
    combos = [(mo, mg) for mo in MODES for mg in MGS]
    for r, c in OBLONG_SMALL:  # every premise-satisfying graph of the small oblong shapes
        gi = 0
        for g in range(mz.n_graphs(r, c)):
            if not premise_py(mz.conn_from_int(r, c, g)):
                continue
            gi += 1
            for vi, (kind, se) in enumerate(variants if thorough else [variants[gi % 6], variants[(gi + 2 + gi // 6) % 6], variants[(gi + 4) % 6]]):
                k += 1
                mode, mgs = combos[(gi + 4 * vi + k) % 9]
                jobs.append(_rt_job("oblong", max(r, c), mode, mgs, kind, (seed, 10, k), rc=[r, c], g=g, se=se, as_enum=k % 2 == 0, clsrot=k % 3))
    gens = ["dfs", "wilson", "dfs_perc", "full", "sparse"]
    for rep in range(4 if thorough else 1):
        for si, (r, c) in enumerate(OBLONG_BIG):
            for vi, (kind, se) in enumerate(variants):
                k += 1
                mode, mgs = combos[(si + 2 * vi + rep) % 9]
                jobs.append(_rt_job("oblong", max(r, c), mode, mgs, kind, (seed, 10, k), rc=[r, c], gen=gens[(si + vi + rep) % 5], se=se, as_enum=k % 4 == 1, clsrot=k % 3))
    return jobs


def jobs_shortest(seed, thorough):
    """audit classes C / H: one-cell solutions (at a random cell, at the cell (0,0), at a cell with no neighbour at all)
    and two-cell solutions, in mazes with EVERY connection and with about as few connections as the premise allows,
    under every mode x max_grid_size, square and oblong; plus generator mazes with the same endpoints."""
    jobs = []
    k = 0
    shapes = [(2, 2), (3, 3), (4, 4), (7, 7), (11, 11), (20, 20), (2, 5), (5, 2), (3, 7), (1, 4), (4, 1)]
    variants = [("LatticeMaze", None), ("TargetedLatticeMaze", "origin"), ("TargetedLatticeMaze", "iso"), ("TargetedLatticeMaze", "adj"),
                ("SolvedMaze", "origin"), ("SolvedMaze", "iso"), ("SolvedMaze", "adj"), ("SolvedMaze", "same")]
    for si, (r, c) in enumerate(shapes):
        for gen in ("full", "sparse") + (("dfs", "dfs_perc") if thorough or r == c else ()):
            for vi, (kind, se) in enumerate(variants):
                for mi, mode in enumerate(MODES):
                    if not thorough and max(r, c) >= 11 and (mi + vi + si) % 3 != 0:
                        continue
                    k += 1
                    jobs.append(_rt_job("shortest", max(r, c), mode, MGS[(mi + vi + si) % 3], kind, (seed, 11, k), rc=None if r == c else [r, c], gen=gen, se=se,
                                        as_enum=k % 2 == 0, clsrot=(k // 3) % 3))
    return jobs


def jobs_lax(seed):
    """audit class G, beyond the declared types: a 0/1 connection array of dtype uint8.  Every clause Layer M."""
    jobs = []
    k = 0
    for n, gen in ((2, "full"), (3, "dfs"), (5, "dfs_perc"), (11, "dfs"), (4, "sparse")):
        for mi, mode in enumerate(MODES):
            k += 1
            kind = KINDS[(k + mi) % 3]
            jobs.append(_rt_job("lax", n, mode, MGS[k % 3], kind, (seed, 12, k), gen=gen, se=None if kind == "LatticeMaze" else ["rand", "same", "adj"][k % 3], rep="u8", lax="nonbool_conn", clsrot=k % 3))
    return jobs


def jobs_dataset_variants(seed, count):
    """audit classes C / E / F / G / D at the dataset level: the EMPTY dataset, a stale n_mazes / grid_n in the config,
    the mazes handed over as tuple / one-shot iterator / the caller's own list emptied or reversed afterwards, a maze
    object (or an equal maze) twice, a numpy integer as limit, datasets made by MazeDataset.generate (generation_meta in
    the mazes / collected), oblong mazes; x limit in {None, 0, 1, n, n+3, n-1} x join x legacy / modular"""
    jobs = []
    cfg_ns = ["len", "zero", "more", "less"]
    ctors = ["list", "tuple", "own-cleared", "own-reversed", "iter"]
    dups = [None, None, "object", "equal"]
    for k in range(count):
        rng = np.random.default_rng([seed, 13, k])
        h = _mix((seed, 13, k))
        n = int(rng.integers(2, 5))
        nm = 0 if k % 6 == 0 else 1 + k % 4
        generated = [None, None, None, None, None, "meta", "collected"][(k // 2) % 7] if nm > 0 else None
        rc = None
        if generated is None and k % 9 == 4:
            rc = [[2, 4], [4, 2], [3, 5], [1, 3]][(k // 9) % 4]
            n = max(rc)
        mazes = [] if generated else [_rt_job("dataset", n, "", "", "SolvedMaze", (seed, 13, k, i), rc=rc, gen=["dfs", "dfs_perc", "wilson", "sparse", "full"][(k + i) % 5], se=["rand", "adj", "same", "origin"][(k + i) % 4]) for i in range(nm)]
        dup = None if generated else dups[h % 4]
        n_eff = nm + (1 if dup and nm else 0)
        limit = [None, 0, 1, n_eff, n_eff + 3, max(n_eff - 1, 0)][(k // 5) % 6]
        jobs.append(dict(t="ds", src="dataset-variant", n=n, nm=nm, mode=MODES[(k // 3) % 3], mgs=MGS[(k // 11) % 3], as_enum=k % 4 == 1, via=["legacy", "modular"][(k // 2) % 2],
                         limit=limit, join=(k // 4) % 2 == 1, defaults=False, seed=[seed, 13, k], mazes=mazes, generated=generated, dup=dup,
                         cfg_n=cfg_ns[(h // 4) % 4], ctor=ctors[(h // 16) % 5], cfg_grid=None if (h // 80) % 3 else n + 3, limit_np=(h // 240) % 2 == 1))
    return jobs


def jobs_dataset(seed, count):
    jobs = []
    for k in range(count):
        rng = np.random.default_rng([seed, 5, k])
        n = 11 if k % 10 == 9 else int(rng.integers(2, 6))
        nm = int(rng.integers(1, 5))
        mazes = [_rt_job("dataset", n, "", "", "SolvedMaze", (seed, 5, k, i), gen=["dfs", "dfs_perc", "wilson"][(k + i) % 3], se=["rand", "adj", "same"][(k + i) % 3]) for i in range(nm)]
        limit = [None, 0, 1, nm, nm + 3, max(nm - 1, 0)][k % 6]
        jobs.append(dict(t="ds", src="dataset", n=n, mode=MODES[(k // 6) % 3], mgs=MGS[(k // 18) % 3], as_enum=k % 4 == 1, via=["legacy", "modular"][(k // 2) % 2],
                         limit=limit, join=(k // 3) % 2 == 1, defaults=(limit is None and (k // 3) % 2 == 0 and k % 12 == 0), seed=[seed, 5, k], mazes=mazes))
    return jobs


def jobs_history(seed, thorough):
    """audit class A: tokenizer / dataset OBJECTS reused across differently sized inputs and options"""
    jobs = []
    orders = [[20, 16, 12, 11, 7, 3, 2], [3, 20, 2, 16, 11, 5, 12], [4, 16, 4, 16], [2, 5, 11, 17]]  # decreasing, scrambled, A-B-A, increasing
    gens = ["dfs", "dfs_perc", "snake"]
    k = 0
    for rep in range(3 if thorough else 1):
        for mi, mode in enumerate(MODES):
            for gi, mgs in enumerate(("none", "max")):
                for oi, order in enumerate(orders):
                    if not thorough and (oi + mi + gi) % 2 == 1:
                        continue
                    k += 1
                    mazes = [_rt_job("history", n, "", "", KINDS[(i + k) % 3], (seed, 6, k, i), gen=gens[(i + k) % 3], se=["rand", "far", "adj", "same"][(i + k) % 4]) for i, n in enumerate(order)]
                    jobs.append(dict(t="session", what="tok", src="history", n=max(order), mode=mode, mgs=mgs, seed=[seed, 6, k], mazes=mazes))
    small_calls = [(None, False), (7, False), (4, True), (1, True), (0, False), (3, True), (None, True), (2, False), (4, False), (1, True), (None, False), (7, False)]
    for mi, mode in enumerate(MODES):
        for vi, via in enumerate(("legacy", "modular")):
            k += 1
            calls = small_calls if (mi + vi) % 2 == 0 else small_calls[::-1]
            mazes = [_rt_job("history-dataset", 3 + mi, "", "", "SolvedMaze", (seed, 7, k, i), gen=gens[(i + k) % 2], se=["rand", "far", "adj", "same"][i]) for i in range(4)]
            jobs.append(dict(t="session", what="ds", src="history-dataset", n=3 + mi, mode=mode, mgs="none", via=via, seed=[seed, 7, k], mazes=mazes, calls=calls))
    # dataset sizes / limits around 100, 128 and 256 on one dataset object, larger limits first
    bigs = [(130, [(129, False), (128, True), (127, False), (None, True), (100, False), (101, True), (0, False)]), (260, [(257, False), (256, False), (255, True), (None, False), (128, True)])]
    for bi, (nm, calls) in enumerate(bigs if thorough else bigs[:1] + [(260, bigs[1][1][:3])]):
        k += 1
        mazes = [_rt_job("history-dataset", 2 + i % 2, "", "", "SolvedMaze", (seed, 8, k, i), gen="dfs", se=["rand", "adj", "same"][i % 3]) for i in range(nm)]
        jobs.append(dict(t="session", what="ds", src="history-dataset", n=3, mode=MODES[(bi + 1) % 3], mgs="none", via=["modular", "legacy"][bi % 2], seed=[seed, 8, k], mazes=mazes, calls=calls))
    return jobs


def jobs_magnitude(seed, thorough):
    """audit class B: quantities crossing 127/128 and 255/256 - cells (12x12 = 144, 16x16 = 256), solution length
    (snake mazes: 144, 256, 400 cells; longest path of a 16x16 / 20x20 dfs tree), and the largest grid the fixed
    vocabulary holds unique coordinate tokens for (50x50; 2500-cell solution).  Beyond the statement's "grid 2..20"
    only in the 50x50 cases, which the unchanged tree passes."""
    jobs = []
    k = 0
    for n in (12, 16, 20):
        for mi, mode in enumerate(MODES):
            k += 1
            jobs.append(_rt_job("magnitude", n, mode, MGS[(mi + n) % 3], "SolvedMaze", (seed, 9, k), gen="snake", se="far", clsrot=k % 3))
            k += 1
            jobs.append(_rt_job("magnitude", n, mode, MGS[(mi + n + 1) % 3], "SolvedMaze", (seed, 9, k), gen="dfs", se="far", clsrot=k % 3))
    for mi, mode in enumerate(MODES):
        k += 1
        jobs.append(_rt_job("magnitude", 16, mode, "none", KINDS[mi % 2], (seed, 9, k), gen="dfs_perc", se=None if mi % 2 == 0 else "far"))
    big = [("AOTP_UT_uniform", "SolvedMaze", "snake"), ("AOTP_UT_rasterized", "SolvedMaze", "dfs"), ("AOTP_CTT_indexed", "TargetedLatticeMaze", "dfs")]
    for mode, kind, gen in big if thorough else big[::2]:
        k += 1
        jobs.append(_rt_job("magnitude", 50, mode, "n", kind, (seed, 9, k), gen=gen, se="far"))
    return jobs


# ------------------------------------------------------------------ canaries: synthetic, hand-made records
# Built WITHOUT the library under test (a broken library must give VIOLATION, never a canary failure).
def _hand_coord(ck, c):
    return ["(%d,%d)" % c] if ck == "UT" else ["(", str(c[0]), ",", str(c[1]), ")"]


def _hand_tokens(ck, entries, start=None, end=None, sol=None):
    t = ["<ADJLIST_START>"]
    for a, b in entries:
        t += _hand_coord(ck, a) + ["<-->"] + _hand_coord(ck, b) + [";"]
    t += ["<ADJLIST_END>"]
    if start is not None:
        t += ["<ORIGIN_START>"] + _hand_coord(ck, start) + ["<ORIGIN_END>", "<TARGET_START>"] + _hand_coord(ck, end) + ["<TARGET_END>"]
    if sol is not None:
        t += ["<PATH_START>"] + [x for c in sol for x in _hand_coord(ck, c)] + ["<PATH_END>"]
    return t


def _hand_maze(kind, n, edges, start=None, end=None, sol=None, nc=None):
    nc = n if nc is None else nc
    conn = [[[0] * nc for _ in range(n)] for _ in range(2)]
    for a, b in edges:
        lo = min(a, b)
        conn[0 if a[0] != b[0] else 1][lo[0]][lo[1]] = 1
    return dict(kind=kind, R=n, C=nc, conn=conn, start=list(start) if start else [], end=list(end) if end else [], sol=[list(c) for c in sol] if sol else [])


def _hand_rt(mode, n, edges, kind, start=None, end=None, sol=None, flipM=True, nc=None, back=None):
    """back: the (hand-made) maze value the four re-parses return, default the maze itself"""
    ck = "CTT" if mode == "AOTP_CTT_indexed" else "UT"
    m = _hand_maze(kind, n, edges, start, end, sol, nc=nc)
    eL = list(edges)
    eM = [(b, a) if (i % 2 == 0 and flipM) else (a, b) for i, (a, b) in enumerate(reversed(edges))]
    rp = [dict(via=v, inp=i, res="ok", maze=json.loads(json.dumps(back or m))) for v in ("legacy", "modular") for i in ("list", "str")]
    return dict(t="rt", mode=mode, mgs=[], maze=m, resL="ok", resM="ok", tokL=_hand_tokens(ck, eL, start, end, sol), tokM=_hand_tokens(ck, eM, start, end, sol), rp=rp, src="canary-base",
                lax="", argmod=[], mazemod=False)


def _canary_bases():
    # 3x3 tree, solved, UT
    e3 = [((0, 0), (0, 1)), ((0, 1), (0, 2)), ((0, 0), (1, 0)), ((1, 0), (2, 0)), ((1, 0), (1, 1)), ((1, 1), (1, 2)), ((2, 0), (2, 1)), ((2, 1), (2, 2))]
    sol3 = [(0, 2), (0, 1), (0, 0), (1, 0), (1, 1)]
    b_ut = _hand_rt("AOTP_UT_uniform", 3, e3, "SolvedMaze", sol3[0], sol3[-1], sol3)
    # 11x11 comb tree, targeted, CTT: multi-digit indices
    e11 = [((0, j), (0, j + 1)) for j in range(10)] + [((i, j), (i + 1, j)) for i in range(10) for j in range(11)]
    b_ctt = _hand_rt("AOTP_CTT_indexed", 11, e11, "TargetedLatticeMaze", (10, 10), (0, 10))
    b_plain = _hand_rt("AOTP_UT_rasterized", 3, e3, "LatticeMaze")
    solc = [(10, 10), (9, 10), (8, 10)]
    b_cs = _hand_rt("AOTP_CTT_indexed", 11, e11, "SolvedMaze", solc[0], solc[-1], solc)
    # dataset: two different 2x2 solved mazes
    ea = [((0, 0), (0, 1)), ((0, 1), (1, 1)), ((1, 1), (1, 0))]
    eb = [((0, 0), (1, 0)), ((1, 0), (1, 1)), ((1, 1), (0, 1))]
    ma = _hand_maze("SolvedMaze", 2, ea, (0, 0), (1, 1), [(0, 0), (0, 1), (1, 1)])
    mb = _hand_maze("SolvedMaze", 2, eb, (0, 1), (0, 1), [(0, 1)])
    ta = _hand_tokens("UT", ea, (0, 0), (1, 1), [(0, 0), (0, 1), (1, 1)])
    tb = _hand_tokens("UT", eb, (0, 1), (0, 1), [(0, 1)])
    ta2 = _hand_tokens("UT", [(b, a) for a, b in reversed(ea)], (0, 0), (1, 1), [(0, 0), (0, 1), (1, 1)])
    d_list = dict(t="ds", mode="AOTP_UT_uniform", via="legacy", mgs=[], n=2, mazes=[ma, mb], limit=[], join=False, perres="ok", per=[ta, tb], res="ok", shape="lists", out=[ta2, tb], strs=[], src="canary-base")
    d_join = dict(d_list, join=True, limit=[1], shape="strs", out=[ta2], strs=[" ".join(ta2)], via="modular")
    # oblong 2x3 tree, solved with a one-cell path at (0,0): the re-parses return the maze on the 3x3 grid (as the code
    # does) / the 2x3 maze itself (as a from_tokens without the square restriction would)
    e23 = [((0, 0), (0, 1)), ((0, 1), (0, 2)), ((0, 0), (1, 0)), ((1, 0), (1, 1)), ((1, 1), (1, 2))]
    pad = _hand_maze("SolvedMaze", 3, e23, (0, 0), (0, 0), [(0, 0)])
    b_ob = _hand_rt("AOTP_UT_uniform", 2, e23, "SolvedMaze", (0, 0), (0, 0), [(0, 0)], nc=3, back=pad)
    b_ob2 = _hand_rt("AOTP_CTT_indexed", 2, e23, "SolvedMaze", (0, 0), (0, 0), [(0, 0)], nc=3)
    # 3x2 (the other orientation), targeted
    e32 = [((0, 0), (1, 0)), ((1, 0), (2, 0)), ((0, 0), (0, 1)), ((1, 0), (1, 1)), ((2, 0), (2, 1))]
    b_ob3 = _hand_rt("AOTP_UT_rasterized", 3, e32, "TargetedLatticeMaze", (2, 1), (0, 0), nc=2, back=_hand_maze("TargetedLatticeMaze", 3, e32, (2, 1), (0, 0)))
    # the empty dataset, and a one-cell path at (0,0) under limit 0
    d_empty = dict(d_list, n=0, mazes=[], per=[], out=[], shape="empty", limit=[3], join=True, via="modular")
    d_zero = dict(d_list, limit=[0], out=[], shape="empty")
    return dict(ut=b_ut, ctt=b_ctt, plain=b_plain, cs=b_cs, dlist=d_list, djoin=d_join, ob=b_ob, ob2=b_ob2, ob3=b_ob3, dempty=d_empty, dzero=d_zero)


def _canaries():
    B = _canary_bases()

    def cp(x):
        return json.loads(json.dumps(x))

    def mod(base, f):
        x = cp(base)
        f(x)
        x["src"] = "canary"
        return x

    out = []

    def flipbit(x):
        x["rp"][0]["maze"]["conn"][1][2][1] ^= 1

    out.append((mod(B["ut"], flipbit), "rt_legacy_list_conn"))
    out.append((mod(B["ut"], lambda x: x["rp"][1]["maze"].update(kind="TargetedLatticeMaze")), "rt_legacy_str_kind"))

    def swapse(x):
        y = x["rp"][2]["maze"]
        y["start"], y["end"] = y["end"], y["start"]

    out.append((mod(B["ut"], swapse), "rt_modular_list_start"))
    out.append((mod(B["ut"], swapse), "rt_modular_list_end"))
    out.append((mod(B["ut"], lambda x: x["rp"][3]["maze"]["sol"].pop()), "rt_modular_str_sol"))  # trim_end off by one
    out.append((mod(B["ut"], lambda x: x["rp"][3].update(res="raise:AssertionError", maze=EMPTY_MAZE)), "rt_modular_str_raises"))
    # a re-parse on a bigger grid (grid inference wrong): 3x3 maze comes back padded to 4x4
    def pad(x):
        y = x["rp"][0]["maze"]
        y["R"] = y["C"] = 4
        y["conn"] = [[row + [0] for row in d] + [[0] * 4] for d in y["conn"]]

    out.append((mod(B["ut"], pad), "rt_legacy_list_conn"))
    # transposed re-parse (i/j exchanged when reading a coordinate)
    def transpose(x):
        y = x["rp"][1]["maze"]
        c = y["conn"]
        y["conn"] = [[[c[1][j][i] for j in range(3)] for i in range(3)], [[c[0][j][i] for j in range(3)] for i in range(3)]]

    out.append((mod(B["ut"], transpose), "rt_legacy_str_conn"))
    # multi-digit CTT: "10" read as "1" in the target of the string re-parse
    out.append((mod(B["ctt"], lambda x: x["rp"][1]["maze"].update(end=[0, 1])), "rt_legacy_str_end"))
    # plain maze that comes back targeted
    out.append((mod(B["plain"], lambda x: x["rp"][0]["maze"].update(kind="TargetedLatticeMaze", start=[0, 0], end=[0, 0])), "rt_legacy_list_kind"))
    out.append((mod(B["ut"], lambda x: x.update(resM="raise:KeyError", tokM=[], rp=x["rp"][:2])), "modular_as_tokens_raises"))
    out.append((mod(B["ut"], lambda x: x.update(rp=x["rp"][:3])), "M:record_incomplete"))
    # the two streams differ outside the adjacency list: origin
    def origin(x):
        i = x["tokM"].index("<ORIGIN_START>")
        x["tokM"][i + 1] = "(2,2)"

    out.append((mod(B["ut"], origin), "equiv_outside_adj"))
    out.append((mod(B["ut"], lambda x: x["tokM"].pop(-2)), "equiv_outside_adj"))  # last path cell missing
    out.append((mod(B["cs"], lambda x: x["tokL"].__setitem__(len(x["tokL"]) - 3, "9")), "equiv_outside_adj"))  # CTT digit in the path
    # ... inside: another edge, a missing entry, a doubled entry, wrong multiplicities with the same edge set
    def other_edge(x):
        x["tokM"][1:5] = ["(2,1)", "<-->", "(1,1)", ";"]

    out.append((mod(B["ut"], other_edge), "equiv_adj_entries"))
    out.append((mod(B["ut"], lambda x: x["tokM"].__delitem__(slice(1, 5))), "equiv_adj_entries"))
    out.append((mod(B["ut"], lambda x: x.update(tokM=x["tokM"][:5] + x["tokM"][1:])), "equiv_adj_entries"))

    def bags(x):
        L, M = x["tokL"], x["tokM"]
        e1, e2 = L[1:5], L[5:9]
        x["tokL"] = L[:1] + e1 + e1 + e2 + L[9:]
        iM = M.index("<ADJLIST_END>")
        keep = [M[i : i + 4] for i in range(1, iM, 4)]
        keep = [q for q in keep if sorted((q[0], q[2])) not in (sorted((e1[0], e1[2])), sorted((e2[0], e2[2])))]
        x["tokM"] = M[:1] + e1 + e2 + e2 + [t for q in keep for t in q] + M[iM:]

    out.append((mod(B["ut"], bags), "equiv_adj_entries"))
    out.append((mod(B["ctt"], lambda x: x["tokM"].__setitem__(2, "7")), "equiv_adj_entries"))  # CTT digit inside an entry
    # both streams agree with each other but not with the maze (Layer M binds the grammar to the maze)
    def both_wrong(x):
        for k in ("tokL", "tokM"):
            x[k] = x[k][:1] + x[k][5:]

    out.append((mod(B["ut"], both_wrong), "M:legacy_not_emission"))
    out.append((mod(B["ut"], both_wrong), "M:modular_not_emission"))
    out.append((mod(B["ut"], both_wrong), "M:spec_parse_differs"))
    # premise: a 3x3 maze whose last row and column occur in no connection
    out.append((mod(_hand_rt("AOTP_UT_uniform", 3, [((0, 0), (0, 1)), ((0, 0), (1, 0)), ((1, 0), (1, 1))], "LatticeMaze"), lambda x: None), "M:outside_premise"))
    # oblong mazes: the round trip is Layer M (the maze itself or padded to the square), the emission stays Layer P
    def ob_transposed(x):  # 2x3 read back as the 3x2 mirror image, padded
        y = x["rp"][0]["maze"]
        c = y["conn"]
        y["conn"] = [[[c[1][j][i] for j in range(3)] for i in range(3)], [[c[0][j][i] for j in range(3)] for i in range(3)]]

    out.append((mod(B["ob"], ob_transposed), "M:oblong_rt_legacy_list_conn"))
    out.append((mod(B["ob"], lambda x: x["rp"][3]["maze"].update(sol=[])), "M:oblong_rt_modular_str_sol"))
    out.append((mod(B["ob2"], lambda x: x["rp"][1].update(res="raise:ValueError", maze=EMPTY_MAZE)), "M:oblong_rt_legacy_str_raises"))

    def ob_pad4(x):  # padded, but to 4x4
        y = x["rp"][2]["maze"]
        y["R"] = y["C"] = 4
        y["conn"] = [[row + [0] for row in d] + [[0] * 4] for d in y["conn"]]

    out.append((mod(B["ob"], ob_pad4), "M:oblong_rt_modular_list_conn"))
    out.append((mod(B["ob3"], lambda x: x["rp"][0]["maze"].update(start=[1, 2])), "M:oblong_rt_legacy_list_start"))
    out.append((mod(B["ob"], origin), "equiv_outside_adj"))
    out.append((mod(B["ob3"], lambda x: x["tokM"].__setitem__(slice(1, 5), ["(1,1)", "<-->", "(2,1)", ";"])), "equiv_adj_entries"))
    out.append((mod(B["ob2"], lambda x: x.update(resL="raise:IndexError", tokL=[], rp=x["rp"][2:])), "legacy_as_tokens_raises"))
    # representation beyond the declared types: the same defects, every clause Layer M
    out.append((mod(B["ut"], lambda x: (flipbit(x), x.update(lax="nonbool_conn"))), "M:nonbool_conn:rt_legacy_list_conn"))
    out.append((mod(B["ut"], lambda x: (origin(x), x.update(lax="nonbool_conn"))), "M:nonbool_conn:equiv_outside_adj"))
    # side effects on the caller's objects
    out.append((mod(B["ut"], lambda x: x.update(argmod=["legacy"])), "M:from_tokens_modified_its_argument"))
    out.append((mod(B["cs"], lambda x: x.update(mazemod=True)), "M:tokenization_modified_the_maze"))
    # dataset level
    D, J = B["dlist"], B["djoin"]
    out.append((mod(B["dempty"], lambda x: x.update(out=[["<ADJLIST_START>", "<ADJLIST_END>"]], strs=["<ADJLIST_START> <ADJLIST_END>"], shape="strs")), "dataset_limit"))  # an item out of nothing
    out.append((mod(B["dzero"], lambda x: x.update(out=x["per"], shape="lists")), "dataset_limit"))  # limit 0 read as "no limit"
    out.append((mod(B["dzero"], lambda x: x.update(limit=[])), "dataset_limit"))  # no limit, nothing returned
    out.append((mod(D, lambda x: x.update(limit=[1])), "dataset_limit"))  # limit ignored
    out.append((mod(D, lambda x: x.update(out=x["out"][:1])), "dataset_limit"))  # item dropped without a limit
    out.append((mod(D, lambda x: x.update(out=x["out"][::-1])), "dataset_item_differs"))  # order not kept
    out.append((mod(D, lambda x: x.update(out=[x["out"][0], x["out"][0]])), "dataset_item_differs"))
    out.append((mod(D, lambda x: x.update(shape="strs", strs=[" ".join(t) for t in x["out"]])), "dataset_join_option"))  # joined although not asked
    out.append((mod(J, lambda x: x.update(shape="lists", strs=[])), "dataset_join_option"))  # not joined although asked
    out.append((mod(J, lambda x: x.update(strs=["  ".join(x["out"][0])], out=["  ".join(x["out"][0]).split(" ")])), "dataset_item_differs"))  # joined with two blanks
    out.append((mod(J, lambda x: x.update(limit=[0])), "dataset_limit"))
    out.append((mod(J, lambda x: x.update(res="raise:TypeError", out=[], strs=[], shape="empty")), "dataset_raises"))
    out.append((mod(J, lambda x: x.update(strs=[x["strs"][0] + " "])), "M:harness_split"))
    return out, [cp(v) for v in B.values()]


# ------------------------------------------------------------------ evidence helpers
def _nontrivial(x):
    """>= 2 adjacency entries (order / orientation can differ) and, for a solved maze, a path of >= 2 cells"""
    if x["t"] == "ds":
        return x["n"] >= 2 and x["res"] == "ok"
    m = x["maze"]
    ne = int(np.sum(np.array(m["conn"])))
    return ne >= 2 and (m["kind"] != "SolvedMaze" or len(m["sol"]) >= 2)


def _case_key(x):
    if x["t"] == "ds":
        return ["ds", x["mode"], x["via"], x["limit"], x["join"], [m["conn"] for m in x["mazes"]]]
    m = x["maze"]
    return ["rt", x["mode"], x["mgs"], m["kind"], m["conn"], m["start"], m["end"], m["sol"]]


def _small(x):
    y = {k: v for k, v in x.items() if k not in ("rp", "job", "mazes", "per")}
    if x["t"] == "ds":
        y["strs"] = [q[:160] + " ..." for q in x["strs"][:2]]
        y["out"] = [q[:14] + ["..."] for q in x["out"][:2]]
        y["mazes"] = [dict(kind=m["kind"], R=m["R"], C=m["C"], start=m["start"], end=m["end"]) for m in x["mazes"]]
    for k in ("tokL", "tokM"):
        if k in y and len(y[k]) > 60:
            y[k] = y[k][:30] + ["..."] + y[k][-25:]
    if "maze" in y and y["maze"]["R"] > 6:
        y["maze"] = dict(y["maze"], conn="(%dx%d omitted)" % (y["maze"]["R"], y["maze"]["C"]))
    if "rp" in x:
        y["rp"] = [dict(via=r["via"], inp=r["inp"], res=r["res"], kind=r["maze"]["kind"]) for r in x["rp"]]
    return y


def _judge(chk, recs, canaries, bases, *, label, what):
    """lib.judge_with_canaries with (a) the hand-made canary bases judged too - they must be ACCEPTED -
    and (b) at most MAX_REPORTED_PER_CLAUSE replay files per clause (a broken tokenizer fails thousands)."""
    for i, x in enumerate(recs):
        x["id"] = i
    allrecs = list(recs)
    cans = []
    for k, (c, cl) in enumerate(canaries):
        c = dict(c)
        c["id"] = lib.CANARY_BASE + k
        cans.append((c, cl))
        allrecs.insert((len(allrecs) * (k + 1)) // (len(canaries) + 1), c)
    bs = []
    for k, b in enumerate(bases):
        b = dict(b)
        b["id"] = lib.CANARY_BASE + 1000 + k
        bs.append(b)
        allrecs.insert((len(allrecs) * (k + 1)) // (len(bases) + 1), b)
    res = lib.oracle(ORACLE, allrecs, tag=label)
    for c, cl in cans:
        got = res.verdicts.pop(c["id"], [])
        if cl not in got:
            raise lib.MachineryError(f"canary not rejected by {ORACLE}: expected clause {cl!r}, got {got} (oracle does not bind this field)")
    for b in bs:
        got = res.verdicts.pop(b["id"], [])
        if got:
            raise lib.MachineryError(f"hand-made canary base rejected by {ORACLE}: {got} (oracle or base is wrong)")
    chk.notes["canaries_rejected"] = chk.notes.get("canaries_rejected", 0) + len(cans)
    chk.notes["canary_bases_accepted"] = chk.notes.get("canary_bases_accepted", 0) + len(bs)
    res.records -= len(cans) + len(bs)
    chk.add_oracle(ORACLE, res, what)
    totals = chk.notes.setdefault("rejected_records_by_clause", {})
    kept = {}
    for rid, clauses in sorted(res.verdicts.items()):
        for cl in clauses:
            totals[cl] = totals.get(cl, 0) + 1
            if totals[cl] <= MAX_REPORTED_PER_CLAUSE:
                kept.setdefault(rid, []).append(cl)
    full = res.verdicts
    res.verdicts = kept
    chk.judge({x["id"]: x for x in recs}, res, label=label)
    res.verdicts = full
    return res


# ------------------------------------------------------------------ design level
def _design(thorough):
    """run the design models concurrently (each TLC with a few workers) while the real code is observed"""
    ex = cf.ThreadPoolExecutor(max_workers=7)
    w = 6
    futs = {
        "small": ex.submit(lib.tlc_design, "TokLegacyMC", "TokLegacy_small.cfg", workers=w, tag="s", xmx="2g"),
        "nopremise": ex.submit(lib.tlc_expect_violation, "TokLegacyMC", "TokLegacy_nopremise.cfg", "RoundTripNoPremise", workers=2, tag="np", xmx="1g"),
        "sq": ex.submit(lib.tlc_design, "TokLegacyMC", "TokLegacy_sq.cfg", workers=2, tag="sqo", xmx="1g"),
        "sqinfer": ex.submit(lib.tlc_expect_violation, "TokLegacyMC", "TokLegacy_sqinfer.cfg", "SquareRoundTrip", workers=1, tag="sq", xmx="1g"),
        "ds": ex.submit(lib.tlc_design, "TokLegacyMC", "TokLegacy_ds.cfg", workers=2, tag="ds", xmx="1g"),
        "ds_broken": ex.submit(lib.tlc_expect_violation, "TokLegacyMC", "TokLegacy_ds_broken.cfg", "DSAccepted", workers=2, tag="dsb", xmx="1g"),
    }
    if thorough:
        futs["2x3"] = ex.submit(lib.tlc_design, "TokLegacyMC", "TokLegacy_2x3.cfg", workers=w, tag="23", xmx="2g")
    return ex, futs


def _collect_design(chk, ex, futs):
    r = futs["small"].result()
    if r.distinct < 40000:
        raise lib.MachineryError(f"TokLegacy_small explored only {r.distinct} states (vacuous?)")
    chk.add_model("TokLegacy/small", r, "all graphs of 1x1,1x2,2x1,1x3,3x1,2x2 x 3 kinds (all start/end pairs, all cell sequences <= 2) x {UT,CTT} x every admissible emission: RoundTrip (premise), RoundTripIff, InEmitExact, WrongStyleRejected, EquivExact, BagNotSet")
    r = futs["nopremise"].result()
    chk.add_model("TokLegacy/nopremise (must fail)", r, "without the premise TLC finds a maze whose emission parses to a smaller grid: RoundTripNoPremise violated as required")
    r = futs["sq"].result()
    if r.distinct < 3000:
        raise lib.MachineryError(f"TokLegacy_sq explored only {r.distinct} states (vacuous?)")
    chk.add_model("TokLegacy/square inference", r, "the implementation's one-side grid inference (ParseSq): under the premise the re-parse of every emission is PadSq(m), the maze on the square grid of side max(R, C); PadSq(m) = m iff the maze is square (shapes 1x1..3x1, 2x2, three kinds, UT + CTT)")
    r = futs["sqinfer"].result()
    chk.add_model("TokLegacy/square inference (must fail)", r, "with the implementation's one-side grid inference (ParseSq) an oblong maze satisfying the premise does not come back: SquareRoundTrip violated as required - the round trip is judged on square mazes only (oblong: Layer M, PadSq)")
    r = futs["ds"].result()
    if r.distinct < 5000:
        raise lib.MachineryError(f"TokLegacy_ds explored only {r.distinct} states (vacuous?)")
    chk.add_model("TokLegacy/dataset", r, "datasets of <= 2 mazes over 1x2/2x1 x limit in {None,0..3} x join x every admissible output: DSAccepted, DSMember, DSRejectsWrong")
    r = futs["ds_broken"].result()
    chk.add_model("TokLegacy/dataset broken-limit (must fail)", r, "a reference that ignores the limit is rejected by DatasetOK")
    if "2x3" in futs:
        r = futs["2x3"].result()
        if r.distinct < 100000:
            raise lib.MachineryError(f"TokLegacy_2x3 explored only {r.distinct} states (vacuous?)")
        chk.add_model("TokLegacy/2x3", r, "all spanning trees of 2x3 and 3x2 (oblong), plain, UT, all 3840 emissions each")
    ex.shutdown()


# ------------------------------------------------------------------ main
def main(chk: lib.Check) -> int:
    thorough = chk.tier == "thorough"
    chk.rule = (
        "cases = (maze, legacy mode, max_grid_size) with both token streams and four re-parses, and (dataset, tokenizer, limit, join); "
        "exhaustive: every premise-satisfying graph of 2x2 x all kinds x all (start,end) x 3 modes x {None,n,20}; every spanning tree of 3x3 "
        "(thorough: x all 81 (start,end)); 3x3 graphs with cycles/components (thorough: all 4096 filtered by the premise); seeded random "
        "gen_dfs / gen_wilson / gen_dfs_percolation mazes of grid 2..20 (multi-digit indices, two-cell and one-cell paths, non-shortest walks); "
        "datasets of 1..4 solved mazes x limit in {None,0,1,n,n+3,n-1} x join x legacy/modular; histories on shared tokenizer / dataset / list objects; magnitude cases (144/256/400/2500-cell solutions, 16x16, 50x50, datasets of 130/260 with limits around 128/256); "
        "oblong mazes (every premise-satisfying graph of 1x2..1x4, 2x3 and their transposes; generator / full / sparse mazes of 2x5 .. 20x3, 1x12) - emission Layer P, round trip Layer M; "
        "shortest cases: one-cell paths (random cell, cell (0,0), a cell without neighbours) and two-cell paths in full and sparse mazes under every mode; "
        "every maze in one of four array representations (C / Fortran / non-contiguous view / int8, start-end-solution as array, tuple, list) x three ways of construction x generation_meta present / absent; "
        "dataset variants: empty dataset, stale n_mazes / grid_n, mazes as tuple / iterator / caller's list changed afterwards, a maze twice, numpy-integer limit, MazeDataset.generate (+ collected metadata), oblong mazes; "
        "non-trivial = >= 2 adjacency entries and (solved => path of >= 2 cells); datasets: >= 2 mazes"
    )
    ex, futs = _design(thorough)
    try:
        jobs = jobs_exhaustive(chk.seed, thorough)
        n_exh = len(jobs)
        jobs += jobs_random(chk.seed, 6000 if thorough else 700)
        jobs += jobs_dataset(chk.seed, 1500 if thorough else 240)
        jobs += jobs_history(chk.seed, thorough)
        jobs += jobs_magnitude(chk.seed, thorough)
        jobs += jobs_oblong(chk.seed, thorough)
        jobs += jobs_shortest(chk.seed, thorough)
        jobs += jobs_lax(chk.seed)
        jobs += jobs_dataset_variants(chk.seed, 900 if thorough else 210)
        # big mazes first so that the pool does not end on a straggler
        order = sorted(range(len(jobs)), key=lambda i: -jobs[i]["n"] * (8 if jobs[i]["t"] == "session" else 1))
        recs_o = lib.pmap(observe, [jobs[i] for i in order], chunksize=2)
        by_job = [None] * len(jobs)
        for i, r in zip(order, recs_o):
            by_job[i] = r
        recs = [x for sub in by_job for x in sub]
        canaries, bases = _canaries()
        what = "raw token streams (legacy + modular equivalent), four re-parses, dataset outputs judged against TokLegacy: round trip, Equivalent, DatasetOK; Layer M: InEmit / spec Parse"
        res = _judge(chk, recs, canaries, bases, label="tok", what=what)
        chk.notes["oracle_shard_ms_per_record_upper_bound"] = round(1000 * res.wall * min(lib.NCPU, 16) / max(1, len(recs)), 2)
        for x in recs:
            chk.count(_case_key(x), _nontrivial(x))
        by = {}
        for x in recs:
            by[x["src"]] = by.get(x["src"], 0) + 1
        chk.notes["records_by_source"] = by
        rts = [x for x in recs if x["t"] == "rt"]
        chk.notes["records_by_mode"] = {m: sum(1 for x in recs if x["mode"] == m) for m in MODES}
        chk.notes["records_by_kind"] = {k: sum(1 for x in rts if x["maze"]["kind"] == k) for k in KINDS}
        chk.notes["max_grid"] = max(x["maze"]["R"] for x in rts)
        chk.notes["max_solution_cells"] = max(len(x["maze"]["sol"]) for x in rts)
        chk.notes["solutions_ge_128_cells"] = sum(1 for x in rts if len(x["maze"]["sol"]) >= 128)
        chk.notes["solutions_ge_256_cells"] = sum(1 for x in rts if len(x["maze"]["sol"]) >= 256)
        chk.notes["max_dataset_size"] = max(x["n"] for x in recs if x["t"] == "ds")
        chk.notes["history"] = "ONE legacy + ONE modular tokenizer object over mazes of decreasing / scrambled / A-B-A / increasing sizes (used via vocabulary properties and encode/decode in between); as_tokens twice (first result emptied by the caller); from_tokens twice on the same list object (the arrays of the first returned maze overwritten in place by the caller) and again after the list was overwritten in place; ONE dataset object with as_tokens under different limit/join, larger first, results emptied by the caller"
        chk.notes["multi_digit_records"] = sum(1 for x in rts if x["maze"]["R"] > 10)
        chk.notes["one_cell_paths"] = sum(1 for x in rts if len(x["maze"]["sol"]) == 1)
        chk.notes["two_cell_paths"] = sum(1 for x in rts if len(x["maze"]["sol"]) == 2)
        chk.notes["raised"] = sum(1 for x in rts if x["resL"] != "ok" or x["resM"] != "ok" or any(r["res"] != "ok" for r in x["rp"])) + sum(1 for x in recs if x["t"] == "ds" and (x["res"] != "ok" or x["perres"] != "ok"))
        chk.notes["oblong_records"] = sum(1 for x in rts if x["maze"]["R"] != x["maze"]["C"])
        chk.notes["one_by_n_records"] = sum(1 for x in rts if min(x["maze"]["R"], x["maze"]["C"]) == 1)
        chk.notes["lax_records_layer_M_only"] = sum(1 for x in rts if x["lax"])
        chk.notes["one_cell_paths_at_origin"] = sum(1 for x in rts if x["maze"]["sol"] == [[0, 0]])
        chk.notes["one_cell_paths_at_isolated_cell"] = sum(1 for x in rts if len(x["maze"]["sol"]) == 1 and x["src"] == "shortest" and '"se": "iso"' in x["job"])
        chk.notes["full_lattice_records"] = sum(1 for x in rts if '"gen": "full"' in x.get("job", ""))
        chk.notes["maze_representations"] = {r: sum(1 for x in rts if ('"rep": "%s"' % r) in x.get("job", "")) for r in REPS + ["u8"]}
        chk.notes["maze_constructions"] = {c: sum(1 for x in rts if ('"ctor": "%s"' % c) in x.get("job", "")) for c in CTORS}
        dss = [x for x in recs if x["t"] == "ds"]
        chk.notes["empty_datasets"] = sum(1 for x in dss if x["n"] == 0)
        chk.notes["dataset_limit_zero"] = sum(1 for x in dss if x["limit"] == [0])
        chk.notes["dataset_variants"] = {k: sum(1 for x in dss if k in x.get("job", "")) for k in ('"cfg_n": "zero"', '"cfg_n": "more"', '"cfg_n": "less"', '"ctor": "tuple"', '"ctor": "iter"', '"ctor": "own-cleared"', '"ctor": "own-reversed"', '"dup": "object"', '"dup": "equal"', '"generated": "meta"', '"generated": "collected"', '"limit_np": true')}
        chk.notes["argument_aliasing"] = "from_tokens gets the caller's own list; the parsed string is joined from it after the call; the list is overwritten in place before the returned maze is read; the maze given to as_tokens is compared with its value before the calls; histories: the arrays of a first from_tokens result are overwritten in place before the second call"
        chk.notes["exhaustive_records"] = n_exh
        chk.notes["exhaustive_scope"] = (
            "2x2: all 11 premise-satisfying graphs x {plain, targeted x 16 (s,e), solved x connected (s,e)} x 3 modes x max_grid_size {None,2,20}; "
            "3x3: all 192 spanning trees" + (" x all 81 (s,e) solved + plain/targeted under all 9 configurations; all premise-satisfying graphs of 3x3" if thorough else " x 6 kind/endpoint variants; 300 sampled 3x3 graphs filtered by the premise")
        )
        chk.exhaustive = True
        for pred in (
            lambda x: x["t"] == "rt" and x["src"] == "3x3tree" and x["maze"]["kind"] == "SolvedMaze" and x["mode"] == "AOTP_CTT_indexed",
            lambda x: x["t"] == "rt" and x["src"] == "random" and x["maze"]["R"] >= 11,
            lambda x: x["t"] == "ds" and x["join"] and x["res"] == "ok" and x["out"],
        ):
            hit = next((x for x in recs if pred(x)), None)
            if hit is not None:
                chk.sample(_small(hit))
        _collect_design(chk, ex, futs)
    finally:
        ex.shutdown(wait=False, cancel_futures=True)
    chk.assumptions = [
        "TLC, CommunityModules JSON reader, CPython/numpy",
        "coordinate strings are decoded in TLA+ by table lookup over indices < 50 (TLC cannot look inside strings); joined strings are split on blanks by the harness and re-joined + compared in TLA+",
        "the round trip is judged on square mazes only (from_tokens builds a square grid; statement quantifies over grid sizes 2..20), oblong round trips are Layer M; the 50x50 magnitude cases lie beyond that quantifier (largest grid with unique coordinate tokens in the fixed vocabulary) and are judged all the same",
        "mazes beyond 3x3 are seeded samples of the generators, not exhaustive; the as_tokens shuffle is driven by seeded numpy/random state",
    ]
    from harness.checks import tokutils_common
    tokutils_common.run(chk, thorough)
    return chk.finish(
        "TokLegacy.tla model-checked over every admissible emission of all tiny mazes (premise shown necessary); every recorded real tokenization judged by the TLA+ oracle: "
        "four re-parses equal the original maze field by field, legacy and modular streams Equivalent, dataset outputs = per-maze tokenizations in order under limit/join"
    )


def replay(path: str) -> int:
    d = json.load(open(path))
    case = d["case"]
    job = json.loads(case["job"])  # the job is logged as a JSON string (TLC's reader has no null)
    rec = observe(job)[job.get("pick", 0)]  # a session is re-run as a whole, the stored step is re-judged
    rec["id"] = 0
    out = lib.oracle(ORACLE, [rec], tag="rp")
    got = [c for c in out.verdicts.get(0, []) if not c.startswith("M:")]
    print("replay:", json.dumps(_small(rec), default=str)[:600], "verdict:", out.verdicts.get(0, []))
    if got:
        print(f"VIOLATION property=C07 replay={path}")
        return 1
    return 0
