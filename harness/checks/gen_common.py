"""shared by C01 and C12: design models of the generators + observation of the real generators"""
import copy
import json
import random

import numpy as np

from harness import gens, lib, mz

SHAPES_ENUM_QUICK = [(r, c) for r in range(1, 4) for c in range(1, 4)] + [(1, 4), (4, 1), (2, 4), (4, 2), (3, 4), (4, 3), (4, 4)]
SHAPES_ENUM_THOROUGH = SHAPES_ENUM_QUICK + [(4, 5), (5, 4)]


def design_models(chk, thorough):
    """use (A): TLC explores every random execution of the three generator models for small grids"""
    runs = [
        ("GenDFS", "GenDFS_small.cfg", ["IterAny", "Finish"], "gen_dfs/gen_prim default args, all shapes <= 2x3/3x2, all starts, every stack index / neighbour choice"),
        ("GenDFS", "GenDFS_3x3_dfs.cfg", None, "gen_dfs default args on 3x3, all starts"),
        ("GenDFS", "GenDFS_matrix_small.cfg", None, "argument matrix acc x max_tree_depth x do_forks x randomized_stack on shapes <= 2x3/3x2"),
        ("GenDFS", "GenDFS_perc.cfg", ["PercAny"], "gen_dfs_percolation (p = 0, 0<p<1 with every coin array, p = 1) on shapes <= 2x2"),
        ("GenDFS", "GenDFS_live.cfg", None, "termination of gen_dfs / gen_prim for the whole argument matrix: 2*(unvisited) + len(stack) strictly decreases (<= 3RC iterations); under weak fairness the call returns"),
        ("GenWilson", "GenWilson_small.cfg", ["PickAny", "StepAny"], "gen_wilson on shapes <= 2x3/3x2, every walk"),
        ("GenWilson", "GenWilson_3x3.cfg", None, "gen_wilson 3x3 (7 897 states)"),
        ("GenPerc", "GenPerc_small.cfg", ["CoinsAny", "FillEdges", "Component"], "gen_percolation on shapes <= 2x2, every coin array, every start"),
    ]
    if thorough:
        runs += [
            ("GenDFS", "GenDFS_3x3.cfg", None, "gen_dfs + gen_prim default args on 3x3"),
            ("GenDFS", "GenDFS_matrix_3x3.cfg", None, "full argument matrix on 3x3"),
            ("GenDFS", "GenDFS_perc_2x3.cfg", None, "gen_dfs_percolation on 2x3 / 3x2"),
            ("GenDFS", "GenDFS_3x4.cfg", None, "gen_dfs default args on 3x4 / 4x3"),
            ("GenWilson", "GenWilson_3x4.cfg", None, "gen_wilson 3x4 / 4x3"),
            ("GenPerc", "GenPerc_2x3.cfg", None, "gen_percolation 2x3 / 3x2"),
        ]
    for mod, cfg, acts, what in runs:
        r = lib.tlc_design(mod, cfg, expect_actions=acts, tag=cfg[:-4], timeout=3000)
        chk.add_model(f"{mod}/{cfg[:-4]}", r, what)
    lib.tlc_expect_violation("GenDFS", "GenDFS_unfair.cfg", "Returns", tag="gduf")  # the liveness property is not vacuous
    # gen_wilson has NO step bound: "always returns" is false even under weak fairness (a walk may erase its own loops for ever);
    # NoTrap / TreeGrows / CommitShrinks are what the models above establish, probability-one termination is C19's absorption sum
    lib.tlc_expect_violation("GenWilson", "GenWilson_walksforever.cfg", "AlwaysReturns", tag="gwwf")


# ------------------------------------------------------------------------------------ jobs
def _enum_job(job):
    _k, gen, r, c, kwj, limit, n_ends = job
    kw = json.loads(kwj)
    if "start_coord" in kw:
        kw["start_coord"] = tuple(kw["start_coord"])
    np.random.seed(12345)
    random.seed(12345)
    recs = []
    n = 0
    complete = True
    first_twice_same = True
    for answers, res, m, calls in gens.enumerate_executions(lambda: gens.call_gen(gen, r, c, kw), limit=limit):
        n += 1
        if res != "ok":
            recs.append(dict(gen=gen, R=r, C=c, raised=res, kwj=kwj, script=answers))
            continue
        rec = gens.record(gen, r, c, kw, m, n_ends=n_ends)
        rec["kwj"] = kwj
        rec["script"] = answers
        rec["src"] = "enum"
        del rec["kw"]
        recs.append(rec)
        if n <= 3:
            # same script twice must give the same output, else randomness reaches the code unscripted
            _res2, m2, _c2 = gens.run_scripted(lambda: gens.call_gen(gen, r, c, kw), answers)
            if _res2 != "ok" or not np.array_equal(m2.connection_list, m.connection_list):
                first_twice_same = False
    if limit is not None and n >= limit:
        complete = False
    return dict(job=[gen, r, c, kwj], recs=recs, n=n, complete=complete and first_twice_same, scripted=first_twice_same)


def _natural_job(job):
    _k, seed, k, maxn, n_ends, trace = job
    rng = np.random.default_rng([seed, 11, k])
    gen = gens.GEN_NAMES[k % 5]
    r, c = int(rng.integers(1, maxn + 1)), int(rng.integers(1, maxn + 1))
    kw = gens.random_kwargs(rng, gen, r, c)
    np.random.seed(int(rng.integers(0, 2**31)))
    random.seed(int(rng.integers(0, 2**31)))
    snaps = None
    tr_ok = None
    # the start cell is given as a tuple or as the caller's own ndarray (int64 / int8); the caller REUSES its array afterwards
    # (writes another cell into it) before anything is read from the returned maze: the result must not alias its arguments
    kw_rec, held = dict(kw), None
    if "start_coord" in kw and k % 3:
        sc = kw["start_coord"]
        held = np.array(sc, dtype=np.int64 if k % 3 == 1 else np.int8)
        kw = dict(kw, start_coord=held)
    if trace and gen in ("gen_dfs", "gen_prim"):
        res, out = mz.outcome(lambda: gens.traced_dfs(gen, r, c, kw))
        m = out[0] if res == "ok" else None
        if res == "ok":
            snaps, tr_ok = out[1], out[1] is not None
    elif trace and gen == "gen_wilson" and r * c <= 30:
        res, out = mz.outcome(lambda: gens.traced_wilson(r, c))
        m = out[0] if res == "ok" else None
        if res == "ok":
            snaps, tr_ok = out[1], out[1] is not None
    else:
        res, m = mz.outcome(lambda: gens.call_gen(gen, r, c, kw))
    if held is not None:
        held[:] = [(int(held[0]) + 1) % r, (int(held[1]) + 1) % c]
    kw = kw_rec
    kwj = json.dumps({k_: (list(v) if isinstance(v, tuple) else v) for k_, v in kw.items()})
    if res != "ok":
        return dict(rec=dict(gen=gen, R=r, C=c, raised=res, kwj=kwj, seed=[seed, k]), snaps=None, tr_ok=None)
    rec = gens.record(gen, r, c, kw, m, n_ends=n_ends)
    rec["kwj"] = kwj
    rec["seed"] = [seed, k]
    rec["src"] = "natural"
    del rec["kw"]
    return dict(rec=rec, snaps=snaps, tr_ok=tr_ok)


SEQ_SHAPES = [(2, 2), (2, 3), (3, 2), (3, 3), (2, 5), (5, 2), (2, 2), (4, 4), (3, 4), (4, 3), (1, 5), (5, 1), (3, 3), (2, 3)]
BIG_SHAPES = [(12, 12), (16, 16), (2, 70), (70, 2), (20, 20), (1, 130), (130, 1), (11, 12)]


def _sequence_job(job):
    """one process, one generator, a fixed scrambled sequence of shapes (narrow-then-wide with equal row / column counts, repeats):
    what was generated before in the process must not matter; then a few large / extreme shapes (cell counts and
    coordinates beyond 127 / 255)"""
    _k, seed, gi, n_ends = job
    gen = gens.GEN_NAMES[gi]
    rng = np.random.default_rng([seed, 13, gi])
    np.random.seed(int(rng.integers(0, 2**31)))
    random.seed(int(rng.integers(0, 2**31)))
    out = []
    for (r, c) in SEQ_SHAPES + BIG_SHAPES:
        kw = {}
        if (r, c) in BIG_SHAPES and gen in ("gen_dfs", "gen_prim") and rng.random() < 0.5:
            kw["accessible_cells"] = int(rng.choice([127, 128, 129, 255, 256, 257]))
        if gen in ("gen_percolation", "gen_dfs_percolation"):
            kw["p"] = float(rng.choice([0.0, 0.3, 1.0]))
        if gen == "gen_wilson" and r * c > 450:
            continue
        res, m = mz.outcome(lambda: gens.call_gen(gen, r, c, kw))
        kwj = json.dumps(kw)
        if res != "ok":
            out.append(dict(rec=dict(gen=gen, R=r, C=c, raised=res, kwj=kwj, seed=[seed, -gi - 1]), snaps=None, tr_ok=None))
            continue
        rec = gens.record(gen, r, c, kw, m, n_ends=min(n_ends, 3))
        rec["kwj"] = kwj
        rec["seed"] = [seed, -gi - 1]
        rec["src"] = "sequence"
        del rec["kw"]
        out.append(dict(rec=rec, snaps=None, tr_ok=None))
    return out


def _wilson_chain_job(job):
    _k, r, c, tl = job
    ch = gens.learn_wilson_chain(r, c, time_limit=tl)
    if not ch.get("available"):
        return dict(shape=[r, c], available=False, recs=[])
    recs = []
    for st in sorted(ch["TERMINAL"], key=lambda s: sorted(s[1])):
        conn = np.zeros((2, r, c), dtype=int)
        for d, i, j in st[1]:
            conn[d, i, j] = 1
        rec = dict(gen="gen_wilson", R=r, C=c, shape=[2, r, c], dtype="bool", conn=conn.tolist(), acc=-1, maxd=-1, forks=True, rnd=False, pk="none", dflt=True,
                   m_has_vis=False, m_vis=[], m_has_fully=True, m_fully=True, m_has_start=False, m_start=[], a_has_start=False, a_start=[], ends=[], kwj="{}", src="wilson_chain")
        recs.append(rec)
    nst = len(set(ch["OBS"]) | {v for d in ch["OBS"].values() for v in d.values()})
    return dict(shape=[r, c], available=True, complete=ch["complete"], states=nst, transitions=sum(len(v) for v in ch["OBS"].values()), terminals=len(ch["TERMINAL"]), runs=ch["runs"], recs=recs)


def _job(job):
    return {"enum": _enum_job, "natural": _natural_job, "wchain": _wilson_chain_job, "sequence": _sequence_job}[job[0]](job)


def _kwj(**kw):
    return json.dumps(kw)


def build_jobs(chk, thorough, n_ends_enum, n_ends_nat):
    jobs = []
    shapes = SHAPES_ENUM_THOROUGH if thorough else SHAPES_ENUM_QUICK
    # every random execution of the real gen_dfs, default arguments
    for r, c in shapes:
        jobs.append(("enum", "gen_dfs", r, c, _kwj(), None, n_ends_enum))
    # explicit start_coord over all cells
    for r, c in [(1, 3), (2, 2), (2, 3), (3, 2), (3, 3)]:
        for s in mz.cells(r, c):
            jobs.append(("enum", "gen_dfs", r, c, _kwj(start_coord=list(s)), None, n_ends_enum))
    # gen_prim (randomized stack): complete on <= 2x3/3x2, capped beyond
    for r, c in [(1, 1), (1, 2), (2, 1), (1, 3), (2, 2), (2, 3), (3, 2)]:
        jobs.append(("enum", "gen_prim", r, c, _kwj(), None, n_ends_enum))
    jobs.append(("enum", "gen_prim", 3, 3, _kwj(), 60000 if thorough else 4000, n_ends_enum))
    # argument matrix
    for r, c in [(2, 2), (2, 3), (3, 2)] + ([(3, 3)] if thorough else []):
        n = r * c
        accs = [None, 0, 1, 2, n - 1, n, n + 2, 0.5]
        mds = [None, 0, 2, 4, 2 * n, 0.5]
        for acc in accs:
            for md in mds:
                for forks in (True, False):
                    kw = {}
                    if acc is not None:
                        kw["accessible_cells"] = acc
                    if md is not None:
                        kw["max_tree_depth"] = md
                    if not forks:
                        kw["do_forks"] = False
                    if not kw:
                        continue
                    jobs.append(("enum", "gen_dfs", r, c, _kwj(**kw), None, n_ends_enum))
                    if (r, c) == (2, 2) or (thorough and r * c <= 6):
                        jobs.append(("enum", "gen_prim", r, c, _kwj(**kw), 20000, n_ends_enum))
    # percolation: every coin array
    for r, c in [(1, 1), (1, 2), (2, 1), (2, 2)] + ([(2, 3), (3, 2)] if thorough else []):
        for p in (0.0, 0.5, 1.0):
            jobs.append(("enum", "gen_percolation", r, c, _kwj(p=p), None, n_ends_enum))
        if r * c <= 4:
            for s in mz.cells(r, c):
                jobs.append(("enum", "gen_percolation", r, c, _kwj(p=0.5, start_coord=list(s)), None, n_ends_enum))
    for r, c in [(1, 2), (2, 2)] + ([(2, 3)] if thorough else []):
        for p in (0.0, 0.5, 1.0):
            jobs.append(("enum", "gen_dfs_percolation", r, c, _kwj(p=p), 30000, n_ends_enum))
    jobs.append(("enum", "gen_dfs_percolation", 2, 2, _kwj(p=0.5, accessible_cells=2), None, n_ends_enum))
    # Wilson: closure of the code's own chain -> every output the real generator can produce
    for r, c in [(1, 1), (1, 2), (2, 1), (1, 3), (2, 2), (2, 3), (3, 2)] + ([(3, 3)] if thorough else []):
        jobs.append(("wchain", r, c, 1500.0))
    for gi in range(5):
        jobs.append(("sequence", chk.seed, gi, n_ends_nat))
    nnat = 6000 if thorough else 600
    for k in range(nnat):
        jobs.append(("natural", chk.seed, k, 8, n_ends_nat, k % 2 == 0))
    return jobs


ORACLE_FIELDS = ["gen", "R", "C", "shape", "dtype", "conn", "dflt", "pk", "acc", "maxd", "forks", "m_has_vis", "m_vis", "m_has_fully", "m_fully", "m_has_start", "m_start", "a_has_start", "a_start", "ends"]


def for_oracle(rec):
    return {k: rec[k] for k in ORACLE_FIELDS}


def collect(chk, thorough, n_ends_enum=0, n_ends_nat=0):
    """returns (final-output records, dfs traces, wilson traces, stats)"""
    jobs = build_jobs(chk, thorough, n_ends_enum, n_ends_nat)
    # heavy jobs first
    order = sorted(range(len(jobs)), key=lambda i: 0 if jobs[i][0] in ("wchain", "sequence") else 1 if jobs[i][0] == "enum" else 2)
    outs = lib.pmap(_job, [jobs[i] for i in order], chunksize=1)
    recs, raised, tr_dfs, tr_wil = [], [], [], []
    stats = dict(enum_jobs=0, enum_executions=0, enum_incomplete=[], unscripted=[], wilson_chains=[], natural=0, tracer_unavailable=0)
    for job, out in zip([jobs[i] for i in order], outs):
        if job[0] == "enum":
            stats["enum_jobs"] += 1
            stats["enum_executions"] += out["n"]
            if not out["complete"]:
                stats["enum_incomplete"].append(out["job"])
            if not out["scripted"]:
                stats["unscripted"].append(out["job"])
            for r in out["recs"]:
                (raised if "raised" in r else recs).append(r)
        elif job[0] == "wchain":
            stats["wilson_chains"].append({k: v for k, v in out.items() if k != "recs"})
            recs += out["recs"]
        elif job[0] == "sequence":
            for o in out:
                stats["sequence_records"] = stats.get("sequence_records", 0) + 1
                (raised if "raised" in o["rec"] else recs).append(o["rec"])
        else:
            stats["natural"] += 1
            r = out["rec"]
            (raised if "raised" in r else recs).append(r)
            if out["tr_ok"] is False:
                stats["tracer_unavailable"] += 1
            if out["snaps"]:
                t = dict(R=r["R"], C=r["C"], conn=r["conn"], snaps=out["snaps"], seed=r["seed"], gen=r["gen"])
                if r["gen"] == "gen_wilson":
                    tr_wil.append(t)
                else:
                    t.update(start=r["m_start"] if r["m_has_start"] else out["snaps"][0]["stack"][0], acc=r["R"] * r["C"] if r["acc"] == -1 else r["acc"],
                             maxd=2 * r["R"] * r["C"] if r["maxd"] == -1 else r["maxd"], forks=r["forks"], rnd=r["rnd"], m_vis=r["m_vis"], m_fully=r["m_fully"])
                    tr_dfs.append(t)
    # ---- the repository's own tests as a driver: every generator call they make is one more observed case
    try:
        from harness import repo_tests

        g, _sp, summ = repo_tests.observe_dirs(thorough)
        for r in g:
            r.setdefault("seed", -1)
        recs += g
        stats["repo_tests"] = dict(dirs=summ, generator_calls=len(g))
    except Exception as e:  # noqa: BLE001 - an extra driver, never a reason to fail the check
        stats["repo_tests"] = dict(error=repr(e)[:200])
    return recs, raised, tr_dfs, tr_wil, stats


# ------------------------------------------------------------------------------------ synthetic records for canaries
def _conn(r, c, edges):
    cn = [[[0] * c for _ in range(r)] for _ in range(2)]
    for (a, b) in edges:
        lo = min(a, b)
        d = 0 if a[0] != b[0] else 1
        cn[d][lo[0]][lo[1]] = 1
    return cn


def synth(gen="gen_dfs", r=3, c=3, edges=None, vis=None, fully=None, start=(0, 0), acc=-1, maxd=-1, forks=True, pk="none", dflt=None):
    """a hand-made, internally consistent observation record (independent of the code under test)"""
    if edges is None:  # comb: left column + every row -> spanning tree with degree-3 cells when r >= 3
        edges = [((i, 0), (i + 1, 0)) for i in range(r - 1)] + [((i, j), (i, j + 1)) for i in range(r) for j in range(c - 1)]
    cells = {x for e in edges for x in e} | {tuple(start)}
    if vis is None:
        vis = sorted(cells)
    if fully is None:
        fully = len(cells) == r * c
    if dflt is None:
        dflt = gen in ("gen_dfs", "gen_prim", "gen_wilson") and acc == -1 and maxd == -1 and forks
    return dict(gen=gen, R=r, C=c, shape=[2, r, c], dtype="bool", conn=_conn(r, c, edges), dflt=dflt, pk=pk, acc=acc, maxd=maxd, forks=forks,
                m_has_vis=True, m_vis=[list(x) for x in vis], m_has_fully=True, m_fully=fully, m_has_start=True, m_start=list(start),
                a_has_start=False, a_start=[], ends=[])


def step_traces(chk, tr_dfs, tr_wil):
    """Layer M: loop-head snapshots of real executions matched to the model's actions"""
    can = []
    if tr_dfs:
        # canary (hand-made 1x2 run): a corrupted depth value in one snapshot must make the trace diverge
        good = dict(R=1, C=2, conn=[[[0, 0]], [[1, 0]]], gen="gen_dfs", seed=[0, 0], start=[0, 0], acc=2, maxd=4, forks=True, rnd=False, m_vis=[[0, 0], [0, 1]], m_fully=True,
                    snaps=[dict(stack=[[0, 0]], vis=[[0, 0]], depth=1, slots=[]), dict(stack=[[0, 1]], vis=[[0, 0], [0, 1]], depth=3, slots=[[1, 0, 0]])])
        can.append((good, "M:step_not_explained"))
        lib.judge_with_canaries(chk, "Trace_GenDFS", tr_dfs, can, label="dfs_trace", what="loop-head snapshots of real gen_dfs/gen_prim runs matched to GenDFS!Iter",
                                case_of=lambda x: {k: v for k, v in x.items() if k != "snaps"})
        chk.notes["dfs_trace_steps"] = sum(len(t["snaps"]) for t in tr_dfs)
    if tr_wil:
        # canary (hand-made 1x2 run): the walk "jumps" to a non-adjacent path
        bad = dict(R=1, C=2, conn=[[[0, 0]], [[1, 0]]], gen="gen_wilson", seed=[0, 0],
                   snaps=[dict(phase="pick", vis=[[0, 0]], slots=[], path=[]), dict(phase="walk", vis=[[0, 0]], slots=[], path=[[0, 1], [0, 1]]),
                          dict(phase="done", vis=[[0, 0], [0, 1]], slots=[[1, 0, 0]], path=[])])
        can = [(bad, "M:step_not_explained")]
        lib.judge_with_canaries(chk, "Trace_GenWilson", tr_wil, can, label="wilson_trace", what="loop-head snapshots of real gen_wilson runs matched to GenWilson!PickStart/Step",
                                case_of=lambda x: {k: v for k, v in x.items() if k != "snaps"})
        chk.notes["wilson_trace_steps"] = sum(len(t["snaps"]) for t in tr_wil)


def replay_record(case):
    """re-run one stored case against the real code; returns a fresh record (or raised)"""
    kw = json.loads(case.get("kwj", "{}"))
    if "start_coord" in kw:
        kw["start_coord"] = tuple(kw["start_coord"])
    gen, r, c = case["gen"], case["R"], case["C"]
    if case.get("src") == "enum" or "script" in case:
        res, m, _calls = gens.run_scripted(lambda: gens.call_gen(gen, r, c, kw), case["script"])
    elif "seed" in case and case["seed"][1] < 0:
        outs = _sequence_job(("sequence", case["seed"][0], -case["seed"][1] - 1, 3))
        for o in outs:
            if o["rec"]["R"] == r and o["rec"]["C"] == c and o["rec"].get("kwj") == case.get("kwj"):
                return o["rec"]
        return None
    elif "seed" in case:
        out = _natural_job(("natural", case["seed"][0], case["seed"][1], 8, len(case.get("ends", [])), False))
        return out["rec"]
    else:
        return None
    if res != "ok":
        return dict(gen=gen, R=r, C=c, raised=res)
    np.random.seed(12345)
    rec = gens.record(gen, r, c, kw, m, n_ends=len(case.get("ends", [])))
    del rec["kw"]
    return rec
