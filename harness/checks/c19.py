"""C19 — Wilson's generator samples spanning trees uniformly.

(A) GenWilson.tla's complete state graph (TLC `-dump dot`) is an absorbing Markov chain (each enabled
    answer of a request equiprobable, as numpy's choice(n)); its absorption distribution is solved and
    judged by Uniform!DistClauses (every spanning tree, each with probability 1/N).  A failure here is a
    failure of the design model (machinery error), never of the code.
(P) the REAL code's own chain is learned (scripted numpy RNG + loop-head snapshots, every answer at every
    discovered state), its absorption distribution solved (exact fractions <= 2x3, power iteration 3x3)
    and judged by the same TLA+ clauses; a frequency test with the real RNG is judged by Uniform!FreqClauses.
(M) the learned chain must be the model's chain (state set, out-degrees, successor sets).
"""
import copy
import json
import random
from fractions import Fraction

import numpy as np

from harness import gens, lib, tlaval

QUICK_SHAPES = [(2, 2), (2, 3), (3, 2)]
CHAIN_QUICK = QUICK_SHAPES + [(3, 3)]
THOROUGH_SHAPES = CHAIN_QUICK
INT_MAX = 2**31 - 1


def _terms(dist, exact, n_trees_hint):
    out = []
    for st, p in sorted(dist.items(), key=lambda kv: sorted(kv[0][1])):
        slots = sorted([list(x) for x in st[1]])
        if exact and isinstance(p, Fraction) and p.denominator < INT_MAX // 4096 and p.numerator < INT_MAX // 4096:
            out.append(dict(slots=slots, num=p.numerator, den=p.denominator))
        else:
            out.append(dict(slots=slots, num=int(round(float(p) * 10**9)), den=10**9))
    return out


def dist_record(src, r, c, dist, exact):
    terms = _terms(dist, exact, None)
    ex = exact and all(t["den"] != 10**9 for t in terms)
    if not ex:
        terms = [dict(slots=t["slots"], num=t["num"] if t["den"] == 10**9 else int(round(t["num"] / t["den"] * 10**9)), den=10**9) for t in terms]
    return dict(kind="dist", src=src, R=r, C=c, exact=ex, terms=terms, draws=0, counts=[], thr=[0, 1])


def model_chain(cfg, tag):
    """TLC's state graph of GenWilson as chains per shape"""
    dot = lib.WORK / f"wilson_{tag}.dot"
    r = lib.tlc("GenWilson", cfg, dump_dot=str(dot), tag=tag, timeout=3000)
    if not r.ok:
        raise lib.MachineryError(f"GenWilson dump failed\n{r.out[-2000:]}")
    nodes, edges, inits = tlaval.parse_dot(dot)
    dot.unlink(missing_ok=True)
    key = lambda s: (s["visited"], s["slots"], s["path"], s["phase"])  # noqa: E731
    chains = {}
    for nid, s in nodes.items():
        chains.setdefault((s["R"], s["C"]), dict(OBS={}, ARITY={}, INITK={}, NINIT=0, TERMINAL=set()))
    out = {}
    for src, dst, _lab in edges:
        out.setdefault(src, []).append(dst)
    for nid, s in nodes.items():
        ch = chains[(s["R"], s["C"])]
        k = key(s)
        succ = out.get(nid, [])
        if succ:
            ch["OBS"][k] = {i: key(nodes[d]) for i, d in enumerate(succ)}
            ch["ARITY"][k] = len(succ)
        if s["phase"] == "done":
            ch["TERMINAL"].add(k)
        if nid in inits:
            ch["INITK"][len(ch["INITK"])] = k
            ch["NINIT"] += 1
    return chains, r


def chains_equal(a, b):
    sa = set(a["OBS"]) | {v for d in a["OBS"].values() for v in d.values()}
    sb = set(k for k, d in b["OBS"].items() if d) | {v for d in b["OBS"].values() for v in d.values()}
    if sa != sb:
        return f"state sets differ: model {len(sa)} code {len(sb)}"
    for s, d in a["OBS"].items():
        e = b["OBS"].get(s, {})
        if set(d.values()) != set(e.values()) or len(d) != len(e):
            return f"successors differ at a state with |visited|={len(s[0])}"
    if set(a["INITK"].values()) != set(b["INITK"].values()):
        return "initial states differ"
    return None


def _learn(job):
    r, c, tl = job
    ch = gens.learn_wilson_chain(r, c, time_limit=tl)
    return ch


def _freq(job):
    r, c, n, seed = job[:4]
    np.random.seed(seed % (2**31))
    random.seed(seed)
    # optional history: other grids generated earlier in the same process (state kept between calls must not matter)
    for (r0, c0, n0) in (job[4] if len(job) > 4 else ()):
        for _ in range(n0):
            gens.G.gen_wilson(np.array([r0, c0]))
    counts = {}
    for _ in range(n):
        m = gens.G.gen_wilson(np.array([r, c]))
        k = tuple(map(tuple, gens.slots_of(m.connection_list)))
        counts[k] = counts.get(k, 0) + 1
    return counts


def chi2_quantile(df, p=1e-9):
    from mpmath import findroot, gammainc, mp

    f = lambda x: gammainc(df / 2, x / 2, mp.inf, regularized=True) - p  # noqa: E731
    return float(findroot(f, df + 6 * (2 * df) ** 0.5))


N_TREES = {(2, 2): 4, (2, 3): 15, (3, 2): 15, (3, 3): 192}


def canaries():
    trees22 = [[[0, 0, 0], [0, 0, 1], [1, 0, 0]], [[0, 0, 0], [0, 0, 1], [1, 1, 0]], [[0, 0, 0], [1, 0, 0], [1, 1, 0]], [[0, 0, 1], [1, 0, 0], [1, 1, 0]]]
    base = dict(kind="dist", src="canary", R=2, C=2, exact=True, terms=[dict(slots=t, num=1, den=4) for t in trees22], draws=0, counts=[], thr=[0, 1])
    a = copy.deepcopy(base)
    a["terms"][0]["num"], a["terms"][0]["den"] = 3, 8
    a["terms"][1]["num"], a["terms"][1]["den"] = 1, 8
    b = copy.deepcopy(base)
    b["terms"] = b["terms"][:3]
    c = copy.deepcopy(base)
    c["terms"][0]["slots"] = [[0, 0, 0], [0, 0, 1]]
    d = copy.deepcopy(base)
    d["exact"] = False
    d["terms"] = [dict(slots=t, num=n, den=10**9) for t, n in zip(trees22, [250100000, 249900000, 250000000, 250000000])]
    f = dict(kind="freq", src="canary", R=2, C=2, exact=False, terms=[], draws=4000, counts=[dict(slots=t, n=n) for t, n in zip(trees22, [1150, 850, 1000, 1000])], thr=[44841, 1000])
    g = copy.deepcopy(f)
    g["counts"] = [dict(slots=t, n=n) for t, n in zip(trees22[:3], [1333, 1333, 1334])]
    return [(a, "tree_probability_not_one_over_N"), (b, "some_spanning_tree_has_probability_zero"), (c, "terminal_output_not_a_spanning_tree"),
            (d, "tree_probability_not_one_over_N"), (f, "frequencies_not_uniform_chi_square"), (g, "some_spanning_tree_never_drawn")]


def main(chk: lib.Check) -> int:
    thorough = chk.tier == "thorough"
    shapes = THOROUGH_SHAPES if thorough else CHAIN_QUICK
    chk.rule = (
        "cases = (a) every state and every answer of every RNG request of the real gen_wilson on the listed grids (closure of the code's own chain; "
        "its exact absorption distribution over final mazes), (b) seeded frequency experiments with the real numpy RNG. "
        "non-trivial = a discovered (state, answer) transition of the real code / a drawn maze; distinct = distinct transitions / distinct final trees"
    )
    # ---- (A) model chain
    mchains, r1 = model_chain("GenWilson_dump_a.cfg", "a")
    chk.add_model("GenWilson/dump 2x2,2x3,3x2", r1, "complete state graph with action labels -> absorbing Markov chain")
    if True:
        m2, r2 = model_chain("GenWilson_dump_b.cfg", "b")
        mchains.update(m2)
        chk.add_model("GenWilson/dump 3x3", r2, "complete state graph 3x3")
    model_recs = []
    for (r, c) in shapes:
        dist, exact = gens.absorption(mchains[(r, c)])
        model_recs.append(dist_record("model", r, c, dist, exact))
    for i, x in enumerate(model_recs):
        x["id"] = i
    mres = lib.oracle("Trace_Uniform", model_recs, tag="um", shards=1)
    if mres.verdicts:
        raise lib.MachineryError(f"the design model GenWilson is not uniform: {mres.verdicts}")
    chk.add_oracle("Trace_Uniform(model)", mres, "absorption distribution of the MODEL chain judged by Uniform!DistClauses")
    # ---- (P) the real code's own chain
    learned = lib.pmap(_learn, sorted([(r, c, 400.0) for (r, c) in shapes], key=lambda j: -j[0] * j[1]))
    code_recs = []
    tot_tr = 0
    for (r, c, _tl), ch in zip(sorted([(r, c, 0) for (r, c) in shapes], key=lambda j: -j[0] * j[1]), learned):
        if not ch.get("available") or not ch.get("complete"):
            print(f"MODEL-DIVERGENCE property=C19 the code's chain could not be learned on {r}x{c} (no scripted RNG request / snapshots unavailable); deciding by frequency test only")
            chk.divergences.append(("M:chain_unavailable", f"{r}x{c}"))
            continue
        ntr = sum(len(v) for v in ch["OBS"].values())
        tot_tr += ntr
        chk.notes[f"code_chain_{r}x{c}"] = dict(states=len(set(ch["OBS"]) | {v for d in ch["OBS"].values() for v in d.values()}), transitions=ntr, terminals=len(ch["TERMINAL"]), scripted_runs=ch["runs"])
        diff = chains_equal(mchains[(r, c)], ch)
        if diff:
            print(f"MODEL-DIVERGENCE property=C19 the code's chain on {r}x{c} is not the model's chain: {diff}")
            chk.divergences.append(("M:chain_differs_from_model", f"{r}x{c}"))
        dist, exact = gens.absorption(ch)
        code_recs.append(dist_record("code", r, c, dist, exact))
        for st, dd in ch["OBS"].items():
            for k in dd:
                chk.evaluations += 1
        chk.nontrivial.update(lib.jhash([r, c, sorted(map(list, st[0])), sorted(map(list, st[1])), list(map(list, st[2])), k]) for st, dd in ch["OBS"].items() for k in dd)
    # ---- (P) frequency experiments
    freq_recs = []
    mult = {(2, 2): 1000, (2, 3): 1000, (3, 2): 1000, (3, 3): 500 if thorough else 100}
    fshapes = QUICK_SHAPES + [(3, 3)]
    jobs = []
    for (r, c) in fshapes:
        n = N_TREES[(r, c)] * mult[(r, c)]
        per = n // 16
        parts = [per] * 15 + [n - 15 * per]
        jobs += [(r, c, p, chk.seed * 1000 + 17 * i + 100 * r + c) for i, p in enumerate(parts)]
    # the same experiments after a history of other grids in the same process (narrower / wider grid with the same row or column count first)
    hist_jobs = []
    for (r, c), before in (((2, 3), [(2, 2, 50)]), ((3, 2), [(2, 2, 50), (3, 3, 20)]), ((2, 2), [(2, 3, 50), (3, 2, 50)]), ((3, 3), [(3, 2, 50), (2, 3, 50)])):
        n = N_TREES[(r, c)] * (300 if (r, c) != (3, 3) else 60)
        for i in range(4):
            hist_jobs.append((r, c, n // 4, chk.seed * 977 + 31 * i + 7 * r + c, before))
    outs = lib.pmap(_freq, jobs + hist_jobs)
    houts = outs[len(jobs):]
    outs = outs[: len(jobs)]
    for (r, c) in sorted({(j[0], j[1]) for j in hist_jobs}):
        tot = {}
        for job, o in zip(hist_jobs, houts):
            if (job[0], job[1]) == (r, c):
                for k, v in o.items():
                    tot[k] = tot.get(k, 0) + v
        n = sum(tot.values())
        n_use = (n // N_TREES[(r, c)]) * N_TREES[(r, c)]
        q = chi2_quantile(N_TREES[(r, c)] - 1)
        freq_recs.append(dict(kind="freq", src="real_rng_after_other_grids", R=r, C=c, exact=False, terms=[], draws=n_use, counts=[dict(slots=[list(x) for x in k], n=v) for k, v in sorted(tot.items())], thr=[int(q * 1000) + 1, 1000]))
        chk.evaluations += n
    for (r, c) in fshapes:
        tot = {}
        for job, o in zip(jobs, outs):
            if (job[0], job[1]) == (r, c):
                for k, v in o.items():
                    tot[k] = tot.get(k, 0) + v
        n = sum(tot.values())
        q = chi2_quantile(N_TREES[(r, c)] - 1)
        freq_recs.append(dict(kind="freq", src="real_rng", R=r, C=c, exact=False, terms=[], draws=n, counts=[dict(slots=[list(x) for x in k], n=v) for k, v in sorted(tot.items())], thr=[int(q * 1000) + 1, 1000]))
        chk.evaluations += n
    recs = code_recs + freq_recs
    lib.judge_with_canaries(chk, "Trace_Uniform", recs, canaries(), label="uniform", what="absorption distribution of the CODE's learned chain + real-RNG frequency experiments judged by Uniform!Clauses",
                            case_of=lambda x: {k: (v if k not in ("terms", "counts") else v[:40]) for k, v in x.items()}, shards=4, min_per_shard=1)
    chk.sample(dict(kind="dist", src="code", R=code_recs[0]["R"], C=code_recs[0]["C"], terms=code_recs[0]["terms"][:4]) if code_recs else "no chain learned")
    chk.sample(dict(kind="freq", R=freq_recs[1]["R"], C=freq_recs[1]["C"], draws=freq_recs[1]["draws"], counts=freq_recs[1]["counts"][:4], thr=freq_recs[1]["thr"]))
    chk.exhaustive = bool(code_recs) and len(code_recs) == len(shapes)
    chk.notes["code_chain_transitions_total"] = tot_tr
    chk.assumptions = [
        "numpy.random.choice(n) / randint are uniform over their range (trusted base)",
        "the loop-head snapshot (visited, connections, path) is a sufficient statistic of gen_wilson's state",
        "frequency test: false-alarm probability 1e-9 per experiment (chi-square quantile), the one probabilistic assumption",
        "exact for grids <= 2x3/3x2 (fractions), 3x3 by power iteration to 1e-15 remaining mass (thorough tier)",
    ]
    return chk.finish("the model chain is uniform (design level); the real code's own learned chain has exactly the uniform absorption distribution over all spanning trees; real-RNG frequencies pass the chi-square bound")


def replay(path: str) -> int:
    d = json.load(open(path))
    case = d["case"]
    r, c = case["R"], case["C"]
    if case.get("kind") == "dist":
        ch = gens.learn_wilson_chain(r, c, time_limit=2400)
        if not ch.get("complete"):
            print("replay: chain not learnable")
            return 0
        dist, exact = gens.absorption(ch)
        rec = dist_record("code", r, c, dist, exact)
    else:
        n = case["draws"]
        tot = _freq((r, c, n, 4242))
        q = chi2_quantile(N_TREES.get((r, c), len(tot)) - 1)
        rec = dict(kind="freq", src="real_rng", R=r, C=c, exact=False, terms=[], draws=n, counts=[dict(slots=[list(x) for x in k], n=v) for k, v in sorted(tot.items())], thr=[int(q * 1000) + 1, 1000])
    rec["id"] = 0
    out = lib.oracle("Trace_Uniform", [rec], tag="rp")
    print("replay verdict:", out.verdicts.get(0, []))
    if out.verdicts.get(0):
        print(f"VIOLATION property=C19 replay={path}")
        return 1
    return 0
