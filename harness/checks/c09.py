"""C09 -- maze objects are values: total structural equality, consistent hash, valid ends.

(A/B) MazeValue.tla states the value semantics (Val, Eq, Ne, HashOK, ConstructOutcome, DsEq) and DEFINES
      THE SMALL SCOPE: TLC enumerates it (every case is a model state, invariants LabelSound /
      ScopeWellFormed / EqLaws / HashConsistent / CtorSound / DsSound) and emits it as ndjson; a
      representation-dependent model hash must be rejected by TLC (MazeValue_badhash.cfg).
(C)   the harness builds exactly the emitted objects with the real library, records the raw projection
      of every object plus the results of ==, !=, hash, set/dict de-duplication, constructor outcome,
      dataset ==, and Trace_MazeValue.tla judges every record.  A seeded random tier repeats the same
      case forms on larger / oblong grids (multi-digit coordinates, random walks, library round trips
      that produce int8 arrays, longer duplicate lists).

Interpretation decisions
  * "true exactly when": truthiness of the result of == / != (bool(x)); a result whose truth value
    cannot be taken counts as raising.
  * both operand orders are observed (a == b and b == a): Python may dispatch to either operand.
  * non-maze right operands (None, int, tuple, str, list) must compare unequal without raising.
  * hash collisions between different values are allowed (e.g. 2x3 vs 3x2 with the same bytes).
  * configuration equality for datasets: the fields name / grid_n / seed / maze_ctor decide; when ONLY
    n_mazes differs the statement does not say (the code documents n_mazes as "not compared" but the
    installed dataclass machinery compares it) and the configuration's own == is taken.
  * constructor: only start / end are constrained (not interior solution cells); any accepted object
    must hold exactly in-grid ends; out-of-grid => ValueError precisely.
"""
import concurrent.futures as cf
import copy
import json
import shutil
import tempfile

import numpy as np

from harness import lib, mz

KINDS = ["LatticeMaze", "TargetedLatticeMaze", "SolvedMaze"]
EQUAL_RELS = {"same", "copy", "meta", "rep"}
MAX_LISTED = 12  # violations listed (replay file + VIOLATION line) per clause and record kind


def _metas(k):
    return {0: None, 1: {"func_name": "gen_x", "k": 1}, 2: {"func_name": "gen_y", "grid_shape": np.array([1, 2]), "k": 2}}[k]


# ------------------------------------------------------------------ building real objects
def _cfg(name="c09", grid_n=3, n_mazes=1, seed=7, ctor="gen_dfs"):
    from maze_dataset import MazeDatasetConfig
    from maze_dataset.generation import GENERATORS_MAP

    return MazeDatasetConfig(name=name, grid_n=grid_n, n_mazes=n_mazes, seed=seed, maze_ctor=GENERATORS_MAP[ctor])


def _roundtrip(m, rep):
    """equal copies produced by the library's own (de)serialization routes (int8 arrays for the minimal ones)"""
    from maze_dataset import MazeDataset

    if rep == "rt_maze":
        return type(m).load(m.serialize())
    # the dataset routes collect (and clear) generation_meta, which must be present: give the throw-away
    # source object a collectable one (generation_meta is not part of the value)
    R, C = m.connection_list.shape[1:]
    src = mz.SolvedMaze(connection_list=m.connection_list, solution=m.solution, generation_meta=dict(func_name="gen_dfs", grid_shape=np.array([R, C]), fully_connected=True))
    ds = MazeDataset(_cfg(grid_n=int(R), n_mazes=1), [src])
    ser = {"rt_ds_full": ds._serialize_full, "rt_ds_minimal": ds._serialize_minimal, "rt_ds_minimal_cat": ds._serialize_minimal_soln_cat}[rep]()
    return MazeDataset.load(ser).mazes[0]


def build(d, same=None):
    """the real object described by d = {kind, conn, start, end, sol, meta, rep}; rep/meta are representation only"""
    rep = d.get("rep", "copy")
    if rep == "same":
        return same
    conn = np.array(d["conn"], dtype=bool)
    _, R, C = conn.shape
    if rep == "conn_view":  # non-contiguous view into a larger array
        big = np.ones((2, R + 2, C + 1), dtype=bool)
        big[:, 1 : R + 1, :C] = conn
        conn = big[:, 1 : R + 1, :C]
    elif rep == "conn_fortran":
        conn = np.asfortranarray(conn)
    meta = _metas(d.get("meta", 0))
    kind = d["kind"]
    if kind == "LatticeMaze":
        m = mz.LatticeMaze(connection_list=conn, generation_meta=meta)
    elif kind == "TargetedLatticeMaze":
        conv = {
            "ends_int8": lambda x: np.array(x, dtype=np.int8),
            "ends_int32": lambda x: np.array(x, dtype=np.int32),
            "ends_list": list,
            "ends_tuple": tuple,
        }.get(rep, np.array)
        m = mz.TargetedLatticeMaze(connection_list=conn, start_pos=conv(d["start"]), end_pos=conv(d["end"]), generation_meta=meta)
    else:
        sol, kw = d["sol"], {}
        if rep == "sol_int8":
            sol = np.array(sol, dtype=np.int8)
        elif rep == "sol_int32":
            sol = np.array(sol, dtype=np.int32)
        elif rep == "sol_list":
            sol = [list(c) for c in sol]
        elif rep == "sol_tuples":
            sol = [tuple(c) for c in sol]
        else:
            sol = np.array(sol)
        if rep == "sol_explicit_ends":
            kw = dict(start_pos=np.array(d["start"]), end_pos=np.array(d["end"]))
        m = mz.SolvedMaze(connection_list=conn, solution=sol, generation_meta=meta, **kw)
    if rep.startswith("rt_"):
        m = _roundtrip(m, rep)
    return m


def proj(m):
    """raw projection of a real maze object (the abstraction to a value is done in TLA+)"""
    sp, ep, sol = getattr(m, "start_pos", None), getattr(m, "end_pos", None), getattr(m, "solution", None)
    return dict(
        kind=type(m).__name__,
        conn=np.asarray(m.connection_list).astype(int).tolist(),
        start=[int(x) for x in sp] if sp is not None else [],
        end=[int(x) for x in ep] if ep is not None else [],
        sol=[[int(a), int(b)] for a, b in sol] if sol is not None else [],
    )


def tv(fn):
    """truth value of a comparison: 'True' | 'False' | 'raise:<Type>' | 'nonbool:<type>'"""
    try:
        x = fn()
    except BaseException as e:  # noqa: BLE001
        if isinstance(e, (KeyboardInterrupt, SystemExit)):
            raise
        return "raise:" + type(e).__name__
    try:
        return "True" if bool(x) else "False"
    except Exception:  # noqa: BLE001
        return "nonbool:" + type(x).__name__


def _foreign(tag):
    return {"None": None, "int": 0, "tuple": (0, 0), "str": "LatticeMaze", "list": [[0, 0]]}[tag]


# ------------------------------------------------------------------ observation (real code)
def obs_pair(a, b, pa, rel, ad, bd):
    ra, ha = mz.outcome(lambda: hash(a))
    rb, hb = mz.outcome(lambda: hash(b))
    rs, ns = mz.outcome(lambda: len({a, b}))
    rd, nd = mz.outcome(lambda: len(dict.fromkeys([a, b])))
    return dict(
        t="pair", rel=rel, exp=rel in EQUAL_RELS, a=pa, b=proj(b),
        eq=tv(lambda: a == b), ne=tv(lambda: a != b), eq_r=tv(lambda: b == a), ne_r=tv(lambda: b != a),
        ha=ra, hb=rb, heq=bool(ra == "ok" and rb == "ok" and ha == hb),
        set_res=rs, set_n=int(ns) if rs == "ok" else -1, dict_res=rd, dict_n=int(nd) if rd == "ok" else -1,
        arep=ad.get("rep", "copy"), ameta=ad.get("meta", 0), brep=bd.get("rep", "copy"), bmeta=bd.get("meta", 0),
    )  # fmt: skip


def obs_foreign(a, pa, tag, ad):
    o = _foreign(tag)
    return dict(t="foreign", a=pa, other=tag, eq=tv(lambda: a == o), ne=tv(lambda: a != o), eq_r=tv(lambda: o == a), ne_r=tv(lambda: o != a),
                arep=ad.get("rep", "copy"), ameta=ad.get("meta", 0))  # fmt: skip


def _build_failed(d, e):
    """a described (well-formed) maze could not be built: reported as a constructor observation"""
    conn = np.array(d["conn"])
    return dict(t="ctor", kind=d["kind"], R=int(conn.shape[1]), C=int(conn.shape[2]), start=d["start"], end=d["end"], form="build:" + d.get("rep", "copy"),
                res="raise:" + type(e).__name__, got_start=[], got_end=[])  # fmt: skip


def observe_group(g):
    """one base maze a x all its variants b (+ foreign right operands)"""
    try:
        a = build(g["a"])
    except Exception as e:  # noqa: BLE001
        if g["a"]["kind"] == "LatticeMaze":
            raise
        return [_build_failed(g["a"], e)]
    pa = proj(a)
    out = []
    for v in g["vs"]:
        try:
            b = build(v["m"], same=a)
        except Exception as e:  # noqa: BLE001
            if v["m"]["kind"] == "LatticeMaze":
                raise
            out.append(_build_failed(v["m"], e))
            continue
        out.append(obs_pair(a, b, pa, v["rel"], g["a"], v["m"]))
    for tag in g.get("foreign", []):
        out.append(obs_foreign(a, pa, tag, g["a"]))
    return out


def walk(s, e):
    """row-first lattice walk s -> e (input generation only)"""
    p = [list(s)]
    while p[-1][0] != e[0]:
        p.append([p[-1][0] + (1 if e[0] > p[-1][0] else -1), p[-1][1]])
    while p[-1][1] != e[1]:
        p.append([p[-1][0], p[-1][1] + (1 if e[1] > p[-1][1] else -1)])
    return p


def ctor_call(kind, conn, s, e, form):
    if kind == "TargetedLatticeMaze":
        if form == "from_lattice_maze":
            return mz.TargetedLatticeMaze.from_lattice_maze(mz.LatticeMaze(connection_list=conn), np.array(s), np.array(e))
        conv = {"array": np.array, "tuple": tuple, "int8": lambda x: np.array(x, dtype=np.int8)}[form]
        return mz.TargetedLatticeMaze(connection_list=conn, start_pos=conv(s), end_pos=conv(e))
    if form == "pair":
        return mz.SolvedMaze(connection_list=conn, solution=np.array([s, e]))
    if form == "walk":
        return mz.SolvedMaze(connection_list=conn, solution=np.array(walk(s, e)))
    if form == "walk_explicit_ends":
        return mz.SolvedMaze(connection_list=conn, solution=np.array(walk(s, e)), start_pos=np.array(s), end_pos=np.array(e))
    if form == "from_lattice_maze":
        return mz.SolvedMaze.from_lattice_maze(mz.LatticeMaze(connection_list=conn), [tuple(c) for c in walk(s, e)])
    raise ValueError(form)


def observe_ctor(c):
    R, C = c["R"], c["C"]
    conn = mz.conn_from_int(R, C, mz.n_graphs(R, C) - 1)
    out = []
    for form in c["forms"]:
        res, m = mz.outcome(lambda: ctor_call(c["kind"], conn, c["start"], c["end"], form))
        out.append(dict(t="ctor", kind=c["kind"], R=R, C=C, start=list(c["start"]), end=list(c["end"]), form=form, res=res,
                        got_start=[int(x) for x in m.start_pos] if res == "ok" else [], got_end=[int(x) for x in m.end_pos] if res == "ok" else []))  # fmt: skip
    return out


def _cfg_variant(base_kw, v):
    kw = dict(base_kw)
    if v == "name":
        kw["name"] = kw["name"] + "x"
    elif v == "grid_n":
        kw["grid_n"] += 1
    elif v == "seed":
        kw["seed"] += 1
    elif v == "ctor":
        kw["ctor"] = "gen_wilson"
    elif v == "n_mazes":
        kw["n_mazes"] += 1
    return kw


def _cfgrec(c):
    return dict(name=str(c.name), grid_n=int(c.grid_n), seed=int(c.seed), ctor=str(c.maze_ctor.__name__))


def observe_ds(c):
    """MazeDataset(cfg_a, pool[la]) == MazeDataset(cfg_b, fresh copies of pool[lb]) for every cfg variant"""
    from maze_dataset import MazeDataset

    A = [build(c["pool"][i - 1]) for i in c["la"]]
    base_kw = dict(name="c09", grid_n=max(c["R"], c["C"]), n_mazes=len(A), seed=7, ctor="gen_dfs")
    ca = _cfg(**base_kw)
    dsa = MazeDataset(ca, A)
    out = []
    for v in c["cfgs"]:
        B = [build(c["pool"][i - 1]) for i in c["lb"]]
        cb = ca if v == "same" else _cfg(**_cfg_variant(base_kw, v))
        dsb = MazeDataset(cb, B)
        out.append(dict(
            t="ds", cv=v, ca=_cfgrec(ca), cb=_cfgrec(cb), na=int(ca.n_mazes), nb=int(cb.n_mazes), ceq=tv(lambda: ca == cb),
            ma=[proj(m) for m in A], mb=[proj(m) for m in B], eq=tv(lambda: dsa == dsb), ne=tv(lambda: dsa != dsb),
            ra=[c["pool"][i - 1].get("rep", "copy") for i in c["la"]], rb=[c["pool"][i - 1].get("rep", "copy") for i in c["lb"]],
            ea=[c["pool"][i - 1].get("meta", 0) for i in c["la"]], eb=[c["pool"][i - 1].get("meta", 0) for i in c["lb"]],
        ))  # fmt: skip
    if c["la"] == c["lb"]:  # the dataset against a non-dataset: never raises, never equal
        for tag in ("None", "list"):
            o = None if tag == "None" else list(A)
            out.append(dict(t="foreign", a=dict(kind="MazeDataset", conn=[], start=[], end=[], sol=[]), other=tag,
                            eq=tv(lambda: dsa == o), ne=tv(lambda: dsa != o), eq_r=tv(lambda: o == dsa), ne_r=tv(lambda: o != dsa), arep="ds", ameta=0))  # fmt: skip
    return out


def observe_dedup(c):
    """c = {descs: [...], same_as: [...]}: de-duplication of a list of mazes through set() and dict.fromkeys()"""
    objs = []
    for d, sa in zip(c["descs"], c["same_as"]):
        objs.append(objs[sa] if sa >= 0 else build(d))
    hs_ok = all(mz.outcome(lambda o=o: hash(o))[0] == "ok" for o in objs)
    rs, ns = mz.outcome(lambda: len(set(objs)))
    rd, keys = mz.outcome(lambda: list(dict.fromkeys(objs)))
    first = []
    if rd == "ok":
        for k in keys:
            first.append(next(i for i, o in enumerate(objs) if o is k))
    return dict(t="dedup", ms=[proj(o) for o in objs], hs_ok=hs_ok, set_res=rs, set_n=int(ns) if rs == "ok" else -1, dict_res=rd, dict_first=first,
                reps=[d.get("rep", "copy") for d in c["descs"]], metas=[d.get("meta", 0) for d in c["descs"]], same_as=list(c["same_as"]))  # fmt: skip


def observe_case(c):
    return {"pairs": observe_group, "ctor": observe_ctor, "ds": observe_ds, "dedup": lambda x: [observe_dedup(x)]}[c["t"]](c)


# ------------------------------------------------------------------ seeded random larger cases (same case forms)
def _cells(R, C):
    return [[i, j] for i in range(R) for j in range(C)]


def _rand_walk(rng, R, C, s, n):
    p = [list(s)]
    for _ in range(n - 1):
        x = p[-1]
        nb = [[x[0] + a, x[1] + b] for a, b in ((1, 0), (-1, 0), (0, 1), (0, -1)) if 0 <= x[0] + a < R and 0 <= x[1] + b < C]
        if not nb:
            break
        p.append(nb[int(rng.integers(len(nb)))])
    return p


def _rand_desc(rng, maxn, kind=None, square=False, shape=None):
    R = int(rng.integers(1, maxn + 1))
    C = R if square else int(rng.integers(1, maxn + 1))
    if shape:
        R, C = shape
    conn = mz.rand_conn(rng, R, C, float(rng.choice([0.2, 0.5, 0.8])))
    if rng.random() < 0.15:  # boundary bits are part of the raw value as well
        conn[int(rng.integers(2)), -1 if rng.random() < 0.5 else int(rng.integers(R)), -1] = True
    kind = kind or KINDS[int(rng.choice(3, p=[0.2, 0.3, 0.5]))]
    d = dict(kind=kind, conn=mz.raw(conn), start=[], end=[], sol=[], meta=int(rng.integers(3)), rep="copy")
    if kind != "LatticeMaze":
        s = [int(rng.integers(R)), int(rng.integers(C))]
        if kind == "SolvedMaze":
            d["sol"] = _rand_walk(rng, R, C, s, int(rng.integers(1, R + C + 6)))
            d["start"], d["end"] = d["sol"][0], d["sol"][-1]
        else:
            d["start"], d["end"] = s, [int(rng.integers(R)), int(rng.integers(C))]
    return d


def _with_sol(d, sol):
    return dict(d, sol=sol, start=sol[0], end=sol[-1])


def _reflow(d, R2, C2):
    conn = np.array(d["conn"])
    flat = conn.reshape(-1)
    new = np.zeros(2 * R2 * C2, dtype=int)
    n = min(len(flat), len(new))
    new[:n] = flat[:n]
    clip = lambda c: [min(c[0], R2 - 1), min(c[1], C2 - 1)] if c else []  # noqa: E731
    return dict(d, conn=new.reshape(2, R2, C2).tolist(), start=clip(d["start"]), end=clip(d["end"]), sol=[clip(c) for c in d["sol"]])


def _mutate(rng, d, rel):
    """a variant of d in relation rel, or None when rel does not apply (input generation only; the oracle
    recomputes equality from the projections of the real objects)"""
    conn = np.array(d["conn"])
    _, R, C = conn.shape
    kind = d["kind"]
    other_cell = lambda c: (lambda xs: xs[int(rng.integers(len(xs)))] if xs else None)([x for x in _cells(R, C) if x != c])  # noqa: E731
    if rel == "copy":
        return dict(d, rep="copy")
    if rel == "meta":
        return dict(d, meta=(d["meta"] + 1 + int(rng.integers(2))) % 3, rep="copy")
    if rel == "rep":
        reps = ["conn_view", "conn_fortran", "rt_maze"]
        if kind == "TargetedLatticeMaze":
            reps += ["ends_int8", "ends_list", "ends_tuple", "ends_int32"]
        if kind == "SolvedMaze":
            reps += ["sol_int8", "sol_int32", "sol_list", "sol_tuples", "sol_explicit_ends", "rt_ds_full"] + (["rt_ds_minimal", "rt_ds_minimal_cat"] * 2 if R == C else [])
        return dict(d, rep=reps[int(rng.integers(len(reps)))])
    if rel == "bit":
        c2 = conn.copy()
        k = (int(rng.integers(2)), int(rng.integers(R)), int(rng.integers(C)))
        c2[k] = 1 - c2[k]
        return dict(d, conn=c2.tolist())
    if rel == "shape":
        opts = [(r2, (R * C) // r2) for r2 in range(1, R * C + 1) if (R * C) % r2 == 0 and (r2, (R * C) // r2) != (R, C)] + [(R + 1, C), (R, C + 1)] + ([(R - 1, C)] if R > 1 else [])
        return _reflow(d, *opts[int(rng.integers(len(opts)))])
    if rel == "kind":
        k2 = [k for k in KINDS if k != kind][int(rng.integers(2))]
        s = d["start"] or [0, 0]
        e = d["end"] or [0, 0]
        if k2 == "LatticeMaze":
            return dict(d, kind=k2, start=[], end=[], sol=[])
        if k2 == "TargetedLatticeMaze":
            return dict(d, kind=k2, start=s, end=e, sol=[])
        return _with_sol(dict(d, kind=k2), walk(s, e))
    if kind == "TargetedLatticeMaze":
        if rel in ("start", "end"):
            c = other_cell(d[rel])
            return dict(d, **{rel: c}) if c else None
        if rel == "swap":
            return dict(d, start=d["end"], end=d["start"]) if d["start"] != d["end"] else None
    if kind == "SolvedMaze":
        sol = [list(c) for c in d["sol"]]
        if rel == "solcell":
            k = int(rng.integers(len(sol)))
            c = [sol[k][1], sol[k][0]] if (rng.random() < 0.5 and sol[k][0] != sol[k][1] and sol[k][1] < R and sol[k][0] < C) else other_cell(sol[k])
            if c is None:
                return None
            sol[k] = c
            return _with_sol(d, sol)
        if rel == "longer":
            c = _cells(R, C)[int(rng.integers(R * C))]
            return _with_sol(d, sol + [c] if rng.random() < 0.5 else [c] + sol)
        if rel == "shorter":
            if len(sol) < 2:
                return None
            k = int(rng.integers(len(sol)))
            return _with_sol(d, sol[:k] + sol[k + 1 :])
        if rel == "reversed":
            return _with_sol(d, sol[::-1]) if sol != sol[::-1] else None
    return None


UNEQUAL = ["bit", "shape", "kind", "start", "end", "swap", "solcell", "longer", "shorter", "reversed"]


def rand_group(args):
    seed, k, maxn = args
    rng = np.random.default_rng([seed, 9, k])
    a = _rand_desc(rng, maxn, square=bool(k % 3 == 0))
    a["rep"] = ["copy", "copy", "sol_int8" if a["kind"] == "SolvedMaze" else "conn_view"][k % 3]
    vs = [dict(rel="same", m=dict(a, rep="same"))]
    for rel in ["copy", "meta", "rep", "rep", "rep"] + UNEQUAL + ["bit", "solcell", "shape"]:
        m = _mutate(rng, a, rel)
        if m is not None:
            if rel not in EQUAL_RELS:
                m = dict(m, rep="copy")
            vs.append(dict(rel=rel, m=m))
    return observe_group(dict(t="pairs", a=a, vs=vs, foreign=["None", "tuple"]))


def rand_dedup(args):
    seed, k, maxn = args
    rng = np.random.default_rng([seed, 11, k])
    base = _rand_desc(rng, maxn, square=bool(k % 2))
    descs, same_as = [], []
    for i in range(int(rng.integers(2, 11))):
        u = rng.random()
        if i > 0 and u < 0.2:
            j = int(rng.integers(i))
            descs.append(descs[j])
            same_as.append(j if same_as[j] < 0 else same_as[j])
            continue
        src = base if (i == 0 or u < 0.6) else descs[int(rng.integers(i))]
        rel = ["copy", "meta", "rep"][int(rng.integers(3))] if rng.random() < 0.6 else UNEQUAL[int(rng.integers(len(UNEQUAL)))]
        m = _mutate(rng, src, rel) or dict(src, rep="copy")
        if rel not in EQUAL_RELS:
            m = dict(m, rep="copy")
        descs.append(m)
        same_as.append(-1)
    return observe_dedup(dict(t="dedup", descs=descs, same_as=same_as))


def rand_ctor(args):
    seed, k, maxn = args
    rng = np.random.default_rng([seed, 13, k])
    R, C = int(rng.integers(1, maxn + 1)), int(rng.integers(1, maxn + 1))
    kind = ["TargetedLatticeMaze", "SolvedMaze"][k % 2]

    def coord(n):
        u = rng.random()
        if u < 0.45:
            return int(rng.integers(n))
        return int(rng.choice([-100, -3, -2, -1, 0, n - 1, n, n + 1, n + 2, n + 100, 127]))

    pt = lambda: [coord(R), coord(C)]  # noqa: E731
    s, e = pt(), pt()
    if k % 4 < 2:  # exactly one bad coordinate among the four
        s, e = [int(rng.integers(R)), int(rng.integers(C))], [int(rng.integers(R)), int(rng.integers(C))]
        tgt = [s, e][int(rng.integers(2))]
        ax = int(rng.integers(2))
        tgt[ax] = int(rng.choice([-1, -2, [R, C][ax], [R, C][ax] + 1]))
    forms = ["array", "tuple", "int8", "from_lattice_maze"] if kind == "TargetedLatticeMaze" else ["walk", "pair", "walk_explicit_ends", "from_lattice_maze"]
    return observe_ctor(dict(t="ctor", kind=kind, R=R, C=C, start=s, end=e, forms=forms))


def rand_ds(args):
    seed, k, maxn = args
    rng = np.random.default_rng([seed, 15, k])
    n = int(rng.integers(2, maxn + 1))
    nb = 3
    base = [_rand_desc(rng, n, kind="SolvedMaze", shape=(n, n)) for _ in range(nb)]
    # pool (1-based): base i | equal copy of base i in another representation at nb+i | different value at 2nb+i
    pool = base + [_mutate(rng, b, "rep") for b in base]
    for b in base:
        m = _mutate(rng, b, ["bit", "solcell", "longer", "shorter", "reversed"][int(rng.integers(5))]) or _mutate(rng, b, "bit")
        pool.append(dict(m, rep="copy"))
    la = [int(rng.integers(1, len(pool) + 1)) for _ in range(int(rng.integers(0, 6)))]
    u = rng.random()
    if u < 0.35:  # equal lists through equal copies in other representations
        lb = [i + nb if (i <= nb and rng.random() < 0.7) else i for i in la]
    elif u < 0.55 and la:  # one position replaced
        lb = list(la)
        lb[int(rng.integers(len(lb)))] = int(rng.integers(1, len(pool) + 1))
    elif u < 0.7:  # shorter / longer
        lb = la[:-1] if la and rng.random() < 0.5 else la + [1]
    elif u < 0.8:
        lb = la[::-1]
    else:
        lb = [int(rng.integers(1, len(pool) + 1)) for _ in range(len(la))]
    return observe_ds(dict(t="ds", R=n, C=n, pool=pool, la=la, lb=lb, cfgs=["same", "copy", ["name", "grid_n", "seed", "ctor", "n_mazes"][k % 5]]))


# ------------------------------------------------------------------ canaries
def _first(recs, pred):
    return next((r for r in recs if pred(r)), None)


def _mk(r, **kw):
    c = copy.deepcopy(r)
    c.update(kw)
    return c


def canaries_for(recs):
    """deliberately corrupted copies of real records + the clause that must reject each"""
    out = []
    okh = dict(ha="ok", hb="ok")
    p = _first(recs, lambda r: r["t"] == "pair" and r["rel"] == "copy")
    if p:
        good = dict(eq="True", ne="False", eq_r="True", ne_r="False", heq=True, set_res="ok", set_n=1, dict_res="ok", dict_n=1, exp=True, **okh)
        out += [
            (_mk(p, **dict(good, eq="raise:ValueError")), "eq_raises"),
            (_mk(p, **dict(good, ne_r="raise:ValueError")), "ne_raises"),
            (_mk(p, **dict(good, eq="False")), "eq_truth_table"),
            (_mk(p, **dict(good, ne="True")), "ne_truth_table"),
            (_mk(p, **dict(good, ne_r="True")), "ne_truth_table_reflected"),
            (_mk(p, **dict(good, hb="raise:TypeError", heq=False)), "unhashable"),
            (_mk(p, **dict(good, heq=False)), "hash_inconsistent"),
            (_mk(p, **dict(good, set_n=2)), "set_dedup"),
            (_mk(p, **dict(good, dict_n=2)), "dict_dedup"),
            (_mk(p, **dict(good, set_res="raise:TypeError", set_n=-1)), "set_raises"),
            (_mk(p, **dict(good, exp=False)), "M:scope_label"),
        ]
    p = _first(recs, lambda r: r["t"] == "pair" and r["rel"] == "copy" and r["a"]["kind"] == "TargetedLatticeMaze")
    if p:
        bad = _mk(p, eq="True", ne="False", eq_r="True", ne_r="False", heq=True, set_res="ok", set_n=1, dict_res="ok", dict_n=1, exp=True, **okh)
        bad["a"]["start"] = [-1, 0]
        bad["b"]["start"] = [-1, 0]
        out.append((bad, "holds_end_outside_grid"))
    bad_ne = dict(eq="False", ne="True", eq_r="False", ne_r="True", heq=False, set_res="ok", set_n=2, dict_res="ok", dict_n=2, exp=False, **okh)
    for rel in ("bit", "shape", "kind", "solcell", "start"):
        p = _first(recs, lambda r: r["t"] == "pair" and r["rel"] == rel)
        if p:
            out.append((_mk(p, **dict(bad_ne, eq="True")), "eq_truth_table"))
            out.append((_mk(p, **dict(bad_ne, eq_r="True")), "eq_truth_table_reflected"))
            out.append((_mk(p, **dict(bad_ne, ne="False")), "ne_truth_table"))
            out.append((_mk(p, **dict(bad_ne, set_n=1)), "set_dedup"))
    p = _first(recs, lambda r: r["t"] == "foreign")
    if p:
        good = dict(eq="False", ne="True", eq_r="False", ne_r="True")
        out += [(_mk(p, **dict(good, eq="True")), "eq_truth_table"), (_mk(p, **dict(good, eq_r="raise:AttributeError")), "eq_raises"), (_mk(p, **dict(good, ne="False")), "ne_truth_table")]
    ingrid = lambda r: all(0 <= r[k][0] < r["R"] and 0 <= r[k][1] < r["C"] for k in ("start", "end"))  # noqa: E731
    p = _first(recs, lambda r: r["t"] == "ctor" and not ingrid(r))
    if p:
        out += [(_mk(p, res="ok", got_start=p["start"], got_end=p["end"]), "accepts_end_outside_grid"), (_mk(p, res="raise:IndexError", got_start=[], got_end=[]), "wrong_exception_type")]
    p = _first(recs, lambda r: r["t"] == "ctor" and not ingrid(r) and min(r["start"]) < 0 and r["start"][0] < r["R"] and r["start"][1] < r["C"])
    if p:  # the historical defect: a negative coordinate accepted
        out.append((_mk(p, res="ok", got_start=p["start"], got_end=p["end"]), "holds_end_outside_grid"))
    p = _first(recs, lambda r: r["t"] == "ctor" and ingrid(r))
    if p:
        out += [(_mk(p, res="raise:ValueError", got_start=[], got_end=[]), "rejects_end_inside_grid"), (_mk(p, res="ok", got_start=[p["start"][0], p["C"]], got_end=p["end"]), "holds_end_outside_grid")]
    same_ms = lambda r: json.dumps(r["ma"]) == json.dumps(r["mb"])  # noqa: E731
    p = _first(recs, lambda r: r["t"] == "ds" and r["cv"] == "copy" and same_ms(r) and len(r["ma"]) > 0)
    if p:
        out += [(_mk(p, eq="False", ne="True", ceq="True"), "ds_eq_truth_table"), (_mk(p, eq="True", ne="True", ceq="True"), "ds_ne_truth_table"), (_mk(p, eq="raise:ValueError", ne="raise:ValueError", ceq="True"), "ds_eq_raises")]
    p = _first(recs, lambda r: r["t"] == "ds" and r["cv"] == "copy" and not same_ms(r))
    if p:
        out.append((_mk(p, eq="True", ne="False", ceq="True"), "ds_eq_truth_table"))
    p = _first(recs, lambda r: r["t"] == "ds" and r["cv"] == "name" and same_ms(r))
    if p:
        out.append((_mk(p, eq="True", ne="False", ceq="False"), "ds_eq_truth_table"))
    p = _first(recs, lambda r: r["t"] == "dedup" and len(r["dict_first"]) >= 1)
    if p:
        n = len(p["dict_first"])
        good = dict(hs_ok=True, set_res="ok", set_n=n, dict_res="ok")
        out += [(_mk(p, **dict(good, set_n=n + 1)), "set_dedup"), (_mk(p, **dict(good, dict_first=p["dict_first"][:-1])), "dict_dedup"), (_mk(p, **dict(good, hs_ok=False)), "unhashable")]
    return out


# ------------------------------------------------------------------ judging
def _nontrivial(r):
    t = r["t"]
    if t == "pair":
        return r["rel"] != "same"
    if t == "ctor":
        return any(x <= 0 or x >= n - 1 for k in ("start", "end") for x, n in zip(r[k], (r["R"], r["C"])))
    if t == "ds":
        return len(r["ma"]) + len(r["mb"]) > 0
    return True


def _case_key(r):
    t = r["t"]
    if t == "pair":
        return [t, r["a"], r["b"], r["arep"], r["brep"], r["ameta"], r["bmeta"]]
    if t == "foreign":
        return [t, r["a"], r["other"]]
    if t == "ctor":
        return [t, r["kind"], r["R"], r["C"], r["start"], r["end"], r["form"]]
    if t == "ds":
        return [t, r["ca"], r["cb"], r["na"], r["nb"], r["ma"], r["mb"], r["rb"]]
    return [t, r["ms"], r["reps"], r["same_as"]]


def judge(chk, recs, label, what, *, require=()):
    """Judge recs with Trace_MazeValue.  Same contract as lib.judge_with_canaries (an accepted canary is a
    machinery error), but the number of LISTED violations is capped per (record kind, clause): on a tree
    where == raises for every pair this would otherwise write ~10^5 replay files."""
    if not recs:
        return
    can = canaries_for(recs)
    got_clauses = {cl for _, cl in can}
    for cl in require:
        if cl not in got_clauses:
            raise lib.MachineryError(f"no canary for clause {cl} could be built from the {label} records")
    for i, x in enumerate(recs):
        x["id"] = i
    allrecs = list(recs)
    for k, (c, _cl) in enumerate(can):
        c["id"] = lib.CANARY_BASE + k
        allrecs.insert((len(allrecs) * (k + 1)) // (len(can) + 1), c)
    res = lib.oracle("Trace_MazeValue", allrecs, tag=label)
    for c, cl in can:
        got = res.verdicts.pop(c["id"], [])
        if cl not in got:
            raise lib.MachineryError(f"canary not rejected by Trace_MazeValue: expected clause {cl!r}, got {got} ({c['t']} record)")
    chk.notes["canaries_rejected"] = chk.notes.get("canaries_rejected", 0) + len(can)
    res.records -= len(can)
    chk.add_oracle("Trace_MazeValue", res, what)
    listed = chk.notes.setdefault("_listed", {})
    unlisted = 0
    for rid, clauses in sorted(res.verdicts.items()):
        r = recs[rid]
        for cl in clauses:
            key = f"{r['t']}:{cl}"
            listed[key] = listed.get(key, 0) + 1
            if cl.startswith("M:"):
                chk.divergence(cl, r, label)
            elif listed[key] <= MAX_LISTED:
                chk.violation(cl, r, label)
            else:
                unlisted += 1
    chk.notes["violations_beyond_listing_cap"] = chk.notes.get("violations_beyond_listing_cap", 0) + unlisted
    for r in recs:
        chk.count(_case_key(r), _nontrivial(r))
        kinds = chk.notes.setdefault("records_by_kind", {})
        kinds[r["t"]] = kinds.get(r["t"], 0) + 1
        if r["t"] == "pair":
            rels = chk.notes.setdefault("pairs_by_relation", {})
            rels[r["rel"]] = rels.get(r["rel"], 0) + 1


def _read(path):
    with open(path) as f:
        return [json.loads(x) for x in f if x.strip()]


def _flat(xs):
    return [r for sub in xs for r in sub]


# ------------------------------------------------------------------ main
PAIR_CLAUSES = ("eq_raises", "ne_raises", "eq_truth_table", "eq_truth_table_reflected", "ne_truth_table", "unhashable", "hash_inconsistent", "set_dedup", "dict_dedup", "holds_end_outside_grid")
CTOR_CLAUSES = ("accepts_end_outside_grid", "rejects_end_inside_grid", "wrong_exception_type", "holds_end_outside_grid")
DS_CLAUSES = ("ds_eq_truth_table", "ds_ne_truth_table", "ds_eq_raises")


def main(chk: lib.Check) -> int:
    thorough = chk.tier == "thorough"
    chk.rule = (
        "cases are emitted by TLC from MazeValue.tla's scope definition: (pairs) every base maze a of shapes 1x1,1x2,2x1,1x3,3x1,2x2 (all graphs; "
        "LatticeMaze / every (start,end) TargetedLatticeMaze / every (start,end) SolvedMaze with the row-first walk) and of 2x3, 3x2 "
        + ("(all 128 graphs each)" if thorough else "(a seeded 1/16 of the 128 graphs each)")
        + " x every variant b: a itself, copy, other generation_meta, every representation (int8/int32/list/tuple arrays, views), every one-bit change of conn "
        "(boundary bits included), every other start / end cell, swap, every one-cell change of the solution, longer / shorter / re-routed / reversed solutions, "
        "other kinds, 12 other shapes (same bytes re-poured), plus 5 non-maze right operands; (ctor) both kinds x every (start,end) in (-2..R+1 x -2..C+1)^2 x 4 call forms "
        "on the 8 shapes; (ds) MazeDataset pairs over lists of length <= 3 from a pool of 4 mazes x 7 configuration variants; then seeded random cases of the same forms "
        "on grids up to 12x12 / 15x15 incl. library round trips and duplicate lists. non-trivial = pair of distinct objects / endpoint on or beyond the boundary / non-empty dataset"
    )
    import maze_dataset

    chk.notes["library_under_test"] = str(maze_dataset.__file__)
    print(f"[C09] library under test: {maze_dataset.__file__}")
    tmp = tempfile.mkdtemp(prefix="c09_", dir=lib.WORK)
    try:
        # ---- (A/B) model-check the scope and emit it
        nch = 16
        jobs = [("small", "MazeValue_small.cfg", 1, 0, "all graphs of 1x1,1x2,2x1,1x3,3x1,2x2: pairs + ctor + ds cases"),
                ("cd23", "MazeValue_23cd.cfg", 1, 0, "2x3 and 3x2: ctor + ds cases")]  # fmt: skip
        chunks = range(nch) if thorough else None
        for sh, off in (("2x3", 0), ("3x2", 5)):
            for ch in chunks if thorough else [(chk.seed + off) % nch]:
                jobs.append((f"{sh}_{ch}", f"MazeValue_{sh}.cfg", nch, ch, f"{sh}: pairs for graphs n = {ch} mod {nch}"))
        per = max(1, lib.NCPU // min(len(jobs), lib.NCPU))

        def run(j):
            tag, cfg, n, ch, _w = j
            return lib.tlc_design("MazeValue", cfg, env={"VERIF_EMIT": f"{tmp}/{tag}", "VERIF_NCHUNKS": n, "VERIF_CHUNK": ch}, workers=per, tag=tag, xmx="3g")

        with cf.ThreadPoolExecutor(max_workers=lib.NCPU) as ex:
            results = list(ex.map(run, jobs))
        for j, r in zip(jobs, results):
            if r.distinct == 0:
                raise lib.MachineryError(f"MazeValue scope {j[0]} is empty")
            chk.add_model("MazeValue/" + j[0], r, j[4] + "; every case one state; LabelSound, ScopeWellFormed, EqLaws, HashConsistent, CtorSound, DsSound")
        r = lib.tlc_expect_violation("MazeValue", "MazeValue_badhash.cfg", "HashConsistent", tag="bad")
        chk.notes["broken_design_variant_rejected"] = "HashVariant=rep_dependent violates HashConsistent"

        # ---- (C) exhaustive small scope on the real code
        ctor_cases = _read(f"{tmp}/small_ctor.ndjson") + _read(f"{tmp}/cd23_ctor.ndjson")
        ds_cases = _read(f"{tmp}/small_ds.ndjson") + _read(f"{tmp}/cd23_ds.ndjson")
        chk.notes["scope_emitted_by_TLC"] = dict(ctor_cases=len(ctor_cases), ds_cases=len(ds_cases), pair_groups=0, pairs=0)
        recs = _flat(lib.pmap(observe_case, ctor_cases, chunksize=64))
        chk.sample({k: recs[len(recs) // 2][k] for k in ("t", "kind", "R", "C", "start", "end", "form", "res")})
        recs2 = _flat(lib.pmap(observe_case, ds_cases, chunksize=16))
        x = _first(recs2, lambda r: r["t"] == "ds" and r["cv"] == "copy" and len(r["ma"]) == 2 and r["eq"] == "True") or recs2[0]
        chk.sample({k: x[k] for k in ("t", "cv", "ca", "cb", "eq", "ne", "ra", "rb")})
        judge(chk, recs + recs2, "ctor_ds", "constructor outcomes over all endpoint pairs in -2..R+1 x -2..C+1; MazeDataset == / != over cfg variants x maze lists", require=CTOR_CLAUSES + DS_CLAUSES)
        del recs, recs2
        files = [f"{tmp}/{j[0]}_pairs.ndjson" for j in jobs if j[0] != "cd23"]
        batch = 5
        for i in range(0, len(files), batch):
            groups = _flat(_read(f) for f in files[i : i + batch])
            chk.notes["scope_emitted_by_TLC"]["pair_groups"] += len(groups)
            chk.notes["scope_emitted_by_TLC"]["pairs"] += sum(len(g["vs"]) + len(g["foreign"]) for g in groups)
            recs = _flat(lib.pmap(observe_case, groups, chunksize=8))
            del groups
            if i == 0:
                for rel in ("rep", "shape"):
                    x = _first(recs, lambda r: r["t"] == "pair" and r["rel"] == rel and r["a"]["kind"] == "SolvedMaze")
                    chk.sample({k: x[k] for k in ("t", "rel", "a", "b", "brep", "eq", "ne", "heq", "set_n")})
            judge(chk, recs, "pair", "==, !=, hash, set/dict results of real object pairs judged against Val/Eq", require=PAIR_CLAUSES)
            del recs
        chk.exhaustive = True
        chk.notes["exhaustive_scope"] = "the complete TLC-emitted scope (see rule); 2x3 and 3x2 pairs " + ("for all graphs" if thorough else "for a seeded 1/16 of the graphs")

        # ---- (C) seeded random larger cases (same case forms, one oracle batch)
        n = 12000 if thorough else 1500
        recs = _flat(lib.pmap(rand_group, [(chk.seed, k, 12) for k in range(n)], chunksize=16))
        x = _first(recs, lambda r: r["t"] == "pair" and r["brep"].startswith("rt_ds_minimal"))
        if x:
            chk.sample({k: x[k] for k in ("t", "rel", "brep", "eq", "heq", "set_n")} | {"shape": [len(x["a"]["conn"][0]), len(x["a"]["conn"][0][0])], "sol_len": len(x["a"]["sol"])})
        dd = lib.pmap(rand_dedup, [(chk.seed, k, 8) for k in range(n // 2)], chunksize=16)
        chk.sample({k: dd[0][k] for k in ("t", "reps", "same_as", "set_n", "dict_first")})
        recs += dd
        recs += _flat(lib.pmap(rand_ctor, [(chk.seed, k, 15) for k in range(n)], chunksize=32))
        recs += _flat(lib.pmap(rand_ds, [(chk.seed, k, 6) for k in range(n // 3)], chunksize=8))
        judge(chk, recs, "random", "random pairs up to 12x12 (random walks, library round trips giving int8 arrays, multi-digit coordinates), duplicate lists of 2..10 mazes through "
              "set()/dict.fromkeys(), constructor calls up to 15x15 with coordinates far outside, random datasets", require=PAIR_CLAUSES + CTOR_CLAUSES + DS_CLAUSES)
    finally:
        shutil.rmtree(tmp, ignore_errors=True)
    chk.notes["violations_listed_by_kind_and_clause"] = chk.notes.pop("_listed", {})
    chk.assumptions = [
        "TLC, CommunityModules JSON reader/writer, CPython/numpy",
        "the raw projection (type name, connection_list, start_pos, end_pos, solution read from the object) is faithful",
        "connection_list is always a bool array (other dtypes of connection_list are outside the statement)",
        "configuration equality when only n_mazes differs is taken from the configuration's own ==",
        "shapes beyond 3x2 are sampled (seeded), not exhaustive" + ("" if thorough else "; quick tier sweeps 1/16 of the 2x3 and 3x2 graphs"),
    ]
    return chk.finish(
        "MazeValue.tla's scope enumerated and model-checked by TLC (every case a state); every emitted case built with the real library and every "
        "recorded ==, !=, hash, set/dict, constructor and dataset result judged by the TLA+ value semantics"
    )


# ------------------------------------------------------------------ replay
def _desc(p, rep, meta):
    return dict(p, rep=rep, meta=meta)


def reobserve(case):
    t = case["t"]
    if t == "pair":
        ad = _desc(case["a"], case["arep"], case["ameta"])
        bd = _desc(case["b"], case["brep"], case["bmeta"])
        a = build(ad)
        return [obs_pair(a, build(bd, same=a), proj(a), case["rel"], ad, bd)]
    if t == "foreign":
        if case["a"]["kind"] == "MazeDataset":
            raise lib.MachineryError("replay of dataset-vs-foreign records is not supported; replay the accompanying ds record")
        ad = _desc(case["a"], case["arep"], case["ameta"])
        a = build(ad)
        return [obs_foreign(a, proj(a), case["other"], ad)]
    if t == "ctor":
        if case["form"].startswith("build:"):
            d = dict(kind=case["kind"], conn=mz.raw(mz.conn_from_int(case["R"], case["C"], 0)), start=case["start"], end=case["end"], sol=walk(case["start"], case["end"]), rep=case["form"][6:])
            try:
                build(d)
            except Exception as e:  # noqa: BLE001
                return [_build_failed(d, e)]
            return []
        return observe_ctor(dict(case, forms=[case["form"]]))
    if t == "ds":
        pool = [_desc(p, r, e) for p, r, e in zip(case["ma"] + case["mb"], case["ra"] + case["rb"], case["ea"] + case["eb"])]
        na = len(case["ma"])
        R = case["ca"]["grid_n"]
        out = observe_ds(dict(R=R, C=R, pool=pool, la=list(range(1, na + 1)), lb=list(range(na + 1, len(pool) + 1)), cfgs=[case["cv"]]))
        return [r for r in out if r["t"] == "ds"]
    if t == "dedup":
        return [observe_dedup(dict(descs=[_desc(p, r, e) for p, r, e in zip(case["ms"], case["reps"], case["metas"])], same_as=case["same_as"]))]
    raise lib.MachineryError(f"unknown record kind {t}")


def replay(path: str) -> int:
    d = json.load(open(path))
    recs = reobserve(d["case"])
    for i, r in enumerate(recs):
        r["id"] = i
    out = lib.oracle("Trace_MazeValue", recs, tag="rp") if recs else None
    bad = sorted({c for v in (out.verdicts.values() if out else []) for c in v if not c.startswith("M:")})
    for r in recs:
        print("replay:", {k: v for k, v in r.items() if k not in ("a", "b", "ma", "mb", "ms")}, "verdict:", out.verdicts.get(r["id"], []))
    if bad:
        print(f"VIOLATION property=C09 replay={path}")
        return 1
    return 0
