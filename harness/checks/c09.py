"""C09 -- maze objects are values: total structural equality, consistent hash, valid ends.

(A/B) MazeValue.tla states the value semantics (Val, Eq, Ne, HashOK, ConstructOutcome, DsEq) and DEFINES
      THE SMALL SCOPE: TLC enumerates it (every case is a model state, invariants LabelSound /
      ScopeWellFormed / EqLaws / HashConsistent / CtorSound / DsSound) and emits it as ndjson; a
      representation-dependent model hash must be rejected by TLC (MazeValue_badhash.cfg).
(C)   the harness builds exactly the emitted objects with the real library, records the raw projection
      of every object plus the results of ==, !=, hash, set/dict de-duplication, constructor outcome,
      dataset ==, and Trace_MazeValue.tla judges every record.  A seeded random tier repeats the same
      case forms on larger / oblong grids (multi-digit coordinates, random walks, library round trips
      that produce int8 arrays, longer duplicate lists).

Interpretation decisions
  * "true exactly when": truthiness of the result of == / != (bool(x)); a result whose truth value
    cannot be taken counts as raising.
  * both operand orders are observed (a == b and b == a): Python may dispatch to either operand.
  * non-maze right operands (None, int, tuple, str, list) must compare unequal without raising.
  * hash collisions between different values are allowed (e.g. 2x3 vs 3x2 with the same bytes).
  * configuration equality for datasets: the fields name / grid_n / seed / maze_ctor decide; when ONLY
    n_mazes differs the statement does not say (the code documents n_mazes as "not compared" but the
    installed dataclass machinery compares it) and the configuration's own == is taken.
  * constructor: only start / end are constrained (not interior solution cells); any accepted object
    must hold exactly in-grid ends; out-of-grid => ValueError precisely.
"""
import concurrent.futures as cf
import copy
import json
import shutil
import tempfile

import numpy as np

from harness import lib, mz

KINDS = ["LatticeMaze", "TargetedLatticeMaze", "SolvedMaze"]
EQUAL_RELS = {"same", "copy", "meta", "rep"}
MAX_LISTED = 12  # violations listed (replay file + VIOLATION line) per clause and record kind


def _metas(k):
    return {0: None, 1: {"func_name": "gen_x", "k": 1}, 2: {"func_name": "gen_y", "grid_shape": np.array([1, 2]), "k": 2}}[k]


# ------------------------------------------------------------------ building real objects
def _cfg(name="c09", grid_n=3, n_mazes=1, seed=7, ctor="gen_dfs"):
    from maze_dataset import MazeDatasetConfig
    from maze_dataset.generation import GENERATORS_MAP

    return MazeDatasetConfig(name=name, grid_n=grid_n, n_mazes=n_mazes, seed=seed, maze_ctor=GENERATORS_MAP[ctor])


class RoundTripFailed(Exception):
    pass


def _roundtrip(m, rep):
    """equal copies produced by the library's own (de)serialization routes (int8 arrays for the minimal ones)"""
    from maze_dataset import MazeDataset

    if rep == "rt_maze":
        return type(m).load(m.serialize())
    # the dataset routes collect (and clear) generation_meta, which must be present: give the throw-away
    # source object a collectable one (generation_meta is not part of the value)
    R, C = m.connection_list.shape[1:]
    src = mz.SolvedMaze(connection_list=m.connection_list, solution=m.solution, generation_meta=dict(func_name="gen_dfs", grid_shape=np.array([R, C]), fully_connected=True))
    ds = MazeDataset(_cfg(grid_n=int(R), n_mazes=1), [src])
    ser = {"rt_ds_full": ds._serialize_full, "rt_ds_minimal": ds._serialize_minimal, "rt_ds_minimal_cat": ds._serialize_minimal_soln_cat}[rep]()
    return MazeDataset.load(ser).mazes[0]


def build(d, same=None):
    """the real object described by d = {kind, conn, start, end, sol, meta, rep}; rep/meta are representation only"""
    rep = d.get("rep", "copy")
    if rep == "same":
        return same
    conn = np.array(d["conn"], dtype=bool)
    _, R, C = conn.shape
    if rep == "conn_view":  # non-contiguous view into a larger array
        big = np.ones((2, R + 2, C + 1), dtype=bool)
        big[:, 1 : R + 1, :C] = conn
        conn = big[:, 1 : R + 1, :C]
    elif rep == "conn_fortran":
        conn = np.asfortranarray(conn)
    meta = _metas(d.get("meta", 0))
    kind = d["kind"]
    if kind == "LatticeMaze":
        m = mz.LatticeMaze(connection_list=conn, generation_meta=meta)
    elif kind == "TargetedLatticeMaze":
        conv = {
            "ends_int8": lambda x: np.array(x, dtype=np.int8),
            "ends_int32": lambda x: np.array(x, dtype=np.int32),
            "ends_list": list,
            "ends_tuple": tuple,
        }.get(rep, np.array)
        m = mz.TargetedLatticeMaze(connection_list=conn, start_pos=conv(d["start"]), end_pos=conv(d["end"]), generation_meta=meta)
    else:
        sol, kw = d["sol"], {}
        if rep == "sol_int8":
            sol = np.array(sol, dtype=np.int8)
        elif rep == "sol_int32":
            sol = np.array(sol, dtype=np.int32)
        elif rep == "sol_list":
            sol = [list(c) for c in sol]
        elif rep == "sol_tuples":
            sol = [tuple(c) for c in sol]
        else:
            sol = np.array(sol)
        if rep == "sol_explicit_ends":
            kw = dict(start_pos=np.array(d["start"]), end_pos=np.array(d["end"]))
        m = mz.SolvedMaze(connection_list=conn, solution=sol, generation_meta=meta, **kw)
    if rep.startswith("rt_"):
        try:
            m = _roundtrip(m, rep)
        except Exception as e:  # noqa: BLE001 - (de)serialization is another property's business
            raise RoundTripFailed(f"{rep}: {type(e).__name__}") from e
    return m


def safe_build(d, same=None):
    """-> (object | None, 'build' record | None, description actually used).  The library raising while a
    described (well-formed) maze is built is an OBSERVATION that the oracle judges, never a harness error;
    a failing serialization round trip falls back to a plain copy and is reported as a divergence."""
    try:
        return build(d, same), None, d
    except RoundTripFailed:
        d = dict(d, rep="copy(rt_failed)")
    except BaseException as e:  # noqa: BLE001
        if isinstance(e, (KeyboardInterrupt, SystemExit)):
            raise
        return None, _build_failed(d, e), d
    try:
        return build(d, same), None, d
    except BaseException as e:  # noqa: BLE001
        if isinstance(e, (KeyboardInterrupt, SystemExit)):
            raise
        return None, _build_failed(d, e), d


def proj(m):
    """raw projection of a real maze object (the abstraction to a value is done in TLA+)"""
    sp, ep, sol = getattr(m, "start_pos", None), getattr(m, "end_pos", None), getattr(m, "solution", None)
    return dict(
        kind=type(m).__name__,
        conn=np.asarray(m.connection_list).astype(int).tolist(),
        start=[int(x) for x in sp] if sp is not None else [],
        end=[int(x) for x in ep] if ep is not None else [],
        sol=[[int(a), int(b)] for a, b in sol] if sol is not None else [],
    )


def tv(fn):
    """truth value of a comparison: 'True' | 'False' | 'raise:<Type>' | 'nonbool:<type>'"""
    try:
        x = fn()
    except BaseException as e:  # noqa: BLE001
        if isinstance(e, (KeyboardInterrupt, SystemExit)):
            raise
        return "raise:" + type(e).__name__
    try:
        return "True" if bool(x) else "False"
    except Exception:  # noqa: BLE001
        return "nonbool:" + type(x).__name__


def _foreign(tag):
    return {"None": None, "int": 0, "tuple": (0, 0), "str": "LatticeMaze", "list": [[0, 0]]}[tag]


# ------------------------------------------------------------------ observation (real code)
def obs_pair(a, b, pa, rel, ad, bd):
    ra, ha = mz.outcome(lambda: hash(a))
    rb, hb = mz.outcome(lambda: hash(b))
    rs, ns = mz.outcome(lambda: len({a, b}))
    rd, nd = mz.outcome(lambda: len(dict.fromkeys([a, b])))
    return dict(
        t="pair", rel=rel, exp=rel in EQUAL_RELS, a=pa, b=proj(b),
        eq=tv(lambda: a == b), ne=tv(lambda: a != b), eq_r=tv(lambda: b == a), ne_r=tv(lambda: b != a),
        ha=ra, hb=rb, heq=bool(ra == "ok" and rb == "ok" and ha == hb),
        set_res=rs, set_n=int(ns) if rs == "ok" else -1, dict_res=rd, dict_n=int(nd) if rd == "ok" else -1,
        arep=ad.get("rep", "copy"), ameta=ad.get("meta", 0), brep=bd.get("rep", "copy"), bmeta=bd.get("meta", 0),
    )  # fmt: skip


def obs_foreign(a, pa, tag, ad):
    o = _foreign(tag)
    return dict(t="foreign", a=pa, other=tag, eq=tv(lambda: a == o), ne=tv(lambda: a != o), eq_r=tv(lambda: o == a), ne_r=tv(lambda: o != a),
                arep=ad.get("rep", "copy"), ameta=ad.get("meta", 0))  # fmt: skip


def _build_failed(d, e):
    """a described (well-formed) maze could not be built: recorded and judged (constructor_rejects_valid_maze)"""
    return dict(t="build", kind=d["kind"], conn=d["conn"], start=d["start"], end=d["end"], sol=d["sol"], rep=d.get("rep", "copy"), meta=d.get("meta", 0), res="raise:" + type(e).__name__)


def observe_group(g):
    """one base maze a x all its variants b (+ foreign right operands)"""
    a, failed, ad = safe_build(g["a"])
    if failed:
        return [failed]
    pa = proj(a)
    out = []
    for v in g["vs"]:
        b, failed, bd = safe_build(v["m"], same=a)
        out.append(failed if failed else obs_pair(a, b, pa, v["rel"], ad, bd))
    for tag in g.get("foreign", []):
        out.append(obs_foreign(a, pa, tag, ad))
    return out


def walk(s, e):
    """row-first lattice walk s -> e (input generation only)"""
    p = [list(s)]
    while p[-1][0] != e[0]:
        p.append([p[-1][0] + (1 if e[0] > p[-1][0] else -1), p[-1][1]])
    while p[-1][1] != e[1]:
        p.append([p[-1][0], p[-1][1] + (1 if e[1] > p[-1][1] else -1)])
    return p


def ctor_call(kind, conn, s, e, form):
    if kind == "TargetedLatticeMaze":
        if form == "from_lattice_maze":
            return mz.TargetedLatticeMaze.from_lattice_maze(mz.LatticeMaze(connection_list=conn), np.array(s), np.array(e))
        conv = {"array": np.array, "tuple": tuple, "int8": lambda x: np.array(x, dtype=np.int8)}[form]
        return mz.TargetedLatticeMaze(connection_list=conn, start_pos=conv(s), end_pos=conv(e))
    if form == "pair":
        return mz.SolvedMaze(connection_list=conn, solution=np.array([s, e]))
    if form == "walk":
        return mz.SolvedMaze(connection_list=conn, solution=np.array(walk(s, e)))
    if form == "walk_explicit_ends":
        return mz.SolvedMaze(connection_list=conn, solution=np.array(walk(s, e)), start_pos=np.array(s), end_pos=np.array(e))
    if form == "from_lattice_maze":
        return mz.SolvedMaze.from_lattice_maze(mz.LatticeMaze(connection_list=conn), [tuple(c) for c in walk(s, e)])
    raise ValueError(form)


def observe_ctor(c):
    R, C = c["R"], c["C"]
    conn = mz.conn_from_int(R, C, mz.n_graphs(R, C) - 1)
    out = []
    for form in c["forms"]:
        res, m = mz.outcome(lambda: ctor_call(c["kind"], conn, c["start"], c["end"], form))
        out.append(dict(t="ctor", kind=c["kind"], R=R, C=C, start=list(c["start"]), end=list(c["end"]), form=form, res=res,
                        got_start=[int(x) for x in m.start_pos] if res == "ok" else [], got_end=[int(x) for x in m.end_pos] if res == "ok" else []))  # fmt: skip
    return out


def _cfg_variant(base_kw, v):
    kw = dict(base_kw)
    if v == "name":
        kw["name"] = kw["name"] + "x"
    elif v == "grid_n":
        kw["grid_n"] += 1
    elif v == "seed":
        kw["seed"] += 1
    elif v == "ctor":
        kw["ctor"] = "gen_wilson"
    elif v == "n_mazes":
        kw["n_mazes"] += 1
    return kw


def _cfgrec(c):
    return dict(name=str(c.name), grid_n=int(c.grid_n), seed=int(c.seed), ctor=str(c.maze_ctor.__name__))


def _build_all(descs):
    objs, failed, used = [], [], []
    for d in descs:
        o, f, u = safe_build(d)
        objs.append(o)
        used.append(u)
        if f:
            failed.append(f)
    return objs, failed, used


def observe_ds(c):
    """MazeDataset(cfg_a, pool[la]) == MazeDataset(cfg_b, fresh copies of pool[lb]) for every cfg variant"""
    from maze_dataset import MazeDataset

    A, failed, ua = _build_all([c["pool"][i - 1] for i in c["la"]])
    if failed:
        return failed
    base_kw = dict(name="c09", grid_n=max(c["R"], c["C"]), n_mazes=len(A), seed=7, ctor="gen_dfs")
    ca = _cfg(**base_kw)
    ra, dsa = mz.outcome(lambda: MazeDataset(ca, A))
    out = []
    for v in c["cfgs"]:
        B, failed, ub = _build_all([c["pool"][i - 1] for i in c["lb"]])
        if failed:
            out += failed
            continue
        cb = ca if v == "same" else _cfg(**_cfg_variant(base_kw, v))
        rb, dsb = mz.outcome(lambda: MazeDataset(cb, B))
        ok = ra == "ok" and rb == "ok"
        out.append(dict(
            t="ds", cv=v, ca=_cfgrec(ca), cb=_cfgrec(cb), na=int(ca.n_mazes), nb=int(cb.n_mazes), ceq=tv(lambda: ca == cb),
            ma=[proj(m) for m in A], mb=[proj(m) for m in B],
            eq=tv(lambda: dsa == dsb) if ok else (ra if ra != "ok" else rb), ne=tv(lambda: dsa != dsb) if ok else (ra if ra != "ok" else rb),
            ra=[d.get("rep", "copy") for d in ua], rb=[d.get("rep", "copy") for d in ub], ea=[d.get("meta", 0) for d in ua], eb=[d.get("meta", 0) for d in ub],
        ))  # fmt: skip
    if c["la"] == c["lb"] and ra == "ok":  # the dataset against a non-dataset: never raises, never equal
        for tag in ("None", "list"):
            o = None if tag == "None" else list(A)
            out.append(dict(t="foreign", a=dict(kind="MazeDataset", conn=[], start=[], end=[], sol=[]), other=tag,
                            eq=tv(lambda: dsa == o), ne=tv(lambda: dsa != o), eq_r=tv(lambda: o == dsa), ne_r=tv(lambda: o != dsa), arep="ds", ameta=0))  # fmt: skip
    return out


def observe_dedup(c):
    """c = {descs: [...], same_as: [...]}: de-duplication of a list of mazes through set() and dict.fromkeys()"""
    objs, used, failed = [], [], []
    for d, sa in zip(c["descs"], c["same_as"]):
        if sa >= 0:
            objs.append(objs[sa])
            used.append(used[sa])
            continue
        o, f, u = safe_build(d)
        objs.append(o)
        used.append(u)
        if f:
            failed.append(f)
    if failed:
        return failed
    hs_ok = all(mz.outcome(lambda o=o: hash(o))[0] == "ok" for o in objs)
    rs, ns = mz.outcome(lambda: len(set(objs)))
    rd, keys = mz.outcome(lambda: list(dict.fromkeys(objs)))
    first = []
    if rd == "ok":
        for k in keys:
            first.append(next(i for i, o in enumerate(objs) if o is k))
    return [dict(t="dedup", ms=[proj(o) for o in objs], hs_ok=hs_ok, set_res=rs, set_n=int(ns) if rs == "ok" else -1, dict_res=rd, dict_first=first,
                 reps=[d.get("rep", "copy") for d in used], metas=[d.get("meta", 0) for d in used], same_as=list(c["same_as"]))]  # fmt: skip


def observe_case(c):
    return {"pairs": observe_group, "ctor": observe_ctor, "ds": observe_ds, "dedup": observe_dedup}[c["t"]](c)


# ------------------------------------------------------------------ seeded random larger cases (same case forms)
def _cells(R, C):
    return [[i, j] for i in range(R) for j in range(C)]


def _rand_walk(rng, R, C, s, n):
    p = [list(s)]
    for _ in range(n - 1):
        x = p[-1]
        nb = [[x[0] + a, x[1] + b] for a, b in ((1, 0), (-1, 0), (0, 1), (0, -1)) if 0 <= x[0] + a < R and 0 <= x[1] + b < C]
        if not nb:
            break
        p.append(nb[int(rng.integers(len(nb)))])
    return p


def _rand_desc(rng, maxn, kind=None, square=False, shape=None):
    R = int(rng.integers(1, maxn + 1))
    C = R if square else int(rng.integers(1, maxn + 1))
    if shape:
        R, C = shape
    conn = mz.rand_conn(rng, R, C, float(rng.choice([0.2, 0.5, 0.8])))
    if rng.random() < 0.15:  # boundary bits are part of the raw value as well
        conn[int(rng.integers(2)), -1 if rng.random() < 0.5 else int(rng.integers(R)), -1] = True
    kind = kind or KINDS[int(rng.choice(3, p=[0.2, 0.3, 0.5]))]
    d = dict(kind=kind, conn=mz.raw(conn), start=[], end=[], sol=[], meta=int(rng.integers(3)), rep="copy")
    if kind != "LatticeMaze":
        s = [int(rng.integers(R)), int(rng.integers(C))]
        if kind == "SolvedMaze":
            d["sol"] = _rand_walk(rng, R, C, s, int(rng.integers(1, R + C + 6)))
            d["start"], d["end"] = d["sol"][0], d["sol"][-1]
        else:
            d["start"], d["end"] = s, [int(rng.integers(R)), int(rng.integers(C))]
    return d


def _with_sol(d, sol):
    return dict(d, sol=sol, start=sol[0], end=sol[-1])


def _reflow(d, R2, C2):
    conn = np.array(d["conn"])
    flat = conn.reshape(-1)
    new = np.zeros(2 * R2 * C2, dtype=int)
    n = min(len(flat), len(new))
    new[:n] = flat[:n]
    clip = lambda c: [min(c[0], R2 - 1), min(c[1], C2 - 1)] if c else []  # noqa: E731
    return dict(d, conn=new.reshape(2, R2, C2).tolist(), start=clip(d["start"]), end=clip(d["end"]), sol=[clip(c) for c in d["sol"]])


def _mutate(rng, d, rel):
    """a variant of d in relation rel, or None when rel does not apply (input generation only; the oracle
    recomputes equality from the projections of the real objects)"""
    conn = np.array(d["conn"])
    _, R, C = conn.shape
    kind = d["kind"]
    other_cell = lambda c: (lambda xs: xs[int(rng.integers(len(xs)))] if xs else None)([x for x in _cells(R, C) if x != c])  # noqa: E731
    if rel == "copy":
        return dict(d, rep="copy")
    if rel == "meta":
        return dict(d, meta=(d["meta"] + 1 + int(rng.integers(2))) % 3, rep="copy")
    if rel == "rep":
        reps = ["conn_view", "conn_fortran", "rt_maze"]
        if kind == "TargetedLatticeMaze":
            reps += ["ends_int8", "ends_list", "ends_tuple", "ends_int32"]
        if kind == "SolvedMaze":
            reps += ["sol_int8", "sol_int32", "sol_list", "sol_tuples", "sol_explicit_ends", "rt_ds_full"] + (["rt_ds_minimal", "rt_ds_minimal_cat"] * 2 if R == C else [])
        return dict(d, rep=reps[int(rng.integers(len(reps)))])
    if rel == "bit":
        c2 = conn.copy()
        k = (int(rng.integers(2)), int(rng.integers(R)), int(rng.integers(C)))
        c2[k] = 1 - c2[k]
        return dict(d, conn=c2.tolist())
    if rel == "shape":
        opts = [(r2, (R * C) // r2) for r2 in range(1, R * C + 1) if (R * C) % r2 == 0 and (r2, (R * C) // r2) != (R, C)] + [(R + 1, C), (R, C + 1)] + ([(R - 1, C)] if R > 1 else [])
        return _reflow(d, *opts[int(rng.integers(len(opts)))])
    if rel == "kind":
        k2 = [k for k in KINDS if k != kind][int(rng.integers(2))]
        s = d["start"] or [0, 0]
        e = d["end"] or [0, 0]
        if k2 == "LatticeMaze":
            return dict(d, kind=k2, start=[], end=[], sol=[])
        if k2 == "TargetedLatticeMaze":
            return dict(d, kind=k2, start=s, end=e, sol=[])
        return _with_sol(dict(d, kind=k2), walk(s, e))
    if kind == "TargetedLatticeMaze":
        if rel in ("start", "end"):
            c = other_cell(d[rel])
            return dict(d, **{rel: c}) if c else None
        if rel == "swap":
            return dict(d, start=d["end"], end=d["start"]) if d["start"] != d["end"] else None
    if kind == "SolvedMaze":
        sol = [list(c) for c in d["sol"]]
        if rel == "solcell":
            k = int(rng.integers(len(sol)))
            c = [sol[k][1], sol[k][0]] if (rng.random() < 0.5 and sol[k][0] != sol[k][1] and sol[k][1] < R and sol[k][0] < C) else other_cell(sol[k])
            if c is None:
                return None
            sol[k] = c
            return _with_sol(d, sol)
        if rel == "longer":
            c = _cells(R, C)[int(rng.integers(R * C))]
            return _with_sol(d, sol + [c] if rng.random() < 0.5 else [c] + sol)
        if rel == "shorter":
            if len(sol) < 2:
                return None
            k = int(rng.integers(len(sol)))
            return _with_sol(d, sol[:k] + sol[k + 1 :])
        if rel == "reversed":
            return _with_sol(d, sol[::-1]) if sol != sol[::-1] else None
    return None


UNEQUAL = ["bit", "shape", "kind", "start", "end", "swap", "solcell", "longer", "shorter", "reversed"]


def rand_group(args):
    seed, k, maxn = args
    rng = np.random.default_rng([seed, 9, k])
    a = _rand_desc(rng, maxn, square=bool(k % 3 == 0))
    a["rep"] = ["copy", "copy", "sol_int8" if a["kind"] == "SolvedMaze" else "conn_view"][k % 3]
    vs = [dict(rel="same", m=dict(a, rep="same"))]
    for rel in ["copy", "meta", "rep", "rep", "rep"] + UNEQUAL + ["bit", "solcell", "shape"]:
        m = _mutate(rng, a, rel)
        if m is not None:
            if rel not in EQUAL_RELS:
                m = dict(m, rep="copy")
            vs.append(dict(rel=rel, m=m))
    return observe_group(dict(t="pairs", a=a, vs=vs, foreign=["None", "tuple"]))


def rand_dedup(args):
    seed, k, maxn = args
    rng = np.random.default_rng([seed, 11, k])
    base = _rand_desc(rng, maxn, square=bool(k % 2))
    descs, same_as = [], []
    for i in range(int(rng.integers(2, 11))):
        u = rng.random()
        if i > 0 and u < 0.2:
            j = int(rng.integers(i))
            descs.append(descs[j])
            same_as.append(j if same_as[j] < 0 else same_as[j])
            continue
        src = base if (i == 0 or u < 0.6) else descs[int(rng.integers(i))]
        rel = ["copy", "meta", "rep"][int(rng.integers(3))] if rng.random() < 0.6 else UNEQUAL[int(rng.integers(len(UNEQUAL)))]
        m = _mutate(rng, src, rel) or dict(src, rep="copy")
        if rel not in EQUAL_RELS:
            m = dict(m, rep="copy")
        descs.append(m)
        same_as.append(-1)
    return observe_dedup(dict(t="dedup", descs=descs, same_as=same_as))  # a list of records


def rand_ctor(args):
    seed, k, maxn = args
    rng = np.random.default_rng([seed, 13, k])
    R, C = int(rng.integers(1, maxn + 1)), int(rng.integers(1, maxn + 1))
    kind = ["TargetedLatticeMaze", "SolvedMaze"][k % 2]

    def coord(n):
        u = rng.random()
        if u < 0.45:
            return int(rng.integers(n))
        return int(rng.choice([-100, -3, -2, -1, 0, n - 1, n, n + 1, n + 2, n + 100, 127]))

    pt = lambda: [coord(R), coord(C)]  # noqa: E731
    s, e = pt(), pt()
    if k % 4 < 2:  # exactly one bad coordinate among the four
        s, e = [int(rng.integers(R)), int(rng.integers(C))], [int(rng.integers(R)), int(rng.integers(C))]
        tgt = [s, e][int(rng.integers(2))]
        ax = int(rng.integers(2))
        tgt[ax] = int(rng.choice([-1, -2, [R, C][ax], [R, C][ax] + 1]))
    forms = ["array", "tuple", "int8", "from_lattice_maze"] if kind == "TargetedLatticeMaze" else ["walk", "pair", "walk_explicit_ends", "from_lattice_maze"]
    return observe_ctor(dict(t="ctor", kind=kind, R=R, C=C, start=s, end=e, forms=forms))


def rand_ds(args):
    seed, k, maxn = args
    rng = np.random.default_rng([seed, 15, k])
    n = int(rng.integers(2, maxn + 1))
    nb = 3
    base = [_rand_desc(rng, n, kind="SolvedMaze", shape=(n, n)) for _ in range(nb)]
    # pool (1-based): base i | equal copy of base i in another representation at nb+i | different value at 2nb+i
    pool = base + [_mutate(rng, b, "rep") for b in base]
    for b in base:
        m = _mutate(rng, b, ["bit", "solcell", "longer", "shorter", "reversed"][int(rng.integers(5))]) or _mutate(rng, b, "bit")
        pool.append(dict(m, rep="copy"))
    la = [int(rng.integers(1, len(pool) + 1)) for _ in range(int(rng.integers(0, 6)))]
    u = rng.random()
    if u < 0.35:  # equal lists through equal copies in other representations
        lb = [i + nb if (i <= nb and rng.random() < 0.7) else i for i in la]
    elif u < 0.55 and la:  # one position replaced
        lb = list(la)
        lb[int(rng.integers(len(lb)))] = int(rng.integers(1, len(pool) + 1))
    elif u < 0.7:  # shorter / longer
        lb = la[:-1] if la and rng.random() < 0.5 else la + [1]
    elif u < 0.8:
        lb = la[::-1]
    else:
        lb = [int(rng.integers(1, len(pool) + 1)) for _ in range(len(la))]
    return observe_ds(dict(t="ds", R=n, C=n, pool=pool, la=la, lb=lb, cfgs=["same", "copy", ["name", "grid_n", "seed", "ctor", "n_mazes"][k % 5]]))


# ------------------------------------------------------------------ canaries (synthetic, independent of the code under test)
def _first(recs, pred):
    return next((r for r in recs if pred(r)), None)


def _mk(r, **kw):
    c = copy.deepcopy(r)
    c.update(kw)
    return c


def synthetic_canaries():
    """-> (controls, canaries).  controls: hand-made CORRECT records the oracle must accept; canaries: the same
    records with one field corrupted + the clause that must reject each.  Nothing here depends on the library,
    so a defective library can never turn a canary into a machinery error."""
    C22 = [[[1, 0], [0, 0]], [[1, 0], [1, 0]]]
    C23 = [[[1, 0, 1], [0, 0, 0]], [[1, 1, 0], [0, 1, 0]]]
    C32 = [[[1, 0], [1, 0], [0, 0]], [[1, 0], [1, 0], [0, 0]]]  # the same 12 bytes as C23 poured into 3x2
    L = dict(kind="LatticeMaze", conn=C23, start=[], end=[], sol=[])
    T = dict(kind="TargetedLatticeMaze", conn=C22, start=[0, 0], end=[1, 1], sol=[])
    S = dict(kind="SolvedMaze", conn=C22, start=[0, 0], end=[1, 1], sol=[[0, 0], [0, 1], [1, 1]])
    eqr = dict(eq="True", ne="False", eq_r="True", ne_r="False", ha="ok", hb="ok", heq=True, set_res="ok", set_n=1, dict_res="ok", dict_n=1, exp=True, arep="copy", brep="copy", ameta=0, bmeta=0)
    ner = dict(eq="False", ne="True", eq_r="False", ne_r="True", ha="ok", hb="ok", heq=False, set_res="ok", set_n=2, dict_res="ok", dict_n=2, exp=False, arep="copy", brep="copy", ameta=0, bmeta=0)
    controls, can = [], []
    for a in (L, T, S):
        p = dict(t="pair", rel="copy", a=a, b=copy.deepcopy(a), **eqr)
        controls.append(p)
        can += [
            (_mk(p, eq="raise:ValueError"), "eq_raises"), (_mk(p, eq_r="nonbool:ndarray"), "eq_raises"), (_mk(p, ne_r="raise:ValueError"), "ne_raises"),
            (_mk(p, eq="False"), "eq_truth_table"), (_mk(p, eq_r="False"), "eq_truth_table_reflected"), (_mk(p, ne="True"), "ne_truth_table"), (_mk(p, ne_r="True"), "ne_truth_table_reflected"),
            (_mk(p, hb="raise:TypeError", heq=False), "unhashable"), (_mk(p, heq=False), "hash_inconsistent"),
            (_mk(p, set_n=2), "set_dedup"), (_mk(p, dict_n=2), "dict_dedup"), (_mk(p, set_res="raise:TypeError", set_n=-1), "set_raises"), (_mk(p, dict_res="raise:TypeError", dict_n=-1), "dict_raises"),
            (_mk(p, exp=False), "M:scope_label"),
        ]  # fmt: skip
    for nm, x in (("negative", [-1, 0]), ("too_large", [0, 2])):
        bad = dict(t="pair", rel="copy", a=dict(T, start=x), b=dict(T, start=x), **eqr)
        can.append((bad, "holds_end_outside_grid"))
    diff = [
        ("bit", S, dict(S, conn=[[[1, 0], [0, 0]], [[1, 0], [1, 1]]])),  # boundary bit
        ("shape", L, dict(L, conn=C32)),  # equal bytes, other shape: hash may collide, == must be False
        ("kind", T, dict(T, kind="SolvedMaze", sol=[[0, 0], [1, 0], [1, 1]])),
        ("kind", dict(L, conn=C22), dict(T, start=[0, 0], end=[0, 0])),
        ("solcell", S, dict(S, sol=[[0, 0], [1, 0], [1, 1]])),
        ("longer", S, dict(S, sol=S["sol"] + [[1, 1]])),
        ("start", T, dict(T, start=[0, 1])),
        ("end", T, dict(T, end=[1, 0])),
    ]
    for rel, a, b in diff:
        p = dict(t="pair", rel=rel, a=a, b=b, **ner)
        controls.append(p)
        controls.append(_mk(p, heq=True))  # a hash collision between different values is allowed
        can += [(_mk(p, eq="True"), "eq_truth_table"), (_mk(p, eq_r="True"), "eq_truth_table_reflected"), (_mk(p, ne="False"), "ne_truth_table"),
                (_mk(p, set_n=1), "set_dedup"), (_mk(p, dict_n=1), "dict_dedup"), (_mk(p, exp=True), "M:scope_label")]  # fmt: skip
    f = dict(t="foreign", a=S, other="None", eq="False", ne="True", eq_r="False", ne_r="True", arep="copy", ameta=0)
    controls.append(f)
    can += [(_mk(f, eq="True"), "eq_truth_table"), (_mk(f, eq_r="raise:AttributeError"), "eq_raises"), (_mk(f, ne="False"), "ne_truth_table")]
    ok = dict(t="ctor", kind="TargetedLatticeMaze", R=2, C=3, start=[1, 2], end=[0, 0], form="array", res="ok", got_start=[1, 2], got_end=[0, 0])
    controls.append(ok)
    can += [(_mk(ok, res="raise:ValueError", got_start=[], got_end=[]), "rejects_end_inside_grid"), (_mk(ok, got_start=[1, 3]), "holds_end_outside_grid"), (_mk(ok, got_start=[0, 2]), "M:ends_not_as_given")]
    for s0, e0 in (([-1, 0], [0, 0]), ([0, -1], [0, 0]), ([0, 0], [-1, 2]), ([0, 0], [1, -2]), ([2, 0], [0, 0]), ([0, 3], [0, 0]), ([0, 0], [2, 2]), ([1, 1], [1, 3]), ([2, 2], [0, 0]), ([0, 0], [2, 1])):
        out = dict(t="ctor", kind="SolvedMaze", R=2, C=3, start=s0, end=e0, form="walk", res="raise:ValueError", got_start=[], got_end=[])
        controls.append(out)
        can += [(_mk(out, res="ok", got_start=s0, got_end=e0), "accepts_end_outside_grid"), (_mk(out, res="ok", got_start=s0, got_end=e0), "holds_end_outside_grid"),
                (_mk(out, res="raise:IndexError"), "wrong_exception_type")]  # fmt: skip
    cf_ = dict(name="c09", grid_n=2, seed=7, ctor="gen_dfs")
    d = dict(t="ds", cv="copy", ca=cf_, cb=dict(cf_), na=2, nb=2, ceq="True", ma=[S, S], mb=[S, dict(S)], eq="True", ne="False", ra=["copy"] * 2, rb=["copy"] * 2, ea=[0, 0], eb=[0, 0])
    controls += [d, _mk(d, nb=3, ceq="False", eq="False", ne="True"), _mk(d, nb=3, ceq="True")]
    can += [(_mk(d, eq="False"), "ds_eq_truth_table"), (_mk(d, ne="True"), "ds_ne_truth_table"), (_mk(d, eq="raise:ValueError", ne="raise:ValueError"), "ds_eq_raises"),
            (_mk(d, ceq="False"), "M:cfg_eq_model"), (_mk(d, nb=3, ceq="False"), "ds_eq_truth_table")]  # fmt: skip
    for nm, mb, cb in (("cell", [S, dict(S, sol=[[0, 0], [1, 0], [1, 1]])], cf_), ("shorter", [S], cf_), ("longer", [S, S, S], cf_), ("order", [dict(S, conn=C22), T], cf_), ("cfg", [S, S], dict(cf_, name="c09x"))):
        ma = [T, dict(S, conn=C22)] if nm == "order" else [S, S]
        u = _mk(d, ma=ma, mb=mb, cb=cb, eq="False", ne="True", ceq="False" if nm == "cfg" else "True", rb=["copy"] * len(mb), eb=[0] * len(mb))
        controls.append(u)
        can += [(_mk(u, eq="True"), "ds_eq_truth_table"), (_mk(u, ne="False"), "ds_ne_truth_table")]
    dd = dict(t="dedup", ms=[S, T, dict(S), dict(S, sol=[[0, 0], [1, 0], [1, 1]]), T], hs_ok=True, set_res="ok", set_n=3, dict_res="ok", dict_first=[0, 1, 3], reps=["copy"] * 5, metas=[0] * 5, same_as=[-1] * 5)
    controls.append(dd)
    can += [(_mk(dd, set_n=4), "set_dedup"), (_mk(dd, set_n=2), "set_dedup"), (_mk(dd, dict_first=[0, 1, 2, 3]), "dict_dedup"), (_mk(dd, dict_first=[0, 1]), "dict_dedup"), (_mk(dd, dict_first=[0, 2, 3]), "dict_dedup"),
            (_mk(dd, hs_ok=False), "unhashable"), (_mk(dd, set_res="raise:TypeError", set_n=-1), "set_raises")]  # fmt: skip
    b = dict(t="build", **S, rep="copy", meta=0, res="raise:ValueError")
    can.append((b, "constructor_rejects_valid_maze"))
    return [copy.deepcopy(x) for x in controls], [(copy.deepcopy(x), cl) for x, cl in can]


# ------------------------------------------------------------------ judging
def _nontrivial(r):
    t = r["t"]
    if t == "pair":
        return r["rel"] != "same"
    if t == "ctor":
        return any(x <= 0 or x >= n - 1 for k in ("start", "end") for x, n in zip(r[k], (r["R"], r["C"])))
    if t == "ds":
        return len(r["ma"]) + len(r["mb"]) > 0
    return True


def _case_key(r):
    t = r["t"]
    if t == "pair":
        return [t, r["a"], r["b"], r["arep"], r["brep"], r["ameta"], r["bmeta"]]
    if t == "foreign":
        return [t, r["a"], r["other"]]
    if t == "ctor":
        return [t, r["kind"], r["R"], r["C"], r["start"], r["end"], r["form"]]
    if t == "ds":
        return [t, r["ca"], r["cb"], r["na"], r["nb"], r["ma"], r["mb"], r["rb"]]
    if t == "build":
        return [t, r["kind"], r["conn"], r["start"], r["end"], r["sol"], r["rep"]]
    return [t, r["ms"], r["reps"], r["same_as"]]


def judge(chk, recs, label, what):
    """Judge recs with Trace_MazeValue.  Same contract as lib.judge_with_canaries (an accepted canary is a
    machinery error; here also a rejected hand-made CORRECT control record), but the canaries are synthetic and
    the number of LISTED violations is capped per (record kind, clause): on a tree where == raises for every
    pair this would otherwise write ~10^5 replay files."""
    if not recs:
        return
    controls, can = synthetic_canaries()
    for i, x in enumerate(recs):
        x["id"] = i
    allrecs = list(recs)
    extra = [(c, None) for c in controls] + can
    for k, (c, _cl) in enumerate(extra):
        c["id"] = lib.CANARY_BASE + k
        allrecs.insert((len(allrecs) * (k + 1)) // (len(extra) + 1), c)
    res = lib.oracle("Trace_MazeValue", allrecs, tag=label)
    for c, cl in extra:
        got = res.verdicts.pop(c["id"], [])
        if cl is None and got:
            raise lib.MachineryError(f"control record rejected by Trace_MazeValue: {got} for {json.dumps(c)[:400]}")
        if cl is not None and cl not in got:
            raise lib.MachineryError(f"canary not rejected by Trace_MazeValue: expected clause {cl!r}, got {got} ({c['t']} record)")
    chk.notes["canaries_rejected"] = chk.notes.get("canaries_rejected", 0) + len(can)
    chk.notes["controls_accepted"] = chk.notes.get("controls_accepted", 0) + len(controls)
    res.records -= len(extra)
    chk.add_oracle("Trace_MazeValue", res, what)
    listed = chk.notes.setdefault("_listed", {})
    unlisted = 0
    for rid, clauses in sorted(res.verdicts.items()):
        r = recs[rid]
        for cl in clauses:
            key = f"{r['t']}:{cl}"
            listed[key] = listed.get(key, 0) + 1
            if cl.startswith("M:"):
                chk.divergence(cl, r, label)
            elif listed[key] <= MAX_LISTED:
                chk.violation(cl, r, label)
            else:
                unlisted += 1
    chk.notes["violations_beyond_listing_cap"] = chk.notes.get("violations_beyond_listing_cap", 0) + unlisted
    kinds = chk.notes.setdefault("records_by_kind", {})
    rels = chk.notes.setdefault("pairs_by_relation", {})
    for r in recs:
        chk.count(_case_key(r), _nontrivial(r))
        kinds[r["t"]] = kinds.get(r["t"], 0) + 1
        if r["t"] == "pair":
            rels[r["rel"]] = rels.get(r["rel"], 0) + 1
        if any(str(x).endswith("(rt_failed)") for x in [r.get("arep"), r.get("brep")] + list(r.get("ra", [])) + list(r.get("rb", [])) + list(r.get("reps", []))):
            chk.divergence("M:serialization_round_trip_failed", {k: v for k, v in r.items() if k in ("t", "rel", "arep", "brep", "ra", "rb", "reps")}, label)


def _read(path):
    with open(path) as f:
        return [json.loads(x) for x in f if x.strip()]


def _flat(xs):
    return [r for sub in xs for r in sub]


# ------------------------------------------------------------------ main
def main(chk: lib.Check) -> int:
    thorough = chk.tier == "thorough"
    chk.rule = (
        "cases are emitted by TLC from MazeValue.tla's scope definition: (pairs) every base maze a of shapes 1x1,1x2,2x1,1x3,3x1,2x2 (all graphs; "
        "LatticeMaze / every (start,end) TargetedLatticeMaze / every (start,end) SolvedMaze with the row-first walk) and of 2x3, 3x2 "
        + ("(all 128 graphs each)" if thorough else "(a seeded 1/16 of the 128 graphs each)")
        + " x every variant b: a itself, copy, other generation_meta, every representation (int8/int32/list/tuple arrays, views), every one-bit change of conn "
        "(boundary bits included), every other start / end cell, swap, every one-cell change of the solution, longer / shorter / re-routed / reversed solutions, "
        "other kinds, 12 other shapes (same bytes re-poured), plus 5 non-maze right operands; (ctor) both kinds x every (start,end) in (-2..R+1 x -2..C+1)^2 x 4 call forms "
        "on the 8 shapes; (ds) MazeDataset pairs over lists of length <= 3 from a pool of 4 mazes x 7 configuration variants; then seeded random cases of the same forms "
        "on grids up to 12x12 / 15x15 incl. library round trips and duplicate lists. non-trivial = pair of distinct objects / endpoint on or beyond the boundary / non-empty dataset"
    )
    import maze_dataset

    chk.notes["library_under_test"] = str(maze_dataset.__file__)
    print(f"[C09] library under test: {maze_dataset.__file__}")
    tmp = tempfile.mkdtemp(prefix="c09_", dir=lib.WORK)
    try:
        # ---- (A/B) model-check the scope and emit it
        nch = 16
        jobs = [("small", "MazeValue_small.cfg", 1, 0, "all graphs of 1x1,1x2,2x1,1x3,3x1,2x2: pairs + ctor + ds cases"),
                ("cd23", "MazeValue_23cd.cfg", 1, 0, "2x3 and 3x2: ctor + ds cases")]  # fmt: skip
        chunks = range(nch) if thorough else None
        for sh, off in (("2x3", 0), ("3x2", 5)):
            for ch in chunks if thorough else [(chk.seed + off) % nch]:
                jobs.append((f"{sh}_{ch}", f"MazeValue_{sh}.cfg", nch, ch, f"{sh}: pairs for graphs n = {ch} mod {nch}"))
        per = max(1, lib.NCPU // min(len(jobs), lib.NCPU))

        def run(j):
            tag, cfg, n, ch, _w = j
            return lib.tlc_design("MazeValue", cfg, env={"VERIF_EMIT": f"{tmp}/{tag}", "VERIF_NCHUNKS": n, "VERIF_CHUNK": ch}, workers=per, tag=tag, xmx="3g")

        with cf.ThreadPoolExecutor(max_workers=lib.NCPU) as ex:
            results = list(ex.map(run, jobs))
        for j, r in zip(jobs, results):
            if r.distinct == 0:
                raise lib.MachineryError(f"MazeValue scope {j[0]} is empty")
            chk.add_model("MazeValue/" + j[0], r, j[4] + "; every case one state; LabelSound, ScopeWellFormed, EqLaws, HashConsistent, CtorSound, DsSound")
        r = lib.tlc_expect_violation("MazeValue", "MazeValue_badhash.cfg", "HashConsistent", tag="bad")
        chk.notes["broken_design_variant_rejected"] = "HashVariant=rep_dependent violates HashConsistent"

        # ---- (C) exhaustive small scope on the real code
        ctor_cases = _read(f"{tmp}/small_ctor.ndjson") + _read(f"{tmp}/cd23_ctor.ndjson")
        ds_cases = _read(f"{tmp}/small_ds.ndjson") + _read(f"{tmp}/cd23_ds.ndjson")
        chk.notes["scope_emitted_by_TLC"] = dict(ctor_cases=len(ctor_cases), ds_cases=len(ds_cases), pair_groups=0, pairs=0)
        recs = _flat(lib.pmap(observe_case, ctor_cases, chunksize=64))
        x = _first(recs[len(recs) // 2 :], lambda r: r["t"] == "ctor")
        if x:
            chk.sample({k: x[k] for k in ("t", "kind", "R", "C", "start", "end", "form", "res")})
        recs2 = _flat(lib.pmap(observe_case, ds_cases, chunksize=16))
        x = _first(recs2, lambda r: r["t"] == "ds" and r["cv"] == "copy" and len(r["ma"]) == 2 and r["eq"] == "True") or _first(recs2, lambda r: r["t"] == "ds")
        if x:
            chk.sample({k: x[k] for k in ("t", "cv", "ca", "cb", "eq", "ne", "ra", "rb")})
        judge(chk, recs + recs2, "ctor_ds", "constructor outcomes over all endpoint pairs in -2..R+1 x -2..C+1; MazeDataset == / != over cfg variants x maze lists")
        del recs, recs2
        files = [f"{tmp}/{j[0]}_pairs.ndjson" for j in jobs if j[0] != "cd23"]
        batch = 5
        for i in range(0, len(files), batch):
            groups = _flat(_read(f) for f in files[i : i + batch])
            chk.notes["scope_emitted_by_TLC"]["pair_groups"] += len(groups)
            chk.notes["scope_emitted_by_TLC"]["pairs"] += sum(len(g["vs"]) + len(g["foreign"]) for g in groups)
            recs = _flat(lib.pmap(observe_case, groups, chunksize=8))
            del groups
            if i == 0:
                for rel in ("rep", "shape"):
                    x = _first(recs, lambda r: r["t"] == "pair" and r["rel"] == rel and r["a"]["kind"] == "SolvedMaze")
                    if x:
                        chk.sample({k: x[k] for k in ("t", "rel", "a", "b", "brep", "eq", "ne", "heq", "set_n")})
            judge(chk, recs, "pair", "==, !=, hash, set/dict results of real object pairs judged against Val/Eq")
            del recs
        chk.exhaustive = True
        chk.notes["exhaustive_scope"] = "the complete TLC-emitted scope (see rule); 2x3 and 3x2 pairs " + ("for all graphs" if thorough else "for a seeded 1/16 of the graphs")

        # ---- (C) seeded random larger cases (same case forms, one oracle batch)
        n = 12000 if thorough else 1500
        recs = _flat(lib.pmap(rand_group, [(chk.seed, k, 12) for k in range(n)], chunksize=16))
        x = _first(recs, lambda r: r["t"] == "pair" and r["brep"].startswith("rt_ds_minimal"))
        if x:
            chk.sample({k: x[k] for k in ("t", "rel", "brep", "eq", "heq", "set_n")} | {"shape": [len(x["a"]["conn"][0]), len(x["a"]["conn"][0][0])], "sol_len": len(x["a"]["sol"])})
        dd = _flat(lib.pmap(rand_dedup, [(chk.seed, k, 8) for k in range(n // 2)], chunksize=16))
        x = _first(dd, lambda r: r["t"] == "dedup" and len(r["ms"]) >= 5)
        if x:
            chk.sample({k: x[k] for k in ("t", "reps", "same_as", "set_n", "dict_first")})
        recs += dd
        recs += _flat(lib.pmap(rand_ctor, [(chk.seed, k, 15) for k in range(n)], chunksize=32))
        recs += _flat(lib.pmap(rand_ds, [(chk.seed, k, 6) for k in range(n // 3)], chunksize=8))
        judge(chk, recs, "random", "random pairs up to 12x12 (random walks, library round trips giving int8 arrays, multi-digit coordinates), duplicate lists of 2..10 mazes through "
              "set()/dict.fromkeys(), constructor calls up to 15x15 with coordinates far outside, random datasets")
    finally:
        shutil.rmtree(tmp, ignore_errors=True)
    chk.notes["violations_listed_by_kind_and_clause"] = chk.notes.pop("_listed", {})
    chk.assumptions = [
        "TLC, CommunityModules JSON reader/writer, CPython/numpy",
        "the raw projection (type name, connection_list, start_pos, end_pos, solution read from the object) is faithful",
        "connection_list is always a bool array (other dtypes of connection_list are outside the statement)",
        "configuration equality when only n_mazes differs is taken from the configuration's own ==",
        "shapes beyond 3x2 are sampled (seeded), not exhaustive" + ("" if thorough else "; quick tier sweeps 1/16 of the 2x3 and 3x2 graphs"),
    ]
    return chk.finish(
        "MazeValue.tla's scope enumerated and model-checked by TLC (every case a state); every emitted case built with the real library and every "
        "recorded ==, !=, hash, set/dict, constructor and dataset result judged by the TLA+ value semantics"
    )


# ------------------------------------------------------------------ replay
def _desc(p, rep, meta):
    return dict(p, rep=rep, meta=meta)


def reobserve(case):
    """re-run the stored case against the real code (every build goes through safe_build: a raising library
    is an observation here as well)"""
    t = case["t"]
    if t == "pair":
        g = dict(a=_desc(case["a"], case["arep"], case["ameta"]), vs=[dict(rel=case["rel"], m=_desc(case["b"], case["brep"], case["bmeta"]))], foreign=[])
        return observe_group(g)
    if t == "foreign":
        if case["a"]["kind"] == "MazeDataset":
            raise lib.MachineryError("replay of dataset-vs-foreign records is not supported; replay the accompanying ds record")
        return observe_group(dict(a=_desc(case["a"], case["arep"], case["ameta"]), vs=[], foreign=[case["other"]]))
    if t == "build":
        _o, failed, _d = safe_build({k: case[k] for k in ("kind", "conn", "start", "end", "sol", "rep", "meta")})
        return [failed] if failed else []
    if t == "ctor":
        return observe_ctor(dict(case, forms=[case["form"]]))
    if t == "ds":
        pool = [_desc(p, r, e) for p, r, e in zip(case["ma"] + case["mb"], case["ra"] + case["rb"], case["ea"] + case["eb"])]
        na = len(case["ma"])
        R = case["ca"]["grid_n"]
        out = observe_ds(dict(R=R, C=R, pool=pool, la=list(range(1, na + 1)), lb=list(range(na + 1, len(pool) + 1)), cfgs=[case["cv"]]))
        return [r for r in out if r["t"] != "foreign"]
    if t == "dedup":
        return observe_dedup(dict(descs=[_desc(p, r, e) for p, r, e in zip(case["ms"], case["reps"], case["metas"])], same_as=case["same_as"]))
    raise lib.MachineryError(f"unknown record kind {t}")


def replay(path: str) -> int:
    d = json.load(open(path))
    recs = reobserve(d["case"])
    for i, r in enumerate(recs):
        r["id"] = i
    out = lib.oracle("Trace_MazeValue", recs, tag="rp") if recs else None
    bad = sorted({c for v in (out.verdicts.values() if out else []) for c in v if not c.startswith("M:")})
    for r in recs:
        print("replay:", {k: v for k, v in r.items() if k not in ("a", "b", "ma", "mb", "ms", "conn")}, "verdict:", out.verdicts.get(r["id"], []))
    if bad:
        print(f"VIOLATION property=C09 replay={path}")
        return 1
    return 0
