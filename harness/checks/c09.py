"""C09 -- maze objects are values: total structural equality, consistent hash, valid ends.

(A/B) MazeValue.tla states the value semantics (Val, Eq, Ne, HashOK, ConstructOutcome, DsEq) and DEFINES
      THE SMALL SCOPE: TLC enumerates it (every case is a model state, invariants LabelSound /
      ScopeWellFormed / EqLaws / HashConsistent / CtorSound / DsSound) and emits it as ndjson; a
      representation-dependent model hash must be rejected by TLC (MazeValue_badhash.cfg).
(C)   the harness builds exactly the emitted objects with the real library, records the raw projection
      of every object plus the results of ==, !=, hash, set/dict de-duplication, constructor outcome,
      dataset ==, and Trace_MazeValue.tla judges every record.  A seeded random tier repeats the same
      case forms on larger / oblong grids (multi-digit coordinates, random walks, library round trips
      that produce int8 arrays, longer duplicate lists).

Interpretation decisions
  * "true exactly when": truthiness of the result of == / != (bool(x)); a result whose truth value
    cannot be taken counts as raising.
  * both operand orders are observed (a == b and b == a): Python may dispatch to either operand.
  * non-maze right operands (None, int, tuple, str, list) must compare unequal without raising.
  * hash collisions between different values are allowed (e.g. 2x3 vs 3x2 with the same bytes).
  * configuration equality for datasets: the fields name / grid_n / seed / maze_ctor / applied_filters decide;
    when ONLY n_mazes differs the statement does not say (the code declares n_mazes "not compared") and the
    configuration's own == is taken.  Filters (also collect_generation_meta and the minimal serializers) append
    to cfg.applied_filters, so a filtered dataset legitimately differs from its unfiltered twin.
  * history (audit class A): objects that have been used (rendered, tokenized, serialized, hashed, put in sets)
    and datasets that were edited / filtered are observed again; the records are ordinary pair / ds records
    judged from the CURRENT projections -- the value semantics has no notion of history.
  * magnitude (audit class B): >= 128 / >= 256 cells, solution positions and coordinate values that differ only
    beyond an int8 / uint8 boundary, constructor coordinates 127/128/255/256 on grids 128 and 256, datasets and
    duplicate lists of 127..300 mazes.
  * second audit (classes C-H), all judged by the same clauses from the CURRENT projections:
      C  falsy values: generation_meta {} and all-falsy, non-maze operands False / 0.0 / () / [] / "" / {} / frozenset() / a
         1-element array, configurations with seed 0 / name "" / grid_n 0 / seq_len_min 0 / kwargs whose only value is falsy /
         a recorded filter with empty args on ONE side and on both sides, empty maze lists, cell [0, 0], index 0.
      D  directed oblong grids (2x5, 5x2, 3x7, 7x3, 7x1, 1x6, 1x4, 1x1) for pairs, constructor (incl. the error path) and datasets.
      E  aliasing: constructor forms alias_* and pair relations alias:* hand over the caller's OWN int64 / int8 arrays and
         (nested) lists, compare them with a snapshot after the call (M:constructor_modified_argument) and then OVERWRITE them
         before anything is read from the object: "can never hold an end outside its grid" and "hash(x) does not change while
         x is not touched" are Layer P (holds_end_outside_grid, hash_changes_over_time); "still the requested value" is Layer M.
         connection_list is NOT overwritten: the dataclass stores the caller's array itself on the unchanged tree and the
         statement does not promise a copy.  Dataset maze sequences: the caller's list is emptied after the call.
      F  factory-made objects (MazeDataset.generate with metadata present / collected / collected twice, from_pixels,
         from_ascii, from_tokens, from_lattice_maze, from_targeted_lattice_maze, minimal load) against twins built directly
         through the constructors; stale n_mazes; the same filter applied twice in a row.
      G  float-valued, bool, numpy-scalar, strided, Fortran-ordered, list-of-arrays, tuple-of-tuples coordinates / solutions;
         pickle round trip; maze sequences as tuple / one-shot generator.  (copy.copy / copy.deepcopy of a maze raise TypeError
         on the unchanged tree -- muutils serialization of ndarray fields -- and are not part of C09's statement: not generated.)
      H  length-1 / length-2 / start == end solutions x empty and full lattice x EVERY representation, metadata and round trip
         (short_group enumerates them, it does not sample), the same for datasets (concatenated-solution format) and histories.
  * constructor: only start / end are constrained (not interior solution cells); any accepted object
    must hold exactly in-grid ends; out-of-grid => ValueError precisely.
"""
import concurrent.futures as cf
import copy
import json
import pickle
import shutil
import tempfile

import numpy as np

from harness import lib, mz

KINDS = ["LatticeMaze", "TargetedLatticeMaze", "SolvedMaze"]
EQUAL_RELS = {"same", "copy", "meta", "rep"}
MAX_LISTED = 12  # violations listed (replay file + VIOLATION line) per clause and record kind


def _metas(k):
    """generation_meta is NOT part of the value.  3 / 4 (audit class C): the falsy-but-present metadata ({} and a
    dictionary whose values are all falsy) -- `if self.generation_meta:` is not `is not None`"""
    return {0: None, 1: {"func_name": "gen_x", "k": 1}, 2: {"func_name": "gen_y", "grid_shape": np.array([1, 2]), "k": 2},
            3: {}, 4: {"func_name": "", "k": 0, "flag": False, "visited": [], "grid_shape": np.zeros(2, dtype=int)}}[k]  # fmt: skip


N_METAS = 5


# ------------------------------------------------------------------ building real objects
def _cfg(name="c09", grid_n=3, n_mazes=1, seed=7, ctor="gen_dfs", **more):
    """more: maze_ctor_kwargs / endpoint_kwargs / seq_len_min / seq_len_max / applied_filters (all compared fields)"""
    from maze_dataset import MazeDatasetConfig
    from maze_dataset.generation import GENERATORS_MAP

    return MazeDatasetConfig(name=name, grid_n=grid_n, n_mazes=n_mazes, seed=seed, maze_ctor=GENERATORS_MAP[ctor], **copy.deepcopy(more))


class RoundTripFailed(Exception):
    pass


def _roundtrip(m, rep):
    """equal copies produced by the library's own (de)serialization routes (int8 arrays for the minimal ones)"""
    from maze_dataset import MazeDataset

    if rep == "rt_maze":
        return type(m).load(m.serialize())
    if rep == "rt_pickle":  # (copy.copy / copy.deepcopy of a maze raise TypeError on the unchanged tree: not C09's statement)
        return pickle.loads(pickle.dumps(m))
    # the dataset routes collect (and clear) generation_meta, which must be present: give the throw-away
    # source object a collectable one (generation_meta is not part of the value)
    R, C = m.connection_list.shape[1:]
    src = mz.SolvedMaze(connection_list=m.connection_list, solution=m.solution, generation_meta=dict(func_name="gen_dfs", grid_shape=np.array([R, C]), fully_connected=True))
    ds = MazeDataset(_cfg(grid_n=int(R), n_mazes=1), [src])
    ser = {"rt_ds_full": ds._serialize_full, "rt_ds_minimal": ds._serialize_minimal, "rt_ds_minimal_cat": ds._serialize_minimal_soln_cat}[rep]()
    return MazeDataset.load(ser).mazes[0]


def _strided(x, dtype=np.int64):
    """the values of x as a NON-CONTIGUOUS view (every second row / the middle column of a larger array)"""
    x = np.array(x, dtype=dtype)
    if x.ndim == 1:
        big = np.full((len(x), 3), 99, dtype=dtype)
        big[:, 1] = x
        return big[:, 1]
    big = np.full((2 * len(x), 4), 99, dtype=dtype)
    big[::2, 1:3] = x
    return big[::2, 1:3]


def _npints(c, k=0):
    ts = (np.int64, np.int8, np.int16, np.int32)  # signed only: coordinates may be negative in constructor cases
    return tuple(ts[(k + i) % len(ts)](v) for i, v in enumerate(c))


# representations of ONE coordinate (audit class G: the same value as ndarray of several dtypes incl. float-valued
# ints and bool, python list / tuple, tuple of numpy scalars of mixed types, non-contiguous view)
ENDS_CONV = {
    "ends_int8": lambda x: np.array(x, dtype=np.int8),
    "ends_int32": lambda x: np.array(x, dtype=np.int32),
    "ends_int16": lambda x: np.array(x, dtype=np.int16),
    "ends_uint8": lambda x: np.array(x, dtype=np.uint8),
    "ends_list": list,
    "ends_tuple": tuple,
    "ends_float": lambda x: np.array(x, dtype=float),
    "ends_float_tuple": lambda x: tuple(float(v) for v in x),
    "ends_npints": _npints,
    "ends_strided": _strided,
    "ends_strided_int8": lambda x: _strided(x, np.int8),
    "ends_bool": lambda x: np.array(x, dtype=bool),  # only generated for coordinates in {0, 1}
}
# representations of a solution
SOL_CONV = {
    "sol_int8": lambda s: np.array(s, dtype=np.int8),
    "sol_int32": lambda s: np.array(s, dtype=np.int32),
    "sol_int16": lambda s: np.array(s, dtype=np.int16),
    "sol_uint8": lambda s: np.array(s, dtype=np.uint8),
    "sol_list": lambda s: [list(c) for c in s],
    "sol_tuples": lambda s: [tuple(c) for c in s],
    "sol_tuple_of_tuples": lambda s: tuple(tuple(c) for c in s),
    "sol_float": lambda s: np.array(s, dtype=float),
    "sol_npints": lambda s: [_npints(c, k) for k, c in enumerate(s)],
    "sol_list_of_arrays": lambda s: [np.array(c, dtype=np.int8 if k % 2 else np.int64) for k, c in enumerate(s)],
    "sol_fortran": lambda s: np.asfortranarray(np.array(s)),
    "sol_strided": _strided,
    "sol_strided_int8": lambda s: _strided(s, np.int8),
    "sol_bool": lambda s: np.array(s, dtype=bool),  # only generated for coordinates in {0, 1}
}
RT_ANY = ["rt_maze", "rt_pickle"]
RT_DS = ["rt_ds_full", "rt_ds_minimal", "rt_ds_minimal_cat"]  # square SolvedMazes only (cfg.grid_n)


def reps_of(d, magnitude_ok=True):
    """every representation that applies to the maze described by d (all of them produce an EQUAL value)"""
    conn = np.array(d["conn"])
    R, C = conn.shape[1:]
    reps = ["conn_view", "conn_fortran"] + RT_ANY
    small = all(0 <= x <= 1 for c in [d["start"], d["end"]] + list(d["sol"]) for x in c)
    if d["kind"] == "TargetedLatticeMaze":
        reps += [r for r in ENDS_CONV if r != "ends_bool" or small]
    if d["kind"] == "SolvedMaze":
        reps += [r for r in SOL_CONV if r != "sol_bool" or small] + ["sol_explicit_ends", "sol_explicit_ends_list"] + (RT_DS if R == C else [])
    return reps


def build(d, same=None):
    """the real object described by d = {kind, conn, start, end, sol, meta, rep}; rep/meta are representation only"""
    rep = d.get("rep", "copy")
    if rep == "same":
        return same
    conn = np.array(d["conn"], dtype=bool)
    _, R, C = conn.shape
    if rep == "conn_view":  # non-contiguous view into a larger array
        big = np.ones((2, R + 2, C + 1), dtype=bool)
        big[:, 1 : R + 1, :C] = conn
        conn = big[:, 1 : R + 1, :C]
    elif rep == "conn_fortran":
        conn = np.asfortranarray(conn)
    meta = _metas(d.get("meta", 0))
    kind = d["kind"]
    if kind == "LatticeMaze":
        m = mz.LatticeMaze(connection_list=conn, generation_meta=meta)
    elif kind == "TargetedLatticeMaze":
        conv = ENDS_CONV.get(rep, np.array)
        m = mz.TargetedLatticeMaze(connection_list=conn, start_pos=conv(d["start"]), end_pos=conv(d["end"]), generation_meta=meta)
    else:
        sol, kw = SOL_CONV.get(rep, np.array)(d["sol"]), {}
        if rep == "sol_explicit_ends":
            kw = dict(start_pos=np.array(d["start"]), end_pos=np.array(d["end"]))
        elif rep == "sol_explicit_ends_list":  # [0, 0] given explicitly is falsy-free but all-zero: `if start_pos:` traps
            kw = dict(start_pos=list(d["start"]), end_pos=tuple(d["end"]))
        m = mz.SolvedMaze(connection_list=conn, solution=sol, generation_meta=meta, **kw)
    if rep.startswith("rt_"):
        try:
            m = _roundtrip(m, rep)
        except Exception as e:  # noqa: BLE001 - (de)serialization is another property's business
            raise RoundTripFailed(f"{rep}: {type(e).__name__}") from e
    return m


def safe_build(d, same=None):
    """-> (object | None, 'build' record | None, description actually used).  The library raising while a
    described (well-formed) maze is built is an OBSERVATION that the oracle judges, never a harness error;
    a failing serialization round trip falls back to a plain copy and is reported as a divergence."""
    try:
        return build(d, same), None, d
    except RoundTripFailed:
        d = dict(d, rep="copy(rt_failed)")
    except BaseException as e:  # noqa: BLE001
        if isinstance(e, (KeyboardInterrupt, SystemExit)):
            raise
        return None, _build_failed(d, e), d
    try:
        return build(d, same), None, d
    except BaseException as e:  # noqa: BLE001
        if isinstance(e, (KeyboardInterrupt, SystemExit)):
            raise
        return None, _build_failed(d, e), d


def proj(m):
    """raw projection of a real maze object (the abstraction to a value is done in TLA+)"""
    sp, ep, sol = getattr(m, "start_pos", None), getattr(m, "end_pos", None), getattr(m, "solution", None)
    return dict(
        kind=type(m).__name__,
        conn=np.asarray(m.connection_list).astype(int).tolist(),
        start=[int(x) for x in sp] if sp is not None else [],
        end=[int(x) for x in ep] if ep is not None else [],
        sol=[[int(a), int(b)] for a, b in sol] if sol is not None else [],
    )


def tv(fn):
    """truth value of a comparison: 'True' | 'False' | 'raise:<Type>' | 'nonbool:<type>'"""
    try:
        x = fn()
    except BaseException as e:  # noqa: BLE001
        if isinstance(e, (KeyboardInterrupt, SystemExit)):
            raise
        return "raise:" + type(e).__name__
    try:
        return "True" if bool(x) else "False"
    except Exception:  # noqa: BLE001
        return "nonbool:" + type(x).__name__


def _foreign(tag):
    """non-maze operands; the second row (audit class C) are the falsy ones: `if not other:` is not `other is None`"""
    return {"None": None, "int": 0, "tuple": (0, 0), "str": "LatticeMaze", "list": [[0, 0]],
            "False": False, "float0": 0.0, "empty_tuple": (), "empty_list": [], "empty_str": "", "empty_dict": {}, "empty_set": frozenset(), "ndarray1": np.zeros(1, dtype=bool)}[tag]  # fmt: skip


FALSY_FOREIGN = ["None", "int", "False", "float0", "empty_tuple", "empty_list", "empty_str", "empty_dict", "empty_set", "ndarray1"]


# ------------------------------------------------------------------ observation (real code)
def obs_pair(a, b, pa, rel, ad, bd, exp=None, h0=None, **extra):
    """eq / ne in both orders FIRST, then hashing and set / dict use, then == and != AGAIN in the other order
    (history must not matter: a memo filled by the first comparison or by hashing must not change the answer)"""
    eq, ne, eq_r, ne_r = tv(lambda: a == b), tv(lambda: a != b), tv(lambda: b == a), tv(lambda: b != a)
    ra, ha = mz.outcome(lambda: hash(a))
    rb, hb = mz.outcome(lambda: hash(b))
    rs, ns = mz.outcome(lambda: len({a, b}))
    rd, nd = mz.outcome(lambda: len(dict.fromkeys([a, b])))
    ne_r2, eq_r2, ne2, eq2 = tv(lambda: b != a), tv(lambda: b == a), tv(lambda: a != b), tv(lambda: a == b)
    ra2, ha2 = mz.outcome(lambda: hash(a))
    return dict(
        t="pair", rel=rel, exp=(rel in EQUAL_RELS) if exp is None else exp, a=pa, b=proj(b),
        eq=eq, ne=ne, eq_r=eq_r, ne_r=ne_r, eq2=eq2, ne2=ne2, eq_r2=eq_r2, ne_r2=ne_r2,
        ha=ra, hb=rb, heq=bool(ra == "ok" and rb == "ok" and ha == hb), hstable=bool(ra == "ok" and ra2 == "ok" and ha == ha2 and (h0 is None or h0 == ha)),
        set_res=rs, set_n=int(ns) if rs == "ok" else -1, dict_res=rd, dict_n=int(nd) if rd == "ok" else -1,
        arep=ad.get("rep", "copy"), ameta=ad.get("meta", 0), brep=bd.get("rep", "copy"), bmeta=bd.get("meta", 0), **extra,
    )  # fmt: skip


def obs_foreign(a, pa, tag, ad):
    o = _foreign(tag)
    return dict(t="foreign", a=pa, other=tag, eq=tv(lambda: a == o), ne=tv(lambda: a != o), eq_r=tv(lambda: o == a), ne_r=tv(lambda: o != a),
                arep=ad.get("rep", "copy"), ameta=ad.get("meta", 0))  # fmt: skip


def _build_failed(d, e):
    """a described (well-formed) maze could not be built: recorded and judged (constructor_rejects_valid_maze)"""
    return dict(t="build", kind=d["kind"], conn=d["conn"], start=d["start"], end=d["end"], sol=d["sol"], rep=d.get("rep", "copy"), meta=d.get("meta", 0), res="raise:" + type(e).__name__)


def observe_group(g):
    """one base maze a x all its variants b (+ foreign right operands)"""
    a, failed, ad = safe_build(g["a"])
    if failed:
        return [failed]
    pa = proj(a)
    out = []
    for v in g["vs"]:
        b, failed, bd = safe_build(v["m"], same=a)
        out.append(failed if failed else obs_pair(a, b, pa, v["rel"], ad, bd))
    for tag in g.get("foreign", []):
        out.append(obs_foreign(a, pa, tag, ad))
    if out and out[-1]["t"] in ("pair", "foreign") and proj(a) != pa:  # comparing / hashing must not change the operand (M)
        out[-1]["amod"] = True
    return out


def walk(s, e):
    """row-first lattice walk s -> e (input generation only)"""
    p = [list(s)]
    while p[-1][0] != e[0]:
        p.append([p[-1][0] + (1 if e[0] > p[-1][0] else -1), p[-1][1]])
    while p[-1][1] != e[1]:
        p.append([p[-1][0], p[-1][1] + (1 if e[1] > p[-1][1] else -1)])
    return p


TGT_FORMS = {"array": np.array, "tuple": tuple, "list": list, "int8": lambda x: np.array(x, dtype=np.int8), "int16": lambda x: np.array(x, dtype=np.int16),
             "uint8": lambda x: np.array(x, dtype=np.uint8), "float": lambda x: np.array(x, dtype=float), "float_tuple": lambda x: tuple(float(v) for v in x),
             "npints": _npints, "strided": _strided}  # fmt: skip
WALK_FORMS = {"walk": np.array, "walk_list": lambda w: [list(c) for c in w], "walk_tuples": lambda w: tuple(tuple(c) for c in w), "walk_float": lambda w: np.array(w, dtype=float),
              "walk_int16": lambda w: np.array(w, dtype=np.int16), "walk_npints": lambda w: [_npints(c, k) for k, c in enumerate(w)], "walk_strided": _strided,
              "walk_fortran": lambda w: np.asfortranarray(np.array(w))}  # fmt: skip
# audit class E: the caller's OWN mutable objects are passed, compared with a snapshot after the call, and then
# OVERWRITTEN before anything is read from the result
ALIAS_OWN = {"alias_array": lambda x: np.array(x, dtype=np.int64), "alias_int8": lambda x: np.array(x, dtype=np.int8), "alias_list": lambda x: [list(c) if isinstance(c, (list, tuple)) else c for c in x]}
TGT_ALIAS_FORMS = ["alias_array", "alias_int8", "alias_list", "alias_from_lattice_maze"]
SOL_ALIAS_FORMS = ["alias_array", "alias_int8", "alias_list", "alias_explicit_ends", "alias_from_lattice_maze"]


def ctor_call(kind, conn, s, e, form):
    if kind == "TargetedLatticeMaze":
        if form == "from_lattice_maze":
            return mz.TargetedLatticeMaze.from_lattice_maze(mz.LatticeMaze(connection_list=conn), np.array(s), np.array(e))
        conv = TGT_FORMS[form]
        return mz.TargetedLatticeMaze(connection_list=conn, start_pos=conv(s), end_pos=conv(e))
    if form == "pair":
        return mz.SolvedMaze(connection_list=conn, solution=np.array([s, e]))
    if form in WALK_FORMS:
        return mz.SolvedMaze(connection_list=conn, solution=WALK_FORMS[form](walk(s, e)))
    if form == "walk_explicit_ends":
        return mz.SolvedMaze(connection_list=conn, solution=np.array(walk(s, e)), start_pos=np.array(s), end_pos=np.array(e))
    if form == "walk_explicit_ends_list":
        return mz.SolvedMaze(connection_list=conn, solution=np.array(walk(s, e)), start_pos=list(s), end_pos=tuple(e))
    if form == "from_lattice_maze":
        return mz.SolvedMaze.from_lattice_maze(mz.LatticeMaze(connection_list=conn), [tuple(c) for c in walk(s, e)])
    raise ValueError(form)


def _same_arg(x, snap):
    if type(x) is not type(snap):
        return False
    if isinstance(x, np.ndarray):
        return x.dtype == snap.dtype and x.shape == snap.shape and bool(np.array_equal(x, snap))
    return x == snap


def _overwrite(x, v):
    if isinstance(x, np.ndarray):
        x[...] = v
    elif x and isinstance(x[0], list):
        for c in x:
            c[:] = [v] * len(c)
    else:
        x[:] = [v] * len(x)


def alias_ctor(kind, conn, s, e, form):
    """-> (res, object | None, argmod, hash_stable).  The arguments are the caller's own mutable objects; after the
    call they are compared with their snapshot (argmod) and then overwritten with an out-of-grid value (-5); the
    hash is taken before and after the overwrite (the object itself is never touched)."""
    own = ALIAS_OWN.get(form, ALIAS_OWN["alias_array"])
    if kind == "TargetedLatticeMaze":
        args = [own(s), own(e)]
        if form == "alias_from_lattice_maze":
            call = lambda: mz.TargetedLatticeMaze.from_lattice_maze(mz.LatticeMaze(connection_list=conn), args[0], args[1])  # noqa: E731
        else:
            call = lambda: mz.TargetedLatticeMaze(connection_list=conn, start_pos=args[0], end_pos=args[1])  # noqa: E731
    else:
        args = [own(walk(s, e))]
        if form == "alias_explicit_ends":
            args += [own(s), own(e)]
            call = lambda: mz.SolvedMaze(connection_list=conn, solution=args[0], start_pos=args[1], end_pos=args[2])  # noqa: E731
        elif form == "alias_from_lattice_maze":
            call = lambda: mz.SolvedMaze.from_lattice_maze(mz.LatticeMaze(connection_list=conn), args[0])  # noqa: E731
        else:
            call = lambda: mz.SolvedMaze(connection_list=conn, solution=args[0])  # noqa: E731
    snap = copy.deepcopy(args)
    res, m = mz.outcome(call)
    argmod = not all(_same_arg(x, y) for x, y in zip(args, snap))
    h0 = mz.outcome(lambda: hash(m)) if res == "ok" else None
    for x in args:
        _overwrite(x, -5)
    h1 = mz.outcome(lambda: hash(m)) if res == "ok" else None
    return res, m, argmod, bool(h0 == h1)


def observe_ctor(c):
    R, C = c["R"], c["C"]
    conn = np.ones((2, R, C), dtype=bool)  # the full lattice graph (conn is irrelevant to the bounds check)
    conn[0, -1, :] = False
    conn[1, :, -1] = False
    out = []
    for form in c["forms"]:
        extra = {}
        if form.startswith("alias_"):
            res, m, argmod, hst = alias_ctor(c["kind"], conn, c["start"], c["end"], form)
            extra = dict(argmod=argmod, hstable=hst)
            if c["kind"] == "SolvedMaze":  # the solution held AFTER the caller overwrote its own array
                want = walk(c["start"], c["end"])
                extra["sol_kept"] = bool(res != "ok" or [[int(a), int(b)] for a, b in m.solution] == want)
        else:
            res, m = mz.outcome(lambda: ctor_call(c["kind"], conn, c["start"], c["end"], form))
        out.append(dict(t="ctor", kind=c["kind"], R=R, C=C, start=list(c["start"]), end=list(c["end"]), form=form, res=res,
                        got_start=[int(x) for x in m.start_pos] if res == "ok" else [], got_end=[int(x) for x in m.end_pos] if res == "ok" else [], **extra))  # fmt: skip
    return out


def _cfg_variant(base_kw, v):
    kw = dict(base_kw)
    if v == "name":
        kw["name"] = kw["name"] + "x"
    elif v == "grid_n":
        kw["grid_n"] += 1
    elif v == "seed":
        kw["seed"] += 1
    elif v == "ctor":
        kw["ctor"] = "gen_wilson"
    elif v == "n_mazes":
        kw["n_mazes"] += 1
    # audit class C: a field that is falsy on ONE side (`a.x or default`, `if a.x and a.x != b.x`)
    elif v == "seed0":
        kw["seed"] = 0 if kw["seed"] != 0 else 1
    elif v == "name_empty":
        kw["name"] = "" if kw["name"] != "" else "x"
    elif v == "grid_n0":
        kw["grid_n"] = 0 if kw["grid_n"] != 0 else 1
    elif v == "ctor_kwargs":  # {} vs a dictionary whose only value is falsy
        kw["maze_ctor_kwargs"] = {"p": 0.0} if not kw.get("maze_ctor_kwargs") else {}
    elif v == "endpoint_kwargs":
        kw["endpoint_kwargs"] = {"deadend_start": False} if not kw.get("endpoint_kwargs") else {}
    elif v == "seq_len_min0":
        kw["seq_len_min"] = 0 if kw.get("seq_len_min", 1) != 0 else 1
    elif v == "filters_falsy":  # [] vs one recorded filter whose args / kwargs are empty
        kw["applied_filters"] = [dict(name="path_length", args=(), kwargs={})] if not kw.get("applied_filters") else []
    return kw


def _cfgrec(c):
    """every COMPARED field of the configuration (n_mazes is logged separately as na / nb)"""
    return dict(name=str(c.name), grid_n=int(c.grid_n), seed=int(c.seed), ctor=str(c.maze_ctor.__name__),
                filters=[str(f.get("name")) + ":" + json.dumps(f.get("kwargs", {}), sort_keys=True, default=str) for f in c.applied_filters],
                more=json.dumps([c.maze_ctor_kwargs, c.endpoint_kwargs, c.seq_len_min, c.seq_len_max, [list(f.get("args", ())) for f in c.applied_filters]], sort_keys=True, default=str))  # fmt: skip


def _ds_record(dsa, dsb, cv, **extra):
    """observation of two EXISTING datasets in their current state (== / != in both orders, twice)"""
    ca, cb = dsa.cfg, dsb.cfg
    eq, ne, eq_r, ne_r = tv(lambda: dsa == dsb), tv(lambda: dsa != dsb), tv(lambda: dsb == dsa), tv(lambda: dsb != dsa)
    eq2, eq_r2 = tv(lambda: dsa == dsb), tv(lambda: dsb == dsa)
    d = dict(t="ds", cv=cv, ca=_cfgrec(ca), cb=_cfgrec(cb), na=int(ca.n_mazes), nb=int(cb.n_mazes), ceq=tv(lambda: ca == cb),
             ma=[proj(m) for m in dsa.mazes], mb=[proj(m) for m in dsb.mazes], eq=eq, ne=ne, eq_r=eq_r, ne_r=ne_r, eq2=eq2, eq_r2=eq_r2)  # fmt: skip
    d.update(extra)
    return d


def _build_all(descs):
    objs, failed, used = [], [], []
    for d in descs:
        o, f, u = safe_build(d)
        objs.append(o)
        used.append(u)
        if f:
            failed.append(f)
    return objs, failed, used


def observe_ds(c):
    """MazeDataset(cfg_a, pool[la]) == MazeDataset(cfg_b, fresh copies of pool[lb]) for every cfg variant"""
    from maze_dataset import MazeDataset

    A, failed, ua = _build_all([c["pool"][i - 1] for i in c["la"]])
    if failed:
        return failed
    base_kw = dict(dict(name="c09", grid_n=max(c["R"], c["C"]), n_mazes=len(A), seed=7, ctor="gen_dfs"), **c.get("base_kw", {}))
    ca = _cfg(**base_kw)
    # audit class G / E: the maze sequence as the caller's list (emptied after the call), a tuple, a one-shot generator
    seq = {"list": list, "tuple": tuple, "gen": lambda x: (m for m in x), "own_list": list}
    sa, sb = c.get("seqs", ["list", "list"])
    A_arg = seq[sa](A)
    ra, dsa = mz.outcome(lambda: MazeDataset(ca, A_arg))
    if sa == "own_list":
        A_arg.clear()
    out = []
    for v in c["cfgs"]:
        B, failed, ub = _build_all([c["pool"][i - 1] for i in c["lb"]])
        if failed:
            out += failed
            continue
        cb = ca if v == "same" else _cfg(**_cfg_variant(base_kw, v))
        B_arg = seq[sb](B)
        rb, dsb = mz.outcome(lambda: MazeDataset(cb, B_arg))
        if sb == "own_list":
            B_arg.clear()
        reps = dict(ra=[d.get("rep", "copy") for d in ua], rb=[d.get("rep", "copy") for d in ub], ea=[d.get("meta", 0) for d in ua], eb=[d.get("meta", 0) for d in ub],
                    seqs=[sa, sb], bk=json.dumps(c.get("base_kw", {}), sort_keys=True))
        if ra == "ok" and rb == "ok":
            out.append(_ds_record(dsa, dsb, v, **reps))
        else:  # the dataset constructor raised: recorded as the outcome of the comparison
            bad = ra if ra != "ok" else rb
            out.append(dict(t="ds", cv=v, ca=_cfgrec(ca), cb=_cfgrec(cb), na=int(ca.n_mazes), nb=int(cb.n_mazes), ceq=tv(lambda: ca == cb),
                            ma=[proj(m) for m in A], mb=[proj(m) for m in B], eq=bad, ne=bad, eq_r=bad, ne_r=bad, eq2=bad, eq_r2=bad, **reps))  # fmt: skip
    if c["la"] == c["lb"] and ra == "ok":  # the dataset against a non-dataset: never raises, never equal
        for tag in ("None", "list"):
            o = None if tag == "None" else list(A)
            out.append(dict(t="foreign", a=dict(kind="MazeDataset", conn=[], start=[], end=[], sol=[]), other=tag,
                            eq=tv(lambda: dsa == o), ne=tv(lambda: dsa != o), eq_r=tv(lambda: o == dsa), ne_r=tv(lambda: o != dsa), arep="ds", ameta=0))  # fmt: skip
    return out


def observe_dedup(c):
    """c = {descs: [...], same_as: [...]}: de-duplication of a list of mazes through set() and dict.fromkeys()"""
    objs, used, failed = [], [], []
    for d, sa in zip(c["descs"], c["same_as"]):
        if sa >= 0:
            objs.append(objs[sa])
            used.append(used[sa])
            continue
        o, f, u = safe_build(d)
        objs.append(o)
        used.append(u)
        if f:
            failed.append(f)
    if failed:
        return failed
    hs_ok = all(mz.outcome(lambda o=o: hash(o))[0] == "ok" for o in objs)
    rs, ns = mz.outcome(lambda: len(set(objs)))
    rd, keys = mz.outcome(lambda: list(dict.fromkeys(objs)))
    first = []
    if rd == "ok":
        for k in keys:
            first.append(next(i for i, o in enumerate(objs) if o is k))
    return [dict(t="dedup", ms=[proj(o) for o in objs], hs_ok=hs_ok, set_res=rs, set_n=int(ns) if rs == "ok" else -1, dict_res=rd, dict_first=first,
                 reps=[d.get("rep", "copy") for d in used], metas=[d.get("meta", 0) for d in used], same_as=list(c["same_as"]))]  # fmt: skip


def observe_case(c):
    return {"pairs": observe_group, "ctor": observe_ctor, "ds": observe_ds, "dedup": observe_dedup}[c["t"]](c)


# ------------------------------------------------------------------ seeded random larger cases (same case forms)
def _cells(R, C):
    return [[i, j] for i in range(R) for j in range(C)]


def _rand_walk(rng, R, C, s, n):
    p = [list(s)]
    for _ in range(n - 1):
        x = p[-1]
        nb = [[x[0] + a, x[1] + b] for a, b in ((1, 0), (-1, 0), (0, 1), (0, -1)) if 0 <= x[0] + a < R and 0 <= x[1] + b < C]
        if not nb:
            break
        p.append(nb[int(rng.integers(len(nb)))])
    return p


def _rand_desc(rng, maxn, kind=None, square=False, shape=None):
    R = int(rng.integers(1, maxn + 1))
    C = R if square else int(rng.integers(1, maxn + 1))
    if shape:
        R, C = shape
    conn = mz.rand_conn(rng, R, C, float(rng.choice([0.2, 0.5, 0.8])))
    if rng.random() < 0.15:  # boundary bits are part of the raw value as well
        conn[int(rng.integers(2)), -1 if rng.random() < 0.5 else int(rng.integers(R)), -1] = True
    kind = kind or KINDS[int(rng.choice(3, p=[0.2, 0.3, 0.5]))]
    d = dict(kind=kind, conn=mz.raw(conn), start=[], end=[], sol=[], meta=int(rng.integers(N_METAS)), rep="copy")
    if kind != "LatticeMaze":
        s = [int(rng.integers(R)), int(rng.integers(C))]
        if kind == "SolvedMaze":
            d["sol"] = _rand_walk(rng, R, C, s, int(rng.integers(1, R + C + 6)))
            d["start"], d["end"] = d["sol"][0], d["sol"][-1]
        else:
            d["start"], d["end"] = s, [int(rng.integers(R)), int(rng.integers(C))]
    return d


def _with_sol(d, sol):
    return dict(d, sol=sol, start=sol[0], end=sol[-1])


def _reflow(d, R2, C2):
    conn = np.array(d["conn"])
    flat = conn.reshape(-1)
    new = np.zeros(2 * R2 * C2, dtype=int)
    n = min(len(flat), len(new))
    new[:n] = flat[:n]
    clip = lambda c: [min(c[0], R2 - 1), min(c[1], C2 - 1)] if c else []  # noqa: E731
    return dict(d, conn=new.reshape(2, R2, C2).tolist(), start=clip(d["start"]), end=clip(d["end"]), sol=[clip(c) for c in d["sol"]])


def _mutate(rng, d, rel):
    """a variant of d in relation rel, or None when rel does not apply (input generation only; the oracle
    recomputes equality from the projections of the real objects)"""
    conn = np.array(d["conn"])
    _, R, C = conn.shape
    kind = d["kind"]
    other_cell = lambda c: (lambda xs: xs[int(rng.integers(len(xs)))] if xs else None)([x for x in _cells(R, C) if x != c])  # noqa: E731
    if rel == "copy":
        return dict(d, rep="copy")
    if rel == "meta":
        return dict(d, meta=(d["meta"] + 1 + int(rng.integers(N_METAS - 1))) % N_METAS, rep="copy")
    if rel == "rep":
        reps = reps_of(d) + (["rt_ds_minimal", "rt_ds_minimal_cat"] * 2 if (kind == "SolvedMaze" and R == C) else [])
        return dict(d, rep=reps[int(rng.integers(len(reps)))])
    if rel == "bit":
        c2 = conn.copy()
        k = (int(rng.integers(2)), int(rng.integers(R)), int(rng.integers(C)))
        c2[k] = 1 - c2[k]
        return dict(d, conn=c2.tolist())
    if rel == "shape":
        opts = [(r2, (R * C) // r2) for r2 in range(1, R * C + 1) if (R * C) % r2 == 0 and (r2, (R * C) // r2) != (R, C)] + [(R + 1, C), (R, C + 1)] + ([(R - 1, C)] if R > 1 else [])
        return _reflow(d, *opts[int(rng.integers(len(opts)))])
    if rel == "kind":
        k2 = [k for k in KINDS if k != kind][int(rng.integers(2))]
        s = d["start"] or [0, 0]
        e = d["end"] or [0, 0]
        if k2 == "LatticeMaze":
            return dict(d, kind=k2, start=[], end=[], sol=[])
        if k2 == "TargetedLatticeMaze":
            return dict(d, kind=k2, start=s, end=e, sol=[])
        return _with_sol(dict(d, kind=k2), walk(s, e))
    if kind == "TargetedLatticeMaze":
        if rel in ("start", "end"):
            c = other_cell(d[rel])
            return dict(d, **{rel: c}) if c else None
        if rel == "swap":
            return dict(d, start=d["end"], end=d["start"]) if d["start"] != d["end"] else None
    if kind == "SolvedMaze":
        sol = [list(c) for c in d["sol"]]
        if rel == "solcell":
            k = int(rng.integers(len(sol)))
            c = [sol[k][1], sol[k][0]] if (rng.random() < 0.5 and sol[k][0] != sol[k][1] and sol[k][1] < R and sol[k][0] < C) else other_cell(sol[k])
            if c is None:
                return None
            sol[k] = c
            return _with_sol(d, sol)
        if rel == "longer":
            c = _cells(R, C)[int(rng.integers(R * C))]
            return _with_sol(d, sol + [c] if rng.random() < 0.5 else [c] + sol)
        if rel == "shorter":
            if len(sol) < 2:
                return None
            k = int(rng.integers(len(sol)))
            return _with_sol(d, sol[:k] + sol[k + 1 :])
        if rel == "reversed":
            return _with_sol(d, sol[::-1]) if sol != sol[::-1] else None
    return None


UNEQUAL = ["bit", "shape", "kind", "start", "end", "swap", "solcell", "longer", "shorter", "reversed"]


def rand_group(args):
    seed, k, maxn = args
    rng = np.random.default_rng([seed, 9, k])
    a = _rand_desc(rng, maxn, square=bool(k % 3 == 0))
    a["rep"] = ["copy", "copy", "sol_int8" if a["kind"] == "SolvedMaze" else "conn_view"][k % 3]
    vs = [dict(rel="same", m=dict(a, rep="same"))]
    for rel in ["copy", "meta", "rep", "rep", "rep"] + UNEQUAL + ["bit", "solcell", "shape"]:
        m = _mutate(rng, a, rel)
        if m is not None:
            if rel not in EQUAL_RELS:
                m = dict(m, rep="copy")
            vs.append(dict(rel=rel, m=m))
    return observe_group(dict(t="pairs", a=a, vs=vs, foreign=["None", "tuple"]))


def rand_dedup(args):
    seed, k, maxn = args
    rng = np.random.default_rng([seed, 11, k])
    base = _rand_desc(rng, maxn, square=bool(k % 2))
    descs, same_as = [], []
    for i in range(int(rng.integers(2, 11))):
        u = rng.random()
        if i > 0 and u < 0.2:
            j = int(rng.integers(i))
            descs.append(descs[j])
            same_as.append(j if same_as[j] < 0 else same_as[j])
            continue
        src = base if (i == 0 or u < 0.6) else descs[int(rng.integers(i))]
        rel = ["copy", "meta", "rep"][int(rng.integers(3))] if rng.random() < 0.6 else UNEQUAL[int(rng.integers(len(UNEQUAL)))]
        m = _mutate(rng, src, rel) or dict(src, rep="copy")
        if rel not in EQUAL_RELS:
            m = dict(m, rep="copy")
        descs.append(m)
        same_as.append(-1)
    return observe_dedup(dict(t="dedup", descs=descs, same_as=same_as))  # a list of records


def rand_ctor(args):
    seed, k, maxn = args
    rng = np.random.default_rng([seed, 13, k])
    R, C = int(rng.integers(1, maxn + 1)), int(rng.integers(1, maxn + 1))
    kind = ["TargetedLatticeMaze", "SolvedMaze"][k % 2]

    def coord(n):
        u = rng.random()
        if u < 0.45:
            return int(rng.integers(n))
        return int(rng.choice([-100, -3, -2, -1, 0, n - 1, n, n + 1, n + 2, n + 100, 127]))

    pt = lambda: [coord(R), coord(C)]  # noqa: E731
    s, e = pt(), pt()
    if k % 4 < 2:  # exactly one bad coordinate among the four
        s, e = [int(rng.integers(R)), int(rng.integers(C))], [int(rng.integers(R)), int(rng.integers(C))]
        tgt = [s, e][int(rng.integers(2))]
        ax = int(rng.integers(2))
        tgt[ax] = int(rng.choice([-1, -2, [R, C][ax], [R, C][ax] + 1]))
    forms = ["array", "tuple", "int8", "from_lattice_maze"] if kind == "TargetedLatticeMaze" else ["walk", "pair", "walk_explicit_ends", "from_lattice_maze"]
    new = (["list", "float", "float_tuple", "npints", "strided"] + TGT_ALIAS_FORMS) if kind == "TargetedLatticeMaze" else ([f for f in WALK_FORMS if f != "walk"] + ["walk_explicit_ends_list"] + SOL_ALIAS_FORMS)
    forms = forms + [new[(k // 2) % len(new)], new[(k // 2 + 4) % len(new)]]
    return observe_ctor(dict(t="ctor", kind=kind, R=R, C=C, start=s, end=e, forms=forms))


def rand_ds(args):
    seed, k, maxn = args
    rng = np.random.default_rng([seed, 15, k])
    n = int(rng.integers(2, maxn + 1))
    nb = 3
    base = [_rand_desc(rng, n, kind="SolvedMaze", shape=(n, n)) for _ in range(nb)]
    # pool (1-based): base i | equal copy of base i in another representation at nb+i | different value at 2nb+i
    pool = base + [_mutate(rng, b, "rep") for b in base]
    for b in base:
        m = _mutate(rng, b, ["bit", "solcell", "longer", "shorter", "reversed"][int(rng.integers(5))]) or _mutate(rng, b, "bit")
        pool.append(dict(m, rep="copy"))
    la = [int(rng.integers(1, len(pool) + 1)) for _ in range(int(rng.integers(0, 6)))]
    u = rng.random()
    if u < 0.35:  # equal lists through equal copies in other representations
        lb = [i + nb if (i <= nb and rng.random() < 0.7) else i for i in la]
    elif u < 0.55 and la:  # one position replaced
        lb = list(la)
        lb[int(rng.integers(len(lb)))] = int(rng.integers(1, len(pool) + 1))
    elif u < 0.7:  # shorter / longer
        lb = la[:-1] if la and rng.random() < 0.5 else la + [1]
    elif u < 0.8:
        lb = la[::-1]
    else:
        lb = [int(rng.integers(1, len(pool) + 1)) for _ in range(len(la))]
    return observe_ds(dict(t="ds", R=n, C=n, pool=pool, la=la, lb=lb, cfgs=["same", "copy", ["name", "grid_n", "seed", "ctor", "n_mazes"][k % 5], DS_FALSY_CFGS[k % len(DS_FALSY_CFGS)]],
                           seqs=DS_SEQS[(k // 2) % len(DS_SEQS)], base_kw=[{}, dict(seed=0), dict(name="")][k % 3]))


# ------------------------------------------------------------------ CLASS A: histories (state that must not matter)
def _tokenizer(n):
    from maze_dataset.tokenization import MazeTokenizer, TokenizationMode

    return MazeTokenizer(tokenization_mode=TokenizationMode.AOTP_UT_uniform, max_grid_size=int(n))


def _use(name, m, aux):
    """legitimately USE the object (results that are fresh arrays / lists are overwritten afterwards: a later
    call must not hand the modified data back, and the object's value must not change)"""
    R, C = m.connection_list.shape[1:]
    if name == "hash":
        hash(m)
    elif name == "set":
        aux.setdefault("sets", []).append({m})
    elif name == "dict":
        aux.setdefault("dicts", []).append({m: 1})
    elif name == "as_pixels":
        for kw in (dict(), dict(show_endpoints=False, show_solution=False)):
            px = m.as_pixels(**kw)
            px[...] = 7
    elif name == "as_ascii":
        m.as_ascii()
    elif name == "as_adj_list":
        x = m.as_adj_list()
        x[...] = 0
    elif name == "get_nodes":
        m.get_nodes()
    elif name == "serialize":
        type(m).load(m.serialize())
    elif name == "str":
        repr(m), str(m)
    elif name == "find_path":
        m.find_shortest_path((0, 0), (R - 1, C - 1))
    elif name == "eq_foreign":
        m == None, m != (0, 0), m == mz.LatticeMaze(connection_list=np.zeros((2, R + 1, C), dtype=bool))  # noqa: E711,B015
    elif name == "start_tokens":
        m._get_start_pos_tokens().clear()
        m._get_end_pos_tokens().clear()
    elif name == "solution_tokens":
        m._get_solution_tokens().clear()
    elif name == "as_tokens":
        m.as_tokens(_tokenizer(max(R, C))).clear()
    elif name == "forking_points":
        m.get_solution_forking_points()
        m.get_solution_path_following_points()
    elif name == "coord_neighbors":
        m.get_coord_neighbors(np.array([0, 0]))
        m.get_connected_component() if hasattr(m, "get_connected_component") else None


def _uses_of(kind):
    u = ["hash", "set", "dict", "as_pixels", "as_ascii", "as_adj_list", "get_nodes", "serialize", "str", "find_path", "eq_foreign", "coord_neighbors"]
    if kind != "LatticeMaze":
        u += ["start_tokens"]
    if kind == "SolvedMaze":
        u += ["solution_tokens", "as_tokens", "forking_points"]
    return u


def rand_history(args):
    """TWO objects (a narrow grid and a wider grid with the same rows and the same leading bytes) are used step by
    step, interleaved (A-B-A); after every use each is compared with a fresh equal object built BEFORE any use,
    a fresh equal object built NOW (after throw-away objects were hashed and freed: id reuse), a saved-and-loaded
    copy, and a fresh DIFFERENT object.  All records are ordinary pair records: the oracle knows no history."""
    seed, k, maxn = args
    rng = np.random.default_rng([seed, 17, k])
    d1 = _rand_desc(rng, maxn, kind=KINDS[k % 3])
    if d1["kind"] == "SolvedMaze" and (k // 3) % 3 < 2:  # audit class H: every use on a length-1 / length-2 solution
        d1 = _with_sol(d1, d1["sol"][: 1 + (k // 3) % 3])
    R, C = len(d1["conn"][0]), len(d1["conn"][0][0])
    d2 = _reflow(d1, R, C + 1)
    out = []
    objs = []
    for d in (d1, d2):
        u = None
        for rel in rng.permutation(["bit", "solcell", "start", "end", "longer", "bit"]):
            u = _mutate(rng, d, str(rel))
            if u is not None:
                break
        o, f1, du = safe_build(d)
        fresh, f2, _ = safe_build(dict(d, rep="copy"))
        other, f3, uu = safe_build(dict(u, rep="copy"))
        if f1 or f2 or f3:
            return [x for x in (f1, f2, f3) if x]
        objs.append((d, o, fresh, uu, other))
    uses = [str(x) for x in rng.permutation(_uses_of(d1["kind"]))]
    hist = [int(seed), int(k), int(maxn)]
    aux = {}
    for step, use in enumerate(["fresh"] + uses):
        for which, (d, o, fresh, uu, other) in enumerate(objs):
            if use != "fresh":
                mz.outcome(lambda: _use(use, o, aux))  # a raising use is not C09's business; the observation after it is
            tag = f"{use}#{step}.{which}"
            po = proj(o)
            out.append(obs_pair(o, fresh, po, "used:" + tag, d, d, exp=True, hist=hist))
            out.append(obs_pair(o, other, po, "used_ne:" + tag, d, uu, exp=False, hist=hist))
            if step % 3 == 0:
                for _ in range(3):  # throw-away objects: hashed, compared, freed (their ids get reused)
                    tmp, _f, _d = safe_build(dict(uu, rep="copy"))
                    mz.outcome(lambda: (hash(tmp), tmp == o))
                    del tmp
                now, f, _ = safe_build(dict(d, rep="copy"))
                if not f:
                    out.append(obs_pair(now, o, proj(now), "used_vs_new:" + tag, d, d, exp=True, hist=hist))
                ld, f, dd = safe_build(dict(d, rep="rt_maze"))
                if not f:
                    out.append(obs_pair(o, ld, po, "used_vs_loaded:" + tag, d, dd, exp=True, hist=hist))
    return out


def rand_ds_history(args):
    """two equal datasets; one is used / edited / filtered step by step and compared with the other after each step
    (a memoised comparison or data hash would go stale); the oracle judges the CURRENT cfg fields and maze lists"""
    from maze_dataset import MazeDataset

    seed, k, maxn = args
    rng = np.random.default_rng([seed, 19, k])
    n = int(rng.integers(2, maxn + 1))
    hist = [int(seed), int(k), int(maxn)]
    descs = [dict(_rand_desc(rng, n, kind="SolvedMaze", shape=(n, n)), meta=1) for _ in range(int(rng.integers(2, 6)))]
    A, fa, _ = _build_all(descs)
    B, fb, _ = _build_all(descs)
    diff = None
    for rel in ("solcell", "bit", "longer"):
        diff = _mutate(rng, descs[0], rel)
        if diff:
            break
    X, fx, _ = _build_all([dict(diff, rep="copy", meta=1)])
    if fa or fb or fx:
        return fa + fb + fx
    kw = dict(name="c09h", grid_n=n, n_mazes=len(A), seed=3, ctor="gen_dfs")
    ra, dsa = mz.outcome(lambda: MazeDataset(_cfg(**kw), A))
    rb, dsb = mz.outcome(lambda: MazeDataset(_cfg(**kw), B))
    if ra != "ok" or rb != "ok":
        return []
    out = []
    rec = lambda step, x=None, y=None: out.append(_ds_record(x or dsa, y or dsb, "hist:" + step, hist=hist))  # noqa: E731
    rec("fresh")
    mz.outcome(lambda: (len(dsb), dsb[0], dsb.data_hash(), dsb.as_tokens(_tokenizer(n), limit=1)))
    rec("used")
    j = int(rng.integers(len(B)))
    old = dsb.mazes[j]
    dsb.mazes[j] = X[0]
    rec("edited")
    dsb.mazes[j] = old
    rec("edit_reverted")
    dsb.mazes.append(X[0])
    rec("appended")
    dsb.mazes.pop()
    rec("append_reverted")
    dsa.mazes.reverse()
    rec("a_reversed")
    dsa.mazes.reverse()
    r1, res = mz.outcome(lambda: dsb.filter_by.collect_generation_meta())
    if r1 == "ok":
        rec("b_collected")
        rec("b_collected_result", dsa, res)
        r2, res2 = mz.outcome(lambda: dsa.filter_by.collect_generation_meta())
        if r2 == "ok":
            rec("both_collected")
            rec("both_collected_results", res2, res)
    r3, fb_ = mz.outcome(lambda: dsb.filter_by.path_length(min_length=1))
    if r3 == "ok":
        rec("b_filtered", dsb, fb_)
        r4, fa_ = mz.outcome(lambda: dsa.filter_by.path_length(min_length=1))
        if r4 == "ok":
            rec("both_filtered", fa_, fb_)
            rec("originals_after_filters")
            r5, fb2 = mz.outcome(lambda: fb_.filter_by.path_length(min_length=1))  # audit class F: the same filter twice in a row
            if r5 == "ok":
                rec("once_vs_twice_filtered", fa_, fb2)
                r6, fa2 = mz.outcome(lambda: fa_.filter_by.path_length(min_length=1))
                if r6 == "ok":
                    rec("both_twice_filtered", fa2, fb2)
                    rec("twice_vs_once_filtered", fa2, fb_)
    return out


# ------------------------------------------------------------------ CLASS B: magnitude boundaries (127/128, 255/256)
def _snake(R, C, n):
    p = []
    for i in range(R):
        row = [[i, j] for j in range(C)]
        p += row if i % 2 == 0 else row[::-1]
    return p[:n]


BIG_SHAPES = [(16, 16), (12, 12), (2, 70), (70, 2), (1, 300), (300, 1), (2, 130), (129, 2), (3, 100)]


def big_group(args):
    """mazes with >= 128 / >= 256 cells, solutions of 127..300 cells, coordinates 127/128/255/256: variants that
    differ ONLY beyond an int8 / uint8 boundary (cell index, solution position, coordinate value +-128 / +-256)"""
    R, C, L, kind = args
    conn = np.zeros((2, R, C), dtype=bool)
    conn[0, : R - 1, 0] = True
    conn[1, 0, : C - 1] = True
    sol = _snake(R, C, L)
    L = len(sol)
    a = dict(kind=kind, conn=mz.raw(conn), start=[], end=[], sol=[], meta=0, rep="copy")
    if kind == "SolvedMaze":
        a = _with_sol(a, sol)
    elif kind == "TargetedLatticeMaze":
        a["start"], a["end"] = sol[0], sol[-1]
    big = max(R, C) > 127
    vs = [dict(rel="same", m=dict(a, rep="same")), dict(rel="copy", m=dict(a)), dict(rel="meta", m=dict(a, meta=2)), dict(rel="rep", m=dict(a, rep="conn_view"))]
    if kind == "TargetedLatticeMaze":
        vs += [dict(rel="rep", m=dict(a, rep=r)) for r in ["ends_int16", "ends_int32", "ends_list"] + (["ends_uint8"] if max(R, C) <= 256 else []) + ([] if big else ["ends_int8"])]
    if kind == "SolvedMaze":
        vs += [dict(rel="rep", m=dict(a, rep=r)) for r in ["sol_int16", "sol_int32", "sol_tuples"] + (["sol_uint8"] if max(R, C) <= 256 else []) + ([] if big else ["sol_int8"])]
        if R == C:
            vs += [dict(rel="rep", m=dict(a, rep=r)) for r in ("rt_ds_minimal", "rt_ds_full")]
    flat = 2 * R * C
    for idx in sorted({0, 126, 127, 128, 129, 254, 255, 256, 257, flat // 2, flat - 1}):
        if idx < flat:
            c2 = conn.copy().reshape(-1)
            c2[idx] = ~c2[idx]
            vs.append(dict(rel="bit", m=dict(a, conn=mz.raw(c2.reshape(2, R, C)))))
    vs.append(dict(rel="shape", m=_reflow(a, C, R) if R != C else _reflow(a, R * 2, C // 2)))
    cells_far = lambda c: [x for x in ([c[0], c[1] + 128], [c[0], c[1] - 128], [c[0], c[1] + 256], [c[0], c[1] - 256], [c[0] + 128, c[1]], [c[0] - 128, c[1]], [c[0] + 256, c[1]], [c[0] - 256, c[1]], [c[0], c[1] ^ 1] if (c[1] ^ 1) < C else [c[0] ^ 1, c[1]]) if 0 <= x[0] < R and 0 <= x[1] < C]  # noqa: E731
    if kind == "TargetedLatticeMaze":
        for fld in ("start", "end"):
            for x in cells_far(a[fld]):
                vs.append(dict(rel=fld, m=dict(a, **{fld: x})))
        vs.append(dict(rel="swap", m=dict(a, start=a["end"], end=a["start"])))
    if kind == "SolvedMaze":
        for pos in sorted({0, 1, 126, 127, 128, 129, 254, 255, 256, 257, L - 2, L - 1}):
            if 0 <= pos < L:
                for x in cells_far(sol[pos])[:3]:
                    s2 = [list(c) for c in sol]
                    s2[pos] = x
                    vs.append(dict(rel="solcell", m=_with_sol(a, s2)))
        vs.append(dict(rel="longer", m=_with_sol(a, sol + [sol[-1]])))
        vs.append(dict(rel="longer", m=_with_sol(a, sol + sol[-2:-1])))
        if L > 2:
            vs.append(dict(rel="shorter", m=_with_sol(a, sol[:-1])))
            vs.append(dict(rel="shorter", m=_with_sol(a, sol[:127] + sol[128:])) if L > 130 else dict(rel="shorter", m=_with_sol(a, sol[1:])))
            vs.append(dict(rel="reversed", m=_with_sol(a, sol[::-1])))
        vs.append(dict(rel="kind", m=dict(a, kind="TargetedLatticeMaze", sol=[])))
    return observe_group(dict(t="pairs", a=a, vs=vs, foreign=["None"]))


def big_ctor_cases():
    out = []
    for R, C in [(128, 128), (127, 129), (256, 256), (255, 257), (2, 70), (70, 2), (1, 300), (300, 1), (129, 2), (2, 256), (16, 16)]:
        vals = lambda n: sorted({-129, -128, -1, 0, 1, 9, 10, 126, 127, 128, 129, 254, 255, 256, 257, n - 2, n - 1, n, n + 1, n + 127, n + 128, n + 255, n + 256})  # noqa: E731
        inr, inc = min(R - 1, 1), min(C - 1, 1)
        for kind in ("TargetedLatticeMaze", "SolvedMaze"):
            pts = [[r, inc] for r in vals(R)] + [[inr, c] for c in vals(C)] + [[R - 1, C - 1], [R, C], [C - 1, R - 1], [C, R]]
            for p in pts:
                for s, e in (([inr, inc], p), (p, [inr, inc]), (p, p)):
                    small = all(-128 <= x <= 127 for x in s + e)
                    u8 = all(0 <= x <= 255 for x in s + e)
                    if kind == "TargetedLatticeMaze":
                        forms = ["array", "tuple", "int16", "from_lattice_maze"] + (["int8"] if small else []) + (["uint8"] if u8 else [])
                    else:
                        forms = ["walk", "pair", "walk_explicit_ends"]
                    out.append(dict(t="ctor", kind=kind, R=R, C=C, start=s, end=e, forms=forms))
    return out


def big_ds(args):
    """datasets with 127..257 mazes that differ only at / beyond index 127 or 255, or only in length"""
    n, variant = args
    pool = [dict(kind="SolvedMaze", conn=[[[1, 0], [0, 0]], [[0, 0], [1, 0]]], start=s, end=e, sol=walk(s, e), meta=0, rep=rep) for s, e, rep in
            (([0, 0], [1, 1], "copy"), ([0, 0], [1, 1], "sol_int8"), ([0, 0], [1, 0], "copy"), ([1, 1], [0, 0], "copy"))]  # fmt: skip
    la = [1 + (i % 2) * 2 for i in range(n)]  # values 1,3,1,3...
    if variant == "equal":
        lb = [2 if x == 1 else x for x in la]  # equal copies in another representation
    elif variant == "last":
        lb = la[:-1] + [4]
    elif variant == "at127":
        lb = list(la)
        lb[min(127, n - 1)] = 4
    elif variant == "at255":
        lb = list(la)
        lb[min(255, n - 1)] = 4
    elif variant == "shorter":
        lb = la[:-1]
    elif variant == "minus128":
        lb = la[: max(0, n - 128)]
    elif variant == "minus256":
        lb = la[: max(0, n - 256)]
    else:
        raise ValueError(variant)
    return observe_ds(dict(t="ds", R=2, C=2, pool=pool, la=la, lb=lb, cfgs=["copy", "n_mazes"]))


def big_dedup(args):
    """lists of 128..300 mazes: many duplicates of few values, and > 256 distinct values"""
    n, distinct = args
    descs, same_as = [], []
    R, C = 3, 100
    conn = mz.raw(np.zeros((2, R, C), dtype=bool))
    for i in range(n):
        v = i % distinct
        c = [v // C, v % C]
        descs.append(dict(kind="TargetedLatticeMaze", conn=conn, start=c, end=[0, 0], sol=[], meta=i % 3, rep=["copy", "ends_int16", "ends_list"][i % 3]))
        same_as.append(-1)
    return observe_dedup(dict(t="dedup", descs=descs, same_as=same_as))


# ------------------------------------------------------------------ CLASSES C-H (second audit): directed cases
# H: the SHORTEST solutions (length 1, length 2, start == end) x no connection at all / every connection x EVERY
#    representation, metadata and library round trip (not a random one); D: oblong shapes in both orientations with
#    sides differing by >= 2, 1xN, Nx1, 1x1; C: falsy metadata, falsy foreign operands, cell [0, 0] / index 0;
#    E: objects built from the caller's own arrays that are overwritten afterwards; G: every representation.
SHORT_SHAPES = [(1, 1), (1, 2), (2, 1), (2, 2), (3, 3), (2, 5), (5, 2), (3, 7), (7, 3), (1, 6), (6, 1)]


def _lattice(R, C, full):
    conn = np.zeros((2, R, C), dtype=bool)
    if full:
        conn[0, : R - 1, :] = True
        conn[1, :, : C - 1] = True
    return mz.raw(conn)


def short_bases(R, C, full):
    conn = _lattice(R, C, full)
    first, last = [0, 0], [R - 1, C - 1]
    nb = [0, 1] if C > 1 else ([1, 0] if R > 1 else None)
    mk = lambda kind, s, e, sol: dict(kind=kind, conn=conn, start=s, end=e, sol=sol, meta=0, rep="copy")  # noqa: E731
    out = [mk("LatticeMaze", [], [], [])]
    out += [mk("TargetedLatticeMaze", s, e, []) for s, e in ((first, first), (last, last), (first, last), (last, first))[: 4 if nb else 1]]
    sols = [[first], [first, first]] + ([[last], [first, nb], [nb, first], [first, nb, first]] if nb else [[first, first, first]])
    out += [_with_sol(mk("SolvedMaze", [], [], []), s) for s in sols]
    return out


def _own(x, how):
    return {"int64": lambda v: np.array(v, dtype=np.int64), "int8": lambda v: np.array(v, dtype=np.int8), "list": lambda v: [list(c) if isinstance(c, list) else c for c in v]}[how](x)


def alias_pair(d, how, mode, **extra):
    """audit class E on the value level: x is built from the caller's OWN start / end / solution objects; hash(x) is
    taken; the caller then overwrites ITS objects (mode 'out': with -5, mode 'in': with the other end of the grid /
    the reversed solution) and x is compared with a fresh object of the described value.  x itself is never touched:
    its hash must not change (hash_changes_over_time), it must not hold an end outside the grid, and (M) it should
    still be the described value."""
    conn = np.array(d["conn"], dtype=bool)
    R, C = conn.shape[1:]
    if d["kind"] == "TargetedLatticeMaze":
        args = [_own(d["start"], how), _own(d["end"], how)]
        res, x = mz.outcome(lambda: mz.TargetedLatticeMaze(connection_list=conn, start_pos=args[0], end_pos=args[1]))
        new = [[R - 1 - d["start"][0], C - 1 - d["start"][1]], [R - 1 - d["end"][0], C - 1 - d["end"][1]]]
    else:
        args = [_own(d["sol"], how)]
        res, x = mz.outcome(lambda: mz.SolvedMaze(connection_list=conn, solution=args[0]))
        new = [[[R - 1 - c[0], C - 1 - c[1]] for c in d["sol"]][::-1]]
    if res != "ok":  # a well-formed maze refused: judged like every failed build
        return [dict(t="build", kind=d["kind"], conn=d["conn"], start=d["start"], end=d["end"], sol=d["sol"], rep="alias_" + how, meta=0, res=res)]
    _rh, h0 = mz.outcome(lambda: hash(x))
    for a, v in zip(args, new):
        if mode == "out":
            _overwrite(a, -5)
        elif isinstance(a, np.ndarray):
            a[...] = np.array(v, dtype=a.dtype)
        elif a and isinstance(a[0], list):
            for c, w in zip(a, v):
                c[:] = w
        else:
            a[:] = v
    fresh, failed, fd = safe_build(dict(d, rep="copy"))
    if failed:
        return [failed]
    ad = dict(d, rep=f"alias_{how}_{mode}")
    return [obs_pair(x, fresh, proj(x), f"alias:{how}:{mode}", ad, fd, exp=True, h0=h0, **extra)]


def short_group(args):
    R, C, full, bi = args
    hist = [int(R), int(C), int(full), int(bi)]
    a = short_bases(R, C, full)[bi]
    kind = a["kind"]
    cells = _cells(R, C)
    other = lambda c: next((x for x in cells[::-1] if x != c), None)  # noqa: E731
    vs = [dict(rel="same", m=dict(a, rep="same")), dict(rel="copy", m=dict(a))]
    vs += [dict(rel="meta", m=dict(a, meta=k)) for k in range(1, N_METAS)]
    vs += [dict(rel="rep", m=dict(a, rep=r, meta=i % N_METAS)) for i, r in enumerate(reps_of(a))]
    conn = np.array(a["conn"])
    for idx in sorted({(0, 0, 0), (1, 0, 0), (1, R - 1, C - 1), (0, R - 1, 0)}):
        c2 = conn.copy()
        c2[idx] = 1 - c2[idx]
        vs.append(dict(rel="bit", m=dict(a, conn=c2.tolist())))
    for sh in {(C, R), (R, C + 1), (R + 1, C), (1, R * C), (R * C, 1)} - {(R, C)}:
        vs.append(dict(rel="shape", m=_reflow(a, *sh)))
    s, e = a["start"] or [0, 0], a["end"] or [0, 0]
    for k2 in KINDS:
        if k2 != kind:
            m = dict(a, kind=k2, start=[], end=[], sol=[]) if k2 == "LatticeMaze" else (dict(a, kind=k2, start=s, end=e, sol=[]) if k2 == "TargetedLatticeMaze" else _with_sol(dict(a, kind=k2), a["sol"] or walk(s, e)))
            vs.append(dict(rel="kind", m=m))
    if kind == "TargetedLatticeMaze":
        for fld in ("start", "end"):
            if other(a[fld]):
                vs.append(dict(rel=fld, m=dict(a, **{fld: other(a[fld])})))
        if a["start"] != a["end"]:
            vs.append(dict(rel="swap", m=dict(a, start=a["end"], end=a["start"])))
    if kind == "SolvedMaze":
        sol = a["sol"]
        for k in range(len(sol)):
            if other(sol[k]):
                vs.append(dict(rel="solcell", m=_with_sol(a, sol[:k] + [other(sol[k])] + sol[k + 1 :])))
        vs += [dict(rel="longer", m=_with_sol(a, sol + [sol[-1]])), dict(rel="longer", m=_with_sol(a, [sol[0]] + sol)), dict(rel="longer", m=_with_sol(a, sol + [cells[-1]]))]
        if len(sol) > 1:
            vs += [dict(rel="shorter", m=_with_sol(a, sol[1:])), dict(rel="shorter", m=_with_sol(a, sol[:-1]))]
            if sol != sol[::-1]:
                vs.append(dict(rel="reversed", m=_with_sol(a, sol[::-1])))
    for v in vs:
        if v["rel"] not in EQUAL_RELS:
            v["m"] = dict(v["m"], rep="copy")
    out = observe_group(dict(t="pairs", a=a, vs=vs, foreign=FALSY_FOREIGN + ["tuple", "str", "list"]))
    if kind != "LatticeMaze":
        for how in ("int64", "int8", "list"):
            for mode in ("out", "in"):
                out += alias_pair(a, how, mode)
    for r in out:
        r["hist"], r["tier"] = hist, "short"
    return out


def short_group_jobs():
    return [(R, C, full, bi) for R, C in SHORT_SHAPES for full in (0, 1) if full == 0 or R * C > 1 for bi in range(len(short_bases(R, C, full)))]


DS_LISTS = [[], [1], [2], [3], [1, 1], [1, 2], [2, 1], [1, 3], [3, 1], [1, 4], [1, 2, 3]]
DS_FALSY_CFGS = ["seed0", "name_empty", "grid_n0", "ctor_kwargs", "endpoint_kwargs", "seq_len_min0", "filters_falsy", "n_mazes"]
DS_SEQS = [["list", "list"], ["tuple", "list"], ["list", "tuple"], ["gen", "list"], ["own_list", "tuple"], ["tuple", "tuple"], ["gen", "gen"], ["own_list", "own_list"]]


def short_ds(args):
    """datasets whose mazes all have the shortest solutions (the concatenated-solution serialization sees only
    length-1 paths), configurations with falsy fields on one or on both sides, and the maze sequence handed over as
    the caller's list (emptied afterwards) / a tuple / a one-shot generator"""
    R, C, i, j = args
    conn = _lattice(R, C, 0)
    mk = lambda sol, **kw: _with_sol(dict(dict(kind="SolvedMaze", conn=conn, start=[], end=[], sol=[], meta=0, rep="copy"), **kw), sol)  # noqa: E731
    last = [R - 1, C - 1]
    pool = [mk([[0, 0]]), mk([[0, 0]], rep="rt_ds_minimal_cat" if R == C else "sol_int8", meta=3), mk([[0, 0], [0, 0]]), mk([last]) if R * C > 1 else mk([[0, 0]] * 3)]
    n = i * len(DS_LISTS) + j
    cfgs = ["same" if n % 4 == 0 else "copy", DS_FALSY_CFGS[n % len(DS_FALSY_CFGS)], DS_FALSY_CFGS[(n // 3 + 3) % len(DS_FALSY_CFGS)]]
    base_kw = [{}, dict(name="", seed=0), dict(seed=0, maze_ctor_kwargs={}, endpoint_kwargs={}), dict(name="", endpoint_kwargs={"deadend_start": False}, seq_len_min=0)][n % 4]
    out = observe_ds(dict(t="ds", R=R, C=C, pool=pool, la=DS_LISTS[i], lb=DS_LISTS[j], cfgs=cfgs, seqs=DS_SEQS[(n // 2) % len(DS_SEQS)], base_kw=base_kw))
    return out


def short_ds_jobs():
    return [(R, C, i, j) for R, C in ((1, 1), (2, 2), (3, 3), (2, 5), (5, 2)) for i in range(len(DS_LISTS)) for j in range(len(DS_LISTS))]


def directed_ctor_cases():
    """every start over -2..R+1 x -2..C+1 on oblong / degenerate grids x (end = [0, 0] | start = last cell | end = start)
    x every argument form (half of the plain forms per point, every aliasing form)"""
    out = []
    for R, C in [(1, 1), (2, 5), (5, 2), (3, 7), (7, 1), (1, 4)]:
        pts = [[r, c] for r in range(-2, R + 2) for c in range(-2, C + 2)]
        for n, p in enumerate(pts):
            for q, (s, e) in enumerate(((p, [0, 0]), ([R - 1, C - 1], p), (p, p))):
                neg = any(x < 0 for x in s + e)
                tf = [f for f in TGT_FORMS if not (neg and f == "uint8")]
                sf = list(WALK_FORMS) + ["pair", "walk_explicit_ends", "walk_explicit_ends_list", "from_lattice_maze"]
                out.append(dict(t="ctor", kind="TargetedLatticeMaze", R=R, C=C, start=s, end=e, forms=tf[(n + q) % 2 :: 2] + ["from_lattice_maze"][: (n + q) % 2] + TGT_ALIAS_FORMS))
                out.append(dict(t="ctor", kind="SolvedMaze", R=R, C=C, start=s, end=e, forms=sf[(n + q) % 2 :: 2] + SOL_ALIAS_FORMS))
    return out


def _pairrec(a, b, rel, exp, **extra):
    return obs_pair(a, b, proj(a), rel, dict(rep=extra.pop("arep", "factory")), dict(rep=extra.pop("brep", "copy")), exp=exp, **extra)


def _direct(p):
    """the maze with projection p built DIRECTLY through its constructor (no factory, no metadata)"""
    return build(dict(p, meta=0, rep="copy"))


def rand_factory(args):
    """audit class F: objects that come from the library's FACTORIES (dataset generation with generation metadata
    present / already collected, from_pixels / from_ascii / from_tokens, from_lattice_maze,
    from_targeted_lattice_maze, load) against the same values built directly through the constructors; datasets
    generated twice, against a directly constructed twin, against a reloaded one and against the collected one.
    The oracle judges every record from the projections of the objects it is given: exp is only the M-label."""
    from maze_dataset import MazeDataset

    seed, k, maxn = args
    rng = np.random.default_rng([seed, 21, k])
    n, nm = int(rng.integers(2, maxn + 1)), int(rng.integers(1, 4))
    kw = dict(name="c09f", grid_n=n, n_mazes=nm, seed=int(rng.integers(0, 3)), ctor=["gen_dfs", "gen_wilson"][k % 2])  # seed 0 included
    hist = dict(hist=[int(seed), int(k), int(maxn)], tier="factory")
    r1, ds1 = mz.outcome(lambda: MazeDataset.generate(_cfg(**kw)))
    r2, ds2 = mz.outcome(lambda: MazeDataset.generate(_cfg(**kw)))
    if r1 != "ok" or r2 != "ok":
        return []  # generation is another property's business
    out = [_ds_record(ds1, ds2, "fact:generated_twice", **hist)]
    ps = [proj(m) for m in ds1.mazes]
    twin = MazeDataset(_cfg(**kw), [_direct(p) for p in ps])
    out.append(_ds_record(ds1, twin, "fact:generated_vs_constructed", **hist))
    stale = MazeDataset(_cfg(**dict(kw, n_mazes=nm + 5)), tuple(_direct(p) for p in ps))  # stale n_mazes, tuple argument
    out.append(_ds_record(stale, ds1, "fact:constructed_stale_n_vs_generated", **hist))
    tok = _tokenizer(n)
    for i, (m, p) in enumerate(zip(ds1.mazes, ps)):
        out.append(_pairrec(m, twin.mazes[i], "fact:generated_vs_constructed", True, **hist))
        out.append(_pairrec(m, ds2.mazes[i], "fact:generated_twice", True, **hist))
        lat = mz.LatticeMaze(connection_list=np.array(p["conn"], dtype=bool))
        tgt = mz.TargetedLatticeMaze(connection_list=np.array(p["conn"], dtype=bool), start_pos=np.array(p["start"]), end_pos=np.array(p["end"]))
        facts = {
            "from_pixels": (m, lambda: type(m).from_pixels(m.as_pixels())),
            "from_ascii": (m, lambda: type(m).from_ascii(m.as_ascii())),
            "from_tokens": (m, lambda: type(m).from_tokens(m.as_tokens(tok), tok)),
            "tgt_from_pixels": (tgt, lambda: mz.TargetedLatticeMaze.from_pixels(tgt.as_pixels())),
            "lat_from_pixels": (lat, lambda: mz.LatticeMaze.from_pixels(lat.as_pixels())),
            "lat_from_ascii": (lat, lambda: mz.LatticeMaze.from_ascii(lat.as_ascii())),
            "tgt_from_lattice_maze": (tgt, lambda: mz.TargetedLatticeMaze.from_lattice_maze(m, m.start_pos, m.end_pos)),
            "from_targeted_lattice_maze": (m, lambda: mz.SolvedMaze.from_targeted_lattice_maze(tgt)),
            "from_targeted_lattice_maze_given": (m, lambda: mz.SolvedMaze.from_targeted_lattice_maze(tgt, [tuple(c) for c in p["sol"]])),
            "from_lattice_maze": (m, lambda: mz.SolvedMaze.from_lattice_maze(lat, [tuple(c) for c in p["sol"]])),
        }
        for name, (ref, f) in facts.items():
            r, x = mz.outcome(f)
            if r != "ok" or not hasattr(x, "connection_list"):
                continue  # a failing conversion is another property's business
            rx, px = mz.outcome(lambda: proj(x))
            if rx != "ok":
                continue
            out.append(_pairrec(ref, x, "fact:" + name, px == proj(ref), brep="factory", **hist))
            rd, y = mz.outcome(lambda: _direct(px))
            if rd == "ok":
                out.append(_pairrec(x, y, "fact_twin:" + name, True, **hist))
    r3, col = mz.outcome(lambda: ds2.filter_by.collect_generation_meta())
    if r3 == "ok":
        out.append(_ds_record(ds1, col, "fact:vs_collected", **hist))
        for i in range(min(len(ds1.mazes), len(col.mazes))):
            out.append(_pairrec(ds1.mazes[i], col.mazes[i], "fact:meta_present_vs_collected", True, brep="collected", **hist))
        r4, col2 = mz.outcome(lambda: col.filter_by.collect_generation_meta())  # already collected, collected again
        if r4 == "ok":
            out.append(_ds_record(col, col2, "fact:collected_vs_collected_twice", **hist))
    r5, ld = mz.outcome(lambda: MazeDataset.load(ds1._serialize_minimal()))
    if r5 == "ok":
        out.append(_ds_record(ds1, ld, "fact:vs_loaded_minimal", **hist))
    return out


TIERS = {"short": lambda h: short_group(tuple(h)), "factory": lambda h: rand_factory(tuple(h))}


# ------------------------------------------------------------------ canaries (synthetic, independent of the code under test)
def _first(recs, pred):
    return next((r for r in recs if pred(r)), None)


def _mk(r, **kw):
    c = copy.deepcopy(r)
    c.update(kw)
    return c


def synthetic_canaries():
    """-> (controls, canaries).  controls: hand-made CORRECT records the oracle must accept; canaries: the same
    records with one field corrupted + the clause that must reject each.  Nothing here depends on the library,
    so a defective library can never turn a canary into a machinery error."""
    C22 = [[[1, 0], [0, 0]], [[1, 0], [1, 0]]]
    C23 = [[[1, 0, 1], [0, 0, 0]], [[1, 1, 0], [0, 1, 0]]]
    C32 = [[[1, 0], [1, 0], [0, 0]], [[1, 0], [1, 0], [0, 0]]]  # the same 12 bytes as C23 poured into 3x2
    L = dict(kind="LatticeMaze", conn=C23, start=[], end=[], sol=[])
    T = dict(kind="TargetedLatticeMaze", conn=C22, start=[0, 0], end=[1, 1], sol=[])
    S = dict(kind="SolvedMaze", conn=C22, start=[0, 0], end=[1, 1], sol=[[0, 0], [0, 1], [1, 1]])
    eqr = dict(eq="True", ne="False", eq_r="True", ne_r="False", eq2="True", ne2="False", eq_r2="True", ne_r2="False", hstable=True, ha="ok", hb="ok", heq=True, set_res="ok", set_n=1, dict_res="ok", dict_n=1, exp=True, arep="copy", brep="copy", ameta=0, bmeta=0)
    ner = dict(eq="False", ne="True", eq_r="False", ne_r="True", eq2="False", ne2="True", eq_r2="False", ne_r2="True", hstable=True, ha="ok", hb="ok", heq=False, set_res="ok", set_n=2, dict_res="ok", dict_n=2, exp=False, arep="copy", brep="copy", ameta=0, bmeta=0)
    controls, can = [], []
    for a in (L, T, S):
        p = dict(t="pair", rel="copy", a=a, b=copy.deepcopy(a), **eqr)
        controls.append(p)
        can += [
            (_mk(p, eq="raise:ValueError"), "eq_raises"), (_mk(p, eq_r="nonbool:ndarray"), "eq_raises"), (_mk(p, ne_r="raise:ValueError"), "ne_raises"),
            (_mk(p, eq="False"), "eq_truth_table"), (_mk(p, eq_r="False"), "eq_truth_table_reflected"), (_mk(p, ne="True"), "ne_truth_table"), (_mk(p, ne_r="True"), "ne_truth_table_reflected"),
            (_mk(p, hb="raise:TypeError", heq=False), "unhashable"), (_mk(p, heq=False), "hash_inconsistent"),
            (_mk(p, set_n=2), "set_dedup"), (_mk(p, dict_n=2), "dict_dedup"), (_mk(p, set_res="raise:TypeError", set_n=-1), "set_raises"), (_mk(p, dict_res="raise:TypeError", dict_n=-1), "dict_raises"),
            (_mk(p, exp=False), "M:scope_label"),
            (_mk(p, eq2="False"), "eq_truth_table_when_repeated"), (_mk(p, eq_r2="False"), "eq_truth_table_when_repeated"), (_mk(p, ne_r2="True"), "ne_truth_table_when_repeated"),
            (_mk(p, eq2="raise:KeyError"), "eq_raises_when_repeated"), (_mk(p, hstable=False), "hash_changes_over_time"),
        ]  # fmt: skip
    for nm, x in (("negative", [-1, 0]), ("too_large", [0, 2])):
        bad = dict(t="pair", rel="copy", a=dict(T, start=x), b=dict(T, start=x), **eqr)
        can.append((bad, "holds_end_outside_grid"))
    diff = [
        ("bit", S, dict(S, conn=[[[1, 0], [0, 0]], [[1, 0], [1, 1]]])),  # boundary bit
        ("shape", L, dict(L, conn=C32)),  # equal bytes, other shape: hash may collide, == must be False
        ("kind", T, dict(T, kind="SolvedMaze", sol=[[0, 0], [1, 0], [1, 1]])),
        ("kind", dict(L, conn=C22), dict(T, start=[0, 0], end=[0, 0])),
        ("solcell", S, dict(S, sol=[[0, 0], [1, 0], [1, 1]])),
        ("longer", S, dict(S, sol=S["sol"] + [[1, 1]])),
        ("start", T, dict(T, start=[0, 1])),
        ("end", T, dict(T, end=[1, 0])),
    ]
    for rel, a, b in diff:
        p = dict(t="pair", rel=rel, a=a, b=b, **ner)
        controls.append(p)
        controls.append(_mk(p, heq=True))  # a hash collision between different values is allowed
        can += [(_mk(p, eq="True"), "eq_truth_table"), (_mk(p, eq_r="True"), "eq_truth_table_reflected"), (_mk(p, ne="False"), "ne_truth_table"),
                (_mk(p, set_n=1), "set_dedup"), (_mk(p, dict_n=1), "dict_dedup"), (_mk(p, exp=True), "M:scope_label"),
                (_mk(p, eq2="True"), "eq_truth_table_when_repeated"), (_mk(p, ne2="False"), "ne_truth_table_when_repeated")]  # fmt: skip
    f = dict(t="foreign", a=S, other="None", eq="False", ne="True", eq_r="False", ne_r="True", arep="copy", ameta=0)
    controls.append(f)
    can += [(_mk(f, eq="True"), "eq_truth_table"), (_mk(f, eq_r="raise:AttributeError"), "eq_raises"), (_mk(f, ne="False"), "ne_truth_table")]
    ok = dict(t="ctor", kind="TargetedLatticeMaze", R=2, C=3, start=[1, 2], end=[0, 0], form="array", res="ok", got_start=[1, 2], got_end=[0, 0])
    controls.append(ok)
    can += [(_mk(ok, res="raise:ValueError", got_start=[], got_end=[]), "rejects_end_inside_grid"), (_mk(ok, got_start=[1, 3]), "holds_end_outside_grid"), (_mk(ok, got_start=[0, 2]), "M:ends_not_as_given")]
    for s0, e0 in (([-1, 0], [0, 0]), ([0, -1], [0, 0]), ([0, 0], [-1, 2]), ([0, 0], [1, -2]), ([2, 0], [0, 0]), ([0, 3], [0, 0]), ([0, 0], [2, 2]), ([1, 1], [1, 3]), ([2, 2], [0, 0]), ([0, 0], [2, 1])):
        out = dict(t="ctor", kind="SolvedMaze", R=2, C=3, start=s0, end=e0, form="walk", res="raise:ValueError", got_start=[], got_end=[])
        controls.append(out)
        can += [(_mk(out, res="ok", got_start=s0, got_end=e0), "accepts_end_outside_grid"), (_mk(out, res="ok", got_start=s0, got_end=e0), "holds_end_outside_grid"),
                (_mk(out, res="raise:IndexError"), "wrong_exception_type")]  # fmt: skip
    cf_ = dict(name="c09", grid_n=2, seed=7, ctor="gen_dfs", filters=[])
    d = dict(t="ds", cv="copy", ca=cf_, cb=dict(cf_), na=2, nb=2, ceq="True", ma=[S, S], mb=[S, dict(S)], eq="True", ne="False", eq_r="True", ne_r="False", eq2="True", eq_r2="True", ra=["copy"] * 2, rb=["copy"] * 2, ea=[0, 0], eb=[0, 0])
    controls += [d, _mk(d, nb=3, ceq="False", eq="False", ne="True", eq_r="False", ne_r="True", eq2="False", eq_r2="False"), _mk(d, nb=3, ceq="True"),
                 _mk(d, ca=dict(cf_, filters=["collect_generation_meta:{}"]), cb=dict(cf_, filters=["collect_generation_meta:{}"]))]
    can += [(_mk(d, eq="False"), "ds_eq_truth_table"), (_mk(d, ne="True"), "ds_ne_truth_table"), (_mk(d, eq="raise:ValueError", ne="raise:ValueError"), "ds_eq_raises"),
            (_mk(d, eq_r="False"), "ds_eq_truth_table"), (_mk(d, ne_r="True"), "ds_ne_truth_table"), (_mk(d, eq2="False"), "ds_eq_truth_table_when_repeated"), (_mk(d, eq_r2="raise:KeyError"), "ds_eq_raises"),
            (_mk(d, cb=dict(cf_, filters=["collect_generation_meta:{}"]), ceq="False"), "ds_eq_truth_table"),
            (_mk(d, ceq="False"), "M:cfg_eq_model"), (_mk(d, nb=3, ceq="False"), "ds_eq_truth_table")]  # fmt: skip
    for nm, mb, cb in (("cell", [S, dict(S, sol=[[0, 0], [1, 0], [1, 1]])], cf_), ("shorter", [S], cf_), ("longer", [S, S, S], cf_), ("order", [dict(S, conn=C22), T], cf_), ("cfg", [S, S], dict(cf_, name="c09x"))):
        ma = [T, dict(S, conn=C22)] if nm == "order" else [S, S]
        u = _mk(d, ma=ma, mb=mb, cb=cb, eq="False", ne="True", eq_r="False", ne_r="True", eq2="False", eq_r2="False", ceq="False" if nm == "cfg" else "True", rb=["copy"] * len(mb), eb=[0] * len(mb))
        controls.append(u)
        can += [(_mk(u, eq="True"), "ds_eq_truth_table"), (_mk(u, ne="False"), "ds_ne_truth_table"), (_mk(u, eq_r2="True"), "ds_eq_truth_table_when_repeated")]
    dd = dict(t="dedup", ms=[S, T, dict(S), dict(S, sol=[[0, 0], [1, 0], [1, 1]]), T], hs_ok=True, set_res="ok", set_n=3, dict_res="ok", dict_first=[0, 1, 3], reps=["copy"] * 5, metas=[0] * 5, same_as=[-1] * 5)
    controls.append(dd)
    can += [(_mk(dd, set_n=4), "set_dedup"), (_mk(dd, set_n=2), "set_dedup"), (_mk(dd, dict_first=[0, 1, 2, 3]), "dict_dedup"), (_mk(dd, dict_first=[0, 1]), "dict_dedup"), (_mk(dd, dict_first=[0, 2, 3]), "dict_dedup"),
            (_mk(dd, hs_ok=False), "unhashable"), (_mk(dd, set_res="raise:TypeError", set_n=-1), "set_raises")]  # fmt: skip
    b = dict(t="build", **S, rep="copy", meta=0, res="raise:ValueError")
    can.append((b, "constructor_rejects_valid_maze"))
    # ---- second audit (classes C-H): shortest solutions, falsy operands / cfg fields, aliasing forms, sequence kinds
    S1 = dict(kind="SolvedMaze", conn=[[[0]], [[0]]], start=[0, 0], end=[0, 0], sol=[[0, 0]])  # 1x1, length-1 solution
    S1b = dict(S1, sol=[[0, 0], [0, 0]])
    p1 = dict(t="pair", rel="rep", a=S1, b=copy.deepcopy(S1), **dict(eqr, brep="rt_ds_minimal_cat", bmeta=3), hist=[1, 1, 0, 5], tier="short")
    p2 = dict(t="pair", rel="longer", a=S1, b=S1b, **ner, hist=[1, 1, 0, 5], tier="short")
    controls += [p1, p2, _mk(p1, amod=False)]
    can += [(_mk(p1, eq="False"), "eq_truth_table"), (_mk(p1, heq=False), "hash_inconsistent"), (_mk(p1, set_n=2), "set_dedup"), (_mk(p2, eq="True"), "eq_truth_table"), (_mk(p2, dict_n=1), "dict_dedup"),
            (_mk(p1, amod=True), "M:operand_changed_by_comparison"), (_mk(p1, rel="alias:int64:in", hstable=False), "hash_changes_over_time"),
            (_mk(p1, rel="alias:int8:out", a=dict(S1, start=[-5, -5]), b=dict(S1, start=[-5, -5])), "holds_end_outside_grid")]  # fmt: skip
    f2 = _mk(f, a=S1, other="empty_list")
    controls.append(f2)
    can += [(_mk(f2, eq_r="True"), "eq_truth_table"), (_mk(f2, ne="raise:TypeError"), "eq_raises"), (_mk(f2, amod=True), "M:operand_changed_by_comparison")]
    al = dict(t="ctor", kind="SolvedMaze", R=2, C=5, start=[1, 4], end=[0, 0], form="alias_int8", res="ok", got_start=[1, 4], got_end=[0, 0], argmod=False, hstable=True, sol_kept=True)
    alr = dict(t="ctor", kind="TargetedLatticeMaze", R=5, C=2, start=[1, 2], end=[0, 0], form="alias_list", res="raise:ValueError", got_start=[], got_end=[], argmod=False, hstable=True)
    controls += [al, alr]
    can += [(_mk(al, got_start=[-5, -5]), "holds_end_outside_grid"), (_mk(al, got_end=[-5, -5]), "holds_end_outside_grid"), (_mk(al, hstable=False), "hash_changes_over_time"),
            (_mk(al, sol_kept=False), "M:solution_not_as_given"), (_mk(al, argmod=True), "M:constructor_modified_argument"), (_mk(alr, argmod=True), "M:constructor_modified_argument"),
            (_mk(alr, res="ok", got_start=[1, 2], got_end=[0, 0]), "accepts_end_outside_grid"), (_mk(alr, start=[2, 1], res="raise:ValueError"), "rejects_end_inside_grid")]  # fmt: skip
    cm = dict(cf_, name="", seed=0, more='[{}, {}, 1, 512, []]')
    d2 = _mk(d, ca=cm, cb=dict(cm), ma=[S1], mb=[dict(S1)], ra=["copy"], rb=["rt_ds_minimal_cat"], ea=[0], eb=[3], seqs=["tuple", "list"], bk='{"name": "", "seed": 0}')
    d3 = _mk(d2, cb=dict(cm, more='[{"p": 0.0}, {}, 1, 512, []]'), ceq="False", eq="False", ne="True", eq_r="False", ne_r="True", eq2="False", eq_r2="False")
    d4 = _mk(d2, ma=[], mb=[], ra=[], rb=[], ea=[], eb=[], na=0, nb=0)
    controls += [d2, d3, d4]
    can += [(_mk(d2, eq="False"), "ds_eq_truth_table"), (_mk(d2, ne_r="True"), "ds_ne_truth_table"), (_mk(d3, eq="True"), "ds_eq_truth_table"), (_mk(d3, eq_r2="True"), "ds_eq_truth_table_when_repeated"),
            (_mk(d3, ceq="True"), "M:cfg_eq_model"), (_mk(d4, eq="False"), "ds_eq_truth_table"), (_mk(d4, mb=[S1], rb=["copy"], eb=[0]), "ds_eq_truth_table")]  # fmt: skip
    return [copy.deepcopy(x) for x in controls], [(copy.deepcopy(x), cl) for x, cl in can]


# ------------------------------------------------------------------ judging
def _nontrivial(r):
    t = r["t"]
    if t == "pair":
        return r["rel"] != "same"
    if t == "ctor":
        return any(x <= 0 or x >= n - 1 for k in ("start", "end") for x, n in zip(r[k], (r["R"], r["C"])))
    if t == "ds":
        return len(r["ma"]) + len(r["mb"]) > 0
    return True


def _case_key(r):
    t = r["t"]
    if t == "pair":
        return [t, r["a"], r["b"], r["arep"], r["brep"], r["ameta"], r["bmeta"], r["rel"] if "hist" in r else 0, r.get("hist")]
    if t == "foreign":
        return [t, r["a"], r["other"]]
    if t == "ctor":
        return [t, r["kind"], r["R"], r["C"], r["start"], r["end"], r["form"]]
    if t == "ds":
        return [t, r["cv"], r["ca"], r["cb"], r["na"], r["nb"], r["ma"], r["mb"], r.get("rb"), r.get("hist")]
    if t == "build":
        return [t, r["kind"], r["conn"], r["start"], r["end"], r["sol"], r["rep"]]
    return [t, r["ms"], r["reps"], r["same_as"]]


def judge(chk, recs, label, what):
    """Judge recs with Trace_MazeValue.  Same contract as lib.judge_with_canaries (an accepted canary is a
    machinery error; here also a rejected hand-made CORRECT control record), but the canaries are synthetic and
    the number of LISTED violations is capped per (record kind, clause): on a tree where == raises for every
    pair this would otherwise write ~10^5 replay files."""
    if not recs:
        return
    controls, can = synthetic_canaries()
    for i, x in enumerate(recs):
        x["id"] = i
    allrecs = list(recs)
    extra = [(c, None) for c in controls] + can
    for k, (c, _cl) in enumerate(extra):
        c["id"] = lib.CANARY_BASE + k
        allrecs.insert((len(allrecs) * (k + 1)) // (len(extra) + 1), c)
    res = lib.oracle("Trace_MazeValue", allrecs, tag=label)
    for c, cl in extra:
        got = res.verdicts.pop(c["id"], [])
        if cl is None and got:
            raise lib.MachineryError(f"control record rejected by Trace_MazeValue: {got} for {json.dumps(c)[:400]}")
        if cl is not None and cl not in got:
            raise lib.MachineryError(f"canary not rejected by Trace_MazeValue: expected clause {cl!r}, got {got} ({c['t']} record)")
    chk.notes["canaries_rejected"] = chk.notes.get("canaries_rejected", 0) + len(can)
    chk.notes["controls_accepted"] = chk.notes.get("controls_accepted", 0) + len(controls)
    res.records -= len(extra)
    chk.add_oracle("Trace_MazeValue", res, what)
    listed = chk.notes.setdefault("_listed", {})
    unlisted = 0
    for rid, clauses in sorted(res.verdicts.items()):
        r = recs[rid]
        for cl in clauses:
            key = f"{r['t']}:{cl}"
            listed[key] = listed.get(key, 0) + 1
            if cl.startswith("M:"):
                chk.divergence(cl, r, label)
            elif listed[key] <= MAX_LISTED:
                chk.violation(cl, r, label)
            else:
                unlisted += 1
    chk.notes["violations_beyond_listing_cap"] = chk.notes.get("violations_beyond_listing_cap", 0) + unlisted
    kinds = chk.notes.setdefault("records_by_kind", {})
    rels = chk.notes.setdefault("pairs_by_relation", {})
    for r in recs:
        chk.count(_case_key(r), _nontrivial(r))
        kinds[r["t"]] = kinds.get(r["t"], 0) + 1
        if r["t"] == "pair":
            rels[r["rel"]] = rels.get(r["rel"], 0) + 1
        if any(str(x).endswith("(rt_failed)") for x in [r.get("arep"), r.get("brep")] + list(r.get("ra", [])) + list(r.get("rb", [])) + list(r.get("reps", []))):
            chk.divergence("M:serialization_round_trip_failed", {k: v for k, v in r.items() if k in ("t", "rel", "arep", "brep", "ra", "rb", "reps")}, label)


def _read(path):
    with open(path) as f:
        return [json.loads(x) for x in f if x.strip()]


def _flat(xs):
    return [r for sub in xs for r in sub]


# ------------------------------------------------------------------ main
def main(chk: lib.Check) -> int:
    thorough = chk.tier == "thorough"
    chk.rule = (
        "cases are emitted by TLC from MazeValue.tla's scope definition: (pairs) every base maze a of shapes 1x1,1x2,2x1,1x3,3x1,2x2 (all graphs; "
        "LatticeMaze / every (start,end) TargetedLatticeMaze / every (start,end) SolvedMaze with the row-first walk) and of 2x3, 3x2 "
        + ("(all 128 graphs each)" if thorough else "(a seeded 1/16 of the 128 graphs each)")
        + " x every variant b: a itself, copy, other generation_meta, every representation (int8/int32/list/tuple arrays, views), every one-bit change of conn "
        "(boundary bits included), every other start / end cell, swap, every one-cell change of the solution, longer / shorter / re-routed / reversed solutions, "
        "other kinds, 12 other shapes (same bytes re-poured), plus 5 non-maze right operands; (ctor) both kinds x every (start,end) in (-2..R+1 x -2..C+1)^2 x 4 call forms "
        "on the 8 shapes; (ds) MazeDataset pairs over lists of length <= 3 from a pool of 4 mazes x 7 configuration variants; then seeded random cases of the same forms "
        "on grids up to 12x12 / 15x15 incl. library round trips and duplicate lists; then histories (every use of an object / edit or filter of a dataset followed by a "
        "re-observation against fresh, reloaded and different objects) and magnitude cases (16x16, 2x70, 1x300, 129x2 ..., solutions of 128..300 cells, constructor "
        "coordinates around 127/128/255/256 on grids 128 and 256, datasets / duplicate lists of 127..300 mazes); then the directed classes C-H: shortest solutions x every "
        "representation on 1x1..7x3 grids, falsy operands / metadata / configuration fields, caller-owned arguments overwritten after the call, constructor on oblong grids x 19 "
        "argument forms, tuple / generator / caller-owned maze sequences, factory-made objects against constructed twins. non-trivial = pair of distinct objects / endpoint on or beyond the boundary / non-empty dataset"
    )
    import maze_dataset

    chk.notes["library_under_test"] = str(maze_dataset.__file__)
    print(f"[C09] library under test: {maze_dataset.__file__}")
    tmp = tempfile.mkdtemp(prefix="c09_", dir=lib.WORK)
    try:
        # ---- (A/B) model-check the scope and emit it
        nch = 16
        jobs = [("small", "MazeValue_small.cfg", 1, 0, "all graphs of 1x1,1x2,2x1,1x3,3x1,2x2: pairs + ctor + ds cases"),
                ("cd23", "MazeValue_23cd.cfg", 1, 0, "2x3 and 3x2: ctor + ds cases")]  # fmt: skip
        chunks = range(nch) if thorough else None
        for sh, off in (("2x3", 0), ("3x2", 5)):
            for ch in chunks if thorough else [(chk.seed + off) % nch]:
                jobs.append((f"{sh}_{ch}", f"MazeValue_{sh}.cfg", nch, ch, f"{sh}: pairs for graphs n = {ch} mod {nch}"))
        per = max(1, lib.NCPU // min(len(jobs), lib.NCPU))

        def run(j):
            tag, cfg, n, ch, _w = j
            return lib.tlc_design("MazeValue", cfg, env={"VERIF_EMIT": f"{tmp}/{tag}", "VERIF_NCHUNKS": n, "VERIF_CHUNK": ch}, workers=per, tag=tag, xmx="3g")

        with cf.ThreadPoolExecutor(max_workers=lib.NCPU) as ex:
            results = list(ex.map(run, jobs))
        for j, r in zip(jobs, results):
            if r.distinct == 0:
                raise lib.MachineryError(f"MazeValue scope {j[0]} is empty")
            chk.add_model("MazeValue/" + j[0], r, j[4] + "; every case one state; LabelSound, ScopeWellFormed, EqLaws, HashConsistent, CtorSound, DsSound")
        r = lib.tlc_expect_violation("MazeValue", "MazeValue_badhash.cfg", "HashConsistent", tag="bad")
        chk.notes["broken_design_variant_rejected"] = "HashVariant=rep_dependent violates HashConsistent"

        # ---- (C) exhaustive small scope on the real code
        ctor_cases = _read(f"{tmp}/small_ctor.ndjson") + _read(f"{tmp}/cd23_ctor.ndjson")
        ds_cases = _read(f"{tmp}/small_ds.ndjson") + _read(f"{tmp}/cd23_ds.ndjson")
        chk.notes["scope_emitted_by_TLC"] = dict(ctor_cases=len(ctor_cases), ds_cases=len(ds_cases), pair_groups=0, pairs=0)
        recs = _flat(lib.pmap(observe_case, ctor_cases, chunksize=64))
        x = _first(recs[len(recs) // 2 :], lambda r: r["t"] == "ctor")
        if x:
            chk.sample({k: x[k] for k in ("t", "kind", "R", "C", "start", "end", "form", "res")})
        recs2 = _flat(lib.pmap(observe_case, ds_cases, chunksize=16))
        x = _first(recs2, lambda r: r["t"] == "ds" and r["cv"] == "copy" and len(r["ma"]) == 2 and r["eq"] == "True") or _first(recs2, lambda r: r["t"] == "ds")
        if x:
            chk.sample({k: x[k] for k in ("t", "cv", "ca", "cb", "eq", "ne", "ra", "rb")})
        judge(chk, recs + recs2, "ctor_ds", "constructor outcomes over all endpoint pairs in -2..R+1 x -2..C+1; MazeDataset == / != over cfg variants x maze lists")
        del recs, recs2
        files = [f"{tmp}/{j[0]}_pairs.ndjson" for j in jobs if j[0] != "cd23"]
        batch = 5
        for i in range(0, len(files), batch):
            groups = _flat(_read(f) for f in files[i : i + batch])
            chk.notes["scope_emitted_by_TLC"]["pair_groups"] += len(groups)
            chk.notes["scope_emitted_by_TLC"]["pairs"] += sum(len(g["vs"]) + len(g["foreign"]) for g in groups)
            recs = _flat(lib.pmap(observe_case, groups, chunksize=8))
            del groups
            if i == 0:
                for rel in ("rep", "shape"):
                    x = _first(recs, lambda r: r["t"] == "pair" and r["rel"] == rel and r["a"]["kind"] == "SolvedMaze")
                    if x:
                        chk.sample({k: x[k] for k in ("t", "rel", "a", "b", "brep", "eq", "ne", "heq", "set_n")})
            judge(chk, recs, "pair", "==, !=, hash, set/dict results of real object pairs judged against Val/Eq")
            del recs
        chk.exhaustive = True
        chk.notes["exhaustive_scope"] = "the complete TLC-emitted scope (see rule); 2x3 and 3x2 pairs " + ("for all graphs" if thorough else "for a seeded 1/16 of the graphs")

        # ---- (C) seeded random larger cases (same case forms, one oracle batch)
        n = 12000 if thorough else 1500
        recs = _flat(lib.pmap(rand_group, [(chk.seed, k, 12) for k in range(n)], chunksize=16))
        x = _first(recs, lambda r: r["t"] == "pair" and r["brep"].startswith("rt_ds_minimal"))
        if x:
            chk.sample({k: x[k] for k in ("t", "rel", "brep", "eq", "heq", "set_n")} | {"shape": [len(x["a"]["conn"][0]), len(x["a"]["conn"][0][0])], "sol_len": len(x["a"]["sol"])})
        dd = _flat(lib.pmap(rand_dedup, [(chk.seed, k, 8) for k in range(n // 2)], chunksize=16))
        x = _first(dd, lambda r: r["t"] == "dedup" and len(r["ms"]) >= 5)
        if x:
            chk.sample({k: x[k] for k in ("t", "reps", "same_as", "set_n", "dict_first")})
        recs += dd
        recs += _flat(lib.pmap(rand_ctor, [(chk.seed, k, 15) for k in range(n)], chunksize=32))
        recs += _flat(lib.pmap(rand_ds, [(chk.seed, k, 6) for k in range(n // 3)], chunksize=8))
        judge(chk, recs, "random", "random pairs up to 12x12 (random walks, library round trips giving int8 arrays, multi-digit coordinates), duplicate lists of 2..10 mazes through "
              "set()/dict.fromkeys(), constructor calls up to 15x15 with coordinates far outside, random datasets")
        # ---- (C) audit classes: histories (A) and magnitude boundaries (B)
        nh = 1500 if thorough else 200
        recs = _flat(lib.pmap(rand_history, [(chk.seed, k, 6) for k in range(nh)], chunksize=4))
        x = _first(recs, lambda r: r["t"] == "pair" and r["rel"].startswith("used:as_pixels"))
        if x:
            chk.sample({k: x[k] for k in ("t", "rel", "eq", "eq2", "heq", "hstable", "set_n", "hist")})
        recs += _flat(lib.pmap(rand_ds_history, [(chk.seed, k, 5) for k in range(nh // 2)], chunksize=4))
        chk.notes["history_records"] = len(recs)
        jobs_b = []
        for R, C in BIG_SHAPES:
            for L in (128, 257, 300):
                if L == 128 or R * C > 128:
                    jobs_b.append((R, C, L, "SolvedMaze"))
            jobs_b += [(R, C, R * C, "TargetedLatticeMaze"), (R, C, 1, "LatticeMaze")]
        big = _flat(lib.pmap(big_group, jobs_b, chunksize=1))
        big += _flat(lib.pmap(observe_case, big_ctor_cases(), chunksize=64))
        big += _flat(lib.pmap(big_ds, [(n, v) for n in (127, 128, 129, 255, 256, 257) for v in ("equal", "last", "at127", "at255", "shorter", "minus128", "minus256")], chunksize=1))
        big += _flat(lib.pmap(big_dedup, [(128, 5), (129, 128), (256, 7), (257, 257), (300, 290)], chunksize=1))
        chk.notes["magnitude_records"] = len(big)
        x = _first(big, lambda r: r["t"] == "ctor" and r["R"] == 256 and r["start"][0] == 128 and r["res"] == "ok")
        if x:
            chk.sample({k: x[k] for k in ("t", "kind", "R", "C", "start", "end", "form", "res")})
        judge(chk, recs + big, "hist_big", "class A: used / edited / filtered objects compared with fresh, reloaded and different ones after every step (A-B-A over two grids); "
              "class B: >=128 / >=256 cells, solution cells and coordinates differing only beyond int8 / uint8 boundaries, grids 128 and 256 in the bounds check, datasets and duplicate lists of 127..300 mazes")
        # ---- (C) audit classes C-H: directed shortest / oblong / falsy / aliasing / representation / factory cases
        del recs, big
        recs = _flat(lib.pmap(short_group, short_group_jobs(), chunksize=2))
        x = _first(recs, lambda r: r["t"] == "pair" and r["rel"].startswith("alias:"))
        if x:
            chk.sample({k: x[k] for k in ("t", "rel", "arep", "eq", "heq", "hstable", "hist")} | {"a_start": x["a"]["start"], "a_sol": x["a"]["sol"]})
        x = _first(recs, lambda r: r["t"] == "pair" and r["brep"] == "rt_ds_minimal_cat" and len(r["a"]["sol"]) == 1)
        if x:
            chk.sample({k: x[k] for k in ("t", "rel", "brep", "bmeta", "eq", "heq", "set_n", "hist")} | {"a_sol": x["a"]["sol"]})
        chk.notes["directed_short_records"] = len(recs)
        dsr = _flat(lib.pmap(short_ds, short_ds_jobs(), chunksize=8))
        x = _first(dsr, lambda r: r["t"] == "ds" and r["seqs"] == ["tuple", "list"] and r["eq"] == "True")
        if x:
            chk.sample({k: x[k] for k in ("t", "cv", "ca", "cb", "seqs", "bk", "eq", "ne", "rb")})
        dct = _flat(lib.pmap(observe_case, directed_ctor_cases(), chunksize=64))
        x = _first(dct, lambda r: r["t"] == "ctor" and r["form"] == "alias_int8" and r["res"] == "ok" and r["R"] != r["C"])
        if x:
            chk.sample({k: x[k] for k in ("t", "kind", "R", "C", "start", "end", "form", "res", "got_start", "got_end", "argmod", "hstable")})
        nf = 500 if thorough else 60
        fac = _flat(lib.pmap(rand_factory, [(chk.seed, k, 5) for k in range(nf)], chunksize=2))
        x = _first(fac, lambda r: r["t"] == "pair" and r["rel"] == "fact:from_pixels")
        if x:
            chk.sample({k: x[k] for k in ("t", "rel", "exp", "eq", "heq", "set_n", "hist")})
        chk.notes["directed_records"] = dict(short_pairs=len(recs), short_ds=len(dsr), ctor=len(dct), factory=len(fac))
        judge(chk, recs + dsr + dct + fac, "directed", "classes C-H: shortest solutions (length 1 / 2, start == end) x empty / full lattice x EVERY representation, metadata (incl. {} and all-falsy) and "
              "round trip on 1x1 .. 3x7 / 7x3 grids; falsy non-maze operands; objects built from the caller's own arrays that are overwritten afterwards; constructor over -2..R+1 x -2..C+1 on "
              "oblong grids x every argument form incl. float-valued, numpy-scalar, strided and caller-owned ones; datasets of shortest mazes x falsy configuration fields x list / tuple / "
              "generator / caller-owned sequences; factory-made objects (generate, from_pixels / from_ascii / from_tokens / from_*_maze, collected metadata) against directly constructed twins")
    finally:
        shutil.rmtree(tmp, ignore_errors=True)
    chk.notes["violations_listed_by_kind_and_clause"] = chk.notes.pop("_listed", {})
    chk.assumptions = [
        "TLC, CommunityModules JSON reader/writer, CPython/numpy",
        "the raw projection (type name, connection_list, start_pos, end_pos, solution read from the object) is faithful",
        "connection_list is always a bool array (other dtypes of connection_list are outside the statement; arrays made by the library's own factories are compared as they come)",
        "connection_list is stored by reference by the dataclass (unchanged tree): the caller's connection array is never overwritten after the call, only start / end / solution / maze lists are",
        "configuration equality when only n_mazes differs is taken from the configuration's own ==",
        "shapes beyond 3x2 are sampled (seeded), not exhaustive" + ("" if thorough else "; quick tier sweeps 1/16 of the 2x3 and 3x2 graphs"),
    ]
    return chk.finish(
        "MazeValue.tla's scope enumerated and model-checked by TLC (every case a state); every emitted case built with the real library and every "
        "recorded ==, !=, hash, set/dict, constructor and dataset result judged by the TLA+ value semantics"
    )


# ------------------------------------------------------------------ replay
def _desc(p, rep, meta):
    return dict(p, rep=rep, meta=meta)


def reobserve(case):
    """re-run the stored case against the real code (every build goes through safe_build: a raising library
    is an observation here as well)"""
    t = case["t"]
    if case.get("tier"):  # a record of a directed / factory group: the whole group is re-run
        return TIERS[case["tier"]](case["hist"])
    if case.get("hist"):  # a record of a history: the whole history is re-run (the step alone means nothing)
        return (rand_history if t == "pair" else rand_ds_history)(tuple(case["hist"]))
    if t == "pair":
        g = dict(a=_desc(case["a"], case["arep"], case["ameta"]), vs=[dict(rel=case["rel"], m=_desc(case["b"], case["brep"], case["bmeta"]))], foreign=[])
        return observe_group(g)
    if t == "foreign":
        if case["a"]["kind"] == "MazeDataset":
            raise lib.MachineryError("replay of dataset-vs-foreign records is not supported; replay the accompanying ds record")
        return observe_group(dict(a=_desc(case["a"], case["arep"], case["ameta"]), vs=[], foreign=[case["other"]]))
    if t == "build":
        _o, failed, _d = safe_build({k: case[k] for k in ("kind", "conn", "start", "end", "sol", "rep", "meta")})
        return [failed] if failed else []
    if t == "ctor":
        return observe_ctor(dict(case, forms=[case["form"]]))
    if t == "ds":
        pool = [_desc(p, r, e) for p, r, e in zip(case["ma"] + case["mb"], case["ra"] + case["rb"], case["ea"] + case["eb"])]
        na = len(case["ma"])
        R = case["ca"]["grid_n"]
        out = observe_ds(dict(R=R, C=R, pool=pool, la=list(range(1, na + 1)), lb=list(range(na + 1, len(pool) + 1)), cfgs=[case["cv"]],
                              seqs=case.get("seqs", ["list", "list"]), base_kw=json.loads(case.get("bk", "{}"))))
        return [r for r in out if r["t"] != "foreign"]
    if t == "dedup":
        return observe_dedup(dict(descs=[_desc(p, r, e) for p, r, e in zip(case["ms"], case["reps"], case["metas"])], same_as=case["same_as"]))
    raise lib.MachineryError(f"unknown record kind {t}")


def replay(path: str) -> int:
    d = json.load(open(path))
    recs = reobserve(d["case"])
    for i, r in enumerate(recs):
        r["id"] = i
    out = lib.oracle("Trace_MazeValue", recs, tag="rp") if recs else None
    bad = sorted({c for v in (out.verdicts.values() if out else []) for c in v if not c.startswith("M:")})
    for r in recs:
        print("replay:", {k: v for k, v in r.items() if k not in ("a", "b", "ma", "mb", "ms", "conn")}, "verdict:", out.verdicts.get(r["id"], []))
    if bad:
        print(f"VIOLATION property=C09 replay={path}")
        return 1
    return 0
