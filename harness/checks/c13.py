"""C13 — all graph queries on a maze agree with its connection structure.

(A) GraphViews.tla: the views as definitions over the raw connection array (graph level) plus
    independent array-level formulas; TLC checks on every graph of every shape <= 3x3 (thorough:
    + 1x4,4x1,2x4,4x2) that both agree, that the stated from_adj_list premise is sufficient, that
    forks / path-following points partition every simple path, and that one edge changes the views
    only locally.  Two deliberately wrong array formulas must be rejected by TLC.
(C) Trace_Views.tla judges RAW outputs of the real methods, one record per maze carrying all views:
    exhaustive over all graphs of all shapes <= 2x3/3x2 (+1x4,4x1) and a seeded sample of the 3x3 graphs
    (thorough: all 4096), seeded random graphs up to 15x15 incl. oblong and 1xn / nx1.

    Histories (one process each): the SAME maze object queried three times with the views in forward / reversed /
    scrambled order, every array or list it returned overwritten in place in between, the maze hashed / compared /
    rendered / solved in between, then a freshly built equal maze; shapes in decreasing, scrambled (same row count then
    wider, same column count then taller), A-B-A and increasing order; the lattice helpers for sizes in scrambled order
    with their results overwritten.  Every pass is a full record judged by the same oracle (a result that depends on
    what was asked before, or that aliases internal state, is a wrong view).
    Magnitudes: 12x12, 16x16, 20x20, 2x70, 70x2, 3x90 (>= 128 / >= 256 cells, connections, adjacency-list entries),
    Hamiltonian and longest-shortest solutions of 140..400 cells, candidate paths broken beyond index 127.

Interpretation decisions (so that the oracle does not demand more than the statement):
  * orientation / order of as_adj_list entries and order of neighbour / component / node lists are free;
    "exactly once" = no connection twice, none missing, nothing that is not a connection.
  * from_adj_list is documented square-only: judged only for square mazes, and only under the stated
    premise (highest row index AND highest column index occur in some connection).
  * fork rule (DESIGN.md par. 4): first and last solution cell are forks iff > 1 neighbour, interior iff > 2;
    always_include_endpoints adds both ends; index order is free, coordinates must match the indices.
  * only in-grid connection arrays (bottom-row "down" / right-column "right" bits are 0, as documented).
  * is_connection is judged on lattice edges only (both orientations); lattice_max_degrees(1) is outside the
    statement (a 1x1 lattice has no edges; the helper returns 2) and only reported as a note.
"""
import json

import numpy as np

from harness import lib, mz

FLAGS = [(False, False), (False, True), (True, False), (True, True)]


# ------------------------------------------------------------------ input generation (never judges)
def _ext_cells(r, c):
    return [(i, j) for i in range(-1, r + 1) for j in range(-1, c + 1)]


def _lattice_edges(r, c):
    return [((i, j), (i + 1, j)) for i in range(r - 1) for j in range(c)] + [((i, j), (i, j + 1)) for i in range(r) for j in range(c - 1)]


def _rand_walk(rng, conn, start, n, simple=False):
    p = [start]
    while len(p) < n:
        nb = [b for b in mz.nbrs(conn, p[-1]) if not (simple and b in p)]
        if not nb:
            break
        p.append(nb[int(rng.integers(len(nb)))])
    return p


def _bfs_path(conn, s, t):
    d = mz.bfs(conn, s)
    if t not in d:
        return None
    p = [t]
    while p[-1] != s:
        p.append(next(y for y in mz.nbrs(conn, p[-1]) if d.get(y) == d[p[-1]] - 1))
    return p[::-1]


def _candidate_paths(rng, conn, small):
    r, c = conn.shape[1:]
    cs = mz.cells(r, c)
    out = [[]]
    if small:
        ext = _ext_cells(r, c)
        out += [[a] for a in ext] + [[a, b] for a in ext for b in ext]
        if r * c <= 6:
            out += [[a, b, d] for a in cs for b in cs for d in cs]
        else:
            for _ in range(60):
                out.append([cs[int(rng.integers(len(cs)))] for _ in range(3)])
        for _ in range(12):
            out.append(_rand_walk(rng, conn, cs[int(rng.integers(len(cs)))], int(rng.integers(3, 8))))
        return out
    for k in range(36):
        w = _rand_walk(rng, conn, cs[int(rng.integers(len(cs)))], int(rng.integers(1, 30)))
        mode = k % 9
        i = int(rng.integers(len(w)))
        if mode == 1:  # one cell replaced by a random cell
            w[i] = cs[int(rng.integers(len(cs)))]
        elif mode == 2:  # a step through a wall / a jump appended
            a = w[-1]
            cand = [b for b in [(a[0] + 1, a[1]), (a[0] - 1, a[1]), (a[0], a[1] + 1), (a[0], a[1] - 1)] if 0 <= b[0] < r and 0 <= b[1] < c and b not in mz.nbrs(conn, a)]
            w.append(cand[int(rng.integers(len(cand)))] if cand else (a[0], a[1]))
        elif mode == 3:  # out of bounds: one coordinate pushed to -1 / R / C
            a = list(w[i])
            j = int(rng.integers(2))
            a[j] = [-1, (r, c)[j]][int(rng.integers(2))]
            w[i] = tuple(a)
        elif mode == 4:  # in range for the other axis only (matters on oblong grids)
            w[i] = (max(r, c) - 1, 0) if c > r else (0, max(r, c) - 1)
        elif mode == 5:  # stay in place
            w.insert(i, w[i])
        elif mode == 6:  # diagonal / distance-2 step appended
            a = w[-1]
            d = [(1, 1), (1, -1), (-1, 1), (0, 2), (2, 0), (-2, 0), (0, -2)][int(rng.integers(7))]
            w.append((a[0] + d[0], a[1] + d[1]))
        elif mode == 7:  # walk to the border and step outside
            a = w[-1]
            w.append([(-1, a[1]), (r, a[1]), (a[0], -1), (a[0], c)][int(rng.integers(4))])
        out.append(w)
    return out


def _pairs(rng, r, c):
    cs = mz.cells(r, c)
    if r * c <= 36:
        return [(a, b) for a in cs for b in cs]
    out = []
    for a in cs:
        for d in [(0, 0), (1, 0), (-1, 0), (0, 1), (0, -1), (1, 1), (1, -1), (-1, 1), (-1, -1), (2, 0), (0, 2), (-2, 0), (0, -2)]:
            b = (a[0] + d[0], a[1] + d[1])
            if 0 <= b[0] < r and 0 <= b[1] < c:
                out.append((a, b))
    for _ in range(150):
        out.append((cs[int(rng.integers(len(cs)))], cs[int(rng.integers(len(cs)))]))
    return out


def _solutions(rng, conn, small):
    r, c = conn.shape[1:]
    cs = mz.cells(r, c)
    if small:
        return [p for s in cs for t in cs for p in mz.all_shortest(conn, s, t)]
    out = [[cs[int(rng.integers(len(cs)))]]]
    for _ in range(5):
        s = cs[int(rng.integers(len(cs)))]
        comp = sorted(mz.bfs(conn, s))
        p = _bfs_path(conn, s, comp[int(rng.integers(len(comp)))])
        out.append(p)
    for _ in range(4):
        out.append(_rand_walk(rng, conn, cs[int(rng.integers(len(cs)))], int(rng.integers(2, 40)), simple=True))
    return out


def _gen_conn(rng, kind, r, c):
    from maze_dataset.generation import LatticeMazeGenerators as G

    if kind == "full":
        return mz.rand_conn(rng, r, c, 2.0)
    if kind.startswith("perc") or min(r, c) < 2:
        return mz.rand_conn(rng, r, c, float(rng.choice([0.15, 0.3, 0.5, 0.7, 0.9])))
    import random

    np.random.seed(int(rng.integers(0, 2**31)))
    random.seed(int(rng.integers(0, 2**31)))
    if kind == "dfs":
        return G.gen_dfs(np.array([r, c])).connection_list
    if kind == "dfs_perc":
        return G.gen_dfs_percolation(np.array([r, c]), p=float(rng.choice([0.1, 0.3]))).connection_list
    if kind == "dfs_partial":
        return G.gen_dfs(np.array([r, c]), accessible_cells=int(max(1, r * c // 2))).connection_list
    raise ValueError(kind)


FORCED = [(15, 15), (15, 1), (1, 15), (15, 2), (2, 15), (14, 15), (15, 14), (15, 15), (1, 1), (10, 12), (12, 10), (13, 13)]
KINDS = ["perc", "dfs", "dfs_perc", "perc", "dfs_partial", "perc", "full"]


def _random_case(seed, k, maxn):
    rng = np.random.default_rng([seed, 2, k])
    if k < len(FORCED):
        r, c = FORCED[k]
    elif k % 4 == 0:
        r = c = int(rng.integers(1, maxn + 1))
    elif k % 4 == 1:
        r = int(rng.integers(1, maxn + 1))
        c = int(rng.integers(1, maxn))
        c = c + 1 if c >= r else c  # r != c
    elif k % 4 == 2:
        r, c = int(rng.choice([1, 2, maxn - 1, maxn])), int(rng.integers(1, maxn + 1))
        if rng.random() < 0.5:
            r, c = c, r
    else:
        r, c = int(rng.integers(2, maxn + 1)), int(rng.integers(2, maxn + 1))
    kind = KINDS[k % len(KINDS)]
    try:
        conn = _gen_conn(rng, kind, r, c)
    except Exception:  # noqa: BLE001 - the generators are not C13's subject: fall back to plain percolation
        kind, conn = "perc_fallback", mz.rand_conn(rng, r, c, 0.5)
    return rng, r, c, kind, np.asarray(conn, dtype=bool)


# ------------------------------------------------------------------ observation (real code)
def _cl(x):
    return [int(x[0]), int(x[1])]


class Malformed(Exception):
    """an output whose SHAPE is not the documented one (recorded like an exception, judged by the oracle)"""


def _arr(v, ndim, tail=None):
    a = np.asarray(v)
    if a.size == 0:
        return []
    if a.ndim != ndim or a.dtype.kind not in "iub" or (tail is not None and tuple(a.shape[-len(tail):]) != tail):
        raise Malformed(f"shape {a.shape} dtype {a.dtype}")
    return a.astype(int).tolist()


def _cells_out(v):
    return _arr(v, 2, (2,))


def _vec_out(v, n=None):
    out = _arr(v, 1)
    if n is not None and len(out) != n:
        raise Malformed(f"length {len(out)} != {n}")
    return out


def _scribble(x):
    """overwrite a value RETURNED by the library in place: a later call must not see this (no aliasing of
    internal / cached state)"""
    if isinstance(x, tuple):
        for y in x:
            _scribble(y)
    elif isinstance(x, np.ndarray):
        if x.size and x.flags.writeable:
            try:
                x[...] = ~x if x.dtype.kind == "b" else x + 3
            except Exception:  # noqa: BLE001
                pass
    elif isinstance(x, list):
        x.insert(0, 97)


VIEWS = ["nodes", "deg", "nb", "nc", "comp", "paths", "adj", "isconn", "sols"]


def observe_maze(conn, rng, small, job, parity=0, m=None, order=None, scribble=False, light=False, extra_sols=(), extra_paths=()):
    """every library call goes through call()/mz.outcome: an exception or a malformed output of the code under
    test is an OUTCOME (listed in rec['err'], rejected by the oracle), never a harness failure.
    m = an existing maze object to query again (history); order = order of the views; scribble = overwrite every
    returned array / list in place after logging it; light = fewer pairs / candidate paths."""
    from maze_dataset.token_utils import is_connection
    from maze_dataset.utils import lattice_connection_array

    r, c = (int(v) for v in conn.shape[1:])
    cs = mz.cells(r, c)
    err = []

    def call(view, fn, default=None):
        res, v = mz.outcome(fn)
        if res != "ok":
            if view not in err:
                err.append(view)
            return default
        return v

    def take(fn, conv):
        raw = fn()
        out = conv(raw)
        if scribble:
            _scribble(raw)
        return out

    rec = dict(kind="maze", job=job, R=r, C=c, conn=mz.raw(conn), nodes=[], deg=[], nb=[], nc=[], comp=[], paths=[], adj=[], rt=[], isconn=[], sols=[], err=err)
    if m is None:
        m = call("LatticeMaze", lambda: mz.LatticeMaze(connection_list=conn))
    if m is None:
        return rec

    def v_nodes():
        rec["nodes"] = call("get_nodes", lambda: take(m.get_nodes, _cells_out), [])

    def v_deg():
        rec["deg"] = call("coord_degrees", lambda: take(m.coord_degrees, lambda x: _arr(x, 2)), [])

    def v_nb():
        seq = cs if parity % 2 == 0 else cs[::-1]
        rec["nb"] = [[list(a), call("get_coord_neighbors", lambda: take(lambda: m.get_coord_neighbors(np.array(a)), _cells_out), [])] for a in seq]

    def v_nc():
        prs = _pairs(rng, r, c)
        if light and len(prs) > 400:
            prs = prs[::3]
        if parity % 2:
            prs = prs[::-1]
        rec["nc"] = [[a[0], a[1], b[0], b[1], call("nodes_connected", lambda: int(bool(m.nodes_connected(np.array(a), np.array(b)))), 2)] for a, b in prs]

    def v_comp():
        seeds = cs if r * c <= 16 else sorted({(0, 0), (0, c - 1), (r - 1, 0), (r - 1, c - 1)} | {cs[int(rng.integers(len(cs)))] for _ in range(5)})
        if light:
            seeds = seeds[:: max(1, len(seeds) // 4)]
        rec["comp"] = [[list(a), call("gen_connected_component_from", lambda: take(lambda: m.gen_connected_component_from(np.array(a)), _cells_out), [])] for a in seeds]

    def v_paths():
        paths = []
        cand = _candidate_paths(rng, conn, small)
        if light:
            cand = cand[::5]
        cand = cand + [list(p) for p in extra_paths]
        for i, p in enumerate(cand):
            arr = np.array(p, dtype=int).reshape(-1, 2)
            for eiv in ([False, True] if len(p) == 0 or i % 16 == 0 else [bool(i % 2)]):
                res, v = mz.outcome(lambda: int(bool(m.is_valid_path(arr, empty_is_valid=eiv))))
                paths.append([[_cl(x) for x in p], int(eiv), v if res == "ok" else 2])
        # the empty path again: default call (no flag), then with / without the flag in the other order
        res, v = mz.outcome(lambda: int(bool(m.is_valid_path(np.zeros((0, 2), dtype=int)))))
        paths.append([[], 0, v if res == "ok" else 2])
        for eiv in (True, False):
            res, v = mz.outcome(lambda: int(bool(m.is_valid_path(np.zeros((0, 2), dtype=int), empty_is_valid=eiv))))
            paths.append([[], int(eiv), v if res == "ok" else 2])
        rec["paths"] = paths

    def v_adj():
        adj, rt = [], []
        flags = FLAGS + [(None, None)]  # None = the default flags (shuffled both ways)
        for d0, d1 in flags if parity % 2 == 0 else flags[::-1]:
            np.random.seed(int(rng.integers(0, 2**31)))
            a = call("as_adj_list", (lambda: m.as_adj_list()) if d0 is None else (lambda: m.as_adj_list(shuffle_d0=d0, shuffle_d1=d1)))
            lst = call("as_adj_list", lambda: _arr(a, 3, (2, 2)), []) if a is not None else []
            adj.append([int(d0 is None or d0), int(d0 is None or d1), lst])
            if r == c and lst:
                res, raw2 = mz.outcome(lambda: take(lambda: mz.LatticeMaze.from_adj_list(a).connection_list, lambda x: _arr(x, 3)))
                rt.append([adj[-1][0], adj[-1][1], 1, raw2] if res == "ok" else [adj[-1][0], adj[-1][1], 0, []])
            if scribble and a is not None:
                _scribble(a)
        rec["adj"], rec["rt"] = adj, rt

    def v_isconn():
        edges = _lattice_edges(r, c)
        batch = [(a, b) for a, b in edges] + [(b, a) for a, b in edges]
        isconn = []
        if batch:
            order_ = rng.permutation(len(batch))
            batch = [batch[int(i)] for i in order_]
            arr = np.array(batch, dtype=np.int8 if parity % 2 else np.int64)
            res = call("is_connection", lambda: take(lambda: is_connection(arr, conn), lambda x: _vec_out(x, len(batch))), [2] * len(batch))
            isconn += [[_cl(a), _cl(b), int(x)] for (a, b), x in zip(batch, res)]
            if r == c:  # the library's own edge generator as input, as given and with swapped endpoints
                lca = call("lattice_connection_array", lambda: lattice_connection_array(r))
                lst = call("lattice_connection_array", lambda: np.asarray(_arr(lca, 3, (2, 2)))) if lca is not None else None
                if scribble and lca is not None:
                    _scribble(lca)
                if lst is not None and len(lst):
                    for arr2 in (lst, lst[:, ::-1, :]):
                        res = call("is_connection", lambda: take(lambda: is_connection(arr2.astype(np.int8), conn), lambda x: _vec_out(x, len(arr2))), [2] * len(arr2))
                        isconn += [[_cl(e[0]), _cl(e[1]), int(x)] for e, x in zip(arr2.tolist(), res)]
        rec["isconn"] = isconn

    def v_sols():
        sols = []
        cand = _solutions(rng, conn, small)
        if light and len(cand) > 12:
            cand = cand[:: len(cand) // 12]
        for i, p in enumerate(cand + [list(p) for p in extra_sols]):
            def forks():
                # the three queries on ONE SolvedMaze object, in an order that depends on the solution
                sm = mz.SolvedMaze(connection_list=conn, solution=np.array(p))
                q = dict(
                    f=lambda: sm.get_solution_forking_points(),
                    e=lambda: sm.get_solution_forking_points(always_include_endpoints=True),
                    g=lambda: sm.get_solution_path_following_points(),
                )
                got = {}
                for key in [("f", "e", "g"), ("e", "g", "f"), ("f", "g", "e", "f"), ("g", "e", "f", "e")][(i + parity) % 4]:
                    raw = q[key]()
                    got[key] = [_vec_out(raw[0]), _cells_out(raw[1])]
                    if scribble or i % 2:
                        _scribble(raw)
                return [[_cl(x) for x in p]] + got["f"] + got["e"] + got["g"]

            v = call("solution_forking_points", forks)
            if v is not None:
                sols.append(v)
        rec["sols"] = sols

    fns = dict(nodes=v_nodes, deg=v_deg, nb=v_nb, nc=v_nc, comp=v_comp, paths=v_paths, adj=v_adj, isconn=v_isconn, sols=v_sols)
    for name in order or VIEWS:
        fns[name]()
    return rec


def observe_lattice(n, seed, scribble=False, job=None):
    from maze_dataset.utils import lattice_connection_array, lattice_max_degrees, manhattan_distance

    rng = np.random.default_rng([seed, 3, n])
    err = []

    def call(view, fn, default):
        res, v = mz.outcome(fn)
        if res != "ok":
            if view not in err:
                err.append(view)
            return default
        return v

    def take(fn, conv):
        raw = fn()
        out = conv(raw)
        if scribble:
            _scribble(raw)
        return out

    lca = call("lattice_connection_array", lambda: take(lambda: lattice_connection_array(n), lambda x: _arr(x, 3, (2, 2))), [])
    md = call("manhattan_distance", lambda: take(lambda: manhattan_distance(np.array(lca, dtype=np.int8)), lambda x: _vec_out(x, len(lca))), []) if lca else []
    cs = mz.cells(n, n)
    pairs = [(a, b) for a in cs for b in cs] if n <= 3 else [(cs[int(rng.integers(len(cs)))], cs[int(rng.integers(len(cs)))]) for _ in range(60)] + [((0, 0), (n - 1, n - 1)), ((n - 1, 0), (0, n - 1))]
    md2 = [[list(a), list(b), call("manhattan_distance", lambda: int(manhattan_distance(np.array([a, b], dtype=np.int8 if i % 2 else np.int64))), -1)] for i, (a, b) in enumerate(pairs)]
    batch = call("manhattan_distance", lambda: take(lambda: manhattan_distance(np.array(pairs)), lambda x: _vec_out(x, len(pairs))), [-1] * len(pairs))
    md2 += [[list(a), list(b), int(x)] for (a, b), x in zip(pairs, batch)]
    maxdeg = call("lattice_max_degrees", lambda: take(lambda: lattice_max_degrees(n), lambda x: _arr(x, 2)), [])
    return dict(kind="lattice", job=job or ["lat", n, seed], n=n, lca=lca, md=md, md2=md2, maxdeg=maxdeg, err=err)


# ---- histories (class A): one process, same objects queried repeatedly, shapes in decreasing / scrambled order
HIST_SHAPES = [
    [(5, 5), (5, 3), (3, 5), (3, 3), (3, 2), (2, 3), (2, 2), (1, 2)],  # decreasing
    [(3, 2), (3, 5), (2, 3), (5, 3), (3, 2), (3, 3), (3, 3), (2, 3), (1, 3), (4, 3)],  # scrambled: same rows then wider, same cols then taller
    [(4, 4), (4, 4), (4, 4), (2, 4), (4, 2), (2, 4), (4, 1), (4, 4)],  # A-B-A on one shape (3rd = 1st graph again, new object)
    [(1, 2), (2, 2), (2, 3), (3, 3), (3, 5), (5, 5), (6, 5), (5, 6)],  # increasing
]
HIST_LATTICE = [[6, 3, 6, 2, 5, 3, 1, 6], [2, 3, 2, 7, 3, 7], [9, 8, 4, 8, 9, 4], [1, 2, 3, 4, 4, 3]]


def _use(m, conn):
    """legitimate uses of a maze between two observations (results not judged here)"""
    mz.outcome(lambda: hash(m))
    mz.outcome(lambda: m == mz.LatticeMaze(connection_list=conn.copy()))
    mz.outcome(lambda: m.as_ascii())
    mz.outcome(lambda: m.as_pixels())
    mz.outcome(lambda: m.find_shortest_path((0, 0), tuple(int(x) - 1 for x in conn.shape[1:])))


def observe_hist(seed, k):
    rng = np.random.default_rng([seed, 4, k])
    job = ["hist", seed, k]
    out = []
    first = {}
    for step, (r, c) in enumerate(HIST_SHAPES[k % len(HIST_SHAPES)]):
        if k % len(HIST_SHAPES) == 2 and step == 2:
            conn = first[(r, c)].copy()
        else:
            conn = mz.rand_conn(rng, r, c, float(rng.choice([0.35, 0.5, 0.65, 0.8])))
        first.setdefault((r, c), conn)
        small = r * c <= 9
        m = mz.outcome(lambda: mz.LatticeMaze(connection_list=conn))[1]
        orders = [VIEWS, VIEWS[::-1], [VIEWS[int(i)] for i in rng.permutation(len(VIEWS))]]
        for ps, order in enumerate(orders):
            # passes 1 and 2 overwrite everything they were given; pass 3 is a plain re-query after "using" the maze
            rec = observe_maze(conn, rng, small, job, parity=ps + step, m=m, order=order, scribble=ps < 2, light=True)
            rec["step"] = [step, ps]
            out.append(rec)
            if ps == 1 and m is not None:
                _use(m, conn)
        # a freshly built equal maze must look the same as the much-queried one
        rec = observe_maze(conn.copy(), rng, small, job, parity=step, light=True)
        rec["step"] = [step, 3]
        out.append(rec)
    for step, n in enumerate(HIST_LATTICE[k % len(HIST_LATTICE)]):
        rec = observe_lattice(n, seed, scribble=True, job=job)
        rec["step"] = [step, 9]
        out.append(rec)
    return out


# ---- magnitude boundaries (class B): >= 128 / >= 256 cells, connections, solution cells; one long side
BIG = [(12, 12, "serp"), (16, 16, "serp"), (2, 70, "serp"), (70, 2, "serp"), (16, 16, "dfs"), (20, 20, "dfs"), (12, 12, "full"), (16, 16, "perc"), (20, 20, "serp"), (3, 90, "dfs")]


def _serpentine(r, c):
    """one Hamiltonian path: rows joined left-right, consecutive rows joined at alternating ends"""
    conn = np.zeros((2, r, c), dtype=bool)
    conn[1, :, : c - 1] = True
    path = []
    for i in range(r):
        row = [(i, j) for j in range(c)]
        path += row if i % 2 == 0 else row[::-1]
        if i < r - 1:
            conn[0, i, c - 1 if i % 2 == 0 else 0] = True
    return conn, path


def observe_big(seed, i):
    r, c, kind = BIG[i % len(BIG)]
    rng = np.random.default_rng([seed, 5, i])
    if kind == "serp":
        conn, ham = _serpentine(r, c)
        sols = [ham, ham[::-1], ham[3:140], ham[: r * c - 1]]
    else:
        try:
            conn = np.asarray(_gen_conn(rng, kind, r, c), dtype=bool)
        except Exception:  # noqa: BLE001
            conn = mz.rand_conn(rng, r, c, 0.6)
        sols = []
    # the longest shortest path from a corner, and a long self-avoiding walk
    d = mz.bfs(conn, (0, 0))
    far = max(d, key=lambda x: (d[x], x))
    sols.append(_bfs_path(conn, (0, 0), far))
    sols.append(max((_rand_walk(rng, conn, (int(rng.integers(r)), int(rng.integers(c))), 400, simple=True) for _ in range(6)), key=len))
    paths = list(sols)
    for p in sols[:3]:
        if len(p) > 130:  # broken / out of bounds far beyond index 127
            q = list(p)
            q[129] = q[5]
            paths.append(q)
            q = list(p)
            q[-1] = (r, q[-1][1])
            paths.append(q)
    rec = observe_maze(conn, rng, False, ["big", seed, i], parity=i, extra_sols=sols, extra_paths=paths)
    rec["gen"] = kind
    return rec


def observe(job):
    """job = ["g", r, c, n, seed] | ["rand", seed, k, maxn] | ["lat", n, seed] | ["big", seed, i] -> one record;
    ["hist", seed, k] -> list of records (one process, one history)"""
    if job[0] == "g":
        _, r, c, n, seed = job
        return observe_maze(mz.conn_from_int(r, c, n), np.random.default_rng([seed, 1, r, c, n]), True, list(job), n)
    if job[0] == "rand":
        _, seed, k, maxn = job
        rng, r, c, kind, conn = _random_case(seed, k, maxn)
        rec = observe_maze(conn, rng, r * c <= 9, list(job), k)
        rec["gen"] = kind
        return rec
    if job[0] == "hist":
        return observe_hist(job[1], job[2])
    if job[0] == "big":
        return observe_big(job[1], job[2])
    return observe_lattice(job[1], job[2])


# ------------------------------------------------------------------ canaries (hand-made, independent of the code under test)
def _synthetic():
    """three hand-written CORRECT records (a 2x3 maze with an isolated cell, a 2x2 maze satisfying the rebuild
    premise, the 2x2 lattice).  The oracle must accept them as they are and reject every corrupted copy with
    the named clause.  Nothing here is computed by the library, so a broken library cannot disturb the guard."""
    #   (0,0)-(0,1)-(0,2)
    #           |
    #   (1,0)  (1,1)-(1,2)
    a = dict(
        kind="maze", job=["synthetic", "2x3"], R=2, C=3, err=[],
        conn=[[[0, 1, 0], [0, 0, 0]], [[1, 1, 0], [0, 1, 0]]],
        nodes=[[0, 0], [0, 1], [0, 2], [1, 0], [1, 1], [1, 2]],
        deg=[[1, 3, 1], [0, 2, 1]],
        nb=[[[0, 0], [[0, 1]]], [[0, 1], [[0, 0], [0, 2], [1, 1]]], [[0, 2], [[0, 1]]], [[1, 0], []], [[1, 1], [[1, 2], [0, 1]]], [[1, 2], [[1, 1]]]],
        nc=[[0, 0, 0, 1, 1], [0, 1, 0, 0, 1], [0, 0, 1, 0, 0], [0, 0, 0, 0, 0], [0, 0, 1, 1, 0], [1, 1, 0, 1, 1], [0, 2, 1, 2, 0], [0, 0, 0, 2, 0]],
        comp=[[[0, 0], [[0, 0], [0, 1], [0, 2], [1, 1], [1, 2]]], [[1, 0], [[1, 0]]], [[1, 2], [[1, 2], [1, 1], [0, 1], [0, 0], [0, 2]]]],
        paths=[[[], 0, 0], [[], 1, 1], [[[0, 0]], 0, 1], [[[2, 0]], 0, 0], [[[0, -1]], 1, 0], [[[0, 0], [0, 1], [1, 1]], 0, 1], [[[0, 0], [1, 0]], 1, 0], [[[0, 0], [0, 1], [0, 0]], 0, 1], [[[0, 0], [0, 0]], 0, 0]],
        adj=[
            [0, 0, [[[0, 1], [1, 1]], [[0, 0], [0, 1]], [[0, 1], [0, 2]], [[1, 1], [1, 2]]]],
            [0, 1, [[[1, 1], [0, 1]], [[0, 0], [0, 1]], [[0, 2], [0, 1]], [[1, 1], [1, 2]]]],
            [1, 0, [[[1, 1], [1, 2]], [[0, 1], [0, 2]], [[0, 1], [1, 1]], [[0, 0], [0, 1]]]],
            [1, 1, [[[1, 2], [1, 1]], [[0, 1], [0, 0]], [[0, 1], [1, 1]], [[0, 2], [0, 1]]]],
        ],
        rt=[],
        isconn=[[[0, 0], [0, 1], 1], [[0, 1], [0, 0], 1], [[0, 0], [1, 0], 0], [[1, 1], [0, 1], 1], [[1, 2], [0, 2], 0], [[1, 0], [1, 1], 0]],
        sols=[
            [[[0, 0], [0, 1], [1, 1], [1, 2]], [1], [[0, 1]], [0, 1, 3], [[0, 0], [0, 1], [1, 2]], [0, 2, 3], [[0, 0], [1, 1], [1, 2]]],
            [[[0, 2], [0, 1]], [1], [[0, 1]], [0, 1], [[0, 2], [0, 1]], [0], [[0, 2]]],
            [[[0, 1]], [0], [[0, 1]], [0], [[0, 1]], [], []],
            [[[1, 0]], [], [], [0], [[1, 0]], [0], [[1, 0]]],
        ],
    )
    #   (0,0)-(0,1)
    #           |
    #   (1,0)  (1,1)
    cn = [[[0, 1], [0, 0]], [[1, 0], [0, 0]]]
    b = dict(
        kind="maze", job=["synthetic", "2x2"], R=2, C=2, err=[], conn=cn,
        nodes=[[0, 0], [0, 1], [1, 0], [1, 1]], deg=[[1, 2], [0, 1]],
        nb=[[[0, 0], [[0, 1]]], [[0, 1], [[1, 1], [0, 0]]], [[1, 0], []], [[1, 1], [[0, 1]]]],
        nc=[[0, 0, 0, 1, 1], [1, 1, 0, 1, 1], [1, 0, 1, 1, 0], [0, 0, 1, 1, 0]],
        comp=[[[1, 1], [[0, 0], [0, 1], [1, 1]]]],
        paths=[[[], 0, 0], [[[0, 0], [0, 1], [1, 1]], 0, 1], [[[1, 0], [1, 1]], 0, 0]],
        adj=[[0, 0, [[[0, 1], [1, 1]], [[0, 0], [0, 1]]]], [1, 1, [[[0, 1], [0, 0]], [[1, 1], [0, 1]]]]],
        rt=[[0, 0, 1, cn], [1, 1, 1, cn]],
        isconn=[[[0, 0], [0, 1], 1], [[1, 1], [1, 0], 0]],
        sols=[[[[0, 0], [0, 1], [1, 1]], [], [], [0, 2], [[0, 0], [1, 1]], [0, 1, 2], [[0, 0], [0, 1], [1, 1]]]],
    )
    lat = dict(
        kind="lattice", job=["synthetic", "lat2"], n=2, err=[],
        lca=[[[0, 0], [0, 1]], [[1, 0], [1, 1]], [[0, 0], [1, 0]], [[0, 1], [1, 1]]], md=[1, 1, 1, 1],
        md2=[[[0, 0], [1, 1], 2], [[0, 1], [0, 1], 0], [[1, 0], [0, 0], 1]], maxdeg=[[2, 2], [2, 2]],
    )
    return a, b, lat


def _canaries():
    """-> (controls, [(corrupted record, clause that must reject it)])"""
    a, b, lat = _synthetic()
    out = []

    def mut(src, fn, clause):
        y = json.loads(json.dumps(src))  # no shared sub-lists
        fn(y)
        out.append((y, clause))

    mut(a, lambda y: y["nodes"].pop(), "get_nodes")
    mut(a, lambda y: y["nodes"].__setitem__(0, [0, 1]), "get_nodes")
    mut(a, lambda y: y["deg"][0].__setitem__(1, 2), "coord_degrees")  # west neighbour forgotten
    mut(a, lambda y: y["deg"][1].__setitem__(0, 1), "coord_degrees")
    mut(a, lambda y: y["nb"][1][1].pop(), "get_coord_neighbors")
    mut(a, lambda y: y["nb"][0][1].append([0, 1]), "get_coord_neighbors")  # neighbour listed twice
    mut(a, lambda y: y["nb"].pop(3), "get_coord_neighbors")  # a cell not covered
    mut(a, lambda y: y["nc"][1].__setitem__(4, 0), "nodes_connected")  # one direction only
    mut(a, lambda y: y["nc"][2].__setitem__(4, 1), "nodes_connected")  # adjacent but walled
    mut(a, lambda y: y["nc"][3].__setitem__(4, 1), "nodes_connected")  # a cell with itself
    mut(a, lambda y: y["nc"][7].__setitem__(4, 1), "nodes_connected")  # distance 2
    mut(a, lambda y: y["comp"][0][1].pop(), "connected_component")
    mut(a, lambda y: y["comp"][1][1].append([1, 1]), "connected_component")
    mut(a, lambda y: y["paths"][5].__setitem__(2, 0), "is_valid_path")
    mut(a, lambda y: y["paths"][3].__setitem__(2, 1), "is_valid_path")  # row == R accepted
    mut(a, lambda y: y["paths"][4].__setitem__(2, 1), "is_valid_path")  # column -1 accepted
    mut(a, lambda y: y["paths"][6].__setitem__(2, 1), "is_valid_path")  # step through a wall
    mut(a, lambda y: y["paths"][8].__setitem__(2, 1), "is_valid_path")  # staying in place
    mut(a, lambda y: y["paths"][0].__setitem__(2, 1), "is_valid_path_empty")
    mut(a, lambda y: y["paths"][1].__setitem__(2, 0), "is_valid_path_empty")
    mut(a, lambda y: y["adj"][3][2].pop(), "adj_list_connection_missing")
    mut(a, lambda y: y["adj"][1][2].append([[0, 1], [1, 1]]), "adj_list_connection_twice")  # same edge, other orientation
    mut(a, lambda y: y["adj"][0][2].__setitem__(0, [[0, 0], [1, 1]]), "adj_list_entry_not_a_connection")
    mut(a, lambda y: y["adj"][2][2].__setitem__(0, [[0, 0], [1, 0]]), "adj_list_entry_not_a_connection")  # a wall
    mut(a, lambda y: y["isconn"][1].__setitem__(2, 0), "is_connection")  # reversed orientation missed
    mut(a, lambda y: y["isconn"][4].__setitem__(2, 1), "is_connection")
    mut(a, lambda y: (y["sols"][0][1].pop(), y["sols"][0][2].pop()), "fork_idxs")
    mut(a, lambda y: (y["sols"][1][1].pop(), y["sols"][1][2].pop(), y["sols"][1][5].append(1), y["sols"][1][6].append([0, 1])), "fork_idxs")  # last cell treated as interior
    mut(a, lambda y: y["sols"][0][2].__setitem__(0, [1, 1]), "fork_coords")
    mut(a, lambda y: (y["sols"][0][3].pop(), y["sols"][0][4].pop()), "fork_always_include_endpoints")
    mut(a, lambda y: (y["sols"][3][3].pop(), y["sols"][3][4].pop()), "fork_always_include_endpoints")  # length-1 solution
    mut(a, lambda y: (y["sols"][0][5].pop(), y["sols"][0][6].pop()), "path_following_idxs")
    mut(a, lambda y: y["sols"][0][6].__setitem__(1, [0, 1]), "path_following_coords")
    mut(a, lambda y: (y["sols"][0][5].append(1), y["sols"][0][6].append([0, 1])), "forks_and_following_partition")
    mut(a, lambda y: y["err"].append("coord_degrees"), "raised_or_malformed:coord_degrees")
    mut(b, lambda y: y["rt"][0][3][0][0].__setitem__(1, 0), "from_adj_list_roundtrip")
    mut(b, lambda y: y["rt"][1][3][1][1].__setitem__(0, 1), "from_adj_list_roundtrip")  # stored at the greater endpoint
    mut(b, lambda y: y["rt"].__setitem__(1, [1, 1, 0, []]), "from_adj_list_roundtrip")  # raised
    mut(b, lambda y: y["rt"].__setitem__(0, [0, 0, 1, [[[0]], [[0]]]]), "from_adj_list_roundtrip")  # wrong size
    mut(b, lambda y: y.__setitem__("rt", []), "from_adj_list_roundtrip")
    mut(lat, lambda y: y["lca"].__setitem__(0, y["lca"][1]), "lattice_connection_array")
    mut(lat, lambda y: y["lca"].pop(), "lattice_connection_array")
    mut(lat, lambda y: y["md2"][0].__setitem__(2, 1), "manhattan_distance")
    mut(lat, lambda y: y["md"].__setitem__(0, 0), "manhattan_distance")
    mut(lat, lambda y: y["maxdeg"][1].__setitem__(1, 3), "lattice_max_degrees")
    mut(lat, lambda y: y["err"].append("lattice_max_degrees"), "raised_or_malformed:lattice_max_degrees")
    return [a, b, lat], out


def _judge_canaries(chk):
    controls, canaries = _canaries()
    recs = []
    for i, x in enumerate(controls + [c for c, _ in canaries]):
        x["id"] = lib.CANARY_BASE + i
        recs.append(x)
    res = lib.oracle("Trace_Views", recs, tag="canary", shards=1)
    for x in controls:
        if x["id"] in res.verdicts:
            raise lib.MachineryError(f"hand-made correct record {x['job']} rejected by Trace_Views: {res.verdicts[x['id']]}")
    for c, cl in canaries:
        got = res.verdicts.get(c["id"], [])
        if cl not in got:
            raise lib.MachineryError(f"canary not rejected by Trace_Views: expected clause {cl!r}, got {got} (oracle does not bind this field)")
    chk.notes["canaries_rejected"] = len(canaries)
    chk.notes["controls_accepted"] = len(controls)
    chk.states += res.states
    chk.transitions += res.transitions


def _nontrivial(x):
    """a maze with at least one connection and at least one wall between adjacent cells"""
    if x["kind"] != "maze":
        return x["n"] >= 2
    ne = int(np.sum(np.array(x["conn"])))
    return 0 < ne < 2 * x["R"] * x["C"] - x["R"] - x["C"]


def _case(x):
    return {k: x[k] for k in x if k != "id"}


SMALL = [(1, 1), (1, 2), (2, 1), (1, 3), (3, 1), (2, 2), (2, 3), (3, 2), (1, 4), (4, 1)]


def main(chk: lib.Check) -> int:
    import concurrent.futures as cf

    thorough = chk.tier == "thorough"
    chk.rule = (
        "cases = mazes (one record per connection structure carrying all views: every cell for neighbours/degrees, every ordered cell "
        "pair up to 6x6 (larger: all pairs at distance <= 2 + 150 random), components from every cell (<=16 cells) or corners + random cells, "
        "candidate paths (all cell sequences of length <= 2 over the grid plus a one-cell border, all/some length-3, random walks kept valid / "
        "broken / out of bounds / empty with both flags), as_adj_list under all 4 shuffle flag combinations + defaults, from_adj_list of each, "
        "is_connection on all lattice edges in both orientations, forks on all shortest solutions of all ordered pairs (small) or BFS + "
        "self-avoiding solutions (large)); exhaustive over all graphs of the listed small shapes, seeded random graphs (percolation, dfs, "
        "dfs+percolation, partial dfs, full) up to 15x15 incl. oblong and 1xn; histories: one maze object queried 3x in forward / reversed / "
        "scrambled view order with all returned arrays overwritten in between + a fresh equal maze, shapes in decreasing / scrambled / A-B-A / "
        "increasing order in one process; magnitudes: 12x12..20x20, 2x70, 70x2, 3x90 with solutions of 140..400 cells; "
        "non-trivial = at least one connection and one wall"
    )
    # ---- (A) design-level model checking, started in the background while the real code is observed
    ex = cf.ThreadPoolExecutor(max_workers=3)
    fut = {
        "small": ex.submit(lib.tlc_design, "GraphViews", "GraphViews_small.cfg", expect_actions=["AddAny", "RemoveAny"], tag="s", workers=4),
        # quick: on 3x3 the pair / neighbour / degree / component / adjacency-list / rebuild invariants; the path-enumerating
        # invariants and the one-edge action property are exhaustive on the smaller shapes and on 3x3 in thorough
        "3x3": ex.submit(lib.tlc_design, "GraphViews", "GraphViews_3x3.cfg" if thorough else "GraphViews_3x3_core.cfg", tag="3", workers=8),
    }
    if thorough:
        fut["wide"] = ex.submit(lib.tlc_design, "GraphViews", "GraphViews_wide.cfg", tag="w", workers=4)

    # ---- (C) observations
    jobs = []
    for rr, cc in SMALL:
        jobs += [["g", rr, cc, n, chk.seed] for n in range(mz.n_graphs(rr, cc))]
    rng = np.random.default_rng(chk.seed)
    n33 = mz.n_graphs(3, 3)
    g33 = list(range(n33)) if thorough else sorted(rng.choice(n33, size=400, replace=False).tolist())
    jobs += [["g", 3, 3, int(n), chk.seed] for n in g33]
    nrand = 3000 if thorough else 320
    jobs += [["rand", chk.seed, k, 15] for k in range(nrand)]
    jobs += [["lat", n, chk.seed] for n in range(1, 16)]
    # class A: histories (same object re-queried in other orders after its outputs were overwritten, shapes in decreasing /
    # scrambled / A-B-A order within one process); class B: >= 128 / >= 256 cells, connections, solution cells
    jobs += [["hist", chk.seed, k] for k in range(48 if thorough else 12)]
    jobs += [["big", chk.seed, i] for i in range(2 * len(BIG) if thorough else len(BIG))]
    recs = []
    for x in lib.pmap(observe, jobs, chunksize=4):
        recs += x if isinstance(x, list) else [x]
    for i, x in enumerate(recs):
        x["id"] = i
    res = lib.oracle("Trace_Views", recs, tag="maze")
    chk.add_oracle("Trace_Views", res, "raw outputs of all graph views of one maze judged against GraphViews.tla")
    chk.judge({x["id"]: _case(x) for x in recs}, res, label="maze")
    # canaries: hand-made correct records must be accepted, each corrupted copy rejected with the named clause
    _judge_canaries(chk)
    tot = dict(mazes=0, cells=0, pairs=0, components=0, paths=0, adj_lists=0, rebuilds=0, edge_tests=0, solutions=0, oblong=0, max_cells=0)
    for x in recs:
        chk.count([x.get("R"), x.get("C"), x.get("conn"), x.get("n")], _nontrivial(x))
        if x["kind"] == "maze":
            tot["mazes"] += 1
            tot["cells"] += len(x["nb"])
            tot["pairs"] += len(x["nc"])
            tot["components"] += len(x["comp"])
            tot["paths"] += len(x["paths"])
            tot["adj_lists"] += len(x["adj"])
            tot["rebuilds"] += len(x["rt"])
            tot["edge_tests"] += len(x["isconn"])
            tot["solutions"] += len(x["sols"])
            tot["oblong"] += x["R"] != x["C"]
            tot["max_cells"] = max(tot["max_cells"], x["R"] * x["C"])
    chk.notes["view_evaluations"] = tot
    chk.notes["history_records"] = sum(1 for x in recs if x["job"][0] == "hist")
    chk.notes["magnitude_cases"] = [[x["R"], x["C"], x.get("gen"), max((len(s[0]) for s in x["sols"]), default=0)] for x in recs if x["job"][0] == "big"]
    small_rec = next(x for x in recs if x["kind"] == "maze" and x["R"] == 2 and x["C"] == 2 and _nontrivial(x))
    chk.sample({k: small_rec[k] for k in ("R", "C", "conn", "nodes", "deg", "nb", "comp", "adj", "rt", "isconn")} | {"sols": small_rec["sols"][:3], "paths": small_rec["paths"][:5]})
    big = next(x for x in recs if x["job"][0] == "rand" and x["R"] * x["C"] > 9)
    chk.sample({k: big[k] for k in ("R", "C", "gen")} | {"deg": big["deg"], "sols": big["sols"][:2], "paths": big["paths"][1:4]})
    chk.exhaustive = True
    chk.notes["exhaustive_scope"] = "all graphs of shapes " + str(SMALL + ([(3, 3)] if thorough else [])) + ("" if thorough else " + seeded 400 of the 4096 3x3 graphs")
    from maze_dataset.utils import lattice_max_degrees

    chk.notes["outside_statement"] = f"lattice_max_degrees(1) = {mz.outcome(lambda: np.asarray(lattice_max_degrees(1)).tolist())} (a 1x1 lattice has max degree 0); not judged"

    # ---- (A) collect the design models, non-vacuity variants
    r = fut["small"].result()
    chk.add_model("GraphViews/small", r, "all graphs of shapes <= 2x3/3x2: graph-level views = array-level formulas, premise, forks, locality of one edge")
    r = fut["3x3"].result()
    chk.add_model("GraphViews/3x3", r, "all 4096 graphs of 3x3, " + ("same invariants" if thorough else "invariants without path enumeration / action property"))
    if thorough:
        r = fut["wide"].result()
        chk.add_model("GraphViews/wide", r, "1x4,4x1,2x4,4x2")
    ex.shutdown()
    r = lib.tlc_expect_violation("GraphViews", "GraphViews_bugwest.cfg", "InvNeighbours", tag="bw", workers=2)
    chk.add_model("GraphViews/bugwest", r, "degree slices without the west neighbour: rejected")
    r = lib.tlc_expect_violation("GraphViews", "GraphViews_bugsort.cfg", "InvPairs", tag="bs", workers=2)
    chk.add_model("GraphViews/bugsort", r, "batch edge test without endpoint sort: rejected")
    chk.assumptions = [
        "TLC, CommunityModules JSON reader, CPython/numpy",
        "the driver lists faithfully which inputs it passed (pairs, paths, solutions) and the raw outputs",
        "3x3 sampled in quick; graphs beyond 3x3 (and 1x4/4x1) are sampled, not exhaustive; connection arrays are in-grid (documented invariant)",
        "from_adj_list judged for square mazes under the stated premise only (documented square-only)",
    ]
    return chk.finish(
        "GraphViews.tla model-checked on every graph of every shape <= 3x3 (views mutually consistent, two wrong variants rejected); "
        "raw outputs of every real view judged per maze by Trace_Views.tla"
    )


def replay(path: str) -> int:
    d = json.load(open(path))
    job = d["case"]["job"]
    recs = observe(job)
    recs = recs if isinstance(recs, list) else [recs]
    for i, x in enumerate(recs):
        x["id"] = i
    out = lib.oracle("Trace_Views", recs, tag="rp", shards=1)
    print("replay:", job, "verdicts:", out.verdicts)
    if out.verdicts:
        print(f"VIOLATION property=C13 replay={path}")
        return 1
    return 0
