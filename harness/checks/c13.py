"""C13 — all graph queries on a maze agree with its connection structure.

(A) GraphViews.tla: the views as definitions over the raw connection array (graph level) plus
    independent array-level formulas; TLC checks on every graph of every shape <= 3x3 (thorough:
    + 1x4,4x1,2x4,4x2) that both agree, that the stated from_adj_list premise is sufficient, that
    forks / path-following points partition every simple path, and that one edge changes the views
    only locally.  Two deliberately wrong array formulas must be rejected by TLC.
(C) Trace_Views.tla judges RAW outputs of the real methods, one record per maze carrying all views:
    exhaustive over all graphs of all shapes <= 2x3/3x2 (+1x4,4x1) and a seeded sample of the 3x3 graphs
    (thorough: all 4096), seeded random graphs up to 15x15 incl. oblong and 1xn / nx1.

    Histories (one process each): the SAME maze object queried three times with the views in forward / reversed /
    scrambled order, every array or list it returned overwritten in place in between, the maze hashed / compared /
    rendered / solved in between, then a freshly built equal maze; shapes in decreasing, scrambled (same row count then
    wider, same column count then taller), A-B-A and increasing order; the lattice helpers for sizes in scrambled order
    with their results overwritten.  Every pass is a full record judged by the same oracle (a result that depends on
    what was asked before, or that aliases internal state, is a wrong view).
    Magnitudes: 12x12, 16x16, 20x20, 2x70, 70x2, 3x90 (>= 128 / >= 256 cells, connections, adjacency-list entries),
    Hamiltonian and longest-shortest solutions of 140..400 cells, candidate paths broken beyond index 127.

    Audit 2 (classes C-H): every cell / path / edge batch / adjacency list / solution is the caller's OWN ndarray
    (int64, int8, int16, int32; contiguous, Fortran-ordered, strided / negative-stride views; one array object for both
    arguments of nodes_connected(a, a)); after each call it is compared with a snapshot and OVERWRITTEN before the result
    is read; the maze's arrays are compared with the logged structure after every view.  The maze under the views is
    built by the plain constructor, from Fortran-ordered / strided arrays, by load(serialize()), as SolvedMaze /
    TargetedLatticeMaze, through from_lattice_maze / from_targeted_lattice_maze, with generation metadata, or is the
    generator's own object (metadata that legitimately disagrees with the graph: gen_dfs_percolation); every graph of the
    small shapes under 2 (thorough: all 11) rotations of these forms.  SolvedMaze for the fork queries: own array / list
    (overwritten after construction) / factories; flags left out, by keyword, positional.  One- and two-cell paths and
    solutions with every flag on the larger mazes too; empty / one-edge / duplicate-carrying edge batches; graphs without
    any connection up to 15x15; walks that revisit cells (Layer M).  Oblong 2x5, 5x2, 3x7, 7x3, 2x4, 4x2 forced.

Interpretation decisions (so that the oracle does not demand more than the statement):
  * orientation / order of as_adj_list entries and order of neighbour / component / node lists are free;
    "exactly once" = no connection twice, none missing, nothing that is not a connection.
  * from_adj_list is documented square-only: judged only for square mazes, and only under the stated
    premise (highest row index AND highest column index occur in some connection).
  * fork rule (DESIGN.md par. 4): first and last solution cell are forks iff > 1 neighbour, interior iff > 2;
    always_include_endpoints adds both ends; index order is free, coordinates must match the indices.
  * only in-grid connection arrays (bottom-row "down" / right-column "right" bits are 0, as documented).
  * a call that modifies one of its arguments (or the maze's arrays), the answer to an EMPTY edge batch and the fork rule on walks
    that revisit cells are not in the statement: Layer M (M:argument_modified:<call>, M:is_connection_empty_batch,
    M:nonsimple_solution:<clause>).  The CONSEQUENCES of aliasing are Layer P: arguments are overwritten before the result is
    read and later views are judged against the connection structure logged before the first call.
  * maze objects that are not built by the plain constructor (load(serialize()), factories, subclasses, other array layouts) are
    judged against the connection structure read from the OBJECT after construction (what a factory does is not C13's subject).
  * coordinates / paths / batches are signed-integer ndarrays (the documented argument types); tuples, lists and unsigned arrays
    are not passed to the graph queries (nodes_connected subtracts its arguments).  Solutions are also given as lists (documented).
  * is_connection is judged on lattice edges only (both orientations); lattice_max_degrees(1) is outside the
    statement (a 1x1 lattice has no edges; the helper returns 2) and only reported as a note.
"""
import json

import numpy as np

from harness import lib, mz

FLAGS = [(False, False), (False, True), (True, False), (True, True)]


# ------------------------------------------------------------------ input generation (never judges)
def _ext_cells(r, c):
    return [(i, j) for i in range(-1, r + 1) for j in range(-1, c + 1)]


def _lattice_edges(r, c):
    return [((i, j), (i + 1, j)) for i in range(r - 1) for j in range(c)] + [((i, j), (i, j + 1)) for i in range(r) for j in range(c - 1)]


def _rand_walk(rng, conn, start, n, simple=False):
    p = [start]
    while len(p) < n:
        nb = [b for b in mz.nbrs(conn, p[-1]) if not (simple and b in p)]
        if not nb:
            break
        p.append(nb[int(rng.integers(len(nb)))])
    return p


def _bfs_path(conn, s, t):
    d = mz.bfs(conn, s)
    if t not in d:
        return None
    p = [t]
    while p[-1] != s:
        p.append(next(y for y in mz.nbrs(conn, p[-1]) if d.get(y) == d[p[-1]] - 1))
    return p[::-1]


def _candidate_paths(rng, conn, small):
    r, c = conn.shape[1:]
    cs = mz.cells(r, c)
    out = [[]]
    if small:
        ext = _ext_cells(r, c)
        out += [[a] for a in ext] + [[a, b] for a in ext for b in ext]
        if r * c <= 6:
            out += [[a, b, d] for a in cs for b in cs for d in cs]
        else:
            for _ in range(60):
                out.append([cs[int(rng.integers(len(cs)))] for _ in range(3)])
        for _ in range(12):
            out.append(_rand_walk(rng, conn, cs[int(rng.integers(len(cs)))], int(rng.integers(3, 8))))
        return out
    # class H: the shortest paths on the larger mazes (each asked with both flags by the caller): single cells in the
    # corners / just outside them, two-cell paths along a connection, through a wall, in place
    corners = [(0, 0), (0, c - 1), (r - 1, 0), (r - 1, c - 1)]
    out += [[a] for a in corners] + [[(-1, 0)], [(r, c - 1)], [(0, c)], [(r - 1, -1)]]
    for a in corners + [cs[int(rng.integers(len(cs)))] for _ in range(3)]:
        for b in [(a[0] + 1, a[1]), (a[0], a[1] + 1), (a[0] - 1, a[1]), (a[0], a[1] - 1)][int(rng.integers(2)) :: 2]:
            out.append([a, b])
        out.append([a, a])
    for k in range(36):
        w = _rand_walk(rng, conn, cs[int(rng.integers(len(cs)))], int(rng.integers(1, 30)))
        mode = k % 9
        i = int(rng.integers(len(w)))
        if mode == 1:  # one cell replaced by a random cell
            w[i] = cs[int(rng.integers(len(cs)))]
        elif mode == 2:  # a step through a wall / a jump appended
            a = w[-1]
            cand = [b for b in [(a[0] + 1, a[1]), (a[0] - 1, a[1]), (a[0], a[1] + 1), (a[0], a[1] - 1)] if 0 <= b[0] < r and 0 <= b[1] < c and b not in mz.nbrs(conn, a)]
            w.append(cand[int(rng.integers(len(cand)))] if cand else (a[0], a[1]))
        elif mode == 3:  # out of bounds: one coordinate pushed to -1 / R / C
            a = list(w[i])
            j = int(rng.integers(2))
            a[j] = [-1, (r, c)[j]][int(rng.integers(2))]
            w[i] = tuple(a)
        elif mode == 4:  # in range for the other axis only (matters on oblong grids)
            w[i] = (max(r, c) - 1, 0) if c > r else (0, max(r, c) - 1)
        elif mode == 5:  # stay in place
            w.insert(i, w[i])
        elif mode == 6:  # diagonal / distance-2 step appended
            a = w[-1]
            d = [(1, 1), (1, -1), (-1, 1), (0, 2), (2, 0), (-2, 0), (0, -2)][int(rng.integers(7))]
            w.append((a[0] + d[0], a[1] + d[1]))
        elif mode == 7:  # walk to the border and step outside
            a = w[-1]
            w.append([(-1, a[1]), (r, a[1]), (a[0], -1), (a[0], c)][int(rng.integers(4))])
        out.append(w)
    return out


def _pairs(rng, r, c):
    cs = mz.cells(r, c)
    if r * c <= 36:
        return [(a, b) for a in cs for b in cs]
    out = []
    for a in cs:
        for d in [(0, 0), (1, 0), (-1, 0), (0, 1), (0, -1), (1, 1), (1, -1), (-1, 1), (-1, -1), (2, 0), (0, 2), (-2, 0), (0, -2)]:
            b = (a[0] + d[0], a[1] + d[1])
            if 0 <= b[0] < r and 0 <= b[1] < c:
                out.append((a, b))
    for _ in range(150):
        out.append((cs[int(rng.integers(len(cs)))], cs[int(rng.integers(len(cs)))]))
    return out


def _solutions(rng, conn, small):
    r, c = conn.shape[1:]
    cs = mz.cells(r, c)
    if small:
        return [p for s in cs for t in cs for p in mz.all_shortest(conn, s, t)]
    out = [[cs[int(rng.integers(len(cs)))]]]
    # class H: one-cell solutions on a cell of the lowest and of the highest degree and in two corners; two-cell
    # solutions in both directions (every option of the fork queries is asked for each of them)
    by_deg = sorted(cs, key=lambda a: (len(mz.nbrs(conn, a)), a))
    out += [[by_deg[0]], [by_deg[-1]], [(0, 0)], [(r - 1, c - 1)]]
    for a in (by_deg[-1], by_deg[len(by_deg) // 2], (r - 1, c - 1)):
        nb = mz.nbrs(conn, a)
        if nb:
            b = nb[int(rng.integers(len(nb)))]
            out += [[a, b], [b, a]]
    for _ in range(5):
        s = cs[int(rng.integers(len(cs)))]
        comp = sorted(mz.bfs(conn, s))
        p = _bfs_path(conn, s, comp[int(rng.integers(len(comp)))])
        out.append(p)
    for _ in range(4):
        out.append(_rand_walk(rng, conn, cs[int(rng.integers(len(cs)))], int(rng.integers(2, 40)), simple=True))
    return out


def _nonsimple(rng, conn, small):
    """walks that revisit cells (there and back, random walks retraced): SolvedMaze accepts any cell sequence, but the
    statement's 'solutions' need not include them -> judged as Layer M (M:nonsimple_solution:...)"""
    cs = mz.cells(*conn.shape[1:])
    edges = [(a, b) for a in cs for b in mz.nbrs(conn, a)]
    if not edges:
        return []
    out = [[a, b, a] for a, b in (edges if small and len(edges) <= 8 else [edges[int(rng.integers(len(edges)))] for _ in range(4)])]
    for _ in range(3):
        w = _rand_walk(rng, conn, edges[int(rng.integers(len(edges)))][0], int(rng.integers(3, 9)))
        out.append(w + w[-2::-1][: int(rng.integers(1, len(w)))])
    return out


def _gen_conn(rng, kind, r, c, obj=False):
    """-> connection array, or with obj=True the generator's own maze object (generation metadata present) / None"""
    from maze_dataset.generation import LatticeMazeGenerators as G

    if obj and (not kind.startswith("dfs") or min(r, c) < 2):
        return None
    if kind == "full":
        return mz.rand_conn(rng, r, c, 2.0)
    if kind == "empty":
        return np.zeros((2, r, c), dtype=bool)
    if kind.startswith("perc") or min(r, c) < 2:
        return mz.rand_conn(rng, r, c, float(rng.choice([0.15, 0.3, 0.5, 0.7, 0.9])))
    import random

    np.random.seed(int(rng.integers(0, 2**31)))
    random.seed(int(rng.integers(0, 2**31)))
    if kind == "dfs":
        g = G.gen_dfs(np.array([r, c]))
    elif kind == "dfs_perc":
        g = G.gen_dfs_percolation(np.array([r, c]), p=float(rng.choice([0.1, 0.3])))
    elif kind == "dfs_partial":
        g = G.gen_dfs(np.array([r, c]), accessible_cells=int(max(1, r * c // 2)))
    else:
        raise ValueError(kind)
    return g if obj else g.connection_list


FORCED = [(15, 15), (15, 1), (1, 15), (15, 2), (2, 15), (14, 15), (15, 14), (15, 15), (1, 1), (10, 12), (12, 10), (13, 13), (2, 5), (5, 2), (3, 7), (7, 3), (2, 4), (4, 2), (5, 2), (2, 5), (7, 3), (3, 7), (4, 2), (2, 4)]
KINDS = ["perc", "dfs", "dfs_perc", "perc", "dfs_partial", "perc", "full", "perc", "dfs", "empty", "dfs_perc"]


def _random_case(seed, k, maxn):
    rng = np.random.default_rng([seed, 2, k])
    if k < len(FORCED):
        r, c = FORCED[k]
    elif k % 4 == 0:
        r = c = int(rng.integers(1, maxn + 1))
    elif k % 4 == 1:
        r = int(rng.integers(1, maxn + 1))
        c = int(rng.integers(1, maxn))
        c = c + 1 if c >= r else c  # r != c
    elif k % 4 == 2:
        r, c = int(rng.choice([1, 2, maxn - 1, maxn])), int(rng.integers(1, maxn + 1))
        if rng.random() < 0.5:
            r, c = c, r
    else:
        r, c = int(rng.integers(2, maxn + 1)), int(rng.integers(2, maxn + 1))
    kind = KINDS[k % len(KINDS)]
    gen = None
    try:
        if k % 3 == 1:  # class F: the generator's own object (generation metadata present) instead of a rebuilt maze
            gen = _gen_conn(rng, kind, r, c, obj=True)
        conn = _gen_conn(rng, kind, r, c) if gen is None else np.array(gen.connection_list)
        if conn.shape != (2, r, c) or conn.dtype.kind != "b":
            raise ValueError("generator output")
    except Exception:  # noqa: BLE001 - the generators are not C13's subject: fall back to plain percolation
        kind, conn, gen = "perc_fallback", mz.rand_conn(rng, r, c, 0.5), None
    return rng, r, c, kind, np.asarray(conn, dtype=bool), gen


# ------------------------------------------------------------------ observation (real code)
def _cl(x):
    return [int(x[0]), int(x[1])]


class Malformed(Exception):
    """an output whose SHAPE is not the documented one (recorded like an exception, judged by the oracle)"""


def _arr(v, ndim, tail=None):
    a = np.asarray(v)
    if a.size == 0:
        return []
    if a.ndim != ndim or a.dtype.kind not in "iub" or (tail is not None and tuple(a.shape[-len(tail):]) != tail):
        raise Malformed(f"shape {a.shape} dtype {a.dtype}")
    return a.astype(int).tolist()


def _cells_out(v):
    return _arr(v, 2, (2,))


def _vec_out(v, n=None):
    out = _arr(v, 1)
    if n is not None and len(out) != n:
        raise Malformed(f"length {len(out)} != {n}")
    return out


def _scribble(x):
    """overwrite a value RETURNED by the library in place: a later call must not see this (no aliasing of
    internal / cached state)"""
    if isinstance(x, tuple):
        for y in x:
            _scribble(y)
    elif isinstance(x, np.ndarray):
        if x.size and x.flags.writeable:
            try:
                x[...] = ~x if x.dtype.kind == "b" else x + 3
            except Exception:  # noqa: BLE001
                pass
    elif isinstance(x, list):
        x.insert(0, 97)


VIEWS = ["nodes", "deg", "nb", "nc", "comp", "paths", "adj", "isconn", "sols"]


# ---- classes E / G: every array argument is the caller's OWN mutable ndarray in one of several representations
OVERWRITE = 101  # differs from every coordinate the driver ever passes (sides <= 90, out of bounds -2..92)


def _own_coord(a, mode):
    """one cell as the caller's own (2,) array: platform int / int8 / int16 / int32, contiguous or a strided view"""
    mode %= 6
    if mode == 0:
        return np.array(a)
    if mode == 1:
        return np.array(a, dtype=np.int8)
    if mode == 2:
        return np.array([a[0], 55, a[1]])[::2]  # non-contiguous view
    if mode == 3:
        return np.array([[7, 7], [a[0], a[1]]], dtype=np.int32)[1]  # a row of a larger array
    if mode == 4:
        return np.array(a, dtype=np.int16)
    return np.array([[a[0], 9], [a[1], 9]], dtype=np.int8)[:, 0]  # int8 column view


def _own_cells(p, mode):
    """a sequence of cells (candidate path / solution) as the caller's own (n, 2) array"""
    mode %= 6
    base = np.array(p, dtype=int).reshape(-1, 2)
    if mode == 0:
        return base.copy()
    if mode == 1:
        return base.astype(np.int8)
    if mode == 2:
        return np.asfortranarray(base.astype(np.int32))
    if mode == 3:  # every second row of a larger array
        big = np.full((2 * len(base), 2), 77, dtype=np.int64)
        big[::2] = base
        return big[::2]
    if mode == 4:  # negative column stride
        return np.ascontiguousarray(base[:, ::-1]).astype(np.int16)[:, ::-1]
    big = np.full((len(base), 4), 66, dtype=np.int8)  # int8, every second column of a wider array
    big[:, ::2] = base
    return big[:, ::2]


def _own_edges(batch, mode):
    """a batch of cell pairs as the caller's own (n, 2, 2) array"""
    mode %= 6
    base = np.array(batch, dtype=int).reshape(-1, 2, 2)
    if mode == 0:
        return base.copy()
    if mode == 1:
        return base.astype(np.int8)
    if mode == 2:
        return np.asfortranarray(base)
    if mode == 3:  # every second entry of a larger int8 array
        big = np.full((2 * len(base), 2, 2), 44, dtype=np.int8)
        big[::2] = base
        return big[::2]
    if mode == 4:  # axes stored in reverse order
        return np.ascontiguousarray(base.astype(np.int32).transpose(2, 1, 0)).transpose(2, 1, 0)
    return base.astype(np.int16)


def _same(a, snap):
    return a.shape == snap.shape and a.dtype == snap.dtype and bool(np.array_equal(a, snap))


# the maze object under the views: built directly, from other array layouts, through the factories, as a subclass,
# with / without generation metadata (class F / G).  "ctor" appears more often so that the plain form stays dense.
PROVENANCE = ["ctor", "fortran", "ctor", "strided", "loaded", "ctor", "solved", "targeted", "from_lattice", "meta", "from_targeted"]


def _build(conn, prov):
    L, S, T = mz.LatticeMaze, mz.SolvedMaze, mz.TargetedLatticeMaze
    r, c = (int(v) for v in conn.shape[1:])
    # hand-written generation metadata that is TRUE of this maze (visited = the component of the start cell), so that code
    # which trusts the metadata is not blamed; metadata that legitimately disagrees with the graph comes from the generator's
    # own objects (gen_dfs_percolation: visited cells of the DFS phase, edges added afterwards)
    comp0 = set(mz.bfs(conn, (0, 0)))
    meta = dict(func_name="hand_made", grid_shape=np.array([r, c]), start_coord=np.array([0, 0]), n_accessible_cells=len(comp0), max_tree_depth=2 * r * c, fully_connected=len(comp0) == r * c, visited_cells=comp0)
    if prov == "fortran":
        return L(connection_list=np.asfortranarray(conn))
    if prov == "strided":  # a view into a larger array whose other entries are all True
        big = np.ones((2, 2 * r, 2 * c), dtype=bool)
        big[:, ::2, ::2] = conn
        return L(connection_list=big[:, ::2, ::2])
    if prov == "loaded":
        return L.load(L(connection_list=conn).serialize())
    if prov == "solved":
        return S(connection_list=conn, solution=np.array([[r - 1, c - 1]]))
    if prov == "targeted":
        return T(connection_list=conn, start_pos=np.array([0, 0]), end_pos=np.array([r - 1, c - 1]))
    if prov == "from_lattice":
        return S.from_lattice_maze(lattice_maze=L(connection_list=conn, generation_meta=meta), solution=[(0, 0)])
    if prov == "meta":
        return L(connection_list=conn, generation_meta=meta)
    if prov == "from_targeted":
        return S.from_targeted_lattice_maze(T(connection_list=conn, start_pos=np.array([r - 1, 0]), end_pos=np.array([r - 1, 0])), solution=[(r - 1, 0)])
    return L(connection_list=conn)


def observe_maze(conn, rng, small, job, parity=0, m=None, order=None, scribble=False, light=False, extra_sols=(), extra_paths=(), prov=None):
    """every library call goes through call()/mz.outcome: an exception or a malformed output of the code under
    test is an OUTCOME (listed in rec['err'], rejected by the oracle), never a harness failure.
    m = an existing maze object to query again (history); order = order of the views; scribble = overwrite every
    returned array / list in place after logging it; light = fewer pairs / candidate paths;
    prov = how the maze object is built (default: PROVENANCE by parity).

    Arguments (classes E / G): every cell, path, edge batch, adjacency list and solution handed to the library is
    the caller's own mutable ndarray in a representation that rotates with the call index (_own_*).  After the call
    it is compared with a snapshot (a difference is listed in rec['argmod'] -> Layer M, the statement does not
    mention it) and then OVERWRITTEN before anything is read from the result (a result that shares memory with an
    argument is then a wrong view -> plain clause).  The maze's connection structure is compared with the logged
    one after every view (a query that edits the maze: 'argmod'; later views are judged against the logged graph)."""
    from maze_dataset.token_utils import is_connection
    from maze_dataset.utils import lattice_connection_array

    err, argmod = [], []

    def call(view, fn, default=None):
        res, v = mz.outcome(fn)
        if res != "ok":
            if view not in err:
                err.append(view)
            return default
        return v

    def take(fn, conv, args=(), view=""):
        snap = [a.copy() for a in args]
        raw = fn(*args)
        for a, s0 in zip(args, snap):
            if not _same(a, s0) and view not in argmod:
                argmod.append(view)
            if a.size and a.flags.writeable:
                a[...] = OVERWRITE  # before the result is read
        out = conv(raw)
        if scribble:
            _scribble(raw)
        return out

    if m is None:
        prov = prov or PROVENANCE[parity % len(PROVENANCE)]
        if prov != "ctor":
            # the connection structure of the OBJECT is the reference; a factory / subclass constructor that fails or yields
            # something else than a boolean (2, R, C) array is not C13's subject: fall back to the plain constructor
            m = mz.outcome(lambda: _build(conn, prov))[1]
            got = mz.outcome(lambda: np.array(m.connection_list))[1] if m is not None else None
            if got is None or got.ndim != 3 or got.shape[0] != 2 or got.dtype.kind != "b" or 0 in got.shape:
                m, prov = None, prov + "_failed_ctor"
            else:
                conn = got
        if m is None:
            m = call("LatticeMaze", lambda: mz.LatticeMaze(connection_list=conn))
    r, c = (int(v) for v in conn.shape[1:])
    cs = mz.cells(r, c)
    conn0 = np.array(conn, dtype=bool)  # snapshot of the logged structure
    rec = dict(kind="maze", job=job, prov=prov or "given", R=r, C=c, conn=mz.raw(conn0), nodes=[], deg=[], nb=[], nc=[], comp=[], paths=[], adj=[], rt=[], isconn=[], isconn0=[], sols=[], sols_m=[], err=err, argmod=argmod)
    if m is None:
        return rec

    def v_nodes():
        rec["nodes"] = call("get_nodes", lambda: take(m.get_nodes, _cells_out), [])

    def v_deg():
        rec["deg"] = call("coord_degrees", lambda: take(m.coord_degrees, lambda x: _arr(x, 2)), [])

    def v_nb():
        seq = cs if parity % 2 == 0 else cs[::-1]
        rec["nb"] = [[list(a), call("get_coord_neighbors", lambda: take(m.get_coord_neighbors, _cells_out, [_own_coord(a, parity + i)], "get_coord_neighbors"), [])] for i, a in enumerate(seq)]

    def v_nc():
        prs = _pairs(rng, r, c)
        if light and len(prs) > 400:
            prs = prs[::3]
        if parity % 2:
            prs = prs[::-1]
        out = []
        for i, (a, b) in enumerate(prs):
            xa = _own_coord(a, parity + i)
            # equal cells: alternately ONE array object for both arguments
            xb = xa if (a == b and i % 2 == 0) else _own_coord(b, parity + i // 6)
            args = [xa] if xb is xa else [xa, xb]
            out.append([a[0], a[1], b[0], b[1], call("nodes_connected", lambda: take(lambda *_: m.nodes_connected(xa, xb), lambda v: int(bool(v)), args, "nodes_connected"), 2)])
        rec["nc"] = out

    def v_comp():
        seeds = cs if r * c <= 16 else sorted({(0, 0), (0, c - 1), (r - 1, 0), (r - 1, c - 1)} | {cs[int(rng.integers(len(cs)))] for _ in range(5)})
        if light:
            seeds = seeds[:: max(1, len(seeds) // 4)]
        rec["comp"] = [[list(a), call("gen_connected_component_from", lambda: take(m.gen_connected_component_from, _cells_out, [_own_coord(a, parity + i + 1)], "gen_connected_component_from"), [])] for i, a in enumerate(seeds)]

    def v_paths():
        paths = []
        cand = _candidate_paths(rng, conn, small)
        if light:
            cand = cand[::5]
        cand = cand + [list(p) for p in extra_paths]

        def ask(p, eiv, i, how):
            arr = _own_cells(p, parity + i)
            fn = [lambda x: m.is_valid_path(x, empty_is_valid=eiv), lambda x: m.is_valid_path(x, eiv)][how % 2] if eiv is not None else (lambda x: m.is_valid_path(x))
            res, v = mz.outcome(lambda: take(fn, lambda y: int(bool(y)), [arr], "is_valid_path"))
            paths.append([[_cl(x) for x in p], int(bool(eiv)), v if res == "ok" else 2])

        for i, p in enumerate(cand):
            # shortest paths (0 / 1 / 2 cells) of the larger mazes with BOTH flags (class H); the small scope has
            # every 1- and 2-cell sequence, flags alternating
            both = len(p) == 0 or i % 16 == 0 or (not small and len(p) <= 2)
            for eiv in [False, True] if both else [bool(i % 2)]:
                ask(p, eiv, i, i // 2)
        # the empty path again: default call (no flag), then with / without the flag in the other order
        ask([], None, 1, 0)
        for eiv in (True, False):
            ask([], eiv, 2 + eiv, 1)
        rec["paths"] = paths

    def v_adj():
        adj, rt = [], []
        flags = FLAGS + [(None, None)]  # None = the default flags (shuffled both ways)
        for n_, (d0, d1) in enumerate(flags if parity % 2 == 0 else flags[::-1]):
            np.random.seed(int(rng.integers(0, 2**31)))
            fn = (lambda: m.as_adj_list()) if d0 is None else [lambda: m.as_adj_list(shuffle_d0=d0, shuffle_d1=d1), lambda: m.as_adj_list(d0, d1), lambda: m.as_adj_list(d0, shuffle_d1=d1)][(parity + n_) % 3]
            a = call("as_adj_list", fn)
            lst = call("as_adj_list", lambda: _arr(a, 3, (2, 2)), []) if a is not None else []
            adj.append([int(d0 is None or d0), int(d0 is None or d1), lst])
            if r == c and lst:
                # the list handed to from_adj_list is the caller's own copy (dtype / layout rotate), overwritten with
                # zeros after the call and BEFORE the rebuilt connection structure is read
                own = mz.outcome(lambda: [lambda x: x.copy(), lambda x: x.astype(np.int64), lambda x: np.asfortranarray(x), lambda x: np.ascontiguousarray(x.astype(np.int16).transpose(2, 1, 0)).transpose(2, 1, 0), lambda x: x][(parity + n_) % 5](a))[1]

                def rebuild():
                    snap = own.copy()
                    m2 = mz.LatticeMaze.from_adj_list(own)
                    if not _same(own, snap) and "from_adj_list" not in argmod:
                        argmod.append("from_adj_list")
                    if own is not a:
                        own[...] = 0
                    return take(lambda: m2.connection_list, lambda x: _arr(x, 3))

                res, raw2 = mz.outcome(rebuild) if own is not None else ("raise", None)
                rt.append([adj[-1][0], adj[-1][1], 1, raw2] if res == "ok" else [adj[-1][0], adj[-1][1], 0, []])
            if scribble and a is not None:
                _scribble(a)
        rec["adj"], rec["rt"] = adj, rt

    def v_isconn():
        edges = _lattice_edges(r, c)
        batch = [(a, b) for a, b in edges] + [(b, a) for a, b in edges]
        isconn = []
        own_conn = m.connection_list  # the maze's own array (its dtype / layout is part of the representation)

        def ask(bt, mode):
            arr = _own_edges(bt, mode)
            res = call("is_connection", lambda: take(lambda x: is_connection(x, own_conn), lambda x: _vec_out(x, len(bt)), [arr], "is_connection"), [2] * len(bt))
            return [[_cl(a), _cl(b), int(x)] for (a, b), x in zip(bt, res)]

        # the empty batch (a maze without lattice edges, or nothing asked): an empty answer
        res0 = mz.outcome(lambda: take(lambda x: is_connection(x, own_conn), lambda x: int(np.asarray(x).size), [_own_edges([], parity)], "is_connection"))
        rec["isconn0"] = [res0[1] if res0[0] == "ok" else -1]
        if batch:
            order_ = rng.permutation(len(batch))
            batch = [batch[int(i)] for i in order_]
            batch += batch[: 1 + len(batch) // 8]  # some edges twice in one batch, same orientation
            isconn += ask(batch, parity)
            isconn += ask(batch[:1], parity + 1)  # a batch of one
            if r == c:  # the library's own edge generator as input, as given and with swapped endpoints
                lca = call("lattice_connection_array", lambda: lattice_connection_array(r))
                lst = call("lattice_connection_array", lambda: np.asarray(_arr(lca, 3, (2, 2)))) if lca is not None else None
                if scribble and lca is not None:
                    _scribble(lca)
                if lst is not None and len(lst):
                    for arr2 in (lst, lst[:, ::-1, :]):
                        res = call("is_connection", lambda: take(lambda x: is_connection(x, own_conn), lambda x: _vec_out(x, len(arr2)), [arr2.astype(np.int8)], "is_connection"), [2] * len(arr2))
                        isconn += [[_cl(e[0]), _cl(e[1]), int(x)] for e, x in zip(arr2.tolist(), res)]
        rec["isconn"] = isconn

    def v_sols():
        cand = _solutions(rng, conn, small)
        if light and len(cand) > 12:
            cand = cand[:: len(cand) // 12]
        simple = [(p, "sols") for p in cand + [list(p) for p in extra_sols]]
        walks = _nonsimple(rng, conn, small)
        if light:
            walks = walks[:4]
        for i, (p, field) in enumerate(simple + [(p, "sols_m") for p in walks]):
            def forks():
                # the queries on ONE SolvedMaze object, in an order that depends on the solution.  The object is built
                # directly (solution = the caller's own array / list, overwritten right after construction) or through
                # the factories; the connection structure is the maze's own array.
                S, T = mz.SolvedMaze, mz.TargetedLatticeMaze
                how = (i + parity) % 5

                def construct():
                    if how in (0, 1):
                        sol = _own_cells(p, parity + i)
                        snap = sol.copy()
                        sm_ = S(connection_list=m.connection_list, solution=sol)
                        if not _same(sol, snap) and "SolvedMaze" not in argmod:
                            argmod.append("SolvedMaze")
                        sol[...] = 0
                    elif how == 2:
                        sol = [list(x) for x in p]
                        sm_ = S(connection_list=m.connection_list, solution=sol)
                        for x in sol:
                            x[:] = [0, 0]
                    elif how == 3:
                        sm_ = S.from_lattice_maze(lattice_maze=m, solution=[tuple(x) for x in p])
                    else:
                        sol = _own_cells(p, parity + i)
                        sm_ = S.from_targeted_lattice_maze(T(connection_list=m.connection_list, start_pos=np.array(p[0]), end_pos=np.array(p[-1])), solution=sol)
                        sol[...] = 0
                    return sm_

                # a constructor form that fails is not C13's subject: the plain form then (its failure is an outcome)
                sm = mz.outcome(construct)[1]
                if sm is None:
                    sm = S(connection_list=m.connection_list, solution=np.array(p))
                q = dict(
                    # the default flag: left out / by keyword / positional (class C: False is a meaningful value)
                    f=[lambda: sm.get_solution_forking_points(), lambda: sm.get_solution_forking_points(always_include_endpoints=False), lambda: sm.get_solution_forking_points(False)][(i // 2 + parity) % 3],
                    e=[lambda: sm.get_solution_forking_points(always_include_endpoints=True), lambda: sm.get_solution_forking_points(True)][(i // 3) % 2],
                    g=lambda: sm.get_solution_path_following_points(),
                )
                got = {}
                for key in [("f", "e", "g"), ("e", "g", "f"), ("f", "g", "e", "f"), ("g", "e", "f", "e")][(i + parity) % 4]:
                    raw = q[key]()
                    got[key] = [_vec_out(raw[0]), _cells_out(raw[1])]
                    if scribble or i % 2:
                        _scribble(raw)
                return [[_cl(x) for x in p]] + got["f"] + got["e"] + got["g"]

            if field == "sols_m":  # Layer M throughout: a walk that is refused is a divergence (index -1 matches no rule), not an error
                v = mz.outcome(forks)[1] or [[_cl(x) for x in p], [-1], [], [-1], [], [-1], []]
            else:
                v = call("solution_forking_points", forks)
            if v is not None:
                rec[field].append(v)

    fns = dict(nodes=v_nodes, deg=v_deg, nb=v_nb, nc=v_nc, comp=v_comp, paths=v_paths, adj=v_adj, isconn=v_isconn, sols=v_sols)
    for name in order or VIEWS:
        fns[name]()
        # the maze still has the logged connection structure (a query that edits the maze)
        now = mz.outcome(lambda: np.array(m.connection_list))[1]
        if (now is None or now.shape != conn0.shape or not np.array_equal(now, conn0)) and "maze:" + name not in argmod:
            argmod.append("maze:" + name)
    return rec


def observe_lattice(n, seed, scribble=False, job=None, nrep=0):
    """nrep: the size as int / numpy int64 / numpy int32 (class G); the pair arrays handed to manhattan_distance are the
    caller's own (dtype / layout rotate), compared with a snapshot and overwritten before the result is read (class E)"""
    from maze_dataset.utils import lattice_connection_array, lattice_max_degrees, manhattan_distance

    rng = np.random.default_rng([seed, 3, n])
    err, argmod = [], []
    n_arg = [int, np.int64, np.int32][nrep % 3](n)

    def call(view, fn, default):
        res, v = mz.outcome(fn)
        if res != "ok":
            if view not in err:
                err.append(view)
            return default
        return v

    def take(fn, conv, args=(), view=""):
        snap = [a.copy() for a in args]
        raw = fn(*args)
        for a, s0 in zip(args, snap):
            if not _same(a, s0) and view not in argmod:
                argmod.append(view)
            if a.size and a.flags.writeable:
                a[...] = OVERWRITE
        out = conv(raw)
        if scribble:
            _scribble(raw)
        return out

    lca = call("lattice_connection_array", lambda: take(lambda: lattice_connection_array(n_arg), lambda x: _arr(x, 3, (2, 2))), [])
    md = call("manhattan_distance", lambda: take(manhattan_distance, lambda x: _vec_out(x, len(lca)), [_own_edges(lca, nrep + 1)], "manhattan_distance"), []) if lca else []
    cs = mz.cells(n, n)
    pairs = [(a, b) for a in cs for b in cs] if n <= 3 else [(cs[int(rng.integers(len(cs)))], cs[int(rng.integers(len(cs)))]) for _ in range(60)] + [((0, 0), (n - 1, n - 1)), ((n - 1, 0), (0, n - 1))]
    md2 = [[list(a), list(b), call("manhattan_distance", lambda: take(manhattan_distance, int, [_own_cells([a, b], nrep + i)], "manhattan_distance"), -1)] for i, (a, b) in enumerate(pairs)]
    batch = call("manhattan_distance", lambda: take(manhattan_distance, lambda x: _vec_out(x, len(pairs)), [_own_edges(pairs, nrep)], "manhattan_distance"), [-1] * len(pairs))
    md2 += [[list(a), list(b), int(x)] for (a, b), x in zip(pairs, batch)]
    maxdeg = call("lattice_max_degrees", lambda: take(lambda: lattice_max_degrees(n_arg), lambda x: _arr(x, 2)), [])
    return dict(kind="lattice", job=job or ["lat", n, seed], n=n, lca=lca, md=md, md2=md2, maxdeg=maxdeg, err=err, argmod=argmod)


# ---- histories (class A): one process, same objects queried repeatedly, shapes in decreasing / scrambled order
HIST_SHAPES = [
    [(5, 5), (5, 3), (3, 5), (3, 3), (3, 2), (2, 3), (2, 2), (1, 2)],  # decreasing
    [(3, 2), (3, 5), (2, 3), (5, 3), (3, 2), (3, 3), (3, 3), (2, 3), (1, 3), (4, 3)],  # scrambled: same rows then wider, same cols then taller
    [(4, 4), (4, 4), (4, 4), (2, 4), (4, 2), (2, 4), (4, 1), (4, 4)],  # A-B-A on one shape (3rd = 1st graph again, new object)
    [(1, 2), (2, 2), (2, 3), (3, 3), (3, 5), (5, 5), (6, 5), (5, 6)],  # increasing
]
HIST_LATTICE = [[6, 3, 6, 2, 5, 3, 1, 6], [2, 3, 2, 7, 3, 7], [9, 8, 4, 8, 9, 4], [1, 2, 3, 4, 4, 3]]


def _use(m, conn):
    """legitimate uses of a maze between two observations (results not judged here)"""
    mz.outcome(lambda: hash(m))
    mz.outcome(lambda: m == mz.LatticeMaze(connection_list=conn.copy()))
    mz.outcome(lambda: m.as_ascii())
    mz.outcome(lambda: m.as_pixels())
    mz.outcome(lambda: m.find_shortest_path((0, 0), tuple(int(x) - 1 for x in conn.shape[1:])))


def observe_hist(seed, k):
    rng = np.random.default_rng([seed, 4, k])
    job = ["hist", seed, k]
    out = []
    first = {}
    for step, (r, c) in enumerate(HIST_SHAPES[k % len(HIST_SHAPES)]):
        if k % len(HIST_SHAPES) == 2 and step == 2:
            conn = first[(r, c)].copy()
        else:
            conn = mz.rand_conn(rng, r, c, float(rng.choice([0.35, 0.5, 0.65, 0.8])))
        first.setdefault((r, c), conn)
        small = r * c <= 9
        prov = PROVENANCE[(3 * k + step) % len(PROVENANCE)]
        m = mz.outcome(lambda: _build(conn, prov))[1]
        if m is not None and prov != "ctor":  # the object's own connection structure is the reference
            got = mz.outcome(lambda: np.array(m.connection_list))[1]
            if got is not None and got.shape == conn.shape and got.dtype.kind == "b":
                conn = got
            else:
                m = None
        orders = [VIEWS, VIEWS[::-1], [VIEWS[int(i)] for i in rng.permutation(len(VIEWS))]]
        for ps, order in enumerate(orders):
            # passes 1 and 2 overwrite everything they were given; pass 3 is a plain re-query after "using" the maze
            rec = observe_maze(conn, rng, small, job, parity=ps + step, m=m, order=order, scribble=ps < 2, light=True, prov=prov if m is not None else None)
            rec["step"] = [step, ps]
            out.append(rec)
            if ps == 1 and m is not None:
                _use(m, conn)
        # a freshly built equal maze must look the same as the much-queried one
        rec = observe_maze(conn.copy(), rng, small, job, parity=step, light=True)
        rec["step"] = [step, 3]
        out.append(rec)
    for step, n in enumerate(HIST_LATTICE[k % len(HIST_LATTICE)]):
        rec = observe_lattice(n, seed, scribble=True, job=job, nrep=k + step)
        rec["step"] = [step, 9]
        out.append(rec)
    return out


# ---- magnitude boundaries (class B): >= 128 / >= 256 cells, connections, solution cells; one long side
BIG = [(12, 12, "serp"), (16, 16, "serp"), (2, 70, "serp"), (70, 2, "serp"), (16, 16, "dfs"), (20, 20, "dfs"), (12, 12, "full"), (16, 16, "perc"), (20, 20, "serp"), (3, 90, "dfs")]


def _serpentine(r, c):
    """one Hamiltonian path: rows joined left-right, consecutive rows joined at alternating ends"""
    conn = np.zeros((2, r, c), dtype=bool)
    conn[1, :, : c - 1] = True
    path = []
    for i in range(r):
        row = [(i, j) for j in range(c)]
        path += row if i % 2 == 0 else row[::-1]
        if i < r - 1:
            conn[0, i, c - 1 if i % 2 == 0 else 0] = True
    return conn, path


def observe_big(seed, i):
    r, c, kind = BIG[i % len(BIG)]
    rng = np.random.default_rng([seed, 5, i])
    if kind == "serp":
        conn, ham = _serpentine(r, c)
        sols = [ham, ham[::-1], ham[3:140], ham[: r * c - 1]]
    else:
        try:
            conn = np.asarray(_gen_conn(rng, kind, r, c), dtype=bool)
        except Exception:  # noqa: BLE001
            conn = mz.rand_conn(rng, r, c, 0.6)
        sols = []
    # the longest shortest path from a corner, and a long self-avoiding walk
    d = mz.bfs(conn, (0, 0))
    far = max(d, key=lambda x: (d[x], x))
    sols.append(_bfs_path(conn, (0, 0), far))
    sols.append(max((_rand_walk(rng, conn, (int(rng.integers(r)), int(rng.integers(c))), 400, simple=True) for _ in range(6)), key=len))
    paths = list(sols)
    for p in sols[:3]:
        if len(p) > 130:  # broken / out of bounds far beyond index 127
            q = list(p)
            q[129] = q[5]
            paths.append(q)
            q = list(p)
            q[-1] = (r, q[-1][1])
            paths.append(q)
    rec = observe_maze(conn, rng, False, ["big", seed, i], parity=i, extra_sols=sols, extra_paths=paths)
    rec["gen"] = kind
    return rec


def observe(job):
    """job = ["g", r, c, n, seed(, shift)] | ["rand", seed, k, maxn] | ["lat", n, seed] | ["big", seed, i] -> one record;
    ["hist", seed, k] -> list of records (one process, one history)"""
    if job[0] == "g":  # optional 6th entry: shift of the representation / provenance rotation
        _, r, c, n, seed = job[:5]
        shift = job[5] if len(job) > 5 else 0
        return observe_maze(mz.conn_from_int(r, c, n), np.random.default_rng([seed, 1, r, c, n, shift]), True, list(job), n + shift)
    if job[0] == "rand":
        _, seed, k, maxn = job
        rng, r, c, kind, conn, gen = _random_case(seed, k, maxn)
        rec = observe_maze(conn, rng, r * c <= 9, list(job), k, m=gen, prov="generated" if gen is not None else None)
        rec["gen"] = kind
        return rec
    if job[0] == "hist":
        return observe_hist(job[1], job[2])
    if job[0] == "big":
        return observe_big(job[1], job[2])
    return observe_lattice(job[1], job[2], nrep=job[1])


# ------------------------------------------------------------------ canaries (hand-made, independent of the code under test)
def _synthetic():
    """three hand-written CORRECT records (a 2x3 maze with an isolated cell, a 2x2 maze satisfying the rebuild
    premise, the 2x2 lattice).  The oracle must accept them as they are and reject every corrupted copy with
    the named clause.  Nothing here is computed by the library, so a broken library cannot disturb the guard."""
    #   (0,0)-(0,1)-(0,2)
    #           |
    #   (1,0)  (1,1)-(1,2)
    a = dict(
        kind="maze", job=["synthetic", "2x3"], R=2, C=3, err=[],
        conn=[[[0, 1, 0], [0, 0, 0]], [[1, 1, 0], [0, 1, 0]]],
        nodes=[[0, 0], [0, 1], [0, 2], [1, 0], [1, 1], [1, 2]],
        deg=[[1, 3, 1], [0, 2, 1]],
        nb=[[[0, 0], [[0, 1]]], [[0, 1], [[0, 0], [0, 2], [1, 1]]], [[0, 2], [[0, 1]]], [[1, 0], []], [[1, 1], [[1, 2], [0, 1]]], [[1, 2], [[1, 1]]]],
        nc=[[0, 0, 0, 1, 1], [0, 1, 0, 0, 1], [0, 0, 1, 0, 0], [0, 0, 0, 0, 0], [0, 0, 1, 1, 0], [1, 1, 0, 1, 1], [0, 2, 1, 2, 0], [0, 0, 0, 2, 0]],
        comp=[[[0, 0], [[0, 0], [0, 1], [0, 2], [1, 1], [1, 2]]], [[1, 0], [[1, 0]]], [[1, 2], [[1, 2], [1, 1], [0, 1], [0, 0], [0, 2]]]],
        paths=[[[], 0, 0], [[], 1, 1], [[[0, 0]], 0, 1], [[[2, 0]], 0, 0], [[[0, -1]], 1, 0], [[[0, 0], [0, 1], [1, 1]], 0, 1], [[[0, 0], [1, 0]], 1, 0], [[[0, 0], [0, 1], [0, 0]], 0, 1], [[[0, 0], [0, 0]], 0, 0]],
        adj=[
            [0, 0, [[[0, 1], [1, 1]], [[0, 0], [0, 1]], [[0, 1], [0, 2]], [[1, 1], [1, 2]]]],
            [0, 1, [[[1, 1], [0, 1]], [[0, 0], [0, 1]], [[0, 2], [0, 1]], [[1, 1], [1, 2]]]],
            [1, 0, [[[1, 1], [1, 2]], [[0, 1], [0, 2]], [[0, 1], [1, 1]], [[0, 0], [0, 1]]]],
            [1, 1, [[[1, 2], [1, 1]], [[0, 1], [0, 0]], [[0, 1], [1, 1]], [[0, 2], [0, 1]]]],
        ],
        rt=[],
        isconn=[[[0, 0], [0, 1], 1], [[0, 1], [0, 0], 1], [[0, 0], [1, 0], 0], [[1, 1], [0, 1], 1], [[1, 2], [0, 2], 0], [[1, 0], [1, 1], 0]],
        sols=[
            [[[0, 0], [0, 1], [1, 1], [1, 2]], [1], [[0, 1]], [0, 1, 3], [[0, 0], [0, 1], [1, 2]], [0, 2, 3], [[0, 0], [1, 1], [1, 2]]],
            [[[0, 2], [0, 1]], [1], [[0, 1]], [0, 1], [[0, 2], [0, 1]], [0], [[0, 2]]],
            [[[0, 1]], [0], [[0, 1]], [0], [[0, 1]], [], []],
            [[[1, 0]], [], [], [0], [[1, 0]], [0], [[1, 0]]],
        ],
        argmod=[], isconn0=[0],
        # walks that revisit cells: there and back from a dead end; start on the junction, return to it, leave it
        sols_m=[
            [[[0, 0], [0, 1], [0, 0]], [1], [[0, 1]], [0, 1, 2], [[0, 0], [0, 1], [0, 0]], [0, 2], [[0, 0], [0, 0]]],
            [[[0, 1], [0, 0], [0, 1], [1, 1]], [0, 2, 3], [[0, 1], [0, 1], [1, 1]], [0, 2, 3], [[0, 1], [0, 1], [1, 1]], [1], [[0, 0]]],
        ],
    )
    #   (0,0)-(0,1)
    #           |
    #   (1,0)  (1,1)
    cn = [[[0, 1], [0, 0]], [[1, 0], [0, 0]]]
    b = dict(
        kind="maze", job=["synthetic", "2x2"], R=2, C=2, err=[], conn=cn,
        nodes=[[0, 0], [0, 1], [1, 0], [1, 1]], deg=[[1, 2], [0, 1]],
        nb=[[[0, 0], [[0, 1]]], [[0, 1], [[1, 1], [0, 0]]], [[1, 0], []], [[1, 1], [[0, 1]]]],
        nc=[[0, 0, 0, 1, 1], [1, 1, 0, 1, 1], [1, 0, 1, 1, 0], [0, 0, 1, 1, 0]],
        comp=[[[1, 1], [[0, 0], [0, 1], [1, 1]]]],
        paths=[[[], 0, 0], [[[0, 0], [0, 1], [1, 1]], 0, 1], [[[1, 0], [1, 1]], 0, 0]],
        adj=[[0, 0, [[[0, 1], [1, 1]], [[0, 0], [0, 1]]]], [1, 1, [[[0, 1], [0, 0]], [[1, 1], [0, 1]]]]],
        rt=[[0, 0, 1, cn], [1, 1, 1, cn]],
        isconn=[[[0, 0], [0, 1], 1], [[1, 1], [1, 0], 0]],
        sols=[[[[0, 0], [0, 1], [1, 1]], [], [], [0, 2], [[0, 0], [1, 1]], [0, 1, 2], [[0, 0], [0, 1], [1, 1]]]],
        argmod=[], isconn0=[], sols_m=[],
    )
    lat = dict(
        kind="lattice", job=["synthetic", "lat2"], n=2, err=[],
        lca=[[[0, 0], [0, 1]], [[1, 0], [1, 1]], [[0, 0], [1, 0]], [[0, 1], [1, 1]]], md=[1, 1, 1, 1],
        md2=[[[0, 0], [1, 1], 2], [[0, 1], [0, 1], 0], [[1, 0], [0, 0], 1]], maxdeg=[[2, 2], [2, 2]], argmod=[],
    )
    return a, b, lat


def _canaries():
    """-> (controls, [(corrupted record, clause that must reject it)])"""
    a, b, lat = _synthetic()
    out = []

    def mut(src, fn, clause):
        y = json.loads(json.dumps(src))  # no shared sub-lists
        fn(y)
        out.append((y, clause))

    mut(a, lambda y: y["nodes"].pop(), "get_nodes")
    mut(a, lambda y: y["nodes"].__setitem__(0, [0, 1]), "get_nodes")
    mut(a, lambda y: y["deg"][0].__setitem__(1, 2), "coord_degrees")  # west neighbour forgotten
    mut(a, lambda y: y["deg"][1].__setitem__(0, 1), "coord_degrees")
    mut(a, lambda y: y["nb"][1][1].pop(), "get_coord_neighbors")
    mut(a, lambda y: y["nb"][0][1].append([0, 1]), "get_coord_neighbors")  # neighbour listed twice
    mut(a, lambda y: y["nb"].pop(3), "get_coord_neighbors")  # a cell not covered
    mut(a, lambda y: y["nc"][1].__setitem__(4, 0), "nodes_connected")  # one direction only
    mut(a, lambda y: y["nc"][2].__setitem__(4, 1), "nodes_connected")  # adjacent but walled
    mut(a, lambda y: y["nc"][3].__setitem__(4, 1), "nodes_connected")  # a cell with itself
    mut(a, lambda y: y["nc"][7].__setitem__(4, 1), "nodes_connected")  # distance 2
    mut(a, lambda y: y["comp"][0][1].pop(), "connected_component")
    mut(a, lambda y: y["comp"][1][1].append([1, 1]), "connected_component")
    mut(a, lambda y: y["paths"][5].__setitem__(2, 0), "is_valid_path")
    mut(a, lambda y: y["paths"][3].__setitem__(2, 1), "is_valid_path")  # row == R accepted
    mut(a, lambda y: y["paths"][4].__setitem__(2, 1), "is_valid_path")  # column -1 accepted
    mut(a, lambda y: y["paths"][6].__setitem__(2, 1), "is_valid_path")  # step through a wall
    mut(a, lambda y: y["paths"][8].__setitem__(2, 1), "is_valid_path")  # staying in place
    mut(a, lambda y: y["paths"][0].__setitem__(2, 1), "is_valid_path_empty")
    mut(a, lambda y: y["paths"][1].__setitem__(2, 0), "is_valid_path_empty")
    mut(a, lambda y: y["adj"][3][2].pop(), "adj_list_connection_missing")
    mut(a, lambda y: y["adj"][1][2].append([[0, 1], [1, 1]]), "adj_list_connection_twice")  # same edge, other orientation
    mut(a, lambda y: y["adj"][0][2].__setitem__(0, [[0, 0], [1, 1]]), "adj_list_entry_not_a_connection")
    mut(a, lambda y: y["adj"][2][2].__setitem__(0, [[0, 0], [1, 0]]), "adj_list_entry_not_a_connection")  # a wall
    mut(a, lambda y: y["isconn"][1].__setitem__(2, 0), "is_connection")  # reversed orientation missed
    mut(a, lambda y: y["isconn"][4].__setitem__(2, 1), "is_connection")
    mut(a, lambda y: (y["sols"][0][1].pop(), y["sols"][0][2].pop()), "fork_idxs")
    mut(a, lambda y: (y["sols"][1][1].pop(), y["sols"][1][2].pop(), y["sols"][1][5].append(1), y["sols"][1][6].append([0, 1])), "fork_idxs")  # last cell treated as interior
    mut(a, lambda y: y["sols"][0][2].__setitem__(0, [1, 1]), "fork_coords")
    mut(a, lambda y: (y["sols"][0][3].pop(), y["sols"][0][4].pop()), "fork_always_include_endpoints")
    mut(a, lambda y: (y["sols"][3][3].pop(), y["sols"][3][4].pop()), "fork_always_include_endpoints")  # length-1 solution
    mut(a, lambda y: (y["sols"][0][5].pop(), y["sols"][0][6].pop()), "path_following_idxs")
    mut(a, lambda y: y["sols"][0][6].__setitem__(1, [0, 1]), "path_following_coords")
    mut(a, lambda y: (y["sols"][0][5].append(1), y["sols"][0][6].append([0, 1])), "forks_and_following_partition")
    mut(a, lambda y: y["err"].append("coord_degrees"), "raised_or_malformed:coord_degrees")
    mut(a, lambda y: y["argmod"].append("is_connection"), "M:argument_modified:is_connection")
    mut(a, lambda y: y["argmod"].append("maze:deg"), "M:argument_modified:maze:deg")
    mut(a, lambda y: y["isconn0"].__setitem__(0, -1), "M:is_connection_empty_batch")
    mut(a, lambda y: (y["sols_m"][0][1].append(2), y["sols_m"][0][2].append([0, 0])), "M:nonsimple_solution:fork_idxs")  # revisited start taken for an endpoint fork
    mut(a, lambda y: (y["sols_m"][1][1].remove(2), y["sols_m"][1][2].pop(1), y["sols_m"][1][3].remove(2), y["sols_m"][1][4].pop(1), y["sols_m"][1][5].append(2), y["sols_m"][1][6].append([0, 1])), "M:nonsimple_solution:fork_idxs")  # revisited junction not a fork
    mut(a, lambda y: y["sols_m"].__setitem__(0, [y["sols_m"][0][0], [-1], [], [-1], [], [-1], []]), "M:nonsimple_solution:fork_idxs")  # the walk was refused
    mut(lat, lambda y: y["argmod"].append("manhattan_distance"), "M:argument_modified:manhattan_distance")
    mut(b, lambda y: y["rt"][0][3][0][0].__setitem__(1, 0), "from_adj_list_roundtrip")
    mut(b, lambda y: y["rt"][1][3][1][1].__setitem__(0, 1), "from_adj_list_roundtrip")  # stored at the greater endpoint
    mut(b, lambda y: y["rt"].__setitem__(1, [1, 1, 0, []]), "from_adj_list_roundtrip")  # raised
    mut(b, lambda y: y["rt"].__setitem__(0, [0, 0, 1, [[[0]], [[0]]]]), "from_adj_list_roundtrip")  # wrong size
    mut(b, lambda y: y.__setitem__("rt", []), "from_adj_list_roundtrip")
    mut(lat, lambda y: y["lca"].__setitem__(0, y["lca"][1]), "lattice_connection_array")
    mut(lat, lambda y: y["lca"].pop(), "lattice_connection_array")
    mut(lat, lambda y: y["md2"][0].__setitem__(2, 1), "manhattan_distance")
    mut(lat, lambda y: y["md"].__setitem__(0, 0), "manhattan_distance")
    mut(lat, lambda y: y["maxdeg"][1].__setitem__(1, 3), "lattice_max_degrees")
    mut(lat, lambda y: y["err"].append("lattice_max_degrees"), "raised_or_malformed:lattice_max_degrees")
    return [a, b, lat], out


def _judge_canaries(chk):
    controls, canaries = _canaries()
    recs = []
    for i, x in enumerate(controls + [c for c, _ in canaries]):
        x["id"] = lib.CANARY_BASE + i
        recs.append(x)
    res = lib.oracle("Trace_Views", recs, tag="canary", shards=1)
    for x in controls:
        if x["id"] in res.verdicts:
            raise lib.MachineryError(f"hand-made correct record {x['job']} rejected by Trace_Views: {res.verdicts[x['id']]}")
    for c, cl in canaries:
        got = res.verdicts.get(c["id"], [])
        if cl not in got:
            raise lib.MachineryError(f"canary not rejected by Trace_Views: expected clause {cl!r}, got {got} (oracle does not bind this field)")
    chk.notes["canaries_rejected"] = len(canaries)
    chk.notes["controls_accepted"] = len(controls)
    chk.states += res.states
    chk.transitions += res.transitions


def _nontrivial(x):
    """a maze with at least one connection and at least one wall between adjacent cells"""
    if x["kind"] != "maze":
        return x["n"] >= 2
    ne = int(np.sum(np.array(x["conn"])))
    return 0 < ne < 2 * x["R"] * x["C"] - x["R"] - x["C"]


def _case(x):
    return {k: x[k] for k in x if k != "id"}


SMALL = [(1, 1), (1, 2), (2, 1), (1, 3), (3, 1), (2, 2), (2, 3), (3, 2), (1, 4), (4, 1)]


def main(chk: lib.Check) -> int:
    import concurrent.futures as cf

    thorough = chk.tier == "thorough"
    chk.rule = (
        "cases = mazes (one record per connection structure carrying all views: every cell for neighbours/degrees, every ordered cell "
        "pair up to 6x6 (larger: all pairs at distance <= 2 + 150 random), components from every cell (<=16 cells) or corners + random cells, "
        "candidate paths (all cell sequences of length <= 2 over the grid plus a one-cell border, all/some length-3, random walks kept valid / "
        "broken / out of bounds / empty with both flags), as_adj_list under all 4 shuffle flag combinations + defaults, from_adj_list of each, "
        "is_connection on all lattice edges in both orientations, forks on all shortest solutions of all ordered pairs (small) or BFS + "
        "self-avoiding solutions (large)); exhaustive over all graphs of the listed small shapes, seeded random graphs (percolation, dfs, "
        "dfs+percolation, partial dfs, full) up to 15x15 incl. oblong and 1xn; histories: one maze object queried 3x in forward / reversed / "
        "scrambled view order with all returned arrays overwritten in between + a fresh equal maze, shapes in decreasing / scrambled / A-B-A / "
        "increasing order in one process; magnitudes: 12x12..20x20, 2x70, 70x2, 3x90 with solutions of 140..400 cells; "
        "arguments: every cell / path / edge batch / adjacency list / solution is the caller's own ndarray (int64, int8, int16, int32; "
        "contiguous, Fortran-ordered, strided views), compared with a snapshot after the call and overwritten before the result is read; "
        "the maze object is built directly, from Fortran-ordered / strided arrays, by load(serialize()), as SolvedMaze / TargetedLatticeMaze, "
        "through from_lattice_maze / from_targeted_lattice_maze, with generation metadata, or is the generator's own object; flags by keyword, "
        "positional and left out; one- and two-cell paths and solutions with every flag on the larger mazes; empty and one-edge batches; "
        "non-trivial = at least one connection and one wall"
    )
    # ---- (A) design-level model checking, started in the background while the real code is observed
    ex = cf.ThreadPoolExecutor(max_workers=3)
    fut = {
        "small": ex.submit(lib.tlc_design, "GraphViews", "GraphViews_small.cfg", expect_actions=["AddAny", "RemoveAny"], tag="s", workers=4),
        # quick: on 3x3 the pair / neighbour / degree / component / adjacency-list / rebuild invariants; the path-enumerating
        # invariants and the one-edge action property are exhaustive on the smaller shapes and on 3x3 in thorough
        "3x3": ex.submit(lib.tlc_design, "GraphViews", "GraphViews_3x3.cfg" if thorough else "GraphViews_3x3_core.cfg", tag="3", workers=8),
    }
    if thorough:
        fut["wide"] = ex.submit(lib.tlc_design, "GraphViews", "GraphViews_wide.cfg", tag="w", workers=4)

    # ---- (C) observations
    jobs = []
    # every graph of the small shapes under several rotations of (maze provenance, argument representation, call form):
    # quick 2 of the 11 rotations, thorough all 11 (+ every graph of 2x4 / 4x2 once)
    for rr, cc in SMALL:
        jobs += [["g", rr, cc, n, chk.seed, sh] for n in range(mz.n_graphs(rr, cc)) for sh in (range(len(PROVENANCE)) if thorough else (0, 4))]
    if thorough:
        for rr, cc in [(2, 4), (4, 2)]:
            jobs += [["g", rr, cc, n, chk.seed] for n in range(mz.n_graphs(rr, cc))]
    rng = np.random.default_rng(chk.seed)
    n33 = mz.n_graphs(3, 3)
    g33 = list(range(n33)) if thorough else sorted(rng.choice(n33, size=400, replace=False).tolist())
    jobs += [["g", 3, 3, int(n), chk.seed] for n in g33]
    nrand = 3000 if thorough else 320
    jobs += [["rand", chk.seed, k, 15] for k in range(nrand)]
    jobs += [["lat", n, chk.seed] for n in range(1, 16)]
    # class A: histories (same object re-queried in other orders after its outputs were overwritten, shapes in decreasing /
    # scrambled / A-B-A order within one process); class B: >= 128 / >= 256 cells, connections, solution cells
    jobs += [["hist", chk.seed, k] for k in range(48 if thorough else 12)]
    jobs += [["big", chk.seed, i] for i in range(2 * len(BIG) if thorough else len(BIG))]
    recs = []
    for x in lib.pmap(observe, jobs, chunksize=4):
        recs += x if isinstance(x, list) else [x]
    for i, x in enumerate(recs):
        x["id"] = i
    res = lib.oracle("Trace_Views", recs, tag="maze")
    chk.add_oracle("Trace_Views", res, "raw outputs of all graph views of one maze judged against GraphViews.tla")
    chk.judge({x["id"]: _case(x) for x in recs}, res, label="maze")
    # canaries: hand-made correct records must be accepted, each corrupted copy rejected with the named clause
    _judge_canaries(chk)
    tot = dict(mazes=0, cells=0, pairs=0, components=0, paths=0, adj_lists=0, rebuilds=0, edge_tests=0, solutions=0, oblong=0, max_cells=0)
    for x in recs:
        chk.count([x.get("R"), x.get("C"), x.get("conn"), x.get("n")], _nontrivial(x))
        if x["kind"] == "maze":
            tot["mazes"] += 1
            tot["cells"] += len(x["nb"])
            tot["pairs"] += len(x["nc"])
            tot["components"] += len(x["comp"])
            tot["paths"] += len(x["paths"])
            tot["adj_lists"] += len(x["adj"])
            tot["rebuilds"] += len(x["rt"])
            tot["edge_tests"] += len(x["isconn"])
            tot["solutions"] += len(x["sols"])
            tot["oblong"] += x["R"] != x["C"]
            tot["max_cells"] = max(tot["max_cells"], x["R"] * x["C"])
    chk.notes["view_evaluations"] = tot
    mrecs = [x for x in recs if x["kind"] == "maze"]
    chk.notes["maze_object_provenance"] = {p: sum(1 for x in mrecs if x.get("prov") == p) for p in sorted({x.get("prov") for x in mrecs})}
    chk.notes["argument_aliasing"] = (
        "every array argument is the caller's own object: snapshot -> call -> compare (M:argument_modified) -> overwrite -> read the result; "
        f"calls that modified an argument or the maze: {sum(len(x['argmod']) for x in recs)}; "
        f"walks that revisit cells judged as Layer M: {sum(len(x['sols_m']) for x in mrecs)}; "
        f"one-/two-cell solutions: {sum(1 for x in mrecs for s in x['sols'] if len(s[0]) <= 2)}; one-/two-cell paths: {sum(1 for x in mrecs for q in x['paths'] if 1 <= len(q[0]) <= 2)}"
    )
    chk.notes["history_records"] = sum(1 for x in recs if x["job"][0] == "hist")
    chk.notes["magnitude_cases"] = [[x["R"], x["C"], x.get("gen"), max((len(s[0]) for s in x["sols"]), default=0)] for x in recs if x["job"][0] == "big"]
    small_rec = next(x for x in recs if x["kind"] == "maze" and x["R"] == 2 and x["C"] == 2 and _nontrivial(x))
    chk.sample({k: small_rec[k] for k in ("R", "C", "conn", "nodes", "deg", "nb", "comp", "adj", "rt", "isconn")} | {"sols": small_rec["sols"][:3], "paths": small_rec["paths"][:5]})
    big = next(x for x in recs if x["job"][0] == "rand" and x["R"] * x["C"] > 9)
    chk.sample({k: big[k] for k in ("R", "C", "gen")} | {"deg": big["deg"], "sols": big["sols"][:2], "paths": big["paths"][1:4]})
    chk.exhaustive = True
    chk.notes["exhaustive_scope"] = "all graphs of shapes " + str(SMALL + ([(3, 3), (2, 4), (4, 2)] if thorough else [])) + ("" if thorough else " + seeded 400 of the 4096 3x3 graphs")
    from maze_dataset.utils import lattice_max_degrees

    chk.notes["outside_statement"] = f"lattice_max_degrees(1) = {mz.outcome(lambda: np.asarray(lattice_max_degrees(1)).tolist())} (a 1x1 lattice has max degree 0); not judged"

    # ---- (A) collect the design models, non-vacuity variants
    r = fut["small"].result()
    chk.add_model("GraphViews/small", r, "all graphs of shapes <= 2x3/3x2: graph-level views = array-level formulas, premise, forks, locality of one edge")
    r = fut["3x3"].result()
    chk.add_model("GraphViews/3x3", r, "all 4096 graphs of 3x3, " + ("same invariants" if thorough else "invariants without path enumeration / action property"))
    if thorough:
        r = fut["wide"].result()
        chk.add_model("GraphViews/wide", r, "1x4,4x1,2x4,4x2")
    ex.shutdown()
    r = lib.tlc_expect_violation("GraphViews", "GraphViews_bugwest.cfg", "InvNeighbours", tag="bw", workers=2)
    chk.add_model("GraphViews/bugwest", r, "degree slices without the west neighbour: rejected")
    r = lib.tlc_expect_violation("GraphViews", "GraphViews_bugsort.cfg", "InvPairs", tag="bs", workers=2)
    chk.add_model("GraphViews/bugsort", r, "batch edge test without endpoint sort: rejected")
    chk.assumptions = [
        "TLC, CommunityModules JSON reader, CPython/numpy",
        "the driver lists faithfully which inputs it passed (pairs, paths, solutions) and the raw outputs",
        "3x3 sampled in quick; graphs beyond 3x3 (and 1x4/4x1) are sampled, not exhaustive; connection arrays are in-grid (documented invariant)",
        "from_adj_list judged for square mazes under the stated premise only (documented square-only)",
    ]
    return chk.finish(
        "GraphViews.tla model-checked on every graph of every shape <= 3x3 (views mutually consistent, two wrong variants rejected); "
        "raw outputs of every real view judged per maze by Trace_Views.tla"
    )


def replay(path: str) -> int:
    d = json.load(open(path))
    job = d["case"]["job"]
    recs = observe(job)
    recs = recs if isinstance(recs, list) else [recs]
    for i, x in enumerate(recs):
        x["id"] = i
    out = lib.oracle("Trace_Views", recs, tag="rp", shards=1)
    print("replay:", job, "verdicts:", out.verdicts)
    # Layer-M clauses (M:...) are model divergences, never violations
    if any(not cl.startswith("M:") for cls in out.verdicts.values() for cl in cls):
        print(f"VIOLATION property=C13 replay={path}")
        return 1
    return 0
