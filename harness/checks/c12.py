"""C12 — generation metadata tells the truth about reachability (and constrained-DFS shape rules).

Same models and the same executions of the real generators as C01 (harness/checks/gen_common.py),
judged by GenOracle!Clauses12; in addition every observed maze gets generate_random_path() draws whose
endpoints must be mutually reachable.
"""
import copy
import json

from harness import lib
from harness.checks import gen_common as gc


def canaries():
    """hand-made records (independent of the code under test), each violating (at least) the named clause"""
    out = []
    a = gc.synth()
    a["m_vis"] = a["m_vis"][:-1]
    out.append((a, "visited_cells_not_the_reachable_set"))
    b = gc.synth()
    b["m_fully"] = False
    out.append((b, "dfs_flag_not_iff_connected"))
    c = gc.synth()
    c["conn"][0][0][1] = 1  # one more in-grid edge: a cycle
    out.append((c, "dfs_not_a_tree_on_visited"))
    e = gc.synth()
    e["acc"] = 8
    e["dflt"] = False
    out.append((e, "dfs_more_cells_than_accessible"))
    part_edges = [((0, 0), (0, 1)), ((0, 1), (1, 1))]
    f = gc.synth(edges=part_edges, acc=3)
    f["m_fully"] = True
    out.append((f, "flagged_fully_connected_but_is_not"))
    w = gc.synth(gen="gen_wilson", edges=part_edges)
    w["m_fully"] = True
    out.append((w, "flagged_fully_connected_but_is_not"))
    g = gc.synth(edges=part_edges, acc=3)
    g["m_has_vis"] = False
    g["m_vis"] = []
    out.append((g, "unflagged_without_visited_cells"))
    h = gc.synth(edges=part_edges, acc=4)
    out.append((h, "dfs_cell_count_not_exact"))
    i_ = gc.synth(edges=part_edges, acc=3)
    i_["ends"] = [[[0, 0], [2, 2]]]
    out.append((i_, "random_endpoints_not_mutually_reachable"))
    j = gc.synth(forks=False)  # the comb has degree-3 cells
    out.append((j, "dfs_no_forks_not_a_corridor"))
    pc = gc.synth(gen="gen_percolation", edges=part_edges, pk="mid", start=(2, 2), vis=[(0, 0), (0, 1), (1, 1)], fully=False)
    pc["m_has_fully"] = False
    out.append((pc, "visited_cells_not_the_reachable_set"))
    return out


def _nontrivial(r):
    """a partially connected maze, or constrained arguments, on a grid with >= 4 cells"""
    n = r["R"] * r["C"]
    return n >= 4 and (not r["m_fully"] or r["acc"] != -1 or r["maxd"] != -1 or not r["forks"] or r["pk"] != "none")


def main(chk: lib.Check) -> int:
    thorough = chk.tier == "thorough"
    chk.rule = (
        "cases = generator calls (generator, shape, kwargs, random execution) as for C01: every random execution of the real gen_dfs/gen_prim over the "
        "argument matrix accessible_cells (count and fraction) x max_tree_depth x do_forks x start on small grids, every coin array of the percolation "
        "generators on <= 2x2 (thorough 2x3), every reachable output of gen_wilson on small grids, plus seeded natural runs on shapes 1..8 x 1..8; each maze also gets "
        "generate_random_path() draws (2 per enumerated, 12 per natural maze). non-trivial = >= 4 cells and (not fully connected or constrained arguments or percolation)"
    )
    gc.design_models(chk, thorough)
    recs, raised, tr_dfs, tr_wil, stats = gc.collect(chk, thorough, n_ends_enum=2, n_ends_nat=12)
    chk.notes.update(observation=stats)
    orecs = [gc.for_oracle(r) for r in recs]
    lib.judge_with_canaries(chk, "Trace_Gen12", orecs, canaries(), label="gen", what="final outputs + generation_meta of real generator calls judged by GenOracle!Clauses12",
                            case_of=lambda x: recs[x["id"]])
    for r in recs:
        chk.count([r["gen"], r["R"], r["C"], r["kwj"], r["conn"], r["m_vis"]], _nontrivial(r))
    chk.notes["endpoint_draws"] = sum(len(r["ends"]) for r in recs)
    picks = [r for r in recs if _nontrivial(r)]
    for i in (0, len(picks) // 2, len(picks) - 1):
        chk.sample({k: picks[i][k] for k in ("gen", "R", "C", "kwj", "conn", "m_vis", "m_fully", "m_start", "ends", "src")})
    gc.step_traces(chk, tr_dfs, tr_wil)
    if stats["tracer_unavailable"]:
        print(f"MODEL-DIVERGENCE property=C12 loop-head snapshots unavailable for {stats['tracer_unavailable']} runs (Layer M reduced)")
        chk.divergences.append(("M:tracer_unavailable", "trace"))
    chk.exhaustive = not stats["unscripted"]
    chk.notes["exhaustive_scope"] = "every random execution of the enumerated jobs (see rule) except capped jobs listed in observation.enum_incomplete"
    chk.assumptions = ["TLC, CommunityModules JSON reader, CPython/numpy", "RNG reaches the generators only through the scripted entry points (checked)", "accessible_cells / max_tree_depth given as floats are dyadic so int(f*n) is exact", "grids beyond the enumerated shapes are sampled"]
    return chk.finish("MetaTruth / DoneCount / Corridor / TreeOnVisited hold in every state of the generator models; every random execution of the real generators on small grids and seeded natural runs judged by the TLA+ clauses")


def replay(path: str) -> int:
    d = json.load(open(path))
    case = d["case"]
    rec = gc.replay_record(case) or case
    if "raised" in rec:
        print("replay: generator raised", rec["raised"])
        return 0
    o = gc.for_oracle(rec)
    o["id"] = 0
    out = lib.oracle("Trace_Gen12", [o], tag="rp")
    print("replay verdict:", out.verdicts.get(0, []))
    if out.verdicts.get(0):
        print(f"VIOLATION property=C12 replay={path}")
        return 1
    return 0
