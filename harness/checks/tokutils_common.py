"""Token / coordinate utility layer (TokenUtils.tla) - a growth stage attached to C07.

maze_dataset/token_utils.py and maze_dataset/utils.py hold the helpers every tokenizer-facing piece of code leans on
(tokens_between and the region getters, the coordinate lexer str_is_coord / coord_str_to_tuple / coords_string_split_UT /
strings_to_coords / coords_to_strings, equal_except_adj_list_sequence, the direction helpers, connection_list_to_adj_list,
is_connection, bool_array_from_string, ...).  No listed property covers them directly, so EVERYTHING here is Layer M:
a disagreement of the real code with TokenUtils.tla prints MODEL-DIVERGENCE and never fails the check.

(A) TokenUtils.tla is model-checked: the coordinate lexer as a state machine over characters (= the definition of a UT
    coordinate string, with the same value), the splitter machine (= the regular expression's definition, partition
    and round-trip theorems), tokens_between as a one-pass machine (= its definition; slice / error theorems), the
    false positives of equal_except_adj_list_sequence (NoFalsePositive must FAIL for CTT - documented - and for UT),
    theorems about directions / adjacency lists / strings; three deliberately broken variants must be rejected.
(C) Trace_TokenUtils.tla judges raw observations of the real functions: exhaustive small scopes + seeded random
    larger inputs + real tokenized mazes of legacy and modular tokenizers.  A raise is an observation (its TYPE name is
    logged), a value of an unexpected type is an observation ("badtype:<Type>"), never a harness crash.

Documented-vs-actual deviations found on the unchanged tree (the spec states the documentation, the oracle tolerates
exactly these cases, see TokenUtils!Quirk*):
  * tokens_between(include_start=False, include_end=False) raises AssertionError("Start must come before end") when the
    end delimiter directly follows the start delimiter (documented result: []); reachable through get_target_tokens on
    a real PromptSequencers.AOP tokenization ("<TARGET_START> <TARGET_END>") and get_adj_list_tokens on an edgeless maze;
  * str_is_coord / coord_str_to_tuple_noneable / strings_to_coords accept surplus outer parentheses ("((0,0)", "(0,0))");
  * get_path_tokens(trim_end=False) returns everything up to the END OF THE LIST (padding after <PATH_END> included), not
    "to the path_end token";
  * lattice_max_degrees(1) = [[2]] (the only cell of a 1x1 lattice has no neighbour);
  * equal_except_adj_list_sequence: the docstring warns of false positives for CoordTokenizers.CTT only; TLC finds one for UT
    tokens as well (two vertical vs two horizontal connections of a 2x2 maze: equal degree vectors) - not a tolerance, the
    definition (bag of TOKENS) is what the code does; it is the docstring's claim that is too narrow.
"""
import concurrent.futures as cf
import itertools
import json
import random
import re
import time

import numpy as np

from harness import lib, mz

ORACLE = "Trace_TokenUtils"
AS, AE, OS, OE, TS, TE, PS, PE = "<ADJLIST_START>", "<ADJLIST_END>", "<ORIGIN_START>", "<ORIGIN_END>", "<TARGET_START>", "<TARGET_END>", "<PATH_START>", "<PATH_END>"
PAD = "<PADDING>"
LEX_ALPHABET = ["(", ")", ",", " ", "0", "1", "9", "a"]
LEX_SUB = ["(", ")", ",", " ", "0"]
FLAGS = [(a, b, u) for a in (False, True) for b in (False, True) for u in (False, True)]
MODES = ["skip", "include", "error", "bogus"]
THEMES = {"A": dict(S=AS, E=AE, P=PS, Q=PE, x="(0,1)"), "O": dict(S=OS, E=OE, P=TS, Q=TE, x="(0,1)")}


def _tu():
    import maze_dataset.token_utils as TU

    return TU


# ------------------------------------------------------------------ outcomes (a raise / a wrong type is an observation)
def _oc(fn, conv):
    try:
        v = fn()
    except BaseException as e:  # noqa: BLE001 - the code under test may raise anything
        if isinstance(e, (KeyboardInterrupt, SystemExit)):
            raise
        return "raise:" + type(e).__name__, None
    try:
        return "ok", conv(v)
    except Exception:  # noqa: BLE001
        return "badtype:" + type(v).__name__, None


def _toks(v):
    if not isinstance(v, (list, tuple)) or not all(isinstance(x, str) for x in v):
        raise TypeError
    return list(v)


def _int(x):
    if isinstance(x, (bool, np.bool_)) or not isinstance(x, (int, np.integer)):
        raise TypeError
    if abs(int(x)) >= 2**31:
        raise TypeError
    return int(x)


def _ints(v):
    if not isinstance(v, (list, tuple, np.ndarray)):
        raise TypeError
    return [_int(x) for x in v]


def _bool(v):
    if not isinstance(v, (bool, np.bool_)):
        raise TypeError
    return bool(v)


def _items(v):
    if not isinstance(v, (list, tuple)):
        raise TypeError
    return [dict(k="s", v=[], s=x) if isinstance(x, str) else dict(k="c", v=_ints(x), s="") for x in v]


def _bad(*_):
    raise TypeError


def _ro(fn, conv=_toks):
    r, v = _oc(fn, conv)
    return dict(r=r, o=v if r == "ok" else [])


# ------------------------------------------------------------------ observations of the real functions
def obs_lex(s):
    TU = _tu()
    rec = dict(t="lex", cs=list(s))
    for key, ws in (("i1", True), ("i0", False)):
        r, v = _oc(lambda: TU.str_is_coord(s, ws), _bool)
        rec[key] = ("T" if v else "F") if r == "ok" else r
    for key, fn in (("t1", lambda: TU.coord_str_to_tuple(s, True)), ("t0", lambda: TU.coord_str_to_tuple(s, False)), ("np", lambda: TU.coord_str_to_coord_np(s, True))):
        r, v = _oc(fn, _ints)
        rec[key] = dict(r=r, v=v if r == "ok" else [])
    r, v = _oc(lambda: TU.coord_str_to_tuple_noneable(s), lambda x: dict(none=True, v=[]) if x is None else dict(none=False, v=_ints(x)))
    rec["no"] = dict(r=r, **(v if r == "ok" else dict(none=False, v=[])))
    rec["sp"] = _ro(lambda: TU.coords_string_split_UT(s))
    rec["sc"] = [dict(m=m, **_ro(lambda: TU.strings_to_coords(s, m), _items)) for m in MODES]
    return rec


# audit class E: every function gets the CALLER'S OWN list; a function that edits its argument is an observation
# (field argmod = names of such functions, clause M:argument_modified), and the damage is carried into the next call
# on the same object exactly as it would be in the caller's program.
def _own(rec, name, own, orig):
    if list(own) != list(orig):
        rec.setdefault("argmod", [])
        if name not in rec["argmod"]:
            rec["argmod"].append(name)
        own[:] = orig  # restore: one defect, one clause


def obs_s2l(parts):
    TU = _tu()
    rec = dict(t="s2l", parts=[list(p) for p in parts], argmod=[])
    own = list(parts)
    rec["sc"] = []
    for m in MODES:
        rec["sc"].append(dict(m=m, **_ro(lambda: TU.strings_to_coords(own, m), _items)))
        _own(rec, "strings_to_coords", own, parts)
    return rec


def obs_tb(toks, sv, ev):
    TU = _tu()
    rec = dict(t="tb", toks=list(toks), sv=sv, ev=ev, calls=[], argmod=[])
    own = list(toks)
    for a, b, u in FLAGS:
        rec["calls"].append(dict(a=a, b=b, u=u, **_ro(lambda: TU.tokens_between(own, sv, ev, a, b, u))))
        _own(rec, "tokens_between", own, toks)
    return rec


def obs_get(toks):
    TU = _tu()
    t = list(toks)
    own = list(toks)
    rec = dict(t="get", toks=t, argmod=[])
    for key, name, fn in (("adj", "get_adj_list_tokens", lambda: TU.get_adj_list_tokens(own)), ("org", "get_origin_tokens", lambda: TU.get_origin_tokens(own)),
                          ("tgt", "get_target_tokens", lambda: TU.get_target_tokens(own)), ("ctx", "get_context_tokens", lambda: TU.get_context_tokens(own)),
                          ("p0", "get_path_tokens", lambda: TU.get_path_tokens(own)), ("p1", "get_path_tokens", lambda: TU.get_path_tokens(own, trim_end=True))):
        rec[key] = _ro(fn)
        _own(rec, name, own, t)
    r, v = _oc(lambda: TU.get_token_regions(own), lambda x: (_toks(x[0]), _toks(x[1])) if isinstance(x, tuple) and len(x) == 2 else _bad())
    _own(rec, "get_token_regions", own, t)
    rec["rg"] = dict(r=r, a=v[0] if r == "ok" else [], n=v[1] if r == "ok" else [])
    return rec


def obs_eq(a, b, same="-"):
    TU = _tu()
    rec = dict(t="eq", a=list(a), b=list(b), same=same, argmod=[])
    oa, ob = list(a), list(b)
    for key, de in (("r0", False), ("r1", True)):
        r, v = _oc(lambda: TU.equal_except_adj_list_sequence(oa, ob, do_except=de), _bool)
        rec[key] = dict(r=r, v=bool(v) if r == "ok" else False)
        _own(rec, "equal_except_adj_list_sequence", oa, a)
        _own(rec, "equal_except_adj_list_sequence", ob, b)
    return rec


def obs_dir(pts, which):
    TU = _tu()
    arr = np.array(pts)
    r, v = _oc((lambda: TU.get_cardinal_direction(arr)) if which == "card" else (lambda: TU.get_relative_direction(arr)), lambda x: x if isinstance(x, str) else _bad())
    return dict(t="dir", pts=[list(map(int, p)) for p in pts], which=which, r=r, v=v if r == "ok" else "")


def _pairs(v):
    a = np.asarray(v)
    if a.ndim != 3 or a.shape[1:] != (2, 2):
        raise TypeError
    return [[[_int(x) for x in p] for p in e] for e in a]


def _rep_conn(conn, k):
    """audit class G: the same boolean connection array C-ordered, Fortran-ordered, or as a non-contiguous view into a
    larger buffer of the caller (the gaps hold the complement)"""
    conn = np.asarray(conn, dtype=bool)
    if k % 3 == 1:
        return np.asfortranarray(conn)
    if k % 3 == 2:
        big = np.empty((2, conn.shape[1], 2 * conn.shape[2]), dtype=bool)
        big[:, :, 0::2] = conn
        big[:, :, 1::2] = ~conn
        return big[:, :, 0::2]
    return np.ascontiguousarray(conn)


def obs_adj(job):
    TU = _tu()
    r_, c_, bits, seed = job
    conn0 = mz.conn_from_bits(r_, c_, bits)
    conn = _rep_conn(conn0, seed)
    rec = dict(t="adj", R=r_, C=c_, conn=mz.raw(conn0), calls=[], argmod=[])
    for k, (d0, d1) in enumerate([(False, False), (True, False), (False, True), (True, True)]):
        np.random.seed((seed * 4 + k) % 2**31)
        rec["calls"].append(dict(d0=d0, d1=d1, **_ro(lambda: TU.connection_list_to_adj_list(conn, shuffle_d0=d0, shuffle_d1=d1), _pairs)))
        if not np.array_equal(conn, conn0):
            rec["argmod"].append("connection_list_to_adj_list") if "connection_list_to_adj_list" not in rec["argmod"] else None
            conn[...] = conn0
    rng = np.random.default_rng([seed, 77])
    edges = []
    for d, i, j in mz.interior_slots(r_, c_):
        a, b = [i, j], [i + (d == 0), j + (d == 1)]
        edges.append([a, b] if rng.random() < 0.5 else [b, a])
    rng.shuffle(edges)
    rec["edges"] = edges
    if edges:
        earr = np.array(edges, dtype=np.int8 if (seed // 3) % 2 else np.int64)  # the library's own adjacency lists are int8
        e0 = earr.copy()
        rec["isc"] = _ro(lambda: TU.is_connection(earr, conn), lambda v: [_bool(x) for x in v])
        if not (np.array_equal(earr, e0) and np.array_equal(conn, conn0)):
            rec["argmod"].append("is_connection")
    else:  # is_connection on an empty edge array is not in the scope (numpy indexing of a 1-d empty array)
        rec["isc"] = dict(r="ok", o=[])
    return rec


def obs_c2s(items, ck, mode):
    TU = _tu()
    f = TU._coord_to_strings_UT if ck == "UT" else TU._coord_to_strings_indexed
    arg = [x if isinstance(x, str) else tuple(x) for x in items]
    own = list(arg)
    rec = dict(t="c2s", items=[dict(k="s", v=[], s=x) if isinstance(x, str) else dict(k="c", v=list(x), s="") for x in items], ck=ck, mode=mode, argmod=[],
               **_ro(lambda: TU.coords_to_strings(own, f, when_noncoord=mode)))
    _own(rec, "coords_to_strings", own, arg)
    return rec


def obs_c2t(v):
    TU = _tu()
    a, b = _ro(lambda: TU._coord_to_strings_UT(tuple(v))), _ro(lambda: TU._coord_to_strings_indexed(tuple(v)))
    return dict(t="c2t", v=list(v), ut=a["o"] if a["r"] == "ok" else [a["r"]], ix=b["o"] if b["r"] == "ok" else [b["r"]])


def obs_bool(s, shape, sym):
    from maze_dataset.utils import bool_array_from_string

    r, v = _oc(lambda: bool_array_from_string(s, list(shape), sym), lambda x: (list(map(int, x.shape)), [_bool(y) for y in x.ravel()]) if isinstance(x, np.ndarray) else _bad())
    return dict(t="bool", cs=list(s), shape=list(shape), sym=sym, r=r, flat=v[1] if r == "ok" else [], oshape=v[0] if r == "ok" else [])


def obs_pad(toks):
    TU = _tu()
    r, v = _oc(lambda: TU.remove_padding_from_token_str(" ".join(toks)), lambda x: x if isinstance(x, str) else _bad())
    return dict(t="pad", toks=list(toks), r=r, s=v if r == "ok" else "")


def obs_lat(n):
    from maze_dataset.utils import lattice_connection_array, lattice_max_degrees, manhattan_distance

    e = _ro(lambda: lattice_connection_array(n), _pairs)
    d = _ro(lambda: lattice_max_degrees(n), lambda x: [[_int(y) for y in row] for row in x])
    cells = [(i, j) for i in range(-1, 3) for j in range(-1, 3)]
    pairs = [[list(a), list(b)] for a in cells for b in cells]
    batch = _ro(lambda: manhattan_distance(np.array(pairs)), _ints)
    man = [dict(e=p, d=batch["o"][k] if batch["r"] == "ok" and len(batch["o"]) == len(pairs) else -1) for k, p in enumerate(pairs)]
    for p in pairs[:: max(1, 7 - n)]:  # a rotating subset through the single-edge signature as well
        one = _oc(lambda: manhattan_distance(np.array(p)), _int)
        man.append(dict(e=p, d=one[1] if one[0] == "ok" else -1))
    return dict(t="lat", n=n, edges=e["o"] if e["r"] == "ok" else [], deg=d["o"] if d["r"] == "ok" else [], man=man)


# real tokenized mazes -------------------------------------------------------------------------------------------------
def _tokenizers():
    from maze_dataset.tokenization import AdjListTokenizers, CoordTokenizers, MazeTokenizer, MazeTokenizerModular, PathTokenizers, PromptSequencers, StepSizes, StepTokenizers, TargetTokenizers, TokenizationMode

    P = PromptSequencers
    out = [(f"legacy:{m.name}", MazeTokenizer(tokenization_mode=m, max_grid_size=None), "CTT" if m.name == "AOTP_CTT_indexed" else "UT", ["adj", "org", "tgt", "path"]) for m in TokenizationMode]
    out += [
        ("modular:default", MazeTokenizerModular(), "UT", ["adj", "org", "tgt", "path"]),
        ("modular:CTT", MazeTokenizerModular(prompt_sequencer=P.AOTP(coord_tokenizer=CoordTokenizers.CTT())), "CTT", ["adj", "org", "tgt", "path"]),
        ("modular:AOP", MazeTokenizerModular(prompt_sequencer=P.AOP()), "UT", ["adj", "org", "path"]),  # "<TARGET_START> <TARGET_END>": the adjacent-delimiter quirk
        ("modular:cardinal_path", MazeTokenizerModular(prompt_sequencer=P.AOTP(path_tokenizer=PathTokenizers.StepSequence(step_tokenizers=(StepTokenizers.Cardinal(),)))), "UT", ["adj", "org", "tgt"]),
        ("modular:forks_relative", MazeTokenizerModular(prompt_sequencer=P.AOTP(path_tokenizer=PathTokenizers.StepSequence(step_tokenizers=(StepTokenizers.Relative(), StepTokenizers.Distance()), step_size=StepSizes.Forks()))), "UT", ["adj", "org", "tgt"]),
        ("modular:adjlist_cardinal", MazeTokenizerModular(prompt_sequencer=P.AOTP(adj_list_tokenizer=AdjListTokenizers.AdjListCardinal())), "UT", ["org", "tgt", "path"]),
        ("modular:target_post", MazeTokenizerModular(prompt_sequencer=P.AOTP(target_tokenizer=TargetTokenizers.Unlabeled(post=True))), "UT", ["adj", "org", "path"]),
    ]
    return out


_TOK_CACHE = []


def _maze_of(job):
    """a solved maze, deterministic in the job: (n, graph int | None, generator, seed, one-cell path at (0,0)?)"""
    from maze_dataset.generation import LatticeMazeGenerators as G

    n, g, gen, seed, point = job
    rng = np.random.default_rng(seed)
    np.random.seed(int(rng.integers(0, 2**31)))
    random.seed(int(rng.integers(0, 2**31)))
    if g is not None:
        conn = mz.conn_from_int(n, n, g)
    else:
        conn = (G.gen_dfs if gen == "dfs" else G.gen_dfs_percolation)(np.array([n, n]), **({} if gen == "dfs" else dict(p=0.3))).connection_list
    comp = sorted(mz.bfs(conn, (int(rng.integers(0, n)), int(rng.integers(0, n)))).items(), key=lambda kv: (kv[1], kv[0]))
    s, e = comp[0][0], comp[int(rng.integers(0, len(comp)))][0]
    if point:
        s = e = (0, 0)
    d = mz.bfs(conn, s)
    path = [e]
    while path[-1] != s:  # walk back along decreasing distance (harness side: input construction only)
        path.append(min(y for y in mz.nbrs(conn, path[-1]) if d.get(y) == d[path[-1]] - 1))
    return mz.SolvedMaze(connection_list=conn, solution=np.array(path[::-1]))


def obs_maze(job):
    if not _TOK_CACHE:
        _TOK_CACHE.extend(_tokenizers())
    m = _maze_of(job[:5])
    out = []
    prev = None
    for name, tok, ck, bind in _TOK_CACHE:
        r, toks = _oc(lambda: m.as_tokens(tok), _toks)
        if r != "ok":  # the tokenizer itself is not under test here (C07 and the modular-tokenizer checks judge it)
            out.append(dict(t="_skip", tokenizer=name, as_tokens=r))
            continue
        rec = obs_get(toks)
        rec.update(tokenizer=name, ck=ck, bind=bind, maze=mz.proj(m))
        out.append(rec)
        # two tokenizations of ONE maze by one tokenizer (the adjacency list is shuffled anew): must compare equal
        r2, toks2 = _oc(lambda: m.as_tokens(tok), _toks)
        if r2 == "ok":
            e = obs_eq(toks, toks2, same="y")
            e["tokenizer"] = name
            out.append(e)
        if name == "legacy:AOTP_UT_uniform":
            prev = toks
    if job[5] is not None and prev is not None:  # a DIFFERENT maze of the same size: whatever the definition says (false positives included)
        m2 = _maze_of(job[5])
        r3, toks3 = _oc(lambda: m2.as_tokens(_TOK_CACHE[1][1]), _toks)
        if r3 == "ok":
            out.append(obs_eq(prev, toks3, same="y" if mz.proj(m2) == mz.proj(m) else "n"))
    return out


# ------------------------------------------------------------------ job dispatch (module level: lib.pmap)
def _run_chunk(chunk):
    kind, items = chunk
    if kind == "lex":
        return [obs_lex(s) for s in items]
    if kind == "s2l":
        return [obs_s2l(p) for p in items]
    if kind == "seq":
        out = []
        for theme, seq, extra in items:
            toks = [THEMES[theme][x] for x in seq]
            out.append(obs_get(toks))
            if theme == "A":
                out.append(obs_tb(toks, AS, AE))
                out.append(obs_tb(toks, AS, PS))
                if extra:
                    out += [obs_tb(toks, AS, AS), obs_tb(toks, "<NOPE>", AE), obs_tb(toks, AE, AS), obs_tb(toks, "(0,1)", PE)]
        return out
    if kind == "tbr":
        return [obs_tb(t, s, e) for t, s, e in items] + [obs_get(t) for t, _, _ in items]
    if kind == "eq":
        return [obs_eq(a, b) for a, b in items]
    if kind == "dir":
        return [obs_dir(p, w) for p, w in items]
    if kind == "adj":
        return [obs_adj(j) for j in items]
    if kind == "c2s":
        return [obs_c2s(*j) for j in items]
    if kind == "c2t":
        return [obs_c2t(v) for v in items]
    if kind == "bool":
        return [obs_bool(*j) for j in items]
    if kind == "pad":
        return [obs_pad(t) for t in items]
    if kind == "lat":
        return [obs_lat(n) for n in items]
    if kind == "maze":
        return [x for j in items for x in obs_maze(j)]
    raise ValueError(kind)


def _chunks(kind, items, size):
    items = list(items)
    return [(kind, items[i : i + size]) for i in range(0, len(items), size)]


# ------------------------------------------------------------------ case enumeration
def _strings(alphabet, lo, hi):
    for n in range(lo, hi + 1):
        for t in itertools.product(alphabet, repeat=n):
            yield "".join(t)


_LONG_DIGITS = re.compile(r"\d{10,}")


def _random_texts(seed, count):
    """seeded larger inputs for the lexer functions: coordinates with blanks, words, special tokens, damaged coordinates.
    Not generated: signs / underscores (int() reads more than digits), tabs / newlines, digit runs of >= 10 (TLC ints)."""
    out = []
    words = ["<ADJLIST_START>", "<-->", ";", "<PATH_END>", "a", "x9", "THEN", "(", ")", ",", "((", "))", "()", "(,)", "7", "12"]
    for k in range(count):
        rng = np.random.default_rng([seed, 31, k])
        parts = []
        for _ in range(int(rng.integers(1, 7))):
            u = rng.random()
            if u < 0.55:
                nums = [str(int(rng.integers(0, [10, 100, 20000][int(rng.integers(0, 3))]))) for _ in range(int(rng.choice([2, 2, 2, 1, 3])))]
                sp = lambda: " " * int(rng.choice([0, 0, 0, 1, 2]))  # noqa: E731
                c = "(" + ",".join(sp() + x + sp() for x in nums) + ")"
                v = rng.random()
                if v < 0.08:
                    c = "(" + c
                elif v < 0.16:
                    c = c + ")"
                elif v < 0.22:
                    c = c[:-1]
                elif v < 0.28:
                    c = c.replace(",", ", a", 1)
                elif v < 0.33:
                    c = c.replace(",", " ", 1)
                parts.append(c)
            else:
                parts.append(words[int(rng.integers(0, len(words)))])
        sep = [" ", " ", "  ", ""]
        s = parts[0]
        for p in parts[1:]:
            s += sep[int(rng.integers(0, 4))] + p
        if rng.random() < 0.2:
            s = " " + s + " "
        if not _LONG_DIGITS.search(s):
            out.append((s, parts))
    return out


def _jobs(seed, thorough):
    J = []
    # --- lexer functions: every string over the alphabet up to 5 (thorough 6) characters, plus one more length over the
    #     sub-alphabet without "1", "9", "a" (reaches the blank / surplus-parenthesis cases)
    full = 6 if thorough else 5
    lex = list(_strings(LEX_ALPHABET, 0, full)) + list(_strings(LEX_SUB, full + 1, full + 1))
    n_lex_exh = len(lex)
    rnd = _random_texts(seed, 6000 if thorough else 1200)
    lex += [s for s, _ in rnd]
    J += _chunks("lex", lex, 1500)
    J += _chunks("s2l", [p for _, p in rnd[:: 2 if thorough else 4]], 300)
    # --- tokens_between and the getters: every token sequence up to 5 (thorough 6) over {S, E, P, Q, x} in two themes
    ltb = 6 if thorough else 5
    seqs = [(th, q, len(q) <= 4) for n in range(0, ltb + 1) for q in itertools.product("SEPQx", repeat=n) for th in ("A", "O")]
    J += _chunks("seq", seqs, 800)
    allt = [AS, AE, OS, OE, TS, TE, PS, PE, "<-->", ";", "(0,0)", "(1,2)", "(", ")", "1", ","]
    tbr = []
    for k in range(4000 if thorough else 600):
        rng = np.random.default_rng([seed, 32, k])
        n = int(rng.integers(7, 41))
        w = np.ones(len(allt))
        w[: 8] = rng.choice([0.3, 1.0, 3.0])
        t = [allt[int(i)] for i in rng.choice(len(allt), size=n, p=w / w.sum())]
        tbr.append((t, allt[int(rng.integers(0, 10))], allt[int(rng.integers(0, 10))]))
    J += _chunks("tbr", tbr, 200)
    # --- equal_except_adj_list_sequence: every pair of sequences up to 3 (thorough 4) over {AS, AE, a, b}
    le = 4 if thorough else 3
    es = [list(q) for n in range(0, le + 1) for q in itertools.product([AS, AE, "a", "b"], repeat=n)]
    J += _chunks("eq", [(a, b) for a in es for b in es], 2500)
    #     ... and every pair of  prefix <ADJLIST_START> inner <ADJLIST_END> suffix  with inner over {a, b} up to 3 (thorough 4) tokens
    #     (bags that differ with equal sets, equal bags in another order, differences outside the region)
    fr = [p + [AS] + list(q) + [AE] + u for n in range(0, le + 1) for q in itertools.product("ab", repeat=n) for p in ([], ["a"], ["b"]) for u in ([], ["a"], ["b"])]
    J += _chunks("eq", [(a, b) for a in fr for b in fr], 2500)
    # --- directions: every triple / pair of cells of (-1..2)^2, wrong shapes
    cells = [(i, j) for i in range(-1, 3) for j in range(-1, 3)]
    dirs = [([p, c, n], "rel") for p in cells for c in cells for n in cells] + [([p, c], "card") for p in cells for c in cells]
    dirs += [([p, c], "rel") for p in cells[:4] for c in cells[:4]] + [([(0, 0), (0, 1), (0, 2), (0, 3)], "rel"), ([(0, 0, 0), (0, 0, 1), (0, 0, 2)], "rel"), ([], "rel")]
    J += _chunks("dir", dirs, 600)
    # --- connection_list_to_adj_list / is_connection: every graph of 2x2, 2x3, 3x2, 3x3 sample (thorough: all), random larger
    adj = []
    for r_, c_ in ((1, 1), (1, 2), (2, 1), (2, 2), (2, 3), (3, 2), (1, 3), (3, 1), (1, 4), (4, 1)):
        nb = len(mz.interior_slots(r_, c_))
        adj += [(r_, c_, bits, seed + k) for k, bits in enumerate(itertools.product([0, 1], repeat=nb))]
    rng = np.random.default_rng([seed, 33])
    g33 = range(4096) if thorough else sorted(rng.choice(4096, size=250, replace=False).tolist())
    adj += [(3, 3, [(g >> k) & 1 for k in range(12)], seed + g) for g in g33]
    for k in range(400 if thorough else 60):
        r_, c_ = int(rng.integers(2, 9)), int(rng.integers(2, 9))
        adj.append((r_, c_, [int(x) for x in rng.random(len(mz.interior_slots(r_, c_))) < rng.choice([0.2, 0.5, 0.9])], seed + 5000 + k))
    for k, (r_, c_) in enumerate([(1, 6), (6, 1), (2, 7), (7, 2), (3, 8), (8, 3), (1, 9), (9, 1), (2, 5), (5, 2)] * (4 if thorough else 2)):  # sides differing by >= 2, 1 x N
        adj.append((r_, c_, [int(x) for x in rng.random(len(mz.interior_slots(r_, c_))) < [0.3, 0.6, 1.0][k % 3]], seed + 7000 + k))
    J += _chunks("adj", adj, 60)
    # --- coords_to_strings / _coord_to_strings_*
    pool = [(0, 1), (10, 2), (3,), (4, 5, 6), "x", "<-->"]
    c2s = [(list(q), ck, m) for n in range(0, 4) for q in itertools.product(pool, repeat=n) for ck in ("UT", "CTT") for m in MODES]
    J += _chunks("c2s", c2s, 800)
    J += _chunks("c2t", [(i, j) for i in range(13) for j in range(13)] + [(-1, 0), (0, -12), (7,), (1, 2, 3), ()], 200)
    # --- bool_array_from_string, remove_padding_from_token_str, lattice helpers
    bl = [(s, sh, sym) for s in _strings(["T", "F", " ", "x"], 0, 5 if thorough else 4) for sh in ([2, 2], [4], [1, 3], [2, 1, 2], [0]) for sym in ("T", "x")]
    J += _chunks("bool", bl, 1200)
    J += _chunks("pad", [list(q) for n in range(0, 5) for q in itertools.product(["a", PAD, "(0,1)"], repeat=n)], 200)
    J += _chunks("lat", range(1, 7), 1)
    # --- real tokenized mazes (legacy + modular tokenizers): every 2x2 graph, sampled 3x3 trees, generator mazes up to 9x9
    mzj = [(2, g, None, [seed, 34, g], False, None) for g in range(16)]
    for k in range(300 if thorough else 70):
        n = int(rng.integers(3, 10))
        mzj.append((n, None, ["dfs", "perc"][k % 2], [seed, 35, k], False, (n, None, ["dfs", "perc"][k % 2], [seed, 36, k], False)))
    # pairs of DIFFERENT 2x2 mazes with a one-cell path at (0,0): every pair with equal degree vectors is a false positive
    # of equal_except_adj_list_sequence (graph 3 = the two vertical connections, 12 = the two horizontal ones)
    for k, (g1, g2) in enumerate([(3, 12), (12, 3), (7, 11), (5, 10)] + [(int(rng.integers(0, 16)), int(rng.integers(0, 16))) for _ in range(60 if thorough else 12)]):
        mzj.append((2, g1, None, [seed, 37, k], True, (2, g2, None, [seed, 38, k], True)))
    J += _chunks("maze", mzj, 4)
    return J, dict(lexer_strings_exhaustive=n_lex_exh, lexer_strings_random=len(rnd), lexer_full_length=full, token_sequences_exhaustive=len(seqs), token_sequence_length=ltb,
                   token_sequences_random=len(tbr), equal_except_pairs=len(es) ** 2 + len(fr) ** 2, direction_cases=len(dirs), adjacency_graphs=len(adj), coords_to_strings_cases=len(c2s),
                   bool_array_cases=len(bl), mazes_tokenized=len(mzj), tokenizers=10)


# ------------------------------------------------------------------ synthetic controls and canaries (no library involved)
def _cp(x):
    return json.loads(json.dumps(x))


def _ok(o):
    return dict(r="ok", o=o)


def _raise(x):
    return dict(r="raise:" + x, o=[])


def _hand_lex(s, i1, i0, t1, t0, no, sp, sc):
    tup = lambda v: dict(r="ok", v=v) if v is not None else dict(r="raise:ValueError", v=[])  # noqa: E731
    return dict(t="lex", cs=list(s), i1=i1, i0=i0, t1=tup(t1), t0=tup(t0), np=tup(t1), no=dict(r="ok", none=no is None, v=no or []), sp=_ok(sp), sc=[dict(m=m, **v) for m, v in sc])


def _c(v):
    return dict(k="c", v=list(v), s="")


def _s(x):
    return dict(k="s", v=[], s=x)


def _controls():
    C = {}
    C["lex_coord"] = _hand_lex(" ( 1 , 20 )", "T", "F", [1, 20], None, [1, 20], ["( 1 , 20 )"], [(m, _ok([_c([1, 20])])) for m in MODES])
    C["lex_mixed"] = _hand_lex("a(1,2) (3,4)x (5", "F", "F", None, None, None, ["a(1,2)", "(3,4)", "x", "(5"],
                               [("skip", _ok([_c([3, 4])])), ("include", _ok([_s("a(1,2)"), _c([3, 4]), _s("x"), _s("(5")])), ("error", _raise("ValueError")), ("bogus", _raise("ValueError"))])
    # the tolerated quirk, as the code answers today, and as the documentation answers
    C["lex_surplus_actual"] = _hand_lex("((1,2)", "T", "T", [1, 2], [1, 2], [1, 2], ["((1,2)"], [(m, _ok([_c([1, 2])])) for m in MODES])
    C["lex_surplus_documented"] = _hand_lex("((1,2)", "F", "F", [1, 2], [1, 2], None, ["((1,2)"], [("skip", _ok([])), ("include", _ok([_s("((1,2)")])), ("error", _raise("ValueError")), ("bogus", _raise("ValueError"))])
    C["s2l"] = dict(t="s2l", parts=[list("(1,2)"), list("x y"), list("( 3"), list("4)")], sc=[dict(m="include", **_ok([_c([1, 2]), _s("x"), _s("y"), _s("( 3 4)")])), dict(m="skip", **_ok([_c([1, 2])]))])
    t = ["x", AS, "a", AE, "b", AE, AS]
    want = {(False, False): ["a"], (True, False): [AS, "a"], (False, True): ["a", AE], (True, True): [AS, "a", AE]}
    C["tb"] = dict(t="tb", toks=t, sv=AS, ev=AE, calls=[dict(a=a, b=b, u=u, **(_raise("ValueError") if u else _ok(want[(a, b)]))) for a, b, u in FLAGS])
    C["tb_adjacent_actual"] = dict(t="tb", toks=[AS, AE], sv=AS, ev=AE, calls=[dict(a=False, b=False, u=False, **_raise("AssertionError")), dict(a=True, b=False, u=True, **_ok([AS]))])
    C["tb_adjacent_documented"] = dict(t="tb", toks=[AS, AE], sv=AS, ev=AE, calls=[dict(a=False, b=False, u=False, **_ok([])), dict(a=True, b=True, u=False, **_ok([AS, AE]))])
    C["tb_errors"] = dict(t="tb", toks=[AE, "a", AS], sv=AS, ev=AE, calls=[dict(a=a, b=b, u=u, **_raise("AssertionError")) for a, b, u in FLAGS])
    adj = ["(0,0)", "<-->", "(0,1)", ";", "(1,1)", "<-->", "(0,1)", ";"]
    toks = [AS] + adj + [AE, OS, "(0,0)", OE, TS, "(1,1)", TE, PS, "(0,0)", "(0,1)", "(1,1)", PE]
    maze = dict(kind="SolvedMaze", R=2, C=2, conn=[[[0, 1], [0, 0]], [[1, 0], [0, 0]]], start=[0, 0], end=[1, 1], sol=[[0, 0], [0, 1], [1, 1]])
    C["get"] = dict(t="get", toks=toks, adj=_ok(adj), org=_ok(["(0,0)"]), tgt=_ok(["(1,1)"]), ctx=_ok(toks[: toks.index(PS) + 1]), p0=_ok(toks[toks.index(PS) :]), p1=_ok(["(0,0)", "(0,1)", "(1,1)"]),
                    rg=dict(r="ok", a=adj, n=[AS] + toks[toks.index(AE) :]), ck="UT", bind=["adj", "org", "tgt", "path"], maze=maze)
    t2 = [PS, "a", PE, "b"]
    ve = _raise("ValueError")
    C["get_path_actual"] = dict(t="get", toks=t2, adj=ve, org=ve, tgt=ve, ctx=ve, p0=_ok(t2), p1=_ok(["a"]), rg=dict(r="raise:ValueError", a=[], n=[]))
    C["get_path_documented"] = dict(C["get_path_actual"], p0=_ok([PS, "a", PE]))
    a1 = [AS, "a", "b", "a", AE, "p"]
    C["eq_true"] = dict(t="eq", a=a1, b=[AS, "b", "a", "a", AE, "p"], same="y", r0=dict(r="ok", v=True), r1=dict(r="ok", v=True))
    C["eq_false"] = dict(t="eq", a=a1, b=[AS, "b", "b", "a", AE, "p"], same="n", r0=dict(r="ok", v=False), r1=dict(r="raise:ValueError", v=False))
    C["eq_missing"] = dict(t="eq", a=["a", AE], b=["b", AE], same="-", r0=dict(r="raise:ValueError", v=False), r1=dict(r="raise:ValueError", v=False))
    C["dir_left"] = dict(t="dir", pts=[[0, 0], [1, 0], [1, 1]], which="rel", r="ok", v="LEFT")
    C["dir_err"] = dict(t="dir", pts=[[0, 0], [0, 0], [0, 1]], which="rel", r="raise:ValueError", v="")
    C["dir_card"] = dict(t="dir", pts=[[1, 1], [0, 1]], which="card", r="ok", v="NORTH")
    C["dir_card_err"] = dict(t="dir", pts=[[1, 1], [0, 0]], which="card", r="raise:KeyError", v="")
    conn = [[[1, 0], [0, 0]], [[1, 0], [1, 0]]]
    plain = [[[0, 0], [1, 0]], [[0, 0], [0, 1]], [[1, 0], [1, 1]]]
    C["adj"] = dict(t="adj", R=2, C=2, conn=conn, calls=[dict(d0=False, d1=False, **_ok(plain)), dict(d0=True, d1=False, **_ok([plain[2], plain[0], plain[1]])),
                                                           dict(d0=False, d1=True, **_ok([plain[0], plain[1][::-1], plain[2]])), dict(d0=True, d1=True, **_ok([plain[1][::-1], plain[2], plain[0][::-1]]))],
                    edges=[[[1, 1], [0, 1]], [[0, 0], [0, 1]], [[1, 1], [1, 0]], [[1, 0], [0, 0]]], isc=_ok([False, True, True, True]))
    C["c2s"] = dict(t="c2s", items=[_c([1, 2]), _s(AS), _c([5, 6])], ck="CTT", mode="include", **_ok(["(", "1", ",", "2", ")", AS, "(", "5", ",", "6", ")"]))
    C["c2s_err"] = dict(t="c2s", items=[_c([1, 2]), _s(AS)], ck="UT", mode="bogus", **_raise("ValueError"))
    C["c2t"] = dict(t="c2t", v=[10, 2], ut=["(10,2)"], ix=["(", "10", ",", "2", ")"])
    C["bool"] = dict(t="bool", cs=list("TT TF"), shape=[2, 2], sym="T", r="ok", flat=[True, True, True, False], oshape=[2, 2])
    C["bool_err"] = dict(t="bool", cs=list("TTF"), shape=[2, 2], sym="T", r="raise:ValueError", flat=[], oshape=[])
    C["pad"] = dict(t="pad", toks=["a", PAD, "b", PAD], r="ok", s="a b ")
    C["lat"] = dict(t="lat", n=2, edges=[[[0, 0], [0, 1]], [[1, 0], [1, 1]], [[0, 0], [1, 0]], [[0, 1], [1, 1]]], deg=[[2, 2], [2, 2]], man=[dict(e=[[0, 0], [2, -1]], d=3), dict(e=[[1, 1], [1, 1]], d=0)])
    return C


def _canaries(C):
    out = []

    def mod(name, f, clause):
        x = _cp(C[name])
        f(x)
        out.append((x, clause))

    def call(x, k, **kw):
        x["calls"][k].update(kw)

    # lexer functions
    mod("lex_coord", lambda x: x.update(i1="F"), "M:str_is_coord")
    mod("lex_coord", lambda x: x.update(i0="T"), "M:str_is_coord")                      # blanks accepted although not allowed
    mod("lex_mixed", lambda x: x.update(i1="T"), "M:str_is_coord")                      # the tolerance covers surplus parentheses only
    mod("lex_coord", lambda x: x["t1"].update(v=[20, 1]), "M:coord_str_to_tuple")
    mod("lex_coord", lambda x: x["t0"].update(r="ok", v=[1, 20]), "M:coord_str_to_tuple")
    mod("lex_coord", lambda x: x["np"].update(v=[1]), "M:coord_str_to_coord_np")
    mod("lex_coord", lambda x: x["no"].update(none=True, v=[]), "M:coord_str_to_tuple_noneable")
    mod("lex_mixed", lambda x: x["no"].update(none=False, v=[1, 2]), "M:coord_str_to_tuple_noneable")
    mod("lex_mixed", lambda x: x["sp"].update(o=["a", "(1,2)", "(3,4)", "x", "(5"]), "M:coords_string_split_UT")
    mod("lex_coord", lambda x: x["sp"].update(o=["(", "1", ",", "20", ")"]), "M:coords_string_split_UT")
    mod("lex_mixed", lambda x: x["sc"][1].update(o=[_c([3, 4])]), "M:strings_to_coords")      # include drops the other tokens
    mod("lex_mixed", lambda x: x["sc"][2].update(r="ok", o=[_c([3, 4])]), "M:strings_to_coords")  # error mode does not raise
    mod("lex_mixed", lambda x: x["sc"][0].update(o=[_c([1, 2]), _c([3, 4])]), "M:strings_to_coords")  # a glued coordinate is read
    mod("s2l", lambda x: x["sc"][0].update(o=[_c([1, 2]), _s("x y"), _s("( 3"), _s("4)")]), "M:strings_to_coords")
    # tokens_between
    mod("tb", lambda x: x.update(argmod=["tokens_between"]), "M:argument_modified")
    mod("adj", lambda x: x.update(argmod=["is_connection"]), "M:argument_modified")
    mod("get", lambda x: x.update(argmod=["get_path_tokens"]), "M:argument_modified")
    mod("tb", lambda x: call(x, 0, o=["a", AE]), "M:tokens_between")                   # end delimiter leaks
    mod("tb", lambda x: call(x, 0, o=["a", AE, "b"]), "M:tokens_between")              # last instead of first end delimiter
    mod("tb", lambda x: call(x, 1, r="ok", o=["a"]), "M:tokens_between")               # uniqueness not enforced
    mod("tb", lambda x: call(x, 6, o=["x", AS, "a", AE]), "M:tokens_between")          # slice starts at the list head
    mod("tb", lambda x: x.update(sv="<NOPE>"), "M:tokens_between")                     # missing start delimiter must raise
    mod("tb", lambda x: call(x, 0, r="raise:AssertionError", o=[]), "M:tokens_between")  # the tolerance covers ADJACENT delimiters only
    mod("tb_adjacent_actual", lambda x: call(x, 1, r="raise:AssertionError", o=[]), "M:tokens_between")  # ... and excluded ones only
    mod("tb_errors", lambda x: call(x, 3, r="ok", o=[]), "M:tokens_between")           # end before start must raise
    mod("tb_errors", lambda x: call(x, 2, r="raise:ValueError"), "M:tokens_between")   # ... AssertionError, not ValueError
    # getters
    mod("get", lambda x: x["adj"].update(o=x["adj"]["o"] + [AE]), "M:get_adj_list_tokens")
    mod("get", lambda x: x["org"].update(o=["(1,1)"]), "M:get_origin_tokens")
    mod("get", lambda x: x["tgt"].update(o=[TS, "(1,1)"]), "M:get_target_tokens")
    mod("get", lambda x: x["ctx"].update(o=x["ctx"]["o"][:-1]), "M:get_context_tokens")
    mod("get", lambda x: x["p1"].update(o=x["p1"]["o"] + [PE]), "M:get_path_tokens")
    mod("get", lambda x: x["p0"].update(o=x["p0"]["o"][1:]), "M:get_path_tokens")
    mod("get_path_actual", lambda x: x["p0"].update(o=[PS, "a"]), "M:get_path_tokens")
    mod("get", lambda x: x["rg"].update(n=x["rg"]["n"][1:]), "M:get_token_regions")
    mod("get", lambda x: x["rg"].update(a=x["rg"]["a"][::-1]), "M:get_token_regions")
    mod("get", lambda x: x["maze"].update(start=[0, 1]), "M:origin_tokens_are_not_the_maze_start")
    mod("get", lambda x: x["maze"].update(end=[0, 1]), "M:target_tokens_are_not_the_maze_end")
    mod("get", lambda x: x["maze"].update(sol=[[1, 1], [0, 1], [0, 0]]), "M:path_tokens_are_not_the_maze_solution")
    mod("get", lambda x: x["maze"]["conn"][1][1].__setitem__(0, 1), "M:adjacency_tokens_are_not_the_maze_connections")
    mod("get", lambda x: x["maze"]["conn"][0][0].__setitem__(1, 0), "M:adjacency_tokens_are_not_the_maze_connections")
    # equal_except_adj_list_sequence
    mod("eq_true", lambda x: x.update(b=x["b"][:-1] + ["q"]), "M:equal_except_adj_list_sequence")
    mod("eq_false", lambda x: x["r0"].update(v=True), "M:equal_except_adj_list_sequence")          # set instead of bag comparison
    mod("eq_false", lambda x: x["r1"].update(r="ok"), "M:equal_except_adj_list_sequence")          # do_except ignored
    mod("eq_missing", lambda x: x["r0"].update(r="ok"), "M:equal_except_adj_list_sequence")
    mod("eq_false", lambda x: x.update(same="y"), "M:equal_except_rejects_two_tokenizations_of_one_maze")
    # directions
    mod("dir_left", lambda x: x.update(v="RIGHT"), "M:get_relative_direction")
    mod("dir_err", lambda x: x.update(r="ok", v="FORWARD"), "M:get_relative_direction")
    mod("dir_left", lambda x: x.update(pts=[[0, 0], [1, 0], [2, 1]]), "M:get_relative_direction")  # a knight's move must raise
    mod("dir_card", lambda x: x.update(v="SOUTH"), "M:get_cardinal_direction")
    mod("dir_card_err", lambda x: x.update(r="ok", v="NORTH"), "M:get_cardinal_direction")
    # adjacency lists
    mod("adj", lambda x: call(x, 0, o=x["calls"][0]["o"][:-1]), "M:connection_list_to_adj_list")
    mod("adj", lambda x: call(x, 1, o=[p[::-1] for p in x["calls"][1]["o"]]), "M:connection_list_to_adj_list")  # flipped without shuffle_d1
    mod("adj", lambda x: call(x, 2, o=x["calls"][2]["o"][::-1]), "M:connection_list_to_adj_list")              # reordered without shuffle_d0
    mod("adj", lambda x: call(x, 3, o=x["calls"][3]["o"][:2] + [[[0, 1], [1, 1]]]), "M:connection_list_to_adj_list")
    mod("adj", lambda x: x["isc"].update(o=[True, True, True, True]), "M:is_connection")
    mod("adj", lambda x: x.update(edges=x["edges"][::-1]), "M:is_connection")
    # strings
    mod("c2s", lambda x: x.update(o=[t for t in x["o"] if t != AS]), "M:coords_to_strings")
    mod("c2s", lambda x: x.update(ck="UT"), "M:coords_to_strings")
    mod("c2s_err", lambda x: x.update(r="ok", o=["(1,2)"]), "M:coords_to_strings")
    mod("c2t", lambda x: x.update(ix=["(", "10", "2", ")"]), "M:_coord_to_strings")
    mod("c2t", lambda x: x.update(ut=["(10, 2)"]), "M:_coord_to_strings")
    mod("bool", lambda x: x.update(flat=[True, True, False, True]), "M:bool_array_from_string")
    mod("bool", lambda x: x.update(oshape=[4]), "M:bool_array_from_string")
    mod("bool_err", lambda x: x.update(r="ok", flat=[True, True, False], oshape=[3]), "M:bool_array_from_string")
    mod("pad", lambda x: x.update(s="a  b "), "M:remove_padding_from_token_str")
    mod("lat", lambda x: x.update(edges=x["edges"][:3]), "M:lattice_connection_array")
    mod("lat", lambda x: x["edges"].__setitem__(0, [[0, 1], [0, 0]]), "M:lattice_connection_array")
    mod("lat", lambda x: x.update(deg=[[2, 2], [2, 3]]), "M:lattice_max_degrees")
    mod("lat", lambda x: x["man"][0].update(d=2), "M:manhattan_distance")
    return out


# ------------------------------------------------------------------ design level
def _design(thorough):
    ex = cf.ThreadPoolExecutor(max_workers=6)
    acts = ["LexSpace", "LexOpen", "LexDigit", "LexComma", "LexClose", "LexOther", "SplSkipBlank", "SplStartParen", "SplStartWord", "SplParenChar", "SplParenClose", "SplRewind",
            "SplWordChar", "SplWordEnd", "SplDone", "TBArgsSame", "TBArgsOk", "TBSeeStart", "TBSeeEnd", "TBSeeOther", "TBDecide"]
    futs = {
        "main": ex.submit(lib.tlc_design, "TokenUtils", "TokenUtils_thorough.cfg" if thorough else "TokenUtils_small.cfg", expect_actions=acts, workers=6 if thorough else 4, tag="tu", xmx="4g"),
        "bad_lex": ex.submit(lib.tlc_expect_violation, "TokenUtils", "TokenUtils_bad_lex.cfg", "LexerIsDefinition", workers=1, tag="tu1", xmx="2g"),
        "bad_split": ex.submit(lib.tlc_expect_violation, "TokenUtils", "TokenUtils_bad_split.cfg", "SplitterIsDefinition", workers=1, tag="tu2", xmx="2g"),
        "bad_tb": ex.submit(lib.tlc_expect_violation, "TokenUtils", "TokenUtils_bad_tb.cfg", "TBSlice", workers=1, tag="tu3", xmx="2g"),
        "fp_ctt": ex.submit(lib.tlc_expect_violation, "TokenUtils", "TokenUtils_fp_ctt.cfg", "NoFalsePositive", workers=1, tag="tu4", xmx="2g"),
        "fp_ut": ex.submit(lib.tlc_expect_violation, "TokenUtils", "TokenUtils_fp_ut.cfg", "NoFalsePositive", workers=1, tag="tu5", xmx="2g"),
    }
    return ex, futs


def _collect_design(chk, futs, thorough):
    r = futs["main"].result()
    if r.distinct < 250000:
        raise lib.MachineryError(f"TokenUtils design model explored only {r.distinct} states (vacuous?)")
    chk.add_model("TokenUtils/" + ("thorough" if thorough else "small"), r,
                  "coordinate lexer machine = definition of a UT coordinate string (every string up to FullLex characters, viable prefixes up to MaxLex, both allow_whitespace); "
                  "splitter machine = regular-expression definition, partition + round trip; tokens_between machine = definition, slice strictly between first start and first following end, "
                  "errors exactly as documented; getters consistent; equal_except accepts all emissions of one maze, UT false positives = equal degree vectors; direction / adjacency / string theorems")
    what = dict(bad_lex="lexer accepting a single item: LexerIsDefinition violated as required", bad_split="splitter without the rewind: SplitterIsDefinition violated as required",
                bad_tb="tokens_between taking the LAST end delimiter: TBSlice violated as required",
                fp_ctt="documented CTT false positive of equal_except_adj_list_sequence found by TLC (NoFalsePositive violated as required)",
                fp_ut="UNDOCUMENTED UT false positive of equal_except_adj_list_sequence found by TLC (NoFalsePositive violated)")
    for k, w in what.items():
        chk.add_model(f"TokenUtils/{k} (must fail)", futs[k].result(), w)


# ------------------------------------------------------------------ the stage
def run(chk, thorough):
    t0 = time.time()
    ex, futs = _design(thorough)
    try:
        import maze_dataset

        jobs, scope = _jobs(chk.seed, thorough)
        # heavy chunks first; interleave kinds so that no worker ends on a straggler
        order = sorted(range(len(jobs)), key=lambda i: (-(jobs[i][0] == "maze"), -(jobs[i][0] == "adj"), i))
        outs = lib.pmap(_run_chunk, [jobs[i] for i in order], chunksize=1)
        by_kind = {}
        recs = []
        skipped = {}
        for i, o in sorted(zip(order, outs)):
            for x in o:
                if x["t"] == "_skip":
                    skipped[x["tokenizer"] + " " + x["as_tokens"]] = skipped.get(x["tokenizer"] + " " + x["as_tokens"], 0) + 1
                else:
                    by_kind[x["t"]] = by_kind.get(x["t"], 0) + 1
                    recs.append(x)
        # interleave the kinds (the oracle shards contiguous slices; lexer records are the expensive ones)
        perm = np.random.default_rng([chk.seed, 99]).permutation(len(recs))
        recs = [recs[int(i)] for i in perm]
        t_obs = time.time() - t0
        C = _controls()
        controls = [dict(_cp(v), control=k) for k, v in C.items()]
        n_real = len(recs)
        recs += controls
        canaries = _canaries(C)
        res = lib.judge_with_canaries(
            chk, ORACLE, recs, canaries, label="tokutils",
            what="token / coordinate utility functions of token_utils.py + utils.py observed on exhaustive small scopes, seeded random inputs and real tokenized mazes; every clause is Layer M",
            case_of=lambda x: {k: v for k, v in x.items() if k not in ("maze",)}, shards=lib.NCPU if thorough else max(1, lib.NCPU // 2))
        for x in controls:
            if x["id"] in res.verdicts:
                raise lib.MachineryError(f"hand-made control {x['control']!r} rejected by {ORACLE}: {res.verdicts[x['id']]} (oracle or control is wrong)")
        # evidence
        raised = {}
        tolerated = dict(adjacent_delimiters=0, surplus_parentheses=0, path_to_list_end=0)

        def note(r):
            if isinstance(r, str) and r not in ("ok", "T", "F"):
                raised[r] = raised.get(r, 0) + 1

        for x in recs[:n_real]:
            t = x["t"]
            if t == "lex":
                for k in ("i1", "i0"):
                    note(x[k])
                for k in ("t1", "t0", "np", "no", "sp"):
                    note(x[k]["r"])
                for c in x["sc"]:
                    note(c["r"])
                s = "".join(x["cs"]).strip()
                if x["i1"] == "T" and (s.startswith("((") or s.endswith("))")):
                    tolerated["surplus_parentheses"] += 1
            elif t == "tb":
                for c in x["calls"]:
                    note(c["r"])
                    if c["r"] == "raise:AssertionError" and not c["a"] and not c["b"] and x["sv"] in x["toks"] and x["ev"] in x["toks"] and x["toks"].index(x["ev"]) == x["toks"].index(x["sv"]) + 1:
                        tolerated["adjacent_delimiters"] += 1
            elif t == "get":
                for k in ("adj", "org", "tgt", "ctx", "p0", "p1", "rg"):
                    note(x[k]["r"])
                if x["p0"]["r"] == "ok" and PE in x["toks"] and x["p0"]["o"] and x["p0"]["o"][-1] != PE and PE in x["p0"]["o"]:
                    tolerated["path_to_list_end"] += 1
                if x.get("tokenizer") == "modular:AOP" and x["tgt"]["r"] == "raise:AssertionError":
                    tolerated["adjacent_delimiters"] += 1
            elif t == "eq":
                note(x["r0"]["r"])
                note(x["r1"]["r"])
            elif t in ("dir", "c2s", "bool", "pad"):
                note(x["r"])
            chk.evaluations += 1
            chk.nontrivial.add(("tu", x["id"]))
        by_clause = {}
        for cl in res.verdicts.values():
            for c in cl:
                by_clause[c] = by_clause.get(c, 0) + 1
        by_clause = dict(sorted(by_clause.items()))
        if by_clause:
            print(f"[{chk.prop}] token utility stage: records rejected per clause: {json.dumps(by_clause)}")
        fp = [x for x in recs[:n_real] if x["t"] == "eq" and x.get("same") == "n" and x["r0"]["v"]]
        chk.notes["token_utils"] = dict(
            library=str(maze_dataset.__file__), scope=scope, records_by_kind=by_kind, records=n_real, controls_accepted=len(controls), canaries=len(canaries),
            outcomes_raised=dict(sorted(raised.items())), as_tokens_raised_skipped=skipped, tolerated_documented_vs_actual=tolerated,
            equal_except_false_positives_on_real_tokenizations_of_different_mazes=len(fp),
            observe_s=round(t_obs, 1), oracle_s=round(res.wall, 1), divergent_records=len(res.verdicts), divergences_by_clause=by_clause,
        )
        pick = next((x for x in recs[:n_real] if x["t"] == "get" and x.get("tokenizer") == "modular:AOP"), None)
        if pick is not None:
            chk.sample(dict(token_utils_real_tokenization=dict(tokenizer=pick["tokenizer"], toks=pick["toks"][:6] + ["..."] + pick["toks"][-14:], tgt=pick["tgt"], org=pick["org"], p1=pick["p1"])))
        _collect_design(chk, futs, thorough)
        chk.notes["token_utils"]["stage_s"] = round(time.time() - t0, 1)
        chk.assumptions.append("token utility stage: characters restricted to blanks, parentheses, commas, ASCII digits and letters/brackets (no signs, underscores, tabs: int() and str.strip() read more than the model); digit runs < 10 (TLC integers)")
    finally:
        ex.shutdown(wait=False, cancel_futures=True)
